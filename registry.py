"""Per-property registry used by ./check: which harness variants serve a property, which Lean
modules hold its theorems, and the texts that go into the evidence file."""

PROPS = {
    "C08": {
        "variants": ["v1", "v2"],
        "lean": ["Gengo.Props.C08"],
        "level": "proof",
        "level_text": "Kernel-checked theorems on the model of both comment.go files: per key the values are exactly those of the "
                      "considered lines in source order, only marker lines count, no empty entries, the argument grammar of the "
                      "function style as an iff, tag-name restriction, trailing-comment independence, the boolean helpers; the model is "
                      "total (no panic path) and tied to the code by >100k differential cases per run plus an independent grammar oracle.",
        "level_note": "Trusted: Lean kernel (+ propext/Classical.choice/Quot.sound), the hand-written model (validated by correspondence "
                      "only), unicode tables as a parameter, harness/oracle code. Proof is over all markers/lines; correspondence is sampled.",
        "rule": "random (marker, tag names, line lists) over the property's alphabet (marker, = ( ) , / //, space, tab, "
                "letters, digits, non-ASCII letters/digits/spaces/symbols) + corpus of documented examples and past witnesses; "
                "thorough adds every line of length <= 5 over 9 symbols x 3 markers. A case is non-trivial when it has at "
                "least one comment line; distinct = distinct protocol line.",
        "assumptions": [
            "unicode.IsLetter/IsDigit is a parameter of the model; the driver's table is checked against package unicode on the generator's alphabet",
            "Go strings reaching the functions are valid UTF-8 (byte prefix/slice = code-point prefix/drop)",
            "error results are compared as a single class `err` (the property does not speak about message texts)",
        ],
    },
}

PROPS["C19"] = {
    "variants": ["v2"],
    "lean": ["Gengo.Props.C19"],
    "level": "proof",
    "level_text": "Kernel-checked: option lookup is word membership in the comma-separated list (so near-misses never count), "
                  "agreement of name/omitted/omitempty with a Lean transcription of encoding/json's field rule for every field name and tag "
                  "with a valid-or-empty name (guard: not an unnamed inline field, negation proved on the witness), and the String()/LookupJSON "
                  "round trip for all results that do not combine a name with inline. encoding/json itself is consulted on every generated case "
                  "(marshalling a reflect.StructOf value) as the independent oracle.",
    "level_note": "Trusted: Lean kernel, the model (validated by correspondence), reflect.StructTag.Get (its value is an input of the model), "
                  "the transcription of encoding/json's rule (checked against the real encoding/json by the oracle on every case).",
    "rule": "field names x json tag values built from name tokens (valid, invalid, '-', empty, non-ASCII, quotes, spaces) and option words "
            "incl. near-misses (omitemptyx, inlined, ' omitempty', Inline), wrapped into raw struct tags with other keys before/after, "
            "unescaped, or without a json key; each case runs lookup and render+lookup round trip; thorough adds all tags of <= 4 tokens "
            "over a 7-token alphabet. Non-trivial = raw tag non-empty; distinct = distinct protocol line.",
    "assumptions": ["reflect.StructTag.Get is external: the json tag value is computed by package reflect and passed to the model",
                    "field names are Go identifiers (contain no comma)"],
}

PROPS["C07"] = {
    "variants": ["v1", "v2"],
    "lean": ["Gengo.Props.C07"],
    "level": "proof",
    "level_text": "Invariant proved by induction over arbitrary add-sequences on the model of DefaultImportTracker + the Go LocalName "
                  "function (both variants): path->name and name->path stay mutually inverse, names pairwise distinct, assigned names never "
                  "change, the output package is never tracked, v2 names differ from the output package's leaf, names are non-keyword "
                  "identifiers under an explicit decidable guard on the path, import lines are a sorted one-per-path rendering. Guards are "
                  "shown necessary by decide-witnesses that are replayed on the real code (known findings).",
    "level_note": "Trusted: Lean kernel, the model (validated by state dumps after every operation on >30k histories per variant), "
                  "go/token's keyword list (transcribed), filepath.Base (transcribed), sort.Strings (contract only).",
    "rule": "histories new(local); add*/addt*; lines; lookups over a path alphabet built to collide (shared leaves, punctuation-only "
            "differences, keyword leaves, digit-leading and '_'-only leaves, Path-field overrides, empty package) x output packages "
            "(none, sharing a leaf with a foreign package, equal to a foreign package); thorough adds all sequences of length <= 4 "
            "over 8 colliding paths x 3 output packages. Non-trivial = at least two adds; distinct = distinct history.",
    "assumptions": ["paths are valid UTF-8 without '\\' or '\"'"],
}

PROPS["C14"] = {
    "variants": ["v1", "v2"],
    "lean": ["Gengo.Props.C14"],
    "level": "proof",
    "level_text": "Kernel-checked theorems on the model of NameStrategy/Joiner/removePrefixAndSuffix/filterDirs and the plural namer: the name "
                  "of a named type is Join(prefix, last k+1 of the non-ignored sanitised directories and the type name, suffix) and is a Go "
                  "identifier for identifier type names and path elements that start with a letter (named_is_identifier); public names start "
                  "upper-case, private lower-case; stripping inverts joining, so the name of every nested anonymous type carries prefix and "
                  "suffix exactly once at the outside (mutual induction over type trees); the plural rules. The memo ns.Names is modelled "
                  "(nameM: look up, else compute through the children's calls and store; panics propagate) and proved transparent: any "
                  "sequence of Name calls on one strategy, from the empty memo, returns for every call the name the memo-free strategy gives "
                  "- the same name on every call, independently of what was named before and in what order - and leaves a memo whose every "
                  "entry is such a name (memo_transparent, naming_order_irrelevant). Differential correspondence on shuffled call orders with "
                  "shared sub-objects and an independent recomputation of the documented name shape.",
    "level_note": "Trusted: Lean kernel, the model (validated by correspondence), ASCII restriction of strings.ToUpper/ToLower (the property "
                  "quantifies over ASCII names). The code keys the memo by the type's identity, the model by its structure: more hits, each of "
                  "them proved to be the memo-free name.",
    "rule": "random strategies (prefix, suffix incl. digit-only ones, public/private, ignore words, prepend count 0..3) x 1..4 types (named across "
            "9 package paths with '-' and '.' in directory names, builtins, and anonymous nestings up to depth 3 of map/slice/array/pointer/"
            "chan/struct/interface/func) named in a random call order with a shared sub-object in a third of the cases; plural over 34 words "
            "x exception tables x 3 finalizers. Non-trivial = an anonymous type or prepend > 0; distinct = distinct line.",
    "assumptions": ["ASCII names (strings.ToUpper/ToLower on the first byte)"],
}

PROPS["C15"] = {
    "variants": ["v1", "v2"],
    "lean": ["Gengo.Props.C15"],
    "level": "proof",
    "level_text": "Kernel-checked theorems on the model of SnippetWriter.Do/Append/Merge/Dup over writers with arbitrary failure schedules "
                  "(optionally wrapped in an ErrorTracker): with no prior error Do writes exactly the engine's chunks; after the first parse, "
                  "execution or write error nothing reaches the writer and the recorded error never changes; Dup/Merge preserve the error; "
                  "Args.With/WithArgs allocate a new map, leave every existing map unchanged, and give the documented winner. text/template is "
                  "a parameter whose behaviour is taken from the real engine on every generated case.",
    "level_note": "Trusted: Lean kernel, the model (validated by correspondence on chains with injected write faults), text/template "
                  "(external: its chunks and error for each template are input facts recomputed at run time), io.Copy's single Write for "
                  "in-memory readers.",
    "rule": "chains of 1..6 Do/Append/Merge/Dup calls over 19 templates (valid, unparsable, failing at execution; multi-chunk) x 5 delimiter "
            "pairs x subsets of 3 naming systems, on plain and ErrorTracker-wrapped writers with a write failure injected at a random call "
            "index of writer A and/or B; every fourth case an Args.With/WithArgs composition with clashing keys. Non-trivial = at least two "
            "operations; distinct = distinct history.",
    "assumptions": ["the data passed to Do is one fixed Args value (a type, a string, an int, a list)"],
}

_EXEC_NOTE = ("Trusted: Lean kernel, the executor model (validated by comparing complete call traces, results and disk contents with the "
              "real ExecutePackage/ExecuteTarget run on recording generators), the harness's file type (real Assemble function, formatter "
              "replaced by a deterministic stand-in that can be made to fail), os file-system semantics as modelled (MkdirAll, Create, ReadFile).")
PROPS["C04"] = {
    "variants": ["v1", "v2"],
    "lean": ["Gengo.Props.C04"],
    "level": "proof",
    "level_text": "Kernel-checked on the executor model, for every list of generators: a generator loop that runs through produces exactly the "
                  "documented call sequence generator by generator (filter over the target-filtered order, Namers, PackageVars, PackageConsts, "
                  "Init, one GenerateType per type passing both filters in canonical order, Finalize, Imports); hooks see the base naming "
                  "systems plus the generator's own only; files accumulate contributions in generator order; empty, conflicting and "
                  "unregistered file types are errors. The real executors of both modules are compared call by call with the model.",
    "level_note": _EXEC_NOTE,
    "rule": "random configurations: 0..5 types, 1..3 targets with filters, 0..4 generators each with filters, nil/empty/new/overriding namer "
            "sets, 3 file names (shared files), file types (registered, empty, conflicting, unregistered), vars/consts/imports; every fifth "
            "with a failing hook. Non-trivial = a target with >= 2 generators; distinct = distinct configuration.",
    "assumptions": ["accessor calls (Name, Filename, FileType, Header) are not part of the compared protocol"],
}
PROPS["C13"] = dict(PROPS["C04"], lean=["Gengo.Props.C13"], level="proof",
    level_text="Kernel-checked: ErrorTracker stickiness and prefix property for every failure schedule; executeBody fails exactly when a hook "
               "fails; a hook or file-type error leaves every file of the disk untouched; the assembly loop attempts every file and a run over "
               "several targets processes every target; an unformattable file is written unformatted and reported. Fault enumeration over the "
               "real executors (every hook of every generator, every file creation/format step, target directory) is compared with the model "
               "and judged by an independent oracle.",
    rule="fault enumeration: for each base configuration every fault position is "
    "enumerated completely - each generator x {Init, each GenerateType call, Finalize}, each file x {creation blocked by a directory, formatting "
    "failure}, target directory blocked by a file - plus the fault-free run; per-target runs and the run over all targets are compared.")
PROPS["C10"] = dict(PROPS["C04"], variants=["v1"], lean=["Gengo.Props.C10"],
    level_text="Kernel-checked on the executor model with an explicit disk: in verify-only mode the result is ok iff every file the run would "
               "write exists byte-identical, the error names exactly the files that are missing/different/unformattable, and directories and "
               "files are left exactly as they were for any list of targets. The real Context.Verify path is compared with the model on "
               "generate-then-perturb histories and judged by an oracle that uses a real generate run as reference. How a tool asks for the mode "
               "(args.GeneratorArgs: AddFlags over a value preset in code, Execute wiring VerifyOnly to Context.Verify) is exercised on the "
               "real code in nine scenarios and judged by an oracle; it is not part of the model.",
    rule="nine GeneratorArgs scenarios (flag registration over preset true/false with and without --verify-only[=false] on a fresh flag set; "
    "Execute with VerifyOnly over intact, edited, truncated, missing output); then: generate with the real code, then verify against the "
    "on-disk copy after: no change, single-byte edits (first/middle/last position; thorough: every position of 20 files), truncation, extension, "
    "deletion, missing output directory, an extra unrelated file, two bad files at once.")

PROPS["C03"] = {
    "variants": ["v1", "v2"],
    "lean": ["Gengo.Props.C03"],
    "level": "proof",
    "level_text": "Kernel-checked on the model of Orderer (after the repair of F4): the order is a permutation of the universe's entries "
                  "(each exactly once), non-decreasing in the namer's names, and equal for any two enumerations of the same universe "
                  "(every hash-map schedule), ties included; a witness shows the pre-repair contract admitted different results. The real "
                  "OrderUniverse runs 24 times per universe on freshly built Go maps and is compared with the model.",
    "level_note": "Trusted: Lean kernel; sort.Stable modelled by List.mergeSort (contract: stable sorted permutation); the flattening of the "
                  "nested collection loops into one key order (validated by correspondence); the namer is an input (its names are computed by "
                  "the real namer and passed to the model).",
    "rule": "hand-built universes: 1..4 packages over 6 paths, 0..3 types/functions/variables/constants each over 6 names (so that several "
            "entries share a name), ordered under raw/public(0..2)/private(0..1) namers; each universe is ordered 24 times; a third also "
            "through OrderTypes on a shuffled sub-list; every other hand-built universe stores its packages with the Path field unset; thorough adds all universes with <= 4 entries over a 6-cell grid x 3 namers. "
            "Executor component: runs of two or three targets over ONE Context (as ExecuteTargets does), each target and generator must be offered its types in the canonical order and Context.Order must be unchanged after every target. "
            "Non-trivial = at least two entries; distinct = distinct line.",
    "assumptions": ["names contain no NUL byte"],
}

PROPS["C18"] = {
    "variants": ["v1"],
    "lean": ["Gengo.Props.C18"],
    "level": "proof",
    "level_text": "Kernel-checked: the accumulating loops of verifyRules/verifyInverseRules (forbidden map, mismatch list, break on allow) "
                  "decide exactly 'first matching rule allows and does not forbid' for any selector matcher, for rules and for inverse rules "
                  "with the direct/transitive split; the verdict is invariant under permutation of the import set; Warshall's triple loop over "
                  "Go maps computes exactly reachability by >= 1 import edge for every iteration order of the three key sets, and the reported "
                  "importer lists are sorted. The real tool entry (generators.Packages + ExecutePackage on generated directory trees with "
                  ".import-restrictions files) and Context.TransitiveIncomingImports are compared with the model and with an independent "
                  "BFS/first-match oracle.",
    "level_note": "Trusted: Lean kernel, the model (validated by correspondence), regexp (parameter of the theorems; the driver's literal "
                  "matcher is checked against package regexp on every selector x path it is used on), YAML/JSON decoding of rule files, "
                  "the directory walk of recursiveRead as modelled (prefix chain up to the src root).",
    "rule": "digraphs on 2..6 packages over nested paths (cycles allowed) x restriction files at up to 6 directories (stacked along the "
            "path) with 0..2 rules and 0..2 inverse rules each over 9 selectors and 7 prefixes; every package of each world is judged by "
            "the real tool 7 times; thorough adds all 4096 digraphs on 4 nodes (closure) with a sampled rule stack on every 16th. "
            "Non-trivial = at least 2 edges and a rule file; distinct = distinct world.",
    "assumptions": ["selectors are literals with optional ^/$ anchors, '' or '.*'"],
}

PROPS["C17"] = {
    "variants": ["v1"],
    "lean": ["Gengo.Props.C17"],
    "level": "proof",
    "level_text": "Kernel-checked refinement of the generated methods (transcribed from the setCode template) to membership predicates, for "
                  "every iteration order of the underlying maps: Insert/Delete/Has/HasAll/HasAny, Clone, Union, Intersection (walking the "
                  "smaller operand), Difference, SymmetricDifference, IsSuperset, Equal (len == and IsSuperset, via a counting argument on "
                  "duplicate-free lists), List (each member once, strictly ascending, independent of map order), PopAny; allocation leaves "
                  "every existing set unchanged, Insert/Delete touch the receiver only; the generated lexicographic less is a strict total "
                  "order. The four checked-in set types are driven through operation sequences and compared with the model and with a "
                  "reference implementation on sorted slices; the real set-gen regenerates a sets package from the current templates on "
                  "every run (child process), the regenerated builtin sets must equal the checked-in files from the package clause on, "
                  "and a checker compiled from the regenerated package runs the same histories on them and on a struct-key set.",
    "level_note": "Trusted: Lean kernel, the transcription of setCode (validated by correspondence on the checked-in generated types and "
                  "on types regenerated from the current template at run time), sort.Sort's contract, Go map semantics (duplicate-free "
                  "keys), go build in GOPATH mode for the regenerated package.",
    "rule": "operation sequences (1..8 operations out of 16 kinds incl. the binary ones on arbitrary earlier sets) over element universes of "
            "3..6 values, for the generated Int, Int64, Byte and String sets (negative ints, large int64s, non-ASCII strings); PopAny on "
            "sets with > 1 member is judged by the oracle only (the popped member is the runtime's choice); thorough adds all sequences of "
            "length <= 4 over a 12-operation alphabet. 6 (thorough 60) regeneration cases: a generated key package (struct key of 1..3 "
            "ordered members, some of them members of an embedded struct declared first or last; an untagged struct) is given to the "
            "real set-gen, then 150..400 histories run on the regenerated K1/Int/Int64/Byte/String sets. Non-trivial = at least 3 "
            "operations; distinct = distinct history.",
    "assumptions": ["element values are mapped to model keys by an order-preserving injection",
                    "struct keys have members of ordered basic types only (the generator emits '<' on every member)"],
}

PROPS["C09"] = {
    "variants": ["v1", "v2"],
    "lean": ["Gengo.Props.C09"],
    "level": "proof",
    "level_text": "Kernel-checked on the transcription of assembleGolangFile/assembleGoFile: header first, package clause, import/var/const "
                  "blocks in fixed order and only when non-empty, body last; two map schedules differ only by a permutation of import lines; "
                  "the formatter's import-block canonicalisation (sort by group, path, name; drop duplicates) yields the same block for every "
                  "permutation and is idempotent. PARTIAL: everything else the formatter does (parsing, layout, idempotence on whole files) is "
                  "external (go/format, x/tools/imports) and is sampled by the oracle: the emitted file parses, declares the package, keeps "
                  "the header and the declaration order, is a fixed point of Format, is byte-identical over 17 runs with shuffled "
                  "contributions, and (v2) imports exactly the contributed set.",
    "level_note": "Trusted: Lean kernel, the model of Assemble (validated byte for byte, import lines sorted) and of the formatted import "
                  "block (validated against the real formatter's block), go/format and x/tools/imports beyond that (sampled only). v1's "
                  "imports.Process runs at the x/tools version pinned by /repo/go.mod's replace directive.",
    "rule": "files assembled from 1..3 generators' contributions: 0..3 imports each out of 11 spellings (bare, quoted, aliased, std/dotted/"
            "appengine groups, same path under two names), var/const blocks with header comments, function bodies; every contributed import "
            "is used by the body (v1's import fixer would otherwise drop it). Executor component: the real ExecutePackage/ExecuteTarget over generators "
            "that contribute variable and constant lines (some containing '%'), which must be in the file verbatim and in generator order. "
            "Non-trivial = at least 2 imports; distinct = distinct line.",
    "assumptions": ["contributions are valid Go (the property's premise)", "import strings contain no NUL"],
}

PROPS["C02"] = {
    "variants": ["v1", "v2"],
    "lean": ["Gengo.Props.C02"],
    "level": "proof",
    "level_text": "Kernel-checked by mutual induction over type trees, on the model of rawNamer.Name threaded through the C07 tracker model: "
                  "the text produced is the structural spelling of the type in which every foreign package carries exactly the alias that "
                  "the final tracker state (= the printed import block) binds to it, local types are unqualified, every foreign package "
                  "mentioned is tracked, the output package never is (also for trackers that were not told it), and earlier names stay "
                  "valid under any later naming (cache transparency). PARTIAL: that the spelling is valid Go denoting an identical type is "
                  "Go's surface syntax, outside the model; it is decided per generated case by type-checking the rendered names with "
                  "go/types in a file of the output package carrying the emitted import block and comparing with types.Identical.",
    "level_note": "Trusted: Lean kernel, the model (validated by correspondence incl. tracker state), go/parser + go/types as the oracle for "
                  "the syntax layer, filepath.Base (transcribed) for the nil-tracker mode whose documented assumptions (package name = path "
                  "base, bases distinct) are respected by the generator. Inherits C07's known findings (not generated here).",
    "rule": "1..4 type expressions of depth <= 3 over builtins, named types in 10 package paths (shared leaves, '-' and '.', keyword segments) "
            "and the output package, pointers, slices, arrays, maps, channels, anonymous structs, empty interfaces and function types; "
            "output package one of 5 (same as / different from the types' packages); tracker nil, without local package, or knowing the "
            "output package. Distinct = distinct line.",
    "assumptions": ["named types have a non-empty package; the tracker's local package is the namer's or empty"],
}

_UNI_NOTE = ("Trusted: Lean kernel; go/types is the source of the input facts (node graph, String() of every type, scope objects) and the "
             "authority of the oracle; the model of walkType/Universe (validated by comparing complete canonical universe dumps with the real "
             "loaders on generated programs); the builtins table is regenerated from /repo's source on every run.")
PROPS["C01"] = {
    "variants": ["v1", "v2"],
    "lean": ["Gengo.Props.C01"],
    "level": "proof",
    "level_text": "Model of both parsers' walkType (get-or-create by name, mark-then-fill, alias rule, flattening rule, methods phase, v2 "
                  "generics and alias unwrapping), of Universe.Type/Function/Variable/Constant/Package with the builtin import, and of "
                  "declarations, package scans and both loaders. Kernel-checked: the regenerated builtins tables bind every Go scalar to a "
                  "type of the same Go type, share an object only between spellings of one type, and are complete. On the full model, for "
                  "every fact graph, every call depth and both loaders (Lemmas/WalkInv.lean, WalkDesc.lean, ~2100 lines): the universe stays "
                  "closed and canonical (C06); after the scan of a requested package every named type of its scope is "
                  "registered under its own name with a kind (a generic declaration under Foo[T]); and - v2's generic declarations included - every object walkType filled "
                  "from a node of the type checker's graph has that node's kind and, attribute by attribute in declaration order, "
                  "references to the objects registered under the names of the node's children: element, key, array length, struct "
                  "members with name, embedded flag and verbatim tag, parameters, results, variadic flag, receiver, underlying type of a "
                  "defined type (alias rule) and the struct/… shape of a defined type (flattening rule); objects that already have a kind "
                  "are never touched by a later walk; a generic struct is described by the underlying node of its origin whichever use is "
                  "seen first, its fields of parameter type refer to TypeParam objects; declarations (functions, variables, constants) are "
                  "registered as DeclarationOf objects over the object of their Go type with the constant's value, and a scanned package's "
                  "record carries its name and imports, in v1 and in v2 where the visits of the imports run in between (package_recorded, package_recorded_v2; Lemmas/WalkSide.lean). Lemmas/WalkName.lean: the object a lookup of name n "
                  "returns, if it was filled, was filled from a node that walkType files under n - the node go/types prints as n, the "
                  "underlying node of the defined type printed as n (flattening rule), or the signature of the method printed as n - so "
                  "what the universe says under a name is what the type checker says about the type of that name (lookup_faithful_v1/v2, "
                  "after any sequence of incremental loads). The hypotheses the theorems place on the facts (WellFormed, "
                  "Consistent) are decided per correspondence case by executable checks proved sound (Model/FactsCheck, "
                  "Lemmas/FactsCheckSound) and the evidence counts the cases that meet them. Method sets are inside the description: "
                  "an object filled from an interface node with methods carries exactly that node's method set (embedded methods "
                  "included), and an object on which the methods phase of a defined type ran (recorded in ghost fields of the model) "
                  "carries exactly that type's method set - for a generic declaration the origin's, F22 - each method bound to the "
                  "object registered under the method's printed name, which is described by its signature node with parameters, "
                  "results, variadic flag and receiver (interface_methods_faithful, defined_type_methods_faithful). PARTIAL: that the "
                  "methods phase has run for every filled object registered under a defined type's name is by construction of the model "
                  "(every walk that fills such an object ends in it), not a separate theorem; that equal node names mean equal types "
                  "is go/types' String(). Complete canonical universe dumps of the real v1 and v2 loaders are compared with the model on "
                  "generated programs (incl. generics, methods, incremental loads with hand lookups), and an oracle walks go/types "
                  "independently and compares every reported attribute.",
    "level_note": _UNI_NOTE,
    "rule": "well-typed multi-package programs (1..3 packages, 2..7 type declarations each: structs with tags/embedded/unexported fields and "
            "self references, defined types over basics/maps/slices/pointers/arrays/channels/functions/interfaces/other named types, methods "
            "with value and pointer receivers, variadics and named results, functions, variables, typed and untyped constants, cross-package "
            "references; v2: generic structs and fields instantiating them); the program is type-checked with go/types, exported as facts, "
            "loaded by the real parser, and the complete universes are compared. Distinct = distinct program.",
    "assumptions": ["type aliases (type A = B) are generated for v2 only", "one file per package for the in-memory v1 loader"],
}
PROPS["C06"] = dict(PROPS["C01"], lean=["Gengo.Props.C06"],
    level_text="Kernel-checked on the universe model: lookups are idempotent (same object, state unchanged) and monotone (no existing "
               "binding or object is ever changed) for types and for functions/variables/constants, two keys of the builtins table bound "
               "to one Go variable resolve to one object whose content depends on the table only. The real universes are compared with the "
               "model object by object, and an oracle checks on every program: identical named/basic types and identically spelled "
               "anonymous types are one object, different Go types are never one object (known finding F7), nothing reachable is left "
               "without a kind, repeated lookups and builtin singletons behave as stated. Kernel-checked on the full model of both parsers "
               "(every node kind, flattening, methods phase, v2 generics, builtin import) and of the loaders: from the empty universe, and "
               "across any incremental loads and hand lookups, every reference stored in an object points to an object with a kind (nothing "
               "unresolved) that is the one registered under its name (or a type parameter), and registered objects carry the name they are "
               "registered under - hence any two references to objects of the same name are one object; conversely an object registered "
               "under two different names was never filled from a Go type (it is a builtins-table object, whose spellings share an object "
               "on purpose, or a declaration object): two differently printed Go types are always two objects (never_merged_v1/v2, after "
               "any sequence of loads). That equal Go types print equal "
               "names and different ones different names is go/types' String() (external; F7 is where it fails).")
PROPS["C20"] = dict(PROPS["C01"], lean=["Gengo.Props.C20"],
    level_text="Kernel-checked on the model of the predicates over universe objects: a type reported assignable consists of builtin "
               "scalars, defined types over them and structs of such at every depth (no pointer, map, slice, channel, function or interface "
               "object anywhere); IsPrimitive holds exactly for builtin objects and defined types over them; no named struct is reported "
               "anonymous; from the regenerated tables, kind Builtin is given to predeclared scalars only and to every one of them. In the "
               "universes the loaders build (full model, Lemmas/WalkObj.lean: an arbitrary per-object invariant threaded through walkType, "
               "scans and both loaders once and for all) these kinds mean what they say about the Go program: an object of kind Builtin was "
               "never filled from a node and is named after a Builtin entry of the table (a Go scalar), an object of kind Struct was filled "
               "from a Go struct node with exactly its fields, an object of kind Alias from a defined type's node over the object of its "
               "underlying type (assignable_means_scalars_and_structs). The "
               "predicate values of every object of the real universes are compared with the model, and an oracle compares them with "
               "go/types (containment of reference kinds, types.Comparable for v2).")

PROPS["C11"] = dict(PROPS["C01"], lean=["Gengo.Props.C11"],
    level_text="Kernel-checked on the model of v2 loading (userRequested, fullyProcessed, addPkgToUniverse with its recursion) for every "
               "world and every request list: after LoadPackages+NewUniverse exactly the requested packages are fully scanned; an "
               "incremental LoadPackagesTo keeps every earlier request and every scanned package, scans exactly the new requests in "
               "addition and never a mere dependency - so every split and order of a request set ends with the same set of scanned and "
               "stub packages as one combined load; visiting a package unknown to the type checker fails; the input list is the sorted "
               "request set. On the full model (Lemmas/WalkName.lean, WalkIso.lean): take the same program and load it twice, with any "
               "initial requests and any sequences of incremental loads (v2 LoadPackagesTo, v1 AddDirTo); whatever name is registered and "
               "filled in both universes stands for objects of the same kind whose array lengths, member names, embedded flags, tags, "
               "parameter and result names and variadic flags are equal and whose referenced objects are again registered under common "
               "names - 'registered under the same name' is a bisimulation, the universes are isomorphic on their common part however the "
               "loading was split (split_and_order_irrelevant_v1/v2; hypothesis Consistent: go/types prints nodes of different shape "
               "differently, checked per case); for interfaces with methods the method tables correspond as well, name by name, with "
               "method objects registered under one printed name in either universe (interface_methods_order_irrelevant_v2). "
               "Requested packages are complete (Lemmas/WalkSide.lean, requested_package_is_complete, "
               "requested_packages_complete_v1): after FindTypes, any sequence of AddDirTo and the scan of one more requested package, every "
               "named type of its scope is registered with a kind, every function, variable and constant is registered in its index as a "
               "DeclarationOf object over the object of its Go type (constants with their values) - and stays so through everything "
               "walked later (declaration objects are never shared between index entries) - and the package's record carries its name "
               "and direct imports; in v2, where the scan is interleaved with the visits of the imports, the package is complete (types and "
               "declarations) when addPkgToUniverse returns (requested_package_complete_v2; its record with name and imports survives the "
               "visits of all imports that run between scan and record: package_recorded_v2 of C01), and a package once complete stays complete "
               "through everything any loader does afterwards (completeFor_keeps). The common part is closed under reachability (Lemmas/WalkReach.lean, reachable_parts_agree_v1/v2): the naming "
               "invariant knows from a name alone whether an object of the builtins table or an object filled from a node sits under it, so what is filled "
               "in one universe and has a kind in the other was filled there too; references of corresponding objects correspond "
               "position by position and every reference has a kind (closedness, C06) - hence whatever is reached from a type both "
               "histories requested, along any sequence of positions (element, key, i-th member, parameter, result, underlying type), has "
               "a counterpart reached along the same positions in the other universe, of the same kind, and so on. "
               "PARTIAL: receivers are outside the cross-universe statement (a method signature prints "
               "like the plain function type), and so are the method tables of defined types (those of interfaces are inside). v1 Builder: findTypesIn leaves the state untouched for a package that "
               "was not requested, scans exactly the scope of a requested one, fails for a package the type checker does not know; "
               "FindTypes and AddDirTo keep / extend the request set. On the full model: whatever name resolved to an object before an "
               "incremental load (v2 LoadPackagesTo, v1 AddDirTo) resolves to the same object afterwards, with the same name and any kind it had. The complete universes of random splits/orders are compared on the real loaders with the model and "
               "with one combined load.",
    rule="generated modules of 1..5 packages with import DAGs (some packages only dependencies); a non-empty request set is split at random "
         "into an initial load and ordered incremental loads (v2: LoadPackages + NewUniverse + LoadPackagesTo in a scratch module; v1: "
         "AddDir + FindTypes + AddDirectoryTo in a scratch GOPATH); the final universe is compared with the model, with the universe of one "
         "combined load, and judged for completeness of requested packages, reachability of dependency content, stability of objects and "
         "the reported input list; every tenth case requests a missing or unparsable package and must get an error.")

# properties not claimed, with the reason (kept current by hand)
NOT_APPLICABLE = {}

PROPS["C05"] = {
    "variants": ["v1", "v2"],
    "lean": ["Gengo.Props.C05"],
    "level": "proof",
    "level_text": "Model of endLineToCommentGroup (comment groups indexed by last line, later groups overwrite, trailing groups left out), "
                  "docComment/priorCommentLines and priorDetachedComment/addCommentsToType. Kernel-checked for every list of comment groups "
                  "and every declaration line: the delivered doc lines are those of a non-trailing group of the file that ends on the line "
                  "directly above, unmodified; if exactly one such group exists it is the one delivered; with no such group the delivery is "
                  "the empty comment; a trailing group is never delivered; the second-closest lines come from a non-trailing group ending two "
                  "lines above the doc block's first line (or above the declaration when it has no doc block). PARTIAL: the model places the "
                  "second-closest block by line arithmetic, as the code does; that the line in between is blank is not implied (known finding "
                  "F6). go/parser's grouping of comments and CommentGroup.Text() are external facts. The real loaders are compared with "
                  "the model on generated layouts, and an oracle compares every delivery with the block the layout generator placed there.",
    "level_note": "Trusted: Lean kernel; go/parser (comment groups, positions, Text()) and go/format as sources of facts; the source-text scan "
                  "that decides 'code before the comment on its line'; the model (validated by correspondence on every declaration of every "
                  "generated layout); the generator's bookkeeping of intent.",
    "rule": "gofmt-stable one-package layouts of 1..3 files (types.go, more.go, doc.go): single and grouped type/var/const declarations, "
            "structs with named, multi-name and embedded fields, interfaces with methods, functions with comments inside the body, "
            "methods; per declaration an optional block one blank line above, an optional doc block (// lines incl. empty ones and tag "
            "lines, /* */ one-line and multi-line), an optional trailing comment (also after an opening brace or parenthesis), adjacent or "
            "blank-separated declarations, file headers, dangling comments at the end of bodies and files; loaded by v1 (GOPATH mode AddDir) "
            "and v2 (scratch module), a third of them first as a dependency and requested later, a third together with another requested "
            "package that is scanned first and refers to every type of the package under test. Distinct = distinct line set.",
    "assumptions": ["sources are gofmt-formatted (the property's quantifier)", "nested anonymous structs are not generated (their members are shared between identically spelled types)"],
}

PROPS["C12"] = {
    "variants": ["v1", "v2"],
    "lean": ["Gengo.Props.C12"],
    "level": "proof",
    "level_text": "Model of build-tag selection (a file takes part iff its //go:build expression holds under the tags the tool runs with), of "
                  "a tool run (load the visible files, compute the output from them, replace the output file, whose header is built from the "
                  "same tag) and of fmt.Sprintf over %s. Kernel-checked for every tree, every tool (any output function) and any number of "
                  "runs: an item is in the universe iff a file whose constraint holds provides it; the generated file is excluded under the "
                  "tool's own tags; if whatever carries the output's name is excluded (no previous output, or a stale one with the generated "
                  "header) the next run sees the same universe, writes the same bytes and leaves the same tree, for every n; without that "
                  "premise this holds from the second run on; and the header format strings as regenerated from v2/execute.go "
                  "(GoBoilerplate) and examples/deepcopy-gen (Packages) yield '//go:build !tag' for every tag name, the default tags "
                  "included. PARTIAL: go/build's and `go list`'s evaluation of constraints, the legacy '// +build' form and that the "
                  "Execute entry points pass the tag to the loader are outside the model; they are exercised on the real code and judged "
                  "with go/build/constraint and byte comparison of consecutive runs.",
    "level_note": "Trusted: Lean kernel; the translator (go/ast extraction of the Sprintf format strings and default tags); go/build/constraint "
                  "as the oracle's authority on constraint lines; the harness' in-place generator (one generated type per visible type, so a "
                  "visible output changes the next output); the model validated by correspondence on visible sets and run outputs.",
    "rule": "one-package trees (plus two dependency packages) of 2..6 files with random //go:build expressions (depth <= 2 over 5 tags, "
            "also legacy-only and both forms), types with doc comments and methods (also methods in other files), functions, variables, "
            "imports only excluded files make, constrained doc.go; previous output absent / stale with generated header / hand-written and "
            "visible; loaded under 1..2 random tag sets, then 1..3 runs of the in-place tool through gengo.Execute (v2, scratch module) or "
            "args.GeneratorArgs.Execute (v1, GOPATH mode), then loaded again with and without the tool's tag; header of GoBoilerplate / real "
            "deepcopy-gen for 4 tags. Distinct = distinct line set.",
    "assumptions": ["tags are build-tag names (letters, digits, '_', '.')", "Go >= 1.17 semantics: a //go:build line takes precedence over // +build lines"],
}

PROPS["C16"] = {
    "variants": ["v1"],
    "lean": ["Gengo.Props.C16"],
    "level": "proof",
    "level_text": "Model of deepcopy-gen: gengo's picture of a type (underlyingType, IsAssignable, hand-written DeepCopy/DeepCopyInto), the "
                  "selection logic (Packages / Filter / copyableType / needsGeneration) and generateFor with doBuiltin, doMap, doSlice, "
                  "doStruct, doPointer and the array loop, as a tree of the code shapes the generator can emit; one function renders the "
                  "tree as the emitted text, another gives what each shape does to a value (trees with explicit addresses for pointer "
                  "cells, slice backing arrays and maps; calls of methods outside the body are a parameter). Kernel-checked for every "
                  "declaration environment, every type the generator accepts (no klog.Fatalf) and every well-typed value: the emitted "
                  "body leaves a value deeply equal to the original, nil versus empty included, built from freshly allocated storage only "
                  "(so copy and original share none); DeepCopy() of reference types maps "
                  "nil to nil; values of assignable types reach no storage; hand-written methods are never regenerated and are what the "
                  "emitted code calls at every position; methods are generated for exactly the copyable types the tags select. The "
                  "generated methods call each other: with k levels of calls they are good on all values of depth below k, so "
                  "DeepCopy() of every selected type is a deep copy of every value - assumed good are only the hand-written methods and "
                  "the DeepCopy<Iface> implementations. PARTIAL: that the Go text of a shape has the modelled semantics is validated, "
                  "not proved: the real deepcopy-gen's output must equal the model's rendering text for text, and the compiled output "
                  "is run against a reflection oracle on random values.",
    "level_note": "Trusted: Lean kernel; the model (method bodies compared with the real generator's gofmt output, white space dropped); Go's "
                  "semantics of the emitted statements as transcribed in exec (validated by compiling and running the real output); the "
                  "program generator's bookkeeping; reflect.DeepEqual and reflect-based address walks as the oracle; go build in GOPATH "
                  "mode.",
    "rule": "programs of 1..2 packages with 3..9 declarations: structs (builtin, pointer, slice, map, array, named struct, interface, "
            "defined-type and hand-written-method members, embedded by value/pointer, self-referential through pointer/slice/map, "
            "unexported builtin members), defined types over builtins / maps / slices / named structs, named interfaces with 1..2 "
            "implementations, types with hand-written DeepCopy (pointer or value receiver) / DeepCopyInto, package-level tag or "
            "type-level opt-in (closed under reference) / opt-out, tags in the doc block or the block above; the real deepcopy-gen runs "
            "in a child process, the generated file is compiled with the input and a checker that copies 12 random values per "
            "generated type (nil / empty / filled at every level). Distinct = distinct line set.",
    "assumptions": ["inputs the generator accepts: no pointer to interface, no array outside struct members, no unexported or opted-out type "
                    "referenced by a generated one, map keys assignable (everything else ends in klog.Fatalf or in code that cannot compile, "
                    "which the property excludes)",
                    "defined types over pointers (type P *T) are not generated: the emitted methods would have an invalid receiver"],
}

"""Per-property registry used by ./check: which harness variants serve a property, which Lean
modules hold its theorems, and the texts that go into the evidence file."""

PROPS = {
    "C08": {
        "variants": ["v1", "v2"],
        "lean": ["Gengo.Props.C08"],
        "level": "proof",
        "level_text": "Kernel-checked theorems on the model of both comment.go files: per key the values are exactly those of the "
                      "considered lines in source order, only marker lines count, no empty entries, the argument grammar of the "
                      "function style as an iff, tag-name restriction, trailing-comment independence, the boolean helpers; the model is "
                      "total (no panic path) and tied to the code by >100k differential cases per run plus an independent grammar oracle.",
        "level_note": "Trusted: Lean kernel (+ propext/Classical.choice/Quot.sound), the hand-written model (validated by correspondence "
                      "only), unicode tables as a parameter, harness/oracle code. Proof is over all markers/lines; correspondence is sampled.",
        "rule": "random (marker, tag names, line lists) over the property's alphabet (marker, = ( ) , / //, space, tab, "
                "letters, digits, non-ASCII letters/digits/spaces/symbols) + corpus of documented examples and past witnesses; "
                "thorough adds every line of length <= 5 over 9 symbols x 3 markers. A case is non-trivial when it has at "
                "least one comment line; distinct = distinct protocol line.",
        "assumptions": [
            "unicode.IsLetter/IsDigit is a parameter of the model; the driver's table is checked against package unicode on the generator's alphabet",
            "Go strings reaching the functions are valid UTF-8 (byte prefix/slice = code-point prefix/drop)",
            "error results are compared as a single class `err` (the property does not speak about message texts)",
        ],
    },
}

# properties not claimed, with the reason (kept current by hand)
NOT_APPLICABLE = {}

#!/bin/bash
# usage: seedall.sh [tier]  — re-runs every filed seeded change against the current /repo and reports caught / MISSED / does-not-apply
cd /verif || exit 2
for d in seeded/*/; do
  id=$(basename "$d"); prop=${id%-*}
  if ! git -C /repo apply --check "/verif/$d/patch.diff" 2>/dev/null; then
    # try with reduced context before giving up
    if git -C /repo apply --check -C1 "/verif/$d/patch.diff" 2>/dev/null; then
      git -C /repo apply -C1 "/verif/$d/patch.diff"
    else
      echo "$id does-not-apply"; continue
    fi
  else
    git -C /repo apply "/verif/$d/patch.diff"
  fi
  out=$(./check "$prop" --tier "${1:-quick}" 2>&1 | grep -v "^KNOWN-FINDING")
  git -C /repo checkout -- . && git -C /repo clean -fdq
  if echo "$out" | grep -q "^VIOLATION"; then
    echo "$id caught $(echo "$out" | grep "^VIOLATION" | head -2 | tr '\n' ' ')"
  elif python3 -c "import json,sys; m=json.load(open('/verif/$d/meta.json')); sys.exit(0 if m['check_result'].get('caught') is False and 'not expected' in m['check_result'].get('note','') else 1)"; then
    echo "$id not-caught (outside the property's quantifier, see meta.json)"
  else
    echo "$id MISSED"
  fi
done
(cd /verif/go/extract && GOFLAGS=-mod=mod GOPROXY=off GOTOOLCHAIN=local go run . -repo /repo -out /verif/lean/Gengo/Generated)

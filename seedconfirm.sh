#!/bin/bash
# usage: seedconfirm.sh <worktree> <patch> <demo file> <dest dir in worktree (relative)> <module dir (. or v2)> <go test args...>
# Confirms a seeded change in a scratch worktree: builds, passes both suites, demo fails with / passes without.
set -u
wt=$1; patch=$2; demo=$3; dest=$4; mod=$5; shift 5
export GOFLAGS=-mod=mod GOPROXY=off GOSUMDB=off GOTOOLCHAIN=local
cd "$wt" || exit 2
git checkout -q -- . && git clean -fdq
git apply "$patch" || { echo "PATCH DOES NOT APPLY"; exit 2; }
ok=1
(go build ./... && cd v2 && go build ./...) >/dev/null 2>&1 || { echo "BUILD FAILS"; ok=0; }
s1=$(go test -vet=off -count=1 ./... 2>&1 | grep -c "^FAIL\|^---FAIL\|^--- FAIL")
s2=$(cd v2 && go test -vet=off -count=1 ./... 2>&1 | grep -c "^FAIL\|^--- FAIL")
echo "suite failures with patch: v1=$s1 v2=$s2"
cp "$demo" "$dest/"
(cd "$mod" && go test -vet=off -count=1 "$@" >/tmp/seed_with.log 2>&1); w=$?
git checkout -q -- . ; 
(cd "$mod" && go test -vet=off -count=1 "$@" >/tmp/seed_without.log 2>&1); wo=$?
echo "demo exit with patch=$w (want !=0), without=$wo (want 0)"
rm -f "$dest/$(basename "$demo")"; git checkout -q -- . && git clean -fdq
[ "$ok" = 1 ] && [ "$s1" = 0 ] && [ "$s2" = 0 ] && [ "$w" != 0 ] && [ "$wo" = 0 ] && echo CONFIRMED || echo NOT-CONFIRMED

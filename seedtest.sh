#!/bin/bash
# usage: seedtest.sh <property> <patch.diff> [tier]   — applies a seeded change to /repo, runs the check, undoes it
set -u
prop=$1; patch=$2; tier=${3:-quick}
cd /repo || exit 2
if [ -n "$(git status --porcelain)" ]; then echo "/repo not clean"; exit 2; fi
git apply "$patch" || { echo "patch does not apply"; exit 2; }
(cd /verif && ./check "$prop" --tier "$tier" 2>&1 | grep -v "no longer checks" | tail -${4:-6} | cut -c1-400)
git checkout -- . && git clean -fdq
# bring the regenerated facts back in line with the restored tree
(cd /verif/go/extract && GOFLAGS=-mod=mod GOPROXY=off GOTOOLCHAIN=local go run . -repo /repo -out /verif/lean/Gengo/Generated)

#!/bin/bash
# usage: runall.sh [tier] — every registered check on the current tree, one after the other
cd /verif || exit 2
rc=0
for p in C01 C02 C03 C04 C05 C06 C07 C08 C09 C10 C11 C12 C13 C14 C15 C16 C17 C18 C19 C20; do
  out=$(./check $p --tier "${1:-quick}" 2>&1); r=$?
  echo "$out" | grep -E "^(VIOLATION|C[0-9]+ \[)" 
  [ $r -ne 0 ] && rc=1
done
exit $rc

#!/bin/bash
# usage: sweep.sh <tier> <seed>... — all checks on the unchanged tree for several seeds; prints only what is not clean
cd /verif || exit 2
tier=$1; shift
for s in "$@"; do
  for p in C01 C02 C03 C04 C05 C06 C07 C08 C09 C10 C11 C12 C13 C14 C15 C16 C17 C18 C19 C20; do
    out=$(VERIF_SEED=$s ./check $p --tier $tier 2>&1)
    if echo "$out" | grep -q "^VIOLATION"; then echo "seed $s $p:"; echo "$out" | grep -E "^VIOLATION|^  \[" | cut -c1-300; fi
  done
  echo "seed $s done"
done

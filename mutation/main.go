// Command mutation enumerates and applies small syntactic mutations to one Go source file.
//
//	mutation -file F -list            prints one line per mutation point: index, line, kind, description
//	mutation -file F -apply K -out G  writes F with mutation K applied to G
//
// Used by mutate.py to measure which realistic small changes (that still build and pass the project's own tests)
// the registered checks notice.  Not part of any registered check.
package main

import (
	"bytes"
	"flag"
	"fmt"
	"go/ast"
	"go/format"
	"go/parser"
	"go/token"
	"os"
	"strconv"
)

type mutation struct {
	pos   token.Pos
	kind  string
	desc  string
	apply func()
}

func main() {
	file := flag.String("file", "", "Go source file")
	list := flag.Bool("list", false, "list mutation points")
	apply := flag.Int("apply", -1, "apply mutation number")
	out := flag.String("out", "", "output file")
	flag.Parse()
	fset := token.NewFileSet()
	f, err := parser.ParseFile(fset, *file, nil, parser.ParseComments)
	if err != nil {
		fmt.Fprintln(os.Stderr, err)
		os.Exit(2)
	}
	var muts []mutation
	add := func(pos token.Pos, kind, desc string, fn func()) {
		muts = append(muts, mutation{pos, kind, desc, fn})
	}
	swap := map[token.Token]token.Token{
		token.EQL: token.NEQ, token.NEQ: token.EQL, token.LSS: token.LEQ, token.LEQ: token.LSS,
		token.GTR: token.GEQ, token.GEQ: token.GTR, token.LAND: token.LOR, token.LOR: token.LAND,
		token.ADD: token.SUB, token.SUB: token.ADD,
	}
	ast.Inspect(f, func(n ast.Node) bool {
		switch x := n.(type) {
		case *ast.BinaryExpr:
			if to, ok := swap[x.Op]; ok {
				if x.Op == token.ADD {
					// string concatenation cannot become subtraction: skip when an operand is a string literal
					if l, ok := x.X.(*ast.BasicLit); ok && l.Kind == token.STRING {
						return true
					}
					if l, ok := x.Y.(*ast.BasicLit); ok && l.Kind == token.STRING {
						return true
					}
				}
				from := x.Op
				add(x.OpPos, "binop", fmt.Sprintf("%s -> %s", from, to), func() { x.Op = to })
			}
		case *ast.IfStmt:
			add(x.Cond.Pos(), "negate-if", "if cond -> if !(cond)", func() {
				x.Cond = &ast.UnaryExpr{Op: token.NOT, X: &ast.ParenExpr{X: x.Cond}}
			})
		case *ast.BlockStmt:
			for i, st := range x.List {
				i, st := i, st
				del := false
				switch s := st.(type) {
				case *ast.ExprStmt:
					if _, ok := s.X.(*ast.CallExpr); ok {
						del = true
					}
				case *ast.AssignStmt:
					if s.Tok != token.DEFINE {
						del = true
					}
				case *ast.IncDecStmt:
					del = true
				}
				if del {
					add(st.Pos(), "delete-stmt", "statement removed", func() {
						x.List = append(append([]ast.Stmt{}, x.List[:i]...), x.List[i+1:]...)
					})
				}
			}
		case *ast.BranchStmt:
			if x.Label == nil && (x.Tok == token.CONTINUE || x.Tok == token.BREAK) {
				to := token.BREAK
				if x.Tok == token.BREAK {
					to = token.CONTINUE
				}
				from := x.Tok
				add(x.Pos(), "branch", fmt.Sprintf("%s -> %s", from, to), func() { x.Tok = to })
			}
		case *ast.BasicLit:
			if x.Kind == token.INT {
				if v, err := strconv.Atoi(x.Value); err == nil && v < 1000 {
					add(x.Pos(), "int-lit", fmt.Sprintf("%d -> %d", v, v+1), func() { x.Value = strconv.Itoa(v + 1) })
				}
			}
		case *ast.Ident:
			if x.Name == "true" || x.Name == "false" {
				to := "false"
				if x.Name == "false" {
					to = "true"
				}
				from := x.Name
				add(x.Pos(), "bool-lit", from+" -> "+to, func() { x.Name = to })
			}
		case *ast.ReturnStmt:
			if len(x.Results) == 1 {
				if id, ok := x.Results[0].(*ast.Ident); ok && id.Name == "nil" {
					return true
				}
			}
		}
		return true
	})
	if *list {
		for i, m := range muts {
			p := fset.Position(m.pos)
			fmt.Printf("%d\t%d\t%s\t%s\n", i, p.Line, m.kind, m.desc)
		}
		return
	}
	if *apply < 0 || *apply >= len(muts) {
		fmt.Fprintln(os.Stderr, "no such mutation")
		os.Exit(2)
	}
	muts[*apply].apply()
	var buf bytes.Buffer
	if err := format.Node(&buf, fset, f); err != nil {
		fmt.Fprintln(os.Stderr, err)
		os.Exit(2)
	}
	if err := os.WriteFile(*out, buf.Bytes(), 0o644); err != nil {
		fmt.Fprintln(os.Stderr, err)
		os.Exit(2)
	}
}

#!/usr/bin/env python3
"""mutate.py [--per-file N] [--seed S] [--budget-min M] [--only FILE…]

Mutation campaign (supporting evidence, not a registered check): for the source files the properties are anchored in,
apply small syntactic mutations (mutation/main.go) one at a time to /repo's working tree, keep the mutants that still
build and pass the module's own test suite ("survivors": what a real regression looks like to the project's tests), run
the quick check of every property anchored in that file and record whether one of them reports a violation.
/repo is restored after every mutant.  Results: mutation/results.jsonl (appended), summary with --summary."""
import json, os, random, subprocess, sys, time, argparse

ENV = dict(os.environ, GOFLAGS="-mod=mod", GOPROXY="off", GOSUMDB="off", GOTOOLCHAIN="local")
ROOT = "/repo"
BIN = "/tmp/mutation-bin"
RES = "/verif/mutation/results.jsonl"


def sh(cmd, cwd=None, timeout=900):
    try:
        r = subprocess.run(cmd, cwd=cwd, env=ENV, capture_output=True, text=True, timeout=timeout)
        return r.returncode, r.stdout + r.stderr
    except subprocess.TimeoutExpired:
        return 124, "timeout"


def anchored():
    files = {}
    for l in open("/verif/properties.jsonl"):
        d = json.loads(l)
        for f in d["anchors"]["files"]:
            if os.path.exists(os.path.join(ROOT, f)):
                files.setdefault(f, []).append(d["id"])
    return files


# properties that also exercise a file although it is not among their anchors
EXTRA = {"v2/generator/simple_target.go": ["C04"], "generator/default_package.go": ["C04"]}


def restore():
    sh(["git", "-C", ROOT, "checkout", "--", "."])
    sh(["git", "-C", ROOT, "clean", "-fdq"])


def summary():
    rows = [json.loads(l) for l in open(RES)]
    by = {}
    for r in rows:
        by.setdefault(r["status"], []).append(r)
    print({k: len(v) for k, v in by.items()})
    surv = [r for r in rows if r["status"] in ("caught", "missed")]
    print("survivors", len(surv), "caught", sum(r["status"] == "caught" for r in surv))
    for r in surv:
        if r["status"] == "missed":
            print("MISSED", r["file"], "line", r["line"], r["kind"], r["desc"], "| checked", r["props"], "|", r.get("triage", ""))


def main():
    ap = argparse.ArgumentParser()
    ap.add_argument("--per-file", type=int, default=12)
    ap.add_argument("--seed", type=int, default=1)
    ap.add_argument("--budget-min", type=float, default=240)
    ap.add_argument("--only", nargs="*")
    ap.add_argument("--summary", action="store_true")
    ap.add_argument("--retest", action="store_true")
    a = ap.parse_args()
    if a.summary:
        return summary()
    rc, out = sh(["go", "build", "-o", BIN, "."], cwd="/verif/mutation")
    if rc != 0:
        sys.exit(out)
    if sh(["git", "-C", ROOT, "status", "--porcelain"])[1].strip():
        sys.exit("/repo is not clean")
    files = anchored()
    for f, ps in EXTRA.items():
        if f in files:
            files[f] = files[f] + [p for p in ps if p not in files[f]]
    rng = random.Random(a.seed)
    if a.retest:
        rows = [json.loads(l) for l in open(RES)]
        out = []
        for r in rows:
            if r["status"] == "missed" and not r.get("triage"):
                path = os.path.join(ROOT, r["file"])
                mod = os.path.join(ROOT, "v2") if r["file"].startswith("v2/") else ROOT
                rc, _ = sh([BIN, "-file", path, "-apply", str(r["index"]), "-out", path])
                caught = []
                if rc == 0 and sh(["go", "build", "./..."], cwd=mod, timeout=300)[0] == 0:
                    for p in files.get(r["file"], r["props"]):
                        rc, o = sh(["/verif/check", p], cwd="/verif", timeout=900)
                        viol = [l for l in o.splitlines() if l.startswith("VIOLATION")]
                        if viol:
                            caught.append({"prop": p, "violation": viol[0]})
                restore()
                if caught:
                    r["status"] = "caught"
                    r["caught_by"] = caught
                    r["note"] = "missed at first; caught after the harness was widened"
                print(r["status"], r["file"], r["line"], r["kind"], flush=True)
            out.append(r)
        with open(RES, "w") as fh:
            for r in out:
                fh.write(json.dumps(r) + "\n")
        return
    done = set()
    if os.path.exists(RES):
        for l in open(RES):
            r = json.loads(l)
            done.add((r["file"], r["index"]))
    t0 = time.time()
    order = sorted(files)
    rng.shuffle(order)
    for f in order:
        if a.only and f not in a.only:
            continue
        path = os.path.join(ROOT, f)
        rc, out = sh([BIN, "-file", path, "-list"])
        pts = [l.split("\t") for l in out.strip().splitlines() if l]
        rng.shuffle(pts)
        mod = os.path.join(ROOT, "v2") if f.startswith("v2/") else ROOT
        n = 0
        for idx, line, kind, desc in pts:
            if n >= a.per_file or (time.time() - t0) / 60 > a.budget_min:
                break
            if (f, int(idx)) in done:
                continue
            n += 1
            rec = {"file": f, "index": int(idx), "line": int(line), "kind": kind, "desc": desc, "props": files[f]}
            rc, out = sh([BIN, "-file", path, "-apply", idx, "-out", path])
            if rc != 0:
                rec["status"] = "not-applied"
            else:
                rec["diff"] = sh(["git", "-C", ROOT, "diff", "-U0", "--", f])[1][-600:]
                rc, out = sh(["go", "build", "./..."], cwd=mod, timeout=300)
                if rc == 0 and mod == ROOT:
                    rc, out = sh(["go", "vet", "-vettool=/bin/true", "./..."], cwd=mod, timeout=60) if False else (0, "")
                if rc != 0:
                    rec["status"] = "does-not-build"
                else:
                    rc, out = sh(["go", "test", "-vet=off", "-count=1", "./..."], cwd=mod, timeout=600)
                    if rc != 0:
                        rec["status"] = "killed-by-project-tests"
                    else:
                        caught = []
                        for p in files[f]:
                            rc, out = sh(["/verif/check", p], cwd="/verif", timeout=900)
                            viol = [l for l in out.splitlines() if l.startswith("VIOLATION")]
                            if viol:
                                caught.append({"prop": p, "violation": viol[0]})
                        rec["status"] = "caught" if caught else "missed"
                        rec["caught_by"] = caught
            restore()
            with open(RES, "a") as fh:
                fh.write(json.dumps(rec) + "\n")
            print(rec["status"], f, line, kind, desc, flush=True)
        if (time.time() - t0) / 60 > a.budget_min:
            break
    restore()


if __name__ == "__main__":
    main()

module verif/mutation

go 1.20

#!/usr/bin/env python3
"""Regenerates MANIFEST.json from registry.py (run after editing the registry)."""
import json
import os
import sys

HERE = os.path.dirname(os.path.abspath(__file__))
sys.path.insert(0, HERE)
from registry import PROPS, NOT_APPLICABLE  # noqa: E402

checks = []
for pid in sorted(PROPS):
    s = PROPS[pid]
    checks.append({
        "property_id": pid,
        "quick_cmd": f"./check {pid} --tier quick",
        "thorough_cmd": f"./check {pid} --tier thorough",
        "evidence_file": f"/verif/evidence/{pid}.json",
        "replay_cmd_template": f"./check {pid} --replay {{path}}",
        "engine": "lean4-model+go-correspondence",
        "level_claimed": {"category": s.get("level", "proof"), "text": s["level_text"], "design_ref": s.get("design_ref", "DESIGN.md section 6")},
        "level_note": s["level_note"],
        "technique": s.get("technique", "Lean 4 theorems on an executable model + differential correspondence with the real code + direct property oracle"),
    })
ids = [json.loads(l)["id"] for l in open(os.path.join(HERE, "properties.jsonl"))]
na = [{"property_id": i, "reason": NOT_APPLICABLE.get(i, "no check built yet in this round; planned as described in DESIGN.md section 6 (not claimed until its check runs clean)")}
      for i in ids if i not in PROPS]
m = {
    "version": 1,
    "setup_cmd": "./setup.sh",
    "hooks": {
        "guard": "verif",
        "enable": "go build -tags verif (adds generator/verif_hooks.go and v2/generator/verif_hooks.go, which export executeBody; the harness modules under /verif/go replace k8s.io/gengo and k8s.io/gengo/v2 with /repo and /repo/v2)",
        "baseline_off_cmd": "for m in . v2; do (cd /repo/$m && GOFLAGS=-mod=mod GOPROXY=off go test -vet=off -count=1 ./...) || exit 1; done",
        "source_commits": ["0f73dbd"],
        "add_only": True,
    },
    "engines": [{
        "name": "lean4-model+go-correspondence",
        "path": "/verif/check",
        "serves_properties": sorted(PROPS),
        "kind_free_text": "Lean 4 (core only) executable models with kernel-checked theorems under /verif/lean; Go harnesses under /verif/go run the real code, the compiled model and an independent oracle on the same protocol lines; facts extracted from /repo's AST are regenerated into lean/Gengo/Generated on every run",
    }],
    "checks": checks,
    "not_applicable": na,
    "notes": "See DESIGN.md. Known findings are listed in KNOWN_FINDINGS.txt; replays are written to /verif/replays.",
}
json.dump(m, open(os.path.join(HERE, "MANIFEST.json"), "w"), indent=1)
print("claimed:", ", ".join(sorted(PROPS)), "| not claimed:", ", ".join(x["property_id"] for x in na))

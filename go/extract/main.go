// Command extract is the translator of the regenerated tie: it parses /repo's sources with go/ast
// (no type checking) and re-emits facts as Lean definitions under lean/Gengo/Generated. Theorems
// over these definitions are re-checked by the kernel against what the code says now.
package main

import (
	"flag"
	"fmt"
	"go/ast"
	"go/parser"
	"go/token"
	"os"
	"path/filepath"
	"sort"
	"strconv"
	"strings"
)

func must(err error) {
	if err != nil {
		fmt.Fprintln(os.Stderr, err)
		os.Exit(1)
	}
}

func parse(path string) *ast.File {
	f, err := parser.ParseFile(token.NewFileSet(), path, nil, parser.ParseComments)
	must(err)
	return f
}

func leanStr(s string) string {
	var b strings.Builder
	b.WriteByte('"')
	for _, r := range s {
		switch {
		case r == '"':
			b.WriteString("\\\"")
		case r == '\\':
			b.WriteString("\\\\")
		case r == '\n':
			b.WriteString("\\n")
		case r == '\t':
			b.WriteString("\\t")
		case r < 32 || r > 126:
			fmt.Fprintf(&b, "\\u{%x}", r)
		default:
			b.WriteRune(r)
		}
	}
	b.WriteByte('"')
	return b.String()
}

func strLit(e ast.Expr) (string, bool) {
	bl, ok := e.(*ast.BasicLit)
	if !ok || bl.Kind != token.STRING {
		return "", false
	}
	s, err := strconv.Unquote(bl.Value)
	return s, err == nil
}

// builtins: key -> (variable, Name.Name, Kind) from `builtins = &Package{Types: map[string]*Type{...}}`
func builtins(file string) [][4]string {
	f := parse(file)
	type tinfo struct{ name, kind string }
	vars := map[string]tinfo{}
	var table [][2]string
	ast.Inspect(f, func(n ast.Node) bool {
		vs, ok := n.(*ast.ValueSpec)
		if !ok {
			return true
		}
		for i, id := range vs.Names {
			if i >= len(vs.Values) {
				continue
			}
			u, ok := vs.Values[i].(*ast.UnaryExpr)
			if !ok {
				continue
			}
			cl, ok := u.X.(*ast.CompositeLit)
			if !ok {
				continue
			}
			tn, _ := cl.Type.(*ast.Ident)
			if tn == nil {
				continue
			}
			switch tn.Name {
			case "Type":
				var ti tinfo
				for _, el := range cl.Elts {
					kv, ok := el.(*ast.KeyValueExpr)
					if !ok {
						continue
					}
					k, _ := kv.Key.(*ast.Ident)
					if k == nil {
						continue
					}
					switch k.Name {
					case "Name":
						if ncl, ok := kv.Value.(*ast.CompositeLit); ok {
							for _, ne := range ncl.Elts {
								if nkv, ok := ne.(*ast.KeyValueExpr); ok {
									if nk, _ := nkv.Key.(*ast.Ident); nk != nil && nk.Name == "Name" {
										ti.name, _ = strLit(nkv.Value)
									}
								}
							}
						}
					case "Kind":
						if kid, ok := kv.Value.(*ast.Ident); ok {
							ti.kind = kid.Name
						}
					}
				}
				vars[id.Name] = ti
			case "Package":
				if id.Name != "builtins" {
					continue
				}
				for _, el := range cl.Elts {
					kv, ok := el.(*ast.KeyValueExpr)
					if !ok {
						continue
					}
					if k, _ := kv.Key.(*ast.Ident); k == nil || k.Name != "Types" {
						continue
					}
					if m, ok := kv.Value.(*ast.CompositeLit); ok {
						for _, me := range m.Elts {
							if mkv, ok := me.(*ast.KeyValueExpr); ok {
								key, _ := strLit(mkv.Key)
								if v, ok := mkv.Value.(*ast.Ident); ok {
									table = append(table, [2]string{key, v.Name})
								}
							}
						}
					}
				}
			}
		}
		return true
	})
	sort.Slice(table, func(i, j int) bool { return table[i][0] < table[j][0] })
	var out [][4]string
	for _, e := range table {
		ti := vars[e[1]]
		out = append(out, [4]string{e[0], e[1], ti.name, ti.kind})
	}
	return out
}

func emitBuiltins(b *strings.Builder, name string, t [][4]string) {
	fmt.Fprintf(b, "/-- `builtins.Types`: key, Go variable bound to it, that variable's `Name.Name`, its `Kind` -/\ndef %s : List (String × String × String × String) := [\n", name)
	for i, e := range t {
		sep := ","
		if i == len(t)-1 {
			sep = ""
		}
		fmt.Fprintf(b, "  (%s, %s, %s, %s)%s\n", leanStr(e[0]), leanStr(e[1]), leanStr(e[2]), leanStr(e[3]), sep)
	}
	b.WriteString("]\n\n")
}

// sprintfFormats: the build-constraint format of function fn of file, as a Sprintf format over %s applied to the tag.
// Recognised shapes (a translator of straight-line emission code, nothing more):
//   - a Sprintf/Fprintf/Printf-style call whose format literal contains needle and whose operands are one expression;
//   - failing that, a run of consecutive emission statements of one block (x.WriteString(e), x.WriteByte('c'),
//     x.Write([]byte(e)), fmt.Fprintf(x, lit, …), fmt.Fprint(x, e)) where every e is a concatenation of string
//     literals and of one and the same expression (the tag): the run is re-emitted as one format with %s for the tag.
//
// Anything else yields no format, and the theorems over it fail to check.
// stringConsts: the string constants declared in the file (package level or inside functions): name -> value
var stringConsts map[string]string

func collectStringConsts(f *ast.File) {
	stringConsts = map[string]string{}
	ast.Inspect(f, func(n ast.Node) bool {
		gd, ok := n.(*ast.GenDecl)
		if !ok || gd.Tok != token.CONST {
			return true
		}
		for _, sp := range gd.Specs {
			vs, ok := sp.(*ast.ValueSpec)
			if !ok {
				continue
			}
			for i, id := range vs.Names {
				if i < len(vs.Values) {
					if s, ok := strLit(vs.Values[i]); ok {
						stringConsts[id.Name] = s
					}
				}
			}
		}
		return true
	})
}

func sprintfFormats(file, fn, needle string) []string {
	f := parse(file)
	collectStringConsts(f)
	var out []string
	for _, d := range f.Decls {
		fd, ok := d.(*ast.FuncDecl)
		if !ok || fd.Name.Name != fn || fd.Body == nil {
			continue
		}
		ast.Inspect(fd.Body, func(n ast.Node) bool {
			call, ok := n.(*ast.CallExpr)
			if !ok || len(call.Args) == 0 {
				return true
			}
			sel, ok := call.Fun.(*ast.SelectorExpr)
			if !ok {
				return true
			}
			at := -1
			switch sel.Sel.Name {
			case "Sprintf", "Printf", "Errorf":
				at = 0
			case "Fprintf":
				at = 1
			}
			if at < 0 || len(call.Args) <= at+1 {
				return true
			}
			if s, ok := strLit(call.Args[at]); ok && strings.Contains(s, needle) {
				// the operands must all be the same expression (the tag)
				same := true
				for _, a := range call.Args[at+2:] {
					if exprString(a) != exprString(call.Args[at+1]) {
						same = false
					}
				}
				if same {
					out = append(out, s)
				}
			}
			return true
		})
		if len(out) > 0 {
			continue
		}
		ast.Inspect(fd.Body, func(n ast.Node) bool {
			blk, ok := n.(*ast.BlockStmt)
			if !ok {
				return true
			}
			run, operand, valid := "", "", true
			flush := func() {
				if valid && strings.Contains(run, needle) {
					out = append(out, run)
				}
				run, operand, valid = "", "", true
			}
			target := ""
			for _, st := range blk.List {
				piece, to, ok := emission(st, &operand)
				if !ok || (run != "" && to != target) {
					flush()
				}
				if !ok {
					continue
				}
				target = to
				run += piece
			}
			flush()
			return true
		})
	}
	return out
}

// emission: the format one emission statement contributes; *operand is the one non-literal expression seen so far
func emission(st ast.Stmt, operand *string) (piece string, target string, ok bool) {
	es, ok := st.(*ast.ExprStmt)
	if !ok {
		return "", "", false
	}
	call, ok := es.X.(*ast.CallExpr)
	if !ok {
		return "", "", false
	}
	sel, ok := call.Fun.(*ast.SelectorExpr)
	if !ok {
		return "", "", false
	}
	target = exprString(sel.X)
	if (sel.Sel.Name == "Fprint" || sel.Sel.Name == "Fprintf") && len(call.Args) >= 1 {
		target = exprString(call.Args[0])
		if u, ok := call.Args[0].(*ast.UnaryExpr); ok && u.Op == token.AND {
			target = exprString(u.X)
		}
	}
	piece, ok = emissionPiece(sel, call, operand)
	return piece, target, ok
}

func emissionPiece(sel *ast.SelectorExpr, call *ast.CallExpr, operand *string) (string, bool) {
	switch {
	case sel.Sel.Name == "WriteString" && len(call.Args) == 1:
		return concatFormat(call.Args[0], operand)
	case sel.Sel.Name == "WriteByte" && len(call.Args) == 1:
		if bl, ok := call.Args[0].(*ast.BasicLit); ok && bl.Kind == token.CHAR {
			if r, _, _, err := strconv.UnquoteChar(bl.Value[1:len(bl.Value)-1], '\''); err == nil && r != '%' {
				return string(r), true
			}
		}
	case sel.Sel.Name == "Write" && len(call.Args) == 1:
		if conv, ok := call.Args[0].(*ast.CallExpr); ok && len(conv.Args) == 1 {
			if at, ok := conv.Fun.(*ast.ArrayType); ok && at.Len == nil && exprString(at.Elt) == "byte" {
				return concatFormat(conv.Args[0], operand)
			}
		}
	case sel.Sel.Name == "Fprint" && len(call.Args) == 2:
		return concatFormat(call.Args[1], operand)
	case sel.Sel.Name == "Fprintf" && len(call.Args) >= 2:
		return concatFormat(&ast.CallExpr{Fun: &ast.SelectorExpr{X: ast.NewIdent("fmt"), Sel: ast.NewIdent("Sprintf")}, Args: call.Args[1:]}, operand)
	}
	return "", false
}

// concatFormat: e as a format: literals (without '%'), '+', Sprintf(lit, same operand…), and the operand itself as %s
func concatFormat(e ast.Expr, operand *string) (string, bool) {
	switch e := e.(type) {
	case *ast.ParenExpr:
		return concatFormat(e.X, operand)
	case *ast.BasicLit:
		if s, ok := strLit(e); ok && !strings.Contains(s, "%") {
			return s, true
		}
		return "", false
	case *ast.BinaryExpr:
		if e.Op != token.ADD {
			return "", false
		}
		l, ok1 := concatFormat(e.X, operand)
		r, ok2 := concatFormat(e.Y, operand)
		return l + r, ok1 && ok2
	case *ast.CallExpr:
		if sel, ok := e.Fun.(*ast.SelectorExpr); ok && sel.Sel.Name == "Sprintf" && len(e.Args) >= 1 {
			if s, ok := strLit(e.Args[0]); ok {
				for _, a := range e.Args[1:] {
					if _, ok := a.(*ast.Ident); !ok {
						if _, ok := a.(*ast.SelectorExpr); !ok {
							return "", false
						}
					}
					if *operand == "" {
						*operand = exprString(a)
					}
					if exprString(a) != *operand {
						return "", false
					}
				}
				if strings.Count(s, "%") != strings.Count(s, "%s") || strings.Count(s, "%s") != len(e.Args)-1 {
					return "", false
				}
				return s, true
			}
		}
		return "", false
	case *ast.Ident, *ast.SelectorExpr:
		if id, ok := e.(*ast.Ident); ok {
			if v, isConst := stringConsts[id.Name]; isConst {
				if strings.Contains(v, "%") {
					return "", false
				}
				return v, true
			}
		}
		if *operand == "" {
			*operand = exprString(e)
		}
		if exprString(e) != *operand {
			return "", false
		}
		return "%s", true
	}
	return "", false
}

func exprString(e ast.Expr) string {
	switch e := e.(type) {
	case *ast.Ident:
		return e.Name
	case *ast.SelectorExpr:
		return exprString(e.X) + "." + e.Sel.Name
	}
	return fmt.Sprintf("%T@%d", e, e.Pos())
}

// constString: the value of the string constant / struct field default named name in file
func constString(file, name string) string {
	f := parse(file)
	val := ""
	ast.Inspect(f, func(n ast.Node) bool {
		switch n := n.(type) {
		case *ast.ValueSpec:
			for i, id := range n.Names {
				if id.Name == name && i < len(n.Values) {
					if s, ok := strLit(n.Values[i]); ok {
						val = s
					}
				}
			}
		case *ast.KeyValueExpr:
			if k, ok := n.Key.(*ast.Ident); ok && k.Name == name {
				if s, ok := strLit(n.Value); ok {
					val = s
				}
			}
		}
		return true
	})
	return val
}

func emitHeader(b *strings.Builder, name, doc string, fmts []string) {
	// exactly one build-constraint format is expected; anything else is emitted as the empty string and fails the theorems
	v := ""
	if len(fmts) == 1 {
		v = fmts[0]
	}
	fmt.Fprintf(b, "/-- %s -/\ndef %s : String := %s\n\n", doc, name, leanStr(v))
}

func main() {
	repo := flag.String("repo", "/repo", "repository root")
	out := flag.String("out", "", "output directory (lean/Gengo/Generated)")
	flag.Parse()
	var b strings.Builder
	b.WriteString("/-! GENERATED by /verif/go/extract from /repo's sources on every run – do not edit. -/\nnamespace Gengo.Generated\n\n")
	emitBuiltins(&b, "builtinsV1", builtins(filepath.Join(*repo, "types/types.go")))
	emitBuiltins(&b, "builtinsV2", builtins(filepath.Join(*repo, "v2/types/types.go")))
	emitHeader(&b, "headerFmtV2", "`GoBoilerplate` (v2/execute.go): the format of the build-constraint lines, applied to (buildTag, buildTag)", sprintfFormats(filepath.Join(*repo, "v2/execute.go"), "GoBoilerplate", "build"))
	emitHeader(&b, "headerFmtDeepcopy", "deepcopy-gen `Packages`: the format of the build-constraint lines, applied to (GeneratedBuildTag, GeneratedBuildTag)", sprintfFormats(filepath.Join(*repo, "examples/deepcopy-gen/generators/deepcopy.go"), "Packages", "build"))
	fmt.Fprintf(&b, "/-- `gengo.StdBuildTag` (v2/execute.go) -/\ndef stdBuildTagV2 : String := %s\n\n", leanStr(constString(filepath.Join(*repo, "v2/execute.go"), "StdBuildTag")))
	fmt.Fprintf(&b, "/-- `args.Default().GeneratedBuildTag` (args/args.go) -/\ndef generatedBuildTagV1 : String := %s\n\n", leanStr(constString(filepath.Join(*repo, "args/args.go"), "GeneratedBuildTag")))
	b.WriteString("end Gengo.Generated\n")
	must(os.MkdirAll(*out, 0o755))
	must(os.WriteFile(filepath.Join(*out, "Facts.lean"), []byte(b.String()), 0o644))
}

package main

import "verif/common"

func init() {
	props["C05"] = common.CommentsProperty(common.CmImpl{Load: func(prog *common.Program) (*common.USnap, error) {
		snap, _, _, err := loadHistoryV1(prog, []string{prog.Pkgs[0].Path}, nil)
		return snap, err
	}, LoadLater: func(prog *common.Program, first, then string) (*common.USnap, error) {
		snap, _, _, err := loadHistoryV1(prog, []string{first}, [][]string{{then}})
		return snap, err
	}, LoadAll: func(prog *common.Program) (*common.USnap, error) {
		var all []string
		for _, p := range prog.Pkgs {
			all = append(all, p.Path)
		}
		snap, _, _, err := loadHistoryV1(prog, all, nil)
		return snap, err
	}})
}

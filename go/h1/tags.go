package main

import (
	"k8s.io/gengo/types"
	"verif/common"
)

func init() {
	props["C08"] = common.TagsProperty(common.TagsImpl{
		Extract: types.ExtractCommentTags,
		Bool:    types.ExtractSingleBoolCommentTag,
		BoolOp:  "bool1",
	})
}

package main

import (
	"bytes"
	"path/filepath"

	"k8s.io/gengo/generator"
	"k8s.io/gengo/namer"
	"verif/common"
)

func asmFile(a *common.AsmFile) *generator.File {
	f := &generator.File{Name: "zz.go", FileType: "golang", PackageName: a.PkgName, Header: []byte(a.Header), Imports: map[string]struct{}{}}
	for _, i := range a.Imports {
		f.Imports[i] = struct{}{}
	}
	f.Vars.WriteString(a.Vars)
	f.Consts.WriteString(a.Consts)
	f.Body.WriteString(a.Body)
	return f
}

func init() {
	ft := generator.NewGolangFile()
	// "ex": the lines the generators contribute reach the file through the real ExecutePackage/ExecuteTarget
	props["C09"] = common.Combine(map[string]common.Property{"ex": common.ExecProperty(execImpl(), "C04", common.ExecGenContributions), "asm": common.AsmProperty(common.AsmImpl{
		Assemble: func(a *common.AsmFile) []byte {
			var b bytes.Buffer
			ft.Assemble(&b, asmFile(a))
			return b.Bytes()
		},
		Format:       ft.Format,
		AssembleFile: func(a *common.AsmFile, path string) error { return ft.AssembleFile(asmFile(a), path) },
		PackageRun: func(header, doc []byte, otherBody, dir string) error {
			c := &generator.Context{Namers: namer.NameSystems{}, FileTypes: map[string]generator.FileType{generator.GolangFileType: generator.NewGolangFile()}}
			p := &generator.DefaultPackage{PackageName: "demo", PackagePath: "demo", HeaderText: header, PackageDocumentation: doc,
				GeneratorList: []generator.Generator{generator.DefaultGen{OptionalName: "doc"}, generator.DefaultGen{OptionalName: "other", OptionalBody: []byte(otherBody)}}}
			return c.ExecutePackage(dir, p)
		},
	})})
}

var _ = filepath.Join

package main

import (
	"k8s.io/gengo/namer"
	"k8s.io/gengo/types"
	"verif/common"
)

func newStrategy(st common.StrategySpec) *namer.NameStrategy {
	var ns *namer.NameStrategy
	if st.Public {
		ns = namer.NewPublicNamer(st.Prepend, st.Ignore...)
	} else {
		ns = namer.NewPrivateNamer(st.Prepend, st.Ignore...)
	}
	ns.Prefix, ns.Suffix = st.Prefix, st.Suffix
	return ns
}

func init() {
	props["C14"] = common.NamerProperty(common.NamerImpl{
		Names: func(st common.StrategySpec, specs []*common.TypeSpec, order []int) []string {
			cache := map[string]*types.Type{}
			ts := make([]*types.Type, len(specs))
			for i, s := range specs {
				ts[i] = buildType(s, cache)
			}
			// the documented way to vary a strategy: copy one made by a constructor and change the members that differ.
			// The original then names the same types first: the copy's names must be its own.
			base := newStrategy(common.StrategySpec{Public: st.Public, Prepend: st.Prepend, Ignore: st.Ignore})
			copied := *base
			ns := &copied
			ns.Prefix, ns.Suffix = st.Prefix, st.Suffix
			for _, i := range order {
				func() {
					defer func() { recover() }()
					base.Name(ts[i])
				}()
			}
			out := make([]string, len(specs))
			for _, i := range order {
				func() {
					defer func() {
						if r := recover(); r != nil {
							out[i] = "panic"
						}
					}()
					out[i] = ns.Name(ts[i])
				}()
			}
			return out
		},
		Plural: func(exc map[string]string, fin, name string) string {
			t := &types.Type{Name: types.Name{Package: "p", Name: name}}
			switch fin {
			case "ic":
				return namer.NewPublicPluralNamer(exc).Name(t)
			case "il":
				return namer.NewPrivatePluralNamer(exc).Name(t)
			}
			return namer.NewAllLowercasePluralNamer(exc).Name(t)
		},
		IsPrivate: namer.IsPrivateGoName,
	})
}

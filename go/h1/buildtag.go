package main

import (
	"fmt"
	"go/build"
	"io"
	"os"
	"path/filepath"
	"strings"

	"k8s.io/gengo/args"
	dcgen "k8s.io/gengo/examples/deepcopy-gen/generators"
	"k8s.io/gengo/generator"
	"k8s.io/gengo/namer"
	"k8s.io/gengo/parser"
	"k8s.io/gengo/types"
	"verif/common"
)

const btPkg = "example.com/m/p"

func btWrite(root string, files, deps map[string]string) error {
	dir := filepath.Join(root, "src", btPkg)
	if err := os.MkdirAll(dir, 0o755); err != nil {
		return err
	}
	for n, src := range files {
		if err := os.MkdirAll(filepath.Dir(filepath.Join(dir, n)), 0o755); err != nil {
			return err
		}
		if err := os.WriteFile(filepath.Join(dir, n), []byte(src), 0o644); err != nil {
			return err
		}
	}
	for path, src := range deps {
		d := filepath.Join(root, "src", path)
		if err := os.MkdirAll(d, 0o755); err != nil {
			return err
		}
		if err := os.WriteFile(filepath.Join(d, "dep.go"), []byte(src), 0o644); err != nil {
			return err
		}
	}
	return os.WriteFile(filepath.Join(root, "boilerplate.txt"), nil, 0o644)
}

func btReadBack(dir string) (map[string]string, error) {
	out := map[string]string{}
	ents, err := os.ReadDir(dir)
	if err != nil {
		return nil, err
	}
	for _, e := range ents {
		if e.IsDir() {
			sub, err := btReadBack(filepath.Join(dir, e.Name()))
			if err != nil {
				return nil, err
			}
			for n, c := range sub {
				out[e.Name()+"/"+n] = c
			}
			continue
		}
		b, err := os.ReadFile(filepath.Join(dir, e.Name()))
		if err != nil {
			return nil, err
		}
		out[e.Name()] = string(b)
	}
	return out, nil
}

func useGopath(root string) {
	os.Setenv("GO111MODULE", "off")
	os.Setenv("GOPATH", root)
	build.Default.GOPATH = root
}

type inplaceGen struct {
	generator.DefaultGen
	pkg string
}

func (g inplaceGen) Filter(c *generator.Context, t *types.Type) bool {
	return t.Name.Package == g.pkg && t.Kind != types.DeclarationOf
}
func (g inplaceGen) GenerateType(c *generator.Context, t *types.Type, w io.Writer) error {
	_, err := fmt.Fprintf(w, "type Gen_%s struct{}\n\n", t.Name.Name)
	return err
}

func init() {
	props["C12"] = common.BuildTagProperty(common.BtImpl{
		Visible: func(files, deps map[string]string, tags []string) (*common.USnap, error) {
			gopathMu.Lock()
			defer gopathMu.Unlock()
			root, err := os.MkdirTemp("", "verif-bt-")
			if err != nil {
				return nil, err
			}
			defer os.RemoveAll(root)
			if err := btWrite(root, files, deps); err != nil {
				return nil, err
			}
			useGopath(root)
			b := parser.New()
			b.AddBuildTags(tags...)
			if err := b.AddDir(btPkg); err != nil {
				return nil, err
			}
			u, err := b.FindTypes()
			if err != nil {
				return nil, err
			}
			return snapshotUniverse(u), nil
		},
		Run: func(files, deps map[string]string, tag, out string, wild bool) (map[string]string, *common.USnap, error) {
			gopathMu.Lock()
			defer gopathMu.Unlock()
			// one and the same directory for every run of this process (runs are serialised by the lock): tools with
			// different tags then meet the same paths, as they do when several tools run over one tree in one process
			root := filepath.Join(os.TempDir(), fmt.Sprintf("verif-bt-tree-%d", os.Getpid()))
			os.RemoveAll(root)
			var err error
			if err = os.MkdirAll(root, 0o755); err != nil {
				return nil, nil, err
			}
			defer os.RemoveAll(root)
			if err := btWrite(root, files, deps); err != nil {
				return nil, nil, err
			}
			useGopath(root)
			inputs, pkgName, pkgPath := []string{btPkg}, "p", btPkg
			if wild {
				inputs, pkgName, pkgPath = []string{btPkg + "/..."}, "zzgen", btPkg+"/zzgen"
			}
			ga := &args.GeneratorArgs{InputDirs: inputs, OutputBase: filepath.Join(root, "src"), GeneratedBuildTag: tag,
				GoHeaderFilePath: filepath.Join(root, "boilerplate.txt"), OutputFileBaseName: strings.TrimSuffix(out, ".go")}
			var seen *common.USnap
			var herr error
			err = ga.Execute(namer.NameSystems{"public": namer.NewPublicNamer(0), "raw": namer.NewRawNamer("", nil)}, "public",
				func(c *generator.Context, a *args.GeneratorArgs) generator.Packages {
					seen = snapshotUniverse(c.Universe)
					// the header is made the way the example tools make it: negative constraint + LoadGoBoilerplate
					var boilerplate []byte
					boilerplate, herr = a.LoadGoBoilerplate()
					header := append([]byte(fmt.Sprintf("//go:build !%s\n// +build !%s\n\n", a.GeneratedBuildTag, a.GeneratedBuildTag)), boilerplate...)
					return generator.Packages{&generator.DefaultPackage{PackageName: pkgName, PackagePath: pkgPath, HeaderText: header,
						GeneratorList: []generator.Generator{inplaceGen{DefaultGen: generator.DefaultGen{OptionalName: a.OutputFileBaseName}, pkg: btPkg}}}}
				})
			if err == nil {
				err = herr
			}
			if err != nil {
				return nil, nil, err
			}
			after, err := btReadBack(filepath.Join(root, "src", btPkg))
			return after, seen, err
		},
		// the header of the real deepcopy-gen (examples/deepcopy-gen/generators.Packages) for this tag
		Header: func(tag string) ([]byte, error) {
			gopathMu.Lock()
			defer gopathMu.Unlock()
			root, err := os.MkdirTemp("", "verif-bt-")
			if err != nil {
				return nil, err
			}
			defer os.RemoveAll(root)
			files := map[string]string{"doc.go": "// +k8s:deepcopy-gen=package\n\npackage p\n", "types.go": "package p\n\ntype T struct{ A []int }\n"}
			if err := btWrite(root, files, nil); err != nil {
				return nil, err
			}
			useGopath(root)
			ga := &args.GeneratorArgs{InputDirs: []string{btPkg}, OutputBase: filepath.Join(root, "src"), GeneratedBuildTag: tag,
				GoHeaderFilePath: filepath.Join(root, "boilerplate.txt"), OutputFileBaseName: "deepcopy_generated", CustomArgs: &dcgen.CustomArgs{}}
			if err := ga.Execute(dcgen.NameSystems(), dcgen.DefaultNameSystem(), dcgen.Packages); err != nil {
				return nil, err
			}
			b, err := os.ReadFile(filepath.Join(root, "src", btPkg, "deepcopy_generated.go"))
			if err != nil {
				return nil, err
			}
			i := strings.Index(string(b), "package p")
			if i < 0 {
				return nil, fmt.Errorf("no package clause in deepcopy-gen's output")
			}
			return b[:i], nil
		},
	})
}

package main

import (
	"k8s.io/gengo/types"
	"verif/common"
)

// buildType turns a TypeSpec into a *types.Type; identical specs share one object (as the parser
// guarantees within a universe), so identity-keyed caches are exercised.
func buildType(s *common.TypeSpec, cache map[string]*types.Type) *types.Type {
	key := s.Enc()
	if t, ok := cache[key]; ok {
		return t
	}
	t := &types.Type{}
	cache[key] = t
	switch s.Kind {
	case "named":
		t.Name = types.Name{Package: s.Pkg, Name: s.Name}
		t.Kind = types.Struct
	case "builtin":
		t.Name = types.Name{Name: s.Name}
		t.Kind = types.Builtin
	case "other":
		t.Kind = types.Kind(s.Name)
	case "map":
		t.Kind = types.Map
		t.Key = buildType(s.Key, cache)
		t.Elem = buildType(s.Elem, cache)
	case "slice":
		t.Kind = types.Slice
		t.Elem = buildType(s.Elem, cache)
	case "array":
		t.Kind = types.Array
		t.Len = int64(s.Len)
		t.Elem = buildType(s.Elem, cache)
	case "pointer":
		t.Kind = types.Pointer
		t.Elem = buildType(s.Elem, cache)
	case "chan":
		t.Kind = types.Chan
		t.Elem = buildType(s.Elem, cache)
	case "struct":
		t.Kind = types.Struct
		for _, m := range s.Members {
			t.Members = append(t.Members, types.Member{Name: m.Name, Type: buildType(m.Type, cache)})
		}
	case "iface":
		t.Kind = types.Interface
		t.Methods = map[string]*types.Type{}
		for _, m := range s.Methods {
			t.Methods[m] = &types.Type{Name: types.Name{Name: m}, Kind: types.Func, Signature: &types.Signature{}}
		}
	case "func":
		t.Kind = types.Func
		t.Signature = &types.Signature{}
		for _, p := range s.Params {
			t.Signature.Parameters = append(t.Signature.Parameters, buildType(p, cache))
		}
		for _, p := range s.Results {
			t.Signature.Results = append(t.Signature.Results, buildType(p, cache))
		}
	}
	return t
}

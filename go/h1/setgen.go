package main

import (
	"fmt"
	"sort"
	"strings"

	"k8s.io/gengo/examples/set-gen/sets"
	"verif/common"
)

// ---- C17: the generated set types ----

// setI is the method set of a generated set type S with element type K.
type setI[K comparable, S any] interface {
	~map[K]sets.Empty
	Insert(items ...K) S
	Delete(items ...K) S
	Has(item K) bool
	HasAll(items ...K) bool
	HasAny(items ...K) bool
	Clone() S
	Difference(s2 S) S
	SymmetricDifference(s2 S) S
	Union(s2 S) S
	Intersection(s2 S) S
	IsSuperset(s2 S) bool
	Equal(s2 S) bool
	List() []K
	UnsortedList() []K
	PopAny() (K, bool)
	Len() int
}

type setOps struct {
	// run executes the history on fresh sets of the concrete type and returns outputs and failures
	run func(lines []string) ([]string, []common.Failure)
}

func parseSetKeys(s string) []int {
	if s == "-" {
		return nil
	}
	var out []int
	for _, p := range strings.Split(s, ";") {
		out = append(out, common.Atoi(p))
	}
	return out
}

func showSetKeys(ks []int) string {
	if len(ks) == 0 {
		return "-"
	}
	sort.Ints(ks)
	s := make([]string, len(ks))
	for i, k := range ks {
		s[i] = common.Itoa(k)
	}
	return strings.Join(s, ";")
}

// reference implementation: sorted int slices without duplicates
type refSet []int

func refOf(ks []int) refSet {
	m := map[int]bool{}
	for _, k := range ks {
		m[k] = true
	}
	var out refSet
	for k := range m {
		out = append(out, k)
	}
	sort.Ints(out)
	return out
}
func (r refSet) has(k int) bool {
	for _, x := range r {
		if x == k {
			return true
		}
	}
	return false
}
func (r refSet) String() string { return showSetKeys(append([]int(nil), r...)) }

func makeSetOps[K comparable, S setI[K, S]](newSet func(items ...K) S, fromKey func(int) K, toKey func(K) int, less func(a, b K) bool) setOps {
	conv := func(ks []int) []K {
		out := make([]K, len(ks))
		for i, k := range ks {
			out[i] = fromKey(k)
		}
		return out
	}
	keysOf := func(s S) []int {
		var out []int
		for k := range s {
			out = append(out, toKey(k))
		}
		return out
	}
	return setOps{run: func(lines []string) ([]string, []common.Failure) {
		outs := make([]string, len(lines))
		var fails []common.Failure
		var heap []S
		var ref []refSet
		fail := func(sig, what string) { fails = append(fails, common.Failure{Sig: sig, What: what}) }
		dump := func() string {
			parts := make([]string, len(heap))
			for i, s := range heap {
				parts[i] = "{" + showSetKeys(keysOf(s)) + "}"
			}
			return strings.Join(parts, " ")
		}
		checkRef := func(op string) {
			for i := range heap {
				if got := showSetKeys(keysOf(heap[i])); got != ref[i].String() {
					fail("set-semantics", fmt.Sprintf("after %s set %d holds {%s}, set theory says {%s}", op, i, got, ref[i]))
				}
			}
		}
		for idx, l := range lines {
			f := common.Fields(l)
			func() {
				defer func() {
					if r := recover(); r != nil {
						outs[idx] = "panic"
						fail("panic", fmt.Sprintf("%s panics: %v", common.Readable(l), r))
					}
				}()
				res := "-"
				alloc := func(s S, r refSet) {
					heap = append(heap, s)
					ref = append(ref, r)
					res = common.Itoa(len(heap) - 1)
				}
				b := func(x bool) string { return common.B01(x) }
				switch f[1] {
				case "reset":
					heap, ref = nil, nil
				case "new":
					ks := parseSetKeys(f[2])
					alloc(newSet(conv(ks)...), refOf(ks))
				case "clone":
					i := common.Atoi(f[2])
					alloc(heap[i].Clone(), append(refSet(nil), ref[i]...))
				case "list":
					i := common.Atoi(f[2])
					lst := heap[i].List()
					ks := make([]string, len(lst))
					for j, k := range lst {
						ks[j] = common.Itoa(toKey(k))
						if j > 0 && !less(lst[j-1], k) {
							fail("list-not-ascending", fmt.Sprintf("List() = %v is not strictly ascending", lst))
						}
					}
					if len(lst) != len(ref[i]) {
						fail("list-incomplete", fmt.Sprintf("List() has %d entries for a set of %d", len(lst), len(ref[i])))
					}
					res = "-"
					if len(ks) > 0 {
						res = strings.Join(ks, ";")
					}
					un := heap[i].UnsortedList()
					var uk []int
					for _, k := range un {
						uk = append(uk, toKey(k))
					}
					if showSetKeys(uk) != ref[i].String() || len(un) != len(ref[i]) {
						fail("unsortedlist", fmt.Sprintf("UnsortedList() = %v for {%s}", un, ref[i]))
					}
				case "len":
					i := common.Atoi(f[2])
					res = common.Itoa(heap[i].Len())
					if heap[i].Len() != len(ref[i]) {
						fail("len", fmt.Sprintf("Len() = %d for {%s}", heap[i].Len(), ref[i]))
					}
				case "popany":
					i := common.Atoi(f[2])
					k, ok := heap[i].PopAny()
					if !ok {
						res = "none"
						if len(ref[i]) != 0 {
							fail("popany", "PopAny reports an empty set for a non-empty one")
						}
					} else {
						res = common.Itoa(toKey(k))
						if !ref[i].has(toKey(k)) {
							fail("popany", fmt.Sprintf("PopAny returned %v, not a member of {%s}", k, ref[i]))
						}
						var nr refSet
						for _, x := range ref[i] {
							if x != toKey(k) {
								nr = append(nr, x)
							}
						}
						ref[i] = nr
					}
				case "insert", "delete":
					i := common.Atoi(f[2])
					ks := parseSetKeys(f[3])
					if f[1] == "insert" {
						heap[i].Insert(conv(ks)...)
						ref[i] = refOf(append(append([]int(nil), ref[i]...), ks...))
					} else {
						heap[i].Delete(conv(ks)...)
						var nr refSet
						for _, x := range ref[i] {
							del := false
							for _, k := range ks {
								if k == x {
									del = true
								}
							}
							if !del {
								nr = append(nr, x)
							}
						}
						ref[i] = nr
					}
				case "has":
					i, k := common.Atoi(f[2]), common.Atoi(f[3])
					got := heap[i].Has(fromKey(k))
					res = b(got)
					if got != ref[i].has(k) {
						fail("set-semantics", fmt.Sprintf("Has(%d) = %v on {%s}", k, got, ref[i]))
					}
				case "hasall", "hasany":
					i := common.Atoi(f[2])
					ks := parseSetKeys(f[3])
					all, any := true, false
					for _, k := range ks {
						if ref[i].has(k) {
							any = true
						} else {
							all = false
						}
					}
					var got, exp bool
					if f[1] == "hasall" {
						got, exp = heap[i].HasAll(conv(ks)...), all
					} else {
						got, exp = heap[i].HasAny(conv(ks)...), any
					}
					res = b(got)
					if got != exp {
						fail("set-semantics", fmt.Sprintf("%s(%v) = %v on {%s}", f[1], ks, got, ref[i]))
					}
				case "union", "inter", "diff", "symdiff", "superset", "equal":
					i, j := common.Atoi(f[2]), common.Atoi(f[3])
					var r refSet
					in := func(s refSet, k int) bool { return s.has(k) }
					all := refOf(append(append([]int(nil), ref[i]...), ref[j]...))
					for _, k := range all {
						a, bb := in(ref[i], k), in(ref[j], k)
						keep := false
						switch f[1] {
						case "union":
							keep = a || bb
						case "inter":
							keep = a && bb
						case "diff":
							keep = a && !bb
						case "symdiff":
							keep = a != bb
						}
						if keep {
							r = append(r, k)
						}
					}
					switch f[1] {
					case "union":
						alloc(heap[i].Union(heap[j]), r)
					case "inter":
						alloc(heap[i].Intersection(heap[j]), r)
					case "diff":
						alloc(heap[i].Difference(heap[j]), r)
					case "symdiff":
						alloc(heap[i].SymmetricDifference(heap[j]), r)
					case "superset":
						got := heap[i].IsSuperset(heap[j])
						exp := true
						for _, k := range ref[j] {
							if !ref[i].has(k) {
								exp = false
							}
						}
						res = b(got)
						if got != exp {
							fail("set-semantics", fmt.Sprintf("{%s}.IsSuperset({%s}) = %v", ref[i], ref[j], got))
						}
					case "equal":
						got := heap[i].Equal(heap[j])
						res = b(got)
						if got != (ref[i].String() == ref[j].String()) {
							fail("set-semantics", fmt.Sprintf("{%s}.Equal({%s}) = %v", ref[i], ref[j], got))
						}
					}
				default:
					outs[idx] = "bad-op"
					return
				}
				checkRef(f[1])
				outs[idx] = "r=" + res + " | " + dump()
			}()
		}
		return outs, fails
	}}
}

var setKinds = map[string]setOps{
	"int": makeSetOps[int, sets.Int](sets.NewInt, func(k int) int { return k - 3 }, func(v int) int { return v + 3 }, func(a, b int) bool { return a < b }),
	"int64": makeSetOps[int64, sets.Int64](sets.NewInt64, func(k int) int64 { return int64(k)*1000000007 - 5000000000 }, func(v int64) int { return int((v + 5000000000) / 1000000007) },
		func(a, b int64) bool { return a < b }),
	"byte": makeSetOps[byte, sets.Byte](sets.NewByte, func(k int) byte { return byte(k * 37) }, func(v byte) int { return int(v) / 37 }, func(a, b byte) bool { return a < b }),
	"string": makeSetOps[string, sets.String](sets.NewString, func(k int) string { return []string{"", "a", "ab", "b", "ba", "z", "é"}[k] },
		func(v string) int {
			for i, s := range []string{"", "a", "ab", "b", "ba", "z", "é"} {
				if s == v {
					return i
				}
			}
			panic("unknown element " + v)
		}, func(a, b string) bool { return a < b }),
}

func setGen(c *common.Ctx) {
	r := c.RNG("gen")
	kinds := []string{"int", "int64", "byte", "string"}
	genKeys := func(universe int) string {
		var ks []string
		for k := r.Intn(4); k > 0; k-- {
			ks = append(ks, common.Itoa(r.Intn(universe)))
		}
		if len(ks) == 0 {
			return "-"
		}
		return strings.Join(ks, ";")
	}
	emit := func(kind string, ops []string, feats []string) {
		lines := []string{common.Line("set", "reset", kind)}
		lines = append(lines, ops...)
		c.Case(lines, common.Meta{Nontrivial: len(ops) >= 3, Features: append(feats, "kind:"+kind)})
	}
	n := c.Scale(20000, 300000)
	for it := 0; it < n; it++ {
		kind := kinds[r.Intn(4)]
		universe := 3 + r.Intn(4)
		var ops []string
		sizes := []int{} // upper bound tracking is not needed except for popany: track emptiness via a reference
		refs := []map[int]bool{}
		newSet := func(keys string) {
			m := map[int]bool{}
			for _, k := range parseSetKeys(keys) {
				m[k] = true
			}
			refs = append(refs, m)
			sizes = append(sizes, len(m))
		}
		k0 := genKeys(universe)
		ops = append(ops, common.Line("set", "new", k0))
		newSet(k0)
		steps := 1 + r.Intn(7)
		for s := 0; s < steps; s++ {
			i, j := r.Intn(len(refs)), r.Intn(len(refs))
			bin := func(op string, f func(a, b bool) bool) {
				ops = append(ops, common.Line("set", op, common.Itoa(i), common.Itoa(j)))
				m := map[int]bool{}
				for k := 0; k < 8; k++ {
					if f(refs[i][k], refs[j][k]) {
						m[k] = true
					}
				}
				refs = append(refs, m)
			}
			switch r.Intn(16) {
			case 0:
				k := genKeys(universe)
				ops = append(ops, common.Line("set", "new", k))
				newSet(k)
			case 1:
				k := genKeys(universe)
				ops = append(ops, common.Line("set", "insert", common.Itoa(i), k))
				for _, x := range parseSetKeys(k) {
					refs[i][x] = true
				}
			case 2:
				k := genKeys(universe)
				ops = append(ops, common.Line("set", "delete", common.Itoa(i), k))
				for _, x := range parseSetKeys(k) {
					delete(refs[i], x)
				}
			case 3:
				ops = append(ops, common.Line("set", "has", common.Itoa(i), common.Itoa(r.Intn(universe))))
			case 4:
				ops = append(ops, common.Line("set", "hasall", common.Itoa(i), genKeys(universe)))
			case 5:
				ops = append(ops, common.Line("set", "hasany", common.Itoa(i), genKeys(universe)))
			case 6:
				ops = append(ops, common.Line("set", "clone", common.Itoa(i)))
				m := map[int]bool{}
				for k, v := range refs[i] {
					m[k] = v
				}
				refs = append(refs, m)
			case 7:
				bin("union", func(a, b bool) bool { return a || b })
			case 8:
				bin("inter", func(a, b bool) bool { return a && b })
			case 9:
				bin("diff", func(a, b bool) bool { return a && !b })
			case 10:
				bin("symdiff", func(a, b bool) bool { return a != b })
			case 11:
				ops = append(ops, common.Line("set", "superset", common.Itoa(i), common.Itoa(j)))
			case 12:
				ops = append(ops, common.Line("set", "equal", common.Itoa(i), common.Itoa(j)))
			case 13:
				ops = append(ops, common.Line("set", "list", common.Itoa(i)))
			case 14:
				ops = append(ops, common.Line("set", "len", common.Itoa(i)))
			case 15:
				cnt := 0
				for _, v := range refs[i] {
					if v {
						cnt++
					}
				}
				if cnt <= 1 { // which member is popped is the runtime's choice: only deterministic cases go to the model
					ops = append(ops, common.Line("set", "popany", common.Itoa(i)))
					refs[i] = map[int]bool{}
				}
			}
		}
		emit(kind, ops, nil)
		if it%10 == 0 {
			// PopAny on larger sets: judged by the oracle only (the popped member is not determined)
			lines := []string{common.Line("set", "reset", kind), common.Line("set", "new", "0;1;2;3"), common.Line("set", "popany", "0"), common.Line("set", "popany", "0"), common.Line("set", "list", "0")}
			c.Case(lines, common.Meta{Nontrivial: true, NoModel: true, Features: []string{"popany-oracle-only", "kind:" + kind}})
		}
	}
	if c.Tier == "thorough" {
		// all operation sequences of length <= 4 over a 3-element universe, from two fixed sets
		base := []string{common.Line("set", "new", "0;1"), common.Line("set", "new", "1;2")}
		alphabet := []string{
			common.Line("set", "insert", "0", "2"), common.Line("set", "delete", "0", "1"), common.Line("set", "delete", "1", "1;2"),
			common.Line("set", "union", "0", "1"), common.Line("set", "inter", "0", "1"), common.Line("set", "diff", "0", "1"),
			common.Line("set", "symdiff", "1", "0"), common.Line("set", "equal", "0", "1"), common.Line("set", "superset", "0", "1"),
			common.Line("set", "clone", "1"), common.Line("set", "list", "0"), common.Line("set", "insert", "1", "0"),
		}
		var rec func(seq []string)
		rec = func(seq []string) {
			if len(seq) > 0 {
				emit("int", append(append([]string(nil), base...), seq...), []string{"exhaustive"})
			}
			if len(seq) == 4 {
				return
			}
			for _, a := range alphabet {
				rec(append(seq[:len(seq):len(seq)], a))
			}
		}
		rec(nil)
	}
}

func init() {
	props["C17"] = common.Combine(map[string]common.Property{
		"set": {
			Gen: setGen,
			Exec: func(lines []string) ([]string, []common.Failure) {
				kind := common.Fields(lines[0])[2]
				return setKinds[kind].run(lines)
			},
		},
		"flat": {Gen: flatGen, Exec: flatExec},
	})
}

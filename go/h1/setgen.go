package main

import (
	"strings"

	"k8s.io/gengo/examples/set-gen/sets"
	"verif/common"
	"verif/common/setrun"
)

// ---- C17: the generated set types ----

type setOps = setrun.Ops

func parseSetKeys(s string) []int { return setrun.ParseSetKeys(s) }

func makeSetOps[K comparable, S setrun.SetI[K, sets.Empty, S]](newSet func(items ...K) S, fromKey func(int) K, toKey func(K) int, less func(a, b K) bool, keySet func(interface{}) S) setOps {
	return setrun.Run[K, sets.Empty, S](newSet, fromKey, toKey, less, keySet)
}

var setKinds = map[string]setOps{
	"int": makeSetOps[int, sets.Int](sets.NewInt, func(k int) int { return k - 3 }, func(v int) int { return v + 3 }, func(a, b int) bool { return a < b }, sets.IntKeySet),
	"int64": makeSetOps[int64, sets.Int64](sets.NewInt64, func(k int) int64 { return int64(k)*1000000007 - 5000000000 }, func(v int64) int { return int((v + 5000000000) / 1000000007) },
		func(a, b int64) bool { return a < b }, sets.Int64KeySet),
	"byte": makeSetOps[byte, sets.Byte](sets.NewByte, func(k int) byte { return byte(k * 37) }, func(v byte) int { return int(v) / 37 }, func(a, b byte) bool { return a < b }, sets.ByteKeySet),
	"string": makeSetOps[string, sets.String](sets.NewString, func(k int) string { return []string{"", "a", "ab", "b", "ba", "z", "é"}[k] },
		func(v string) int {
			for i, s := range []string{"", "a", "ab", "b", "ba", "z", "é"} {
				if s == v {
					return i
				}
			}
			panic("unknown element " + v)
		}, func(a, b string) bool { return a < b }, sets.StringKeySet),
}

// genHistory generates one random history (without the reset line) over a universe of keys 0..universe-1
func genHistory(r *common.RNG, universe int) []string {
	genKeys := func(universe int) string {
		var ks []string
		for k := r.Intn(4); k > 0; k-- {
			ks = append(ks, common.Itoa(r.Intn(universe)))
		}
		if len(ks) == 0 {
			return "-"
		}
		return strings.Join(ks, ";")
	}
	var ops []string
	sizes := []int{} // upper bound tracking is not needed except for popany: track emptiness via a reference
	refs := []map[int]bool{}
	newSet := func(keys string) {
		m := map[int]bool{}
		for _, k := range parseSetKeys(keys) {
			m[k] = true
		}
		refs = append(refs, m)
		sizes = append(sizes, len(m))
	}
	k0 := genKeys(universe)
	ops = append(ops, common.Line("set", "new", k0))
	newSet(k0)
	steps := 1 + r.Intn(7)
	for s := 0; s < steps; s++ {
		i, j := r.Intn(len(refs)), r.Intn(len(refs))
		bin := func(op string, f func(a, b bool) bool) {
			ops = append(ops, common.Line("set", op, common.Itoa(i), common.Itoa(j)))
			m := map[int]bool{}
			for k := 0; k < 8; k++ {
				if f(refs[i][k], refs[j][k]) {
					m[k] = true
				}
			}
			refs = append(refs, m)
		}
		switch r.Intn(16) {
		case 0:
			k := genKeys(universe)
			ops = append(ops, common.Line("set", "new", k))
			newSet(k)
		case 1:
			k := genKeys(universe)
			ops = append(ops, common.Line("set", "insert", common.Itoa(i), k))
			for _, x := range parseSetKeys(k) {
				refs[i][x] = true
			}
		case 2:
			k := genKeys(universe)
			ops = append(ops, common.Line("set", "delete", common.Itoa(i), k))
			for _, x := range parseSetKeys(k) {
				delete(refs[i], x)
			}
		case 3:
			ops = append(ops, common.Line("set", "has", common.Itoa(i), common.Itoa(r.Intn(universe))))
		case 4:
			ops = append(ops, common.Line("set", "hasall", common.Itoa(i), genKeys(universe)))
		case 5:
			ops = append(ops, common.Line("set", "hasany", common.Itoa(i), genKeys(universe)))
		case 6:
			ops = append(ops, common.Line("set", "clone", common.Itoa(i)))
			m := map[int]bool{}
			for k, v := range refs[i] {
				m[k] = v
			}
			refs = append(refs, m)
		case 7:
			bin("union", func(a, b bool) bool { return a || b })
		case 8:
			bin("inter", func(a, b bool) bool { return a && b })
		case 9:
			bin("diff", func(a, b bool) bool { return a && !b })
		case 10:
			bin("symdiff", func(a, b bool) bool { return a != b })
		case 11:
			ops = append(ops, common.Line("set", "superset", common.Itoa(i), common.Itoa(j)))
		case 12:
			ops = append(ops, common.Line("set", "equal", common.Itoa(i), common.Itoa(j)))
		case 13:
			ops = append(ops, common.Line("set", "list", common.Itoa(i)))
		case 14:
			ops = append(ops, common.Line("set", "len", common.Itoa(i)))
		case 15:
			cnt := 0
			for _, v := range refs[i] {
				if v {
					cnt++
				}
			}
			if cnt <= 1 { // which member is popped is the runtime's choice: only deterministic cases go to the model
				ops = append(ops, common.Line("set", "popany", common.Itoa(i)))
				refs[i] = map[int]bool{}
			}
		}
	}
	return ops
}

func setGen(c *common.Ctx) {
	r := c.RNG("gen")
	kinds := []string{"int", "int64", "byte", "string"}
	emit := func(kind string, ops []string, feats []string) {
		lines := []string{common.Line("set", "reset", kind)}
		lines = append(lines, ops...)
		c.Case(lines, common.Meta{Nontrivial: len(ops) >= 3, Features: append(feats, "kind:"+kind)})
	}
	n := c.Scale(20000, 300000)
	for it := 0; it < n; it++ {
		kind := kinds[r.Intn(4)]
		ops := genHistory(r, 3+r.Intn(4))
		emit(kind, ops, nil)
		if it%10 == 0 {
			// PopAny on larger sets: judged by the oracle only (the popped member is not determined)
			lines := []string{common.Line("set", "reset", kind), common.Line("set", "new", "0;1;2;3"), common.Line("set", "popany", "0"), common.Line("set", "popany", "0"), common.Line("set", "list", "0")}
			c.Case(lines, common.Meta{Nontrivial: true, NoModel: true, Features: []string{"popany-oracle-only", "kind:" + kind}})
		}
	}
	// sets regenerated from the current templates by the real set-gen (child process), incl. struct keys
	rr := c.RNG("regen")
	var batch []common.PCase
	for p, np := 0, c.Scale(6, 60); p < np; p++ {
		lines, feats := genRegenCase(rr, c.Scale(150, 400), p)
		batch = append(batch, common.PCase{Lines: lines, Meta: common.Meta{Nontrivial: true, Features: feats}})
	}
	c.Cases(batch, 6)
	if c.Tier == "thorough" {
		// all operation sequences of length <= 4 over a 3-element universe, from two fixed sets
		base := []string{common.Line("set", "new", "0;1"), common.Line("set", "new", "1;2")}
		alphabet := []string{
			common.Line("set", "insert", "0", "2"), common.Line("set", "delete", "0", "1"), common.Line("set", "delete", "1", "1;2"),
			common.Line("set", "union", "0", "1"), common.Line("set", "inter", "0", "1"), common.Line("set", "diff", "0", "1"),
			common.Line("set", "symdiff", "1", "0"), common.Line("set", "equal", "0", "1"), common.Line("set", "superset", "0", "1"),
			common.Line("set", "clone", "1"), common.Line("set", "list", "0"), common.Line("set", "insert", "1", "0"),
		}
		var rec func(seq []string)
		rec = func(seq []string) {
			if len(seq) > 0 {
				emit("int", append(append([]string(nil), base...), seq...), []string{"exhaustive"})
			}
			if len(seq) == 4 {
				return
			}
			for _, a := range alphabet {
				rec(append(seq[:len(seq):len(seq)], a))
			}
		}
		rec(nil)
	}
}

func init() {
	props["C17"] = common.Combine(map[string]common.Property{
		"set": {
			Gen: setGen,
			Exec: func(lines []string) ([]string, []common.Failure) {
				if common.Fields(lines[0])[1] == "regen" {
					return regenExec(lines)
				}
				kind := common.Fields(lines[0])[2]
				outs, fs := setKinds[kind].Run(lines)
				var fails []common.Failure
				for _, f := range fs {
					fails = append(fails, common.Failure{Sig: f.Sig, What: f.What})
				}
				return outs, fails
			},
		},
		"flat": {Gen: flatGen, Exec: flatExec},
	})
}

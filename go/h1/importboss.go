package main

import (
	"encoding/json"
	"fmt"
	"go/build"
	"os"
	"path/filepath"
	"regexp"
	"sort"
	"strings"

	ibgen "k8s.io/gengo/examples/import-boss/generators"

	"k8s.io/gengo/args"
	"k8s.io/gengo/generator"
	"k8s.io/gengo/namer"
	"k8s.io/gengo/parser"
	"k8s.io/gengo/types"
	"verif/common"
)

// ---- C18: import-boss verdicts and the transitive closure ----

type ibRule struct {
	SelectorRegexp    string
	AllowedPrefixes   []string
	ForbiddenPrefixes []string
}
type ibInv struct {
	SelectorRegexp    string
	AllowedPrefixes   []string
	ForbiddenPrefixes []string
	Transitive        bool
}
type ibFile struct {
	Rules        []ibRule
	InverseRules []ibInv
}

type ibWorld struct {
	paths []string
	edges [][2]string // importer, imported
	files map[string]ibFile
}

func ibSimpleMatch(sel, v string) bool {
	a := strings.HasPrefix(sel, "^")
	s1 := strings.TrimPrefix(sel, "^")
	e := strings.HasSuffix(s1, "$")
	lit := strings.TrimSuffix(s1, "$")
	switch {
	case lit == ".*" || lit == "":
		return true
	case a && e:
		return v == lit
	case a:
		return strings.HasPrefix(v, lit)
	case e:
		return strings.HasSuffix(v, lit)
	}
	return strings.Contains(v, lit)
}

var ibPaths = []string{"a", "a/b", "a/b/c", "k8s", "k8s/api", "x"}
var ibSelectors = []string{"", ".*", "^a", "b$", "k8s", "^k8s/api$", "x", "a/b", "^a$"}
var ibPrefixes = []string{"a", "a/b", "k8s", "k8s/api", "x", "", "a/b/c"}

func ibSelfCheck() []string {
	var errs []string
	for _, s := range ibSelectors {
		re := regexp.MustCompile(s)
		for _, p := range ibPaths {
			if re.MatchString(p) != ibSimpleMatch(s, p) {
				errs = append(errs, fmt.Sprintf("simple matcher disagrees with regexp on %q ~ %q", s, p))
			}
		}
	}
	return errs
}

func (w *ibWorld) universe(root string) types.Universe {
	u := types.Universe{}
	for _, p := range w.paths {
		pkg := u.Package(p)
		pkg.Name = filepath.Base(p)
		pkg.SourcePath = filepath.Join(root, "src", p)
	}
	for _, e := range w.edges {
		u[e[0]].Imports[e[1]] = u[e[1]]
	}
	return u
}

// closureAfterAdd loads the first packages of the world into a real Builder (GOPATH mode, scratch tree), makes a Context,
// asks for the closures, then adds the remaining packages one at a time with Context.AddDirectory and asks again; every
// answer is compared with the reachability computed from the universe's Imports at that moment.
func (w *ibWorld) closureAfterAdd() string {
	if len(w.paths) < 2 {
		return ""
	}
	prog := &common.Program{Module: "ib"}
	for _, p := range w.paths {
		src := "package " + strings.ReplaceAll(filepath.Base(p), "-", "_") + "\n\n"
		var imps []string
		for _, e := range w.edges {
			if e[0] == p {
				imps = append(imps, e[1])
				src += fmt.Sprintf("import _ %q\n", e[1])
			}
		}
		prog.Pkgs = append(prog.Pkgs, &common.ProgPkg{Path: p, Name: filepath.Base(p), File: "x.go", Imports: imps, Source: src})
	}
	gopathMu.Lock()
	defer gopathMu.Unlock()
	root, err := writeGopath(prog)
	if root != "" {
		defer os.RemoveAll(root)
	}
	if err != nil {
		return ""
	}
	os.Setenv("GO111MODULE", "off")
	os.Setenv("GOPATH", root)
	build.Default.GOPATH = root
	b := parser.New()
	k := (len(w.paths) + 1) / 2
	for _, p := range w.paths[:k] {
		if err := b.AddDir(p); err != nil {
			return "" // import cycles etc.: not this scenario's business
		}
	}
	c, err := generator.NewContext(b, namer.NameSystems{"raw": namer.NewRawNamer("", nil)}, "raw")
	if err != nil {
		return ""
	}
	check := func(when string) string {
		got := c.TransitiveIncomingImports()
		direct := c.IncomingImports()
		// oracle: importers by reachability over the universe's Imports now
		imp := map[string][]string{}
		for _, pk := range c.Universe {
			for i := range pk.Imports {
				imp[i] = append(imp[i], pk.Path)
			}
		}
		for key := range imp {
			seen := map[string]bool{}
			stack := append([]string(nil), imp[key]...)
			for len(stack) > 0 {
				n := stack[len(stack)-1]
				stack = stack[:len(stack)-1]
				if seen[n] {
					continue
				}
				seen[n] = true
				stack = append(stack, imp[n]...)
			}
			want := common.SortedKeys(seen)
			have := append([]string(nil), got[key]...)
			sort.Strings(have)
			if strings.Join(want, ",") != strings.Join(have, ",") {
				return fmt.Sprintf("%s: transitive importers of %s are %v, the universe's imports give %v", when, key, have, want)
			}
			d := append([]string(nil), direct[key]...)
			sort.Strings(d)
			wd := append([]string(nil), imp[key]...)
			sort.Strings(wd)
			if strings.Join(d, ",") != strings.Join(wd, ",") {
				return fmt.Sprintf("%s: direct importers of %s are %v, the universe's imports give %v", when, key, d, wd)
			}
		}
		return ""
	}
	if m := check("after NewContext"); m != "" {
		return m
	}
	for i, p := range w.paths[k:] {
		// both entry points, the current one and the deprecated one
		if i%2 == 0 {
			if _, err := c.AddDirectory(p); err != nil {
				return ""
			}
		} else if err := c.AddDir(p); err != nil {
			return ""
		}
		if m := check("after AddDirectory/AddDir(" + p + ")"); m != "" {
			return m
		}
	}
	return ""
}

func (w *ibWorld) materialise() string {
	root, err := os.MkdirTemp("", "verif-ib-")
	if err != nil {
		panic(err)
	}
	for d, f := range w.files {
		dir := filepath.Join(root, "src", d)
		os.MkdirAll(dir, 0o755)
		b, _ := json.Marshal(f)
		os.WriteFile(filepath.Join(dir, ".import-restrictions"), b, 0o644)
	}
	return root
}

// real tool: verdict of one package
func (w *ibWorld) realVerdict(root, pkg string) bool {
	c := &generator.Context{Universe: w.universe(root)}
	pkgs := ibgen.Packages(c, &args.GeneratorArgs{InputDirs: []string{pkg}})
	out := filepath.Join(root, "out")
	for _, p := range pkgs {
		if p.Path() == pkg {
			return c.ExecutePackage(out, p) == nil
		}
	}
	panic("package not selected: " + pkg)
}

// real tool: all packages of the world verified in one run, on one Context and one universe (what the tool does when it
// is given several input directories), in the order Packages returns them or in the reverse of it
func (w *ibWorld) realVerdictsShared(root string, reverse bool) map[string]bool {
	c := &generator.Context{Universe: w.universe(root)}
	pkgs := ibgen.Packages(c, &args.GeneratorArgs{InputDirs: append([]string(nil), w.paths...)})
	if reverse {
		for i, j := 0, len(pkgs)-1; i < j; i, j = i+1, j-1 {
			pkgs[i], pkgs[j] = pkgs[j], pkgs[i]
		}
	}
	out := filepath.Join(root, "out")
	res := map[string]bool{}
	for _, p := range pkgs {
		res[p.Path()] = c.ExecutePackage(out, p) == nil
	}
	return res
}

func (w *ibWorld) reach(from string, forward bool) []string {
	seen := map[string]bool{}
	var stack []string
	push := func(n string) {
		for _, e := range w.edges {
			a, b := e[0], e[1]
			if !forward {
				a, b = b, a
			}
			if a == n && !seen[b] {
				seen[b] = true
				stack = append(stack, b)
			}
		}
	}
	push(from)
	for len(stack) > 0 {
		n := stack[len(stack)-1]
		stack = stack[:len(stack)-1]
		push(n)
	}
	return common.SortedKeys(seen)
}

func dirChain(p string) []string {
	segs := strings.Split(p, "/")
	var out []string
	for i := len(segs); i >= 0; i-- {
		out = append(out, strings.Join(segs[:i], "/"))
	}
	return out
}

func firstMatchOK(sel []ibRule, v string) bool {
	for _, r := range sel {
		if !regexp.MustCompile(r.SelectorRegexp).MatchString(v) {
			continue
		}
		allowed, forbidden := false, false
		for _, a := range r.AllowedPrefixes {
			if strings.HasPrefix(v, a) {
				allowed = true
			}
		}
		for _, f := range r.ForbiddenPrefixes {
			if strings.HasPrefix(v, f) {
				forbidden = true
			}
		}
		return allowed && !forbidden
	}
	return true
}

// oracle: the property's statement
func (w *ibWorld) specVerdict(pkg string) bool {
	var rules []ibRule
	var inv []ibInv
	for _, d := range dirChain(pkg) {
		if f, ok := w.files[d]; ok {
			rules = append(rules, f.Rules...)
			inv = append(inv, f.InverseRules...)
		}
	}
	for _, v := range w.reach(pkg, true) {
		if !firstMatchOK(rules, v) {
			return false
		}
	}
	direct := map[string]bool{}
	for _, e := range w.edges {
		if e[1] == pkg {
			direct[e[0]] = true
		}
	}
	for _, v := range w.reach(pkg, false) {
		var app []ibRule
		for _, r := range inv {
			if r.Transitive || direct[v] {
				app = append(app, ibRule{r.SelectorRegexp, r.AllowedPrefixes, r.ForbiddenPrefixes})
			}
		}
		if !firstMatchOK(app, v) {
			return false
		}
	}
	return true
}

func ibExec(lines []string) ([]string, []common.Failure) {
	outs := make([]string, len(lines))
	var fails []common.Failure
	w := &ibWorld{files: map[string]ibFile{}}
	root := ""
	var shared []map[string]bool
	defer func() {
		if root != "" {
			os.RemoveAll(root)
		}
	}()
	for i, l := range lines {
		f := common.Fields(l)
		func() {
			defer func() {
				if r := recover(); r != nil {
					outs[i] = "panic"
					fails = append(fails, common.Failure{Sig: "panic", What: fmt.Sprintf("%s panics: %v", common.Readable(l), r)})
				}
			}()
			switch f[1] {
			case "new":
				w = &ibWorld{files: map[string]ibFile{}}
				outs[i] = "ok"
			case "pkg":
				w.paths = append(w.paths, common.Unhex(f[2]))
				outs[i] = "ok"
			case "edge":
				w.edges = append(w.edges, [2]string{common.Unhex(f[2]), common.Unhex(f[3])})
				outs[i] = "ok"
			case "file":
				var ff ibFile
				if f[3] != "-" {
					for _, r := range strings.Split(f[3], ";") {
						p := strings.Split(r, ":")
						ff.Rules = append(ff.Rules, ibRule{common.Unhex(p[0]), common.UnhexList(p[1]), common.UnhexList(p[2])})
					}
				}
				if f[4] != "-" {
					for _, r := range strings.Split(f[4], ";") {
						p := strings.Split(r, ":")
						ff.InverseRules = append(ff.InverseRules, ibInv{common.Unhex(p[1]), common.UnhexList(p[2]), common.UnhexList(p[3]), p[0] == "1"})
					}
				}
				w.files[common.Unhex(f[2])] = ff
				outs[i] = "ok"
			case "verdict":
				if root == "" {
					root = w.materialise()
				}
				pkg := common.Unhex(f[2])
				got := w.realVerdict(root, pkg)
				for k := 0; k < 6; k++ {
					if w.realVerdict(root, pkg) != got {
						fails = append(fails, common.Failure{Sig: "verdict-order-dependent", What: fmt.Sprintf("package %s passes in one run and fails in another", pkg)})
						break
					}
				}
				if shared == nil {
					shared = []map[string]bool{w.realVerdictsShared(root, false), w.realVerdictsShared(root, true)}
				}
				for k, sh := range shared {
					if v, ok := sh[pkg]; ok && v != got {
						fails = append(fails, common.Failure{Sig: "verdict-depends-on-other-inputs", What: fmt.Sprintf("package %s: pass=%v when verified alone, pass=%v when all packages are verified in one run (order %d)", pkg, got, v, k)})
						break
					}
				}
				if spec := w.specVerdict(pkg); spec != got {
					fails = append(fails, common.Failure{Sig: "verdict-not-first-match", What: fmt.Sprintf("package %s: tool says pass=%v, first-match semantics says pass=%v (edges %v, files %+v)", pkg, got, spec, w.edges, w.files)})
				}
				outs[i] = map[bool]string{true: "pass", false: "fail"}[got]
			case "closure":
				var first string
				for k := 0; k < 8; k++ {
					c := &generator.Context{Universe: w.universe("/nonexistent")}
					tc := c.TransitiveIncomingImports()
					var parts []string
					for _, key := range common.SortedKeys(tc) {
						parts = append(parts, common.Hex(key)+"="+common.HexList(tc[key]))
						if !sort.StringsAreSorted(tc[key]) {
							fails = append(fails, common.Failure{Sig: "closure-unsorted", What: fmt.Sprintf("importers of %s not sorted: %v", key, tc[key])})
						}
						if exp := w.reach(key, false); strings.Join(exp, ",") != strings.Join(tc[key], ",") {
							fails = append(fails, common.Failure{Sig: "closure-not-reachability", What: fmt.Sprintf("transitive importers of %s: %v, reachability gives %v (edges %v)", key, tc[key], exp, w.edges)})
						}
					}
					s := strings.Join(parts, ";")
					if k == 0 {
						first = s
					} else if s != first {
						fails = append(fails, common.Failure{Sig: "closure-order-dependent", What: "two runs of the closure over the same graph differ"})
					}
				}
				outs[i] = first
				// the same through a real Context that grows: the closures are cached lazily, and AddDirectory must
				// invalidate them (a stale cache would judge inverse rules on yesterday's import graph)
				if msg := w.closureAfterAdd(); msg != "" {
					fails = append(fails, common.Failure{Sig: "closure-stale-after-add", What: msg})
				}
			case "imports":
				pkg := common.Unhex(f[2])
				// what the tool feeds into the rules: importRules.Imports – observed through a permissive run is
				// not possible, so use the oracle's forward reachability (compared with the model's)
				outs[i] = common.HexList(w.reach(pkg, true))
			default:
				outs[i] = "bad-op"
			}
		}()
	}
	return outs, fails
}

func ibLines(w *ibWorld, queries []string) []string {
	ls := []string{common.Line("ib", "new")}
	paths := append([]string(nil), w.paths...)
	sort.Strings(paths)
	for _, p := range paths {
		ls = append(ls, common.Line("ib", "pkg", common.Hex(p)))
	}
	for _, e := range w.edges {
		ls = append(ls, common.Line("ib", "edge", common.Hex(e[0]), common.Hex(e[1])))
	}
	for _, d := range common.SortedKeys(w.files) {
		f := w.files[d]
		var rs, is []string
		for _, r := range f.Rules {
			rs = append(rs, common.Hex(r.SelectorRegexp)+":"+common.HexList(r.AllowedPrefixes)+":"+common.HexList(r.ForbiddenPrefixes))
		}
		for _, r := range f.InverseRules {
			is = append(is, common.B01(r.Transitive)+":"+common.Hex(r.SelectorRegexp)+":"+common.HexList(r.AllowedPrefixes)+":"+common.HexList(r.ForbiddenPrefixes))
		}
		j := func(l []string) string {
			if len(l) == 0 {
				return "-"
			}
			return strings.Join(l, ";")
		}
		ls = append(ls, common.Line("ib", "file", common.Hex(d), j(rs), j(is)))
	}
	ls = append(ls, common.Line("ib", "closure"))
	for _, q := range queries {
		ls = append(ls, common.Line("ib", "imports", common.Hex(q)), common.Line("ib", "verdict", common.Hex(q)))
	}
	return ls
}

func ibGen(c *common.Ctx) {
	r := c.RNG("gen")
	pickSome := func(from []string, max int) []string {
		var out []string
		for k := r.Intn(max + 1); k > 0; k-- {
			out = append(out, r.Pick(from))
		}
		return out
	}
	genFiles := func(w *ibWorld) {
		for _, d := range []string{"", "a", "a/b", "k8s", "a/b/c", "x"} {
			if !r.Chance(1, 3) {
				continue
			}
			var f ibFile
			for k := r.Intn(3); k > 0; k-- {
				f.Rules = append(f.Rules, ibRule{r.Pick(ibSelectors), pickSome(ibPrefixes, 2), pickSome(ibPrefixes, 1)})
			}
			for k := r.Intn(3); k > 0; k-- {
				f.InverseRules = append(f.InverseRules, ibInv{r.Pick(ibSelectors), pickSome(ibPrefixes, 2), pickSome(ibPrefixes, 1), r.Bool()})
			}
			w.files[d] = f
		}
	}
	n := c.Scale(1500, 20000)
	for it := 0; it < n; it++ {
		w := &ibWorld{files: map[string]ibFile{}}
		np := 2 + r.Intn(5)
		perm := r.Perm(len(ibPaths))
		for i := 0; i < np; i++ {
			w.paths = append(w.paths, ibPaths[perm[i]])
		}
		seen := map[[2]string]bool{}
		for k := r.Intn(2*np + 1); k > 0; k-- {
			a, b := w.paths[r.Intn(np)], w.paths[r.Intn(np)]
			if a == b || seen[[2]string{a, b}] {
				continue
			}
			seen[[2]string{a, b}] = true
			w.edges = append(w.edges, [2]string{a, b})
		}
		genFiles(w)
		feats := []string{fmt.Sprintf("pkgs:%d", np)}
		if len(w.files) > 1 {
			feats = append(feats, "stacked-files")
		}
		c.Case(ibLines(w, w.paths), common.Meta{Nontrivial: len(w.edges) >= 2 && len(w.files) > 0, Features: feats})
	}
	if c.Tier == "thorough" {
		// all digraphs on 4 nodes (no self loops): closure + one sampled rule stack each
		nodes := []string{"a", "a/b", "k8s", "x"}
		var pairs [][2]string
		for _, a := range nodes {
			for _, b := range nodes {
				if a != b {
					pairs = append(pairs, [2]string{a, b})
				}
			}
		}
		for mask := 0; mask < 1<<len(pairs); mask++ {
			w := &ibWorld{paths: nodes, files: map[string]ibFile{}}
			for i, p := range pairs {
				if mask&(1<<i) != 0 {
					w.edges = append(w.edges, p)
				}
			}
			var q []string
			if mask%16 == 0 {
				genFiles(w)
				q = nodes
			}
			c.Case(ibLines(w, q), common.Meta{Nontrivial: len(w.edges) >= 2, Features: []string{"exhaustive-digraph"}})
		}
	}
}

func init() {
	props["C18"] = common.Property{Gen: ibGen, Exec: ibExec, SelfCheck: ibSelfCheck}
}

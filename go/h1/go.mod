module verif/h1

go 1.20

require (
	github.com/spf13/pflag v1.0.5
	k8s.io/gengo v0.0.0
	verif/common v0.0.0
)

require (
	github.com/go-logr/logr v0.2.0 // indirect
	golang.org/x/tools v0.0.0-20200505023115-26f46d2f7ef8 // indirect
	gopkg.in/yaml.v2 v2.2.8 // indirect
	k8s.io/klog/v2 v2.2.0 // indirect
	sigs.k8s.io/yaml v1.2.0 // indirect
)

replace (
	golang.org/x/sys => golang.org/x/sys v0.0.0-20190813064441-fde4db37ae7a
	golang.org/x/tools => golang.org/x/tools v0.0.0-20190821162956-65e3620a7ae7
	k8s.io/gengo => /repo
	verif/common => ../common
)

package main

import (
	"errors"
	"io"
	"path/filepath"
	"sort"

	"k8s.io/gengo/generator"
	"k8s.io/gengo/namer"
	"k8s.io/gengo/types"
	"verif/common"
)

// recording implementations of generator.Package and generator.Generator driven by an ExecConfig

type exEnv struct {
	cfg   *common.ExecConfig
	rec   *common.ExecRecorder
	types map[int]*types.Type
	ids   map[*types.Type]int
}

func newExEnv(cfg *common.ExecConfig, rec *common.ExecRecorder) *exEnv {
	e := &exEnv{cfg: cfg, rec: rec, types: map[int]*types.Type{}, ids: map[*types.Type]int{}}
	for _, id := range cfg.Order {
		t := &types.Type{Name: types.Name{Package: "p", Name: "T" + common.Itoa(id)}, Kind: types.Struct}
		e.types[id] = t
		e.ids[t] = id
	}
	return e
}

func (e *exEnv) order(c *generator.Context) string {
	ids := make([]int, len(c.Order))
	for i, t := range c.Order {
		ids[i] = e.ids[t]
	}
	return common.ShowIDs(ids)
}

func ctxNamers(c *generator.Context) string {
	var ns []string
	for k := range c.Namers {
		ns = append(ns, k)
	}
	sort.Strings(ns)
	return common.ShowNames(ns)
}

type exPkg struct {
	e *exEnv
	t *common.ExecTarget
}

func (p exPkg) Name() string       { return p.t.Name }
func (p exPkg) Path() string       { return p.t.Dir }
func (p exPkg) SourcePath() string { return p.t.Dir }
func (p exPkg) Filter(c *generator.Context, t *types.Type) bool {
	return common.ContainsInt(p.t.Accept, p.e.ids[t])
}
func (p exPkg) Header(string) []byte { return []byte(p.t.Header) }
func (p exPkg) Generators(c *generator.Context) []generator.Generator {
	p.e.rec.Add("G" + p.e.order(c))
	var gs []generator.Generator
	for _, g := range p.t.Gens {
		gs = append(gs, exGen{p.e, g})
	}
	return gs
}

type exGen struct {
	e *exEnv
	g *common.ExecGen
}

func (g exGen) Name() string { return g.g.Name }
func (g exGen) write(w io.Writer, s string) {
	if !g.g.Silent {
		io.WriteString(w, s)
	}
}
func (g exGen) Filter(c *generator.Context, t *types.Type) bool {
	g.e.rec.Add("f:" + g.g.Name + ":" + common.Itoa(g.e.ids[t]))
	return common.ContainsInt(g.g.Accept, g.e.ids[t])
}
func (g exGen) hook(tag string, c *generator.Context) {
	g.e.rec.Add(tag + ":" + g.g.Name + ":" + ctxNamers(c) + ":" + g.e.order(c))
}
func (g exGen) Namers(c *generator.Context) namer.NameSystems {
	g.hook("N", c)
	if g.g.NamersNil {
		return nil
	}
	ns := namer.NameSystems{}
	for _, n := range g.g.Namers {
		ns[n] = namer.NewPublicNamer(0)
	}
	return ns
}
func (g exGen) Init(c *generator.Context, w io.Writer) error {
	g.hook("I", c)
	g.write(w, common.ExecInitBytes(g.g.Name))
	if g.g.InitErr {
		return errors.New(common.ExecHookErr)
	}
	return nil
}
func (g exGen) Finalize(c *generator.Context, w io.Writer) error {
	g.hook("Z", c)
	g.write(w, common.ExecFinBytes(g.g.Name))
	if g.g.FinErr {
		return errors.New(common.ExecHookErr)
	}
	return nil
}
func (g exGen) PackageVars(c *generator.Context) []string {
	g.hook("V", c)
	return g.g.Vars
}
func (g exGen) PackageConsts(c *generator.Context) []string {
	g.hook("C", c)
	return g.g.Consts
}
func (g exGen) GenerateType(c *generator.Context, t *types.Type, w io.Writer) error {
	id := g.e.ids[t]
	g.e.rec.Add("T:" + g.g.Name + ":" + common.Itoa(id) + ":" + ctxNamers(c))
	g.write(w, common.ExecTypeBytes(g.g.Name, id))
	if common.ContainsInt(g.g.TypeErr, id) {
		return errors.New(common.ExecHookErr)
	}
	return nil
}
func (g exGen) Imports(c *generator.Context) []string {
	g.hook("M", c)
	return g.g.Imports
}
func (g exGen) Filename() string { return g.g.Filename }
func (g exGen) FileType() string { return g.g.FileType }

func exContext(e *exEnv) *generator.Context {
	c := &generator.Context{Namers: namer.NameSystems{}, FileTypes: map[string]generator.FileType{}, Verify: e.cfg.Verify}
	for _, n := range e.cfg.Namers {
		c.Namers[n] = namer.NewPrivateNamer(0)
	}
	for _, id := range e.cfg.Order {
		c.Order = append(c.Order, e.types[id])
	}
	for _, ft := range e.cfg.FileTypes {
		c.FileTypes[ft] = &generator.DefaultFileType{Format: common.ExecFormat, Assemble: generator.NewGolangFile().Assemble}
	}
	return c
}

// asPackage hands the executor the library's own generator.DefaultPackage for every other target (no FilterFunc for a
// target that accepts every type: the default filter) instead of the harness's Package implementation
func asPackage(p exPkg, i int) generator.Package {
	if i%2 == 1 {
		return p
	}
	d := &generator.DefaultPackage{PackageName: p.Name(), PackagePath: p.Path(), Source: p.SourcePath(), HeaderText: p.Header(""), GeneratorFunc: p.Generators}
	if len(p.t.Accept) < len(p.e.ids) {
		d.FilterFunc = p.Filter
	}
	return d
}

func execImpl() common.ExecImpl {
	return common.ExecImpl{
		ArgsVerify: argsVerify,
		RunTarget: func(cfg *common.ExecConfig, i int, root string, rec *common.ExecRecorder) error {
			e := newExEnv(cfg, rec)
			return exContext(e).ExecutePackage(root, asPackage(exPkg{e, cfg.Targets[i]}, i))
		},
		Session: func(cfg *common.ExecConfig, root string) *common.ExecSession {
			e := newExEnv(cfg, &common.ExecRecorder{})
			c := exContext(e)
			return &common.ExecSession{
				Run: func(i int, rec *common.ExecRecorder) error {
					e.rec = rec
					return c.ExecutePackage(root, asPackage(exPkg{e, cfg.Targets[i]}, i))
				},
				Order: func() []int {
					ids := []int{}
					for _, t := range c.Order {
						ids = append(ids, e.ids[t])
					}
					return ids
				},
			}
		},
		RunAll: func(cfg *common.ExecConfig, root string) error {
			e := newExEnv(cfg, &common.ExecRecorder{})
			var pkgs generator.Packages
			for i, t := range cfg.Targets {
				pkgs = append(pkgs, asPackage(exPkg{e, t}, i))
			}
			return exContext(e).ExecutePackages(root, pkgs)
		},
	}
}

var _ = filepath.Join

func init() {
	props["C04"] = common.ExecProperty(execImpl(), "C04", common.ExecGenProtocol)
	props["C13"] = common.Combine(map[string]common.Property{
		"ex": common.ExecProperty(execImpl(), "C13", common.ExecGenFailures),
		"sw": common.ErrTrackerProperty(snippetImpl()),
	})
	props["C10"] = common.ExecProperty(execImpl(), "C10", common.ExecGenVerify(execImpl()))
}

package main

import (
	"fmt"
	"strings"

	"k8s.io/gengo/types"
	"verif/common"
)

// ---- C17: types.FlattenMembers (fields of struct keys) ----

type flatMem struct {
	name     string
	embedded bool
	isStruct bool
	ty       int
	sub      []*flatMem
}

func (m *flatMem) enc(b *[]string) {
	*b = append(*b, common.Hex(m.name), common.B01(m.embedded), common.B01(m.isStruct), common.Itoa(m.ty), common.Itoa(len(m.sub)))
	for _, s := range m.sub {
		s.enc(b)
	}
}

func encMems(ms []*flatMem) string {
	b := []string{common.Itoa(len(ms))}
	for _, m := range ms {
		m.enc(&b)
	}
	return strings.Join(b, " ")
}

func decMems(toks []string, k int) ([]*flatMem, []string) {
	var out []*flatMem
	for i := 0; i < k; i++ {
		m := &flatMem{name: common.Unhex(toks[0]), embedded: toks[1] == "1", isStruct: toks[2] == "1", ty: common.Atoi(toks[3])}
		n := common.Atoi(toks[4])
		m.sub, toks = decMems(toks[5:], n)
		out = append(out, m)
	}
	return out, toks
}

func buildMembers(ms []*flatMem, tys map[int]*types.Type) []types.Member {
	var out []types.Member
	for _, m := range ms {
		t := tys[m.ty]
		if t == nil {
			t = &types.Type{Name: types.Name{Package: "p", Name: fmt.Sprintf("T%d", m.ty)}, Kind: types.Builtin}
			if m.isStruct {
				t.Kind = types.Struct
			}
			tys[m.ty] = t
			if m.isStruct {
				t.Members = buildMembers(m.sub, tys)
			}
		}
		out = append(out, types.Member{Name: m.name, Embedded: m.embedded, Type: t})
	}
	return out
}

func snapshotMembers(ms []types.Member, depth int) string {
	var b strings.Builder
	for _, m := range ms {
		fmt.Fprintf(&b, "%s/%v/%p", m.Name, m.Embedded, m.Type)
		if m.Type.Kind == types.Struct && depth < 6 {
			b.WriteString("{" + snapshotMembers(m.Type.Members, depth+1) + "}")
		}
		b.WriteString(";")
	}
	return b.String()
}

func flatExec(lines []string) ([]string, []common.Failure) {
	outs := make([]string, len(lines))
	var fails []common.Failure
	for i, l := range lines {
		f := common.Fields(l)
		func() {
			defer func() {
				if r := recover(); r != nil {
					outs[i] = "panic"
				}
			}()
			toks := strings.Split(f[2], " ")
			ms, _ := decMems(toks[1:], common.Atoi(toks[0]))
			tys := map[int]*types.Type{}
			members := buildMembers(ms, tys)
			before := snapshotMembers(members, 0)
			res := types.FlattenMembers(members)
			// a second call (generators flatten the same type several times) must see the same input
			res2 := types.FlattenMembers(members)
			after := snapshotMembers(members, 0)
			if before != after {
				fails = append(fails, common.Failure{Sig: "flatten-mutates-input", What: fmt.Sprintf("FlattenMembers changed the member lists it was given: %s -> %s", before, after)})
			}
			show := func(r []types.Member) string {
				var parts []string
				for _, m := range r {
					id := -1
					for k, t := range tys {
						if t == m.Type {
							id = k
						}
					}
					parts = append(parts, common.Hex(m.Name)+":"+common.Itoa(id))
				}
				if len(parts) == 0 {
					return "-"
				}
				return strings.Join(parts, ",")
			}
			if show(res) != show(res2) {
				fails = append(fails, common.Failure{Sig: "flatten-not-repeatable", What: fmt.Sprintf("two calls on the same members give %s and %s", show(res), show(res2))})
			}
			// every declared (non-embedded-struct) member is in the result, in order, at the front
			k := 0
			for _, m := range ms {
				if m.embedded && m.isStruct {
					continue
				}
				if k >= len(res) || res[k].Name != m.name {
					fails = append(fails, common.Failure{Sig: "flatten-drops-field", What: fmt.Sprintf("declared member %s is not at position %d of %s", m.name, k, show(res))})
					break
				}
				k++
			}
			outs[i] = show(res)
		}()
	}
	return outs, fails
}

func flatGen(c *common.Ctx) {
	r := c.RNG("flatten")
	names := []string{"A", "B", "C", "M", "X"}
	nextTy := 0
	var gen func(depth int) []*flatMem
	gen = func(depth int) []*flatMem {
		var out []*flatMem
		for k := r.Intn(4); k > 0; k-- {
			nextTy++
			m := &flatMem{name: r.Pick(names), ty: nextTy}
			if depth > 0 && r.Chance(1, 2) {
				m.isStruct = true
				m.embedded = r.Chance(3, 4)
				m.sub = gen(depth - 1)
				if m.embedded {
					m.name = fmt.Sprintf("S%d", nextTy)
				}
			} else if r.Chance(1, 8) {
				m.ty = 1 + r.Intn(3) // shared field types (same member reachable along two paths)
			}
			out = append(out, m)
		}
		return out
	}
	n := c.Scale(4000, 60000)
	for i := 0; i < n; i++ {
		nextTy = 10
		ms := gen(3)
		nested := false
		for _, m := range ms {
			for _, s := range m.sub {
				if s.embedded && s.isStruct {
					nested = true
				}
			}
		}
		feats := []string{"flatten"}
		if nested {
			feats = append(feats, "nested-embedding")
		}
		c.Case([]string{common.Line("flat", "mems", encMems(ms))}, common.Meta{Nontrivial: len(ms) >= 2, Features: feats})
	}
}

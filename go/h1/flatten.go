package main

import (
	"fmt"
	"strings"

	"k8s.io/gengo/types"
	"verif/common"
)

// ---- C17: types.FlattenMembers (fields of struct keys) ----

type flatMem struct {
	name     string
	embedded bool
	isStruct bool
	ty       int
	sub      []*flatMem
}

func (m *flatMem) enc(b *[]string) {
	*b = append(*b, common.Hex(m.name), common.B01(m.embedded), common.B01(m.isStruct), common.Itoa(m.ty), common.Itoa(len(m.sub)))
	for _, s := range m.sub {
		s.enc(b)
	}
}

func encMems(ms []*flatMem) string {
	b := []string{common.Itoa(len(ms))}
	for _, m := range ms {
		m.enc(&b)
	}
	return strings.Join(b, " ")
}

func decMems(toks []string, k int) ([]*flatMem, []string) {
	var out []*flatMem
	for i := 0; i < k; i++ {
		m := &flatMem{name: common.Unhex(toks[0]), embedded: toks[1] == "1", isStruct: toks[2] == "1", ty: common.Atoi(toks[3])}
		n := common.Atoi(toks[4])
		m.sub, toks = decMems(toks[5:], n)
		out = append(out, m)
	}
	return out, toks
}

func buildMembers(ms []*flatMem, tys map[int]*types.Type) []types.Member {
	var out []types.Member
	for _, m := range ms {
		t := tys[m.ty]
		if t == nil {
			t = &types.Type{Name: types.Name{Package: "p", Name: fmt.Sprintf("T%d", m.ty)}, Kind: types.Builtin}
			if m.isStruct {
				t.Kind = types.Struct
			}
			tys[m.ty] = t
			if m.isStruct {
				t.Members = buildMembers(m.sub, tys)
			}
		}
		out = append(out, types.Member{Name: m.name, Embedded: m.embedded, Type: t})
	}
	return out
}

func snapshotMembers(ms []types.Member, depth int) string {
	var b strings.Builder
	for _, m := range ms {
		fmt.Fprintf(&b, "%s/%v/%p", m.Name, m.Embedded, m.Type)
		if m.Type.Kind == types.Struct && depth < 6 {
			b.WriteString("{" + snapshotMembers(m.Type.Members, depth+1) + "}")
		}
		b.WriteString(";")
	}
	return b.String()
}

func flatExec(lines []string) ([]string, []common.Failure) {
	outs := make([]string, len(lines))
	var fails []common.Failure
	for i, l := range lines {
		f := common.Fields(l)
		func() {
			defer func() {
				if r := recover(); r != nil {
					outs[i] = "panic"
				}
			}()
			toks := strings.Split(f[2], " ")
			ms, _ := decMems(toks[1:], common.Atoi(toks[0]))
			tys := map[int]*types.Type{}
			members := buildMembers(ms, tys)
			before := snapshotMembers(members, 0)
			res := types.FlattenMembers(members)
			// a second call (generators flatten the same type several times) must see the same input
			res2 := types.FlattenMembers(members)
			after := snapshotMembers(members, 0)
			if before != after {
				fails = append(fails, common.Failure{Sig: "flatten-mutates-input", What: fmt.Sprintf("FlattenMembers changed the member lists it was given: %s -> %s", before, after)})
			}
			show := func(r []types.Member) string {
				var parts []string
				for _, m := range r {
					id := -1
					for k, t := range tys {
						if t == m.Type {
							id = k
						}
					}
					parts = append(parts, common.Hex(m.Name)+":"+common.Itoa(id))
				}
				if len(parts) == 0 {
					return "-"
				}
				return strings.Join(parts, ",")
			}
			if show(res) != show(res2) {
				fails = append(fails, common.Failure{Sig: "flatten-not-repeatable", What: fmt.Sprintf("two calls on the same members give %s and %s", show(res), show(res2))})
			}
			// every declared (non-embedded-struct) member is in the result, in order, at the front
			k := 0
			for _, m := range ms {
				if m.embedded && m.isStruct {
					continue
				}
				if k >= len(res) || res[k].Name != m.name {
					fails = append(fails, common.Failure{Sig: "flatten-drops-field", What: fmt.Sprintf("declared member %s is not at position %d of %s", m.name, k, show(res))})
					break
				}
				k++
			}
			if exp, ok := oFlatten(ms); ok {
				var parts []string
				for _, e := range exp {
					parts = append(parts, common.Hex(e[0])+":"+e[1])
				}
				es := "-"
				if len(parts) > 0 {
					es = strings.Join(parts, ",")
				}
				if es != show(res) {
					fails = append(fails, common.Failure{Sig: "flatten-wrong", What: fmt.Sprintf("FlattenMembers gives %s, promoting the members of embedded structs gives %s", show(res), es)})
				}
			}
			outs[i] = show(res)
		}()
	}
	return outs, fails
}

// oFlatten: the members a struct key is compared by, written from the description: the struct's own members in order, then –
// embedded struct by embedded struct – the promoted members that are not hidden by an own member and not already there as
// the very same member (same name, same type) along another path.  ok=false: two different members of one name meet (the
// code panics; outside the accepted inputs).
func oFlatten(ms []*flatMem) (out [][2]string, ok bool) {
	top := map[string]bool{}
	at := map[string]string{}
	var emb []*flatMem
	for _, m := range ms {
		if m.embedded && m.isStruct {
			emb = append(emb, m)
			continue
		}
		out = append(out, [2]string{m.name, common.Itoa(m.ty)})
		top[m.name] = true
		at[m.name] = common.Itoa(m.ty)
	}
	for _, e := range emb {
		sub, ok := oFlatten(e.sub)
		if !ok {
			return nil, false
		}
		for _, sm := range sub {
			if t, found := at[sm[0]]; found {
				if top[sm[0]] || t == sm[1] {
					continue
				}
				return nil, false
			}
			out = append(out, sm)
			at[sm[0]] = sm[1]
		}
	}
	return out, true
}

func flatGen(c *common.Ctx) {
	r := c.RNG("flatten")
	names := []string{"A", "B", "C", "M", "X"}
	nextTy := 0
	var gen func(depth int) []*flatMem
	gen = func(depth int) []*flatMem {
		var out []*flatMem
		for k := r.Intn(4); k > 0; k-- {
			nextTy++
			m := &flatMem{name: r.Pick(names), ty: nextTy}
			if depth > 0 && r.Chance(1, 2) {
				m.isStruct = true
				m.embedded = r.Chance(3, 4)
				m.sub = gen(depth - 1)
				if m.embedded {
					m.name = fmt.Sprintf("S%d", nextTy)
				}
			} else if r.Chance(1, 8) {
				m.ty = 1 + r.Intn(3) // shared field types (same member reachable along two paths)
			}
			out = append(out, m)
		}
		return out
	}
	n := c.Scale(4000, 60000)
	for i := 0; i < n; i++ {
		nextTy = 10
		ms := gen(3)
		if r.Chance(1, 5) {
			// a diamond: two embedded structs that both carry the same member (same name, same type) in front of
			// members of their own – the duplicate is skipped, what follows it must still be there
			shared := &flatMem{name: r.Pick(names), ty: 1 + r.Intn(3)}
			mk := func() *flatMem {
				nextTy++
				e := &flatMem{name: fmt.Sprintf("S%d", nextTy), embedded: true, isStruct: true, ty: nextTy}
				for k := r.Intn(2); k > 0; k-- {
					nextTy++
					e.sub = append(e.sub, &flatMem{name: fmt.Sprintf("P%d", nextTy), ty: nextTy})
				}
				e.sub = append(e.sub, &flatMem{name: shared.name, ty: shared.ty})
				for k := 1 + r.Intn(2); k > 0; k-- {
					nextTy++
					e.sub = append(e.sub, &flatMem{name: fmt.Sprintf("Q%d", nextTy), ty: nextTy})
				}
				return e
			}
			ms = append(ms, mk(), mk())
		}
		nested := false
		for _, m := range ms {
			for _, s := range m.sub {
				if s.embedded && s.isStruct {
					nested = true
				}
			}
		}
		feats := []string{"flatten"}
		if nested {
			feats = append(feats, "nested-embedding")
		}
		c.Case([]string{common.Line("flat", "mems", encMems(ms))}, common.Meta{Nontrivial: len(ms) >= 2, Features: feats})
	}
}

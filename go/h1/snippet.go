package main

import (
	"io"
	"strings"
	"text/template"

	"k8s.io/gengo/generator"
	"k8s.io/gengo/namer"
	"k8s.io/gengo/types"
	"verif/common"
)

type swV struct{ s *generator.SnippetWriter }

func (s swV) Do(format string, args interface{}) { s.s.Do(format, args) }
func (s swV) Err() error                         { return s.s.Error() }

func mkNamers(names []string) namer.NameSystems {
	ns := namer.NameSystems{}
	for _, n := range names {
		switch n {
		case "public":
			ns[n] = namer.NewPublicNamer(0)
		case "private":
			ns[n] = namer.NewPrivateNamer(0)
		case "raw":
			ns[n] = namer.NewRawNamer("", nil)
		}
	}
	return ns
}

var swType = &types.Type{Name: types.Name{Package: "k8s.io/api/core/v1", Name: "Pod"}, Kind: types.Struct}

func snippetImpl() common.SnippetImpl {
	return common.SnippetImpl{
		NewSW: func(w io.Writer, left, right string, names []string) common.SWAPI {
			return swV{generator.NewSnippetWriter(w, &generator.Context{Namers: mkNamers(names)}, left, right)}
		},
		NamerFuncs: func(names []string) template.FuncMap {
			fm := template.FuncMap{}
			for n, nm := range mkNamers(names) {
				fm[n] = nm.Name
			}
			return fm
		},
		Data: func() interface{} {
			return generator.Args{"type": swType, "s": "str", "n": 3, "list": []string{"a", "b"}}
		},
		NewET: func(w io.Writer) common.ETAPI { return generator.NewErrorTracker(w) },
		ArgsWith: func(a map[interface{}]interface{}, k, v interface{}) map[interface{}]interface{} {
			return generator.Args(a).With(k, v)
		},
		ArgsWithArgs: func(a, b map[interface{}]interface{}) map[interface{}]interface{} {
			return generator.Args(a).WithArgs(generator.Args(b))
		},
	}
}

var _ = strings.NewReader

func (s swV) Append(data string) error                { panic("v1 has no Append") }
func (s swV) Dup(w io.Writer) common.SWAPI            { panic("v1 has no Dup") }
func (s swV) Merge(data string, o common.SWAPI) error { panic("v1 has no Merge") }

func init() {
	props["C15"] = common.SnippetProperty(snippetImpl())
}

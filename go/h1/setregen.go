package main

// C17, second half: sets regenerated from the current templates.  The real set-gen
// (examples/set-gen/generators.Packages through args.GeneratorArgs.Execute, in a child process) generates a
// sets package for a generated key package; the regenerated int/int64/byte/string sets must equal the
// checked-in ones, and a checker program built from the regenerated package runs set-operation histories on
// them and on struct-key sets (same runner and reference as for the checked-in sets: verif/common/setrun).

import (
	"fmt"
	"go/build"
	"os"
	"os/exec"
	"path/filepath"
	"strings"
	"time"

	"k8s.io/gengo/args"
	setgen "k8s.io/gengo/examples/set-gen/generators"
	"verif/common"
	"verif/common/setrun"
)

func init() {
	if len(os.Args) > 2 && os.Args[1] == "setgen-child" {
		root := os.Args[2]
		os.Setenv("GO111MODULE", "off")
		os.Setenv("GOPATH", root)
		os.Setenv("GOFLAGS", "")
		build.Default.GOPATH = root
		ga := args.Default()
		ga.InputDirs = []string{"example.com/m/zzkeytypes"}
		ga.OutputBase = filepath.Join(root, "src")
		ga.OutputPackagePath = "example.com/m/sets"
		ga.GoHeaderFilePath = filepath.Join(root, "boilerplate.txt")
		// args.Default() would parse the command line: build the same arguments without it
		ga2 := &args.GeneratorArgs{InputDirs: ga.InputDirs, OutputBase: ga.OutputBase, OutputPackagePath: ga.OutputPackagePath,
			GoHeaderFilePath: ga.GoHeaderFilePath, GeneratedByCommentTemplate: ga.GeneratedByCommentTemplate, GeneratedBuildTag: ga.GeneratedBuildTag}
		if err := ga2.Execute(setgen.NameSystems(), setgen.DefaultNameSystem(), setgen.Packages); err != nil {
			fmt.Fprintln(os.Stderr, "set-gen:", err)
			os.Exit(1)
		}
		os.Exit(0)
	}
}

type keyField struct {
	name, typ string
	radix     int
	embedded  bool // a member of the embedded struct Base
}

func keyEnc(typ string, d string) string {
	switch typ {
	case "int":
		return d + " - 1"
	case "int64":
		return "int64(" + d + ")*10000000000 - 5"
	case "byte":
		return "byte(" + d + " * 30)"
	}
	return "keyStrings[" + d + "]"
}

func keyDec(typ string, v string) string {
	switch typ {
	case "int":
		return v + " + 1"
	case "int64":
		return "int((" + v + " + 5) / 10000000000)"
	case "byte":
		return "int(" + v + ") / 30"
	}
	return "keyStringIndex(" + v + ")"
}

// genRegenCase returns the lines of one regeneration case: the key package, the checker wiring, then nhist histories
func genRegenCase(r *common.RNG, nhist int, shape int) ([]string, []string) {
	feats := []string{"regenerated"}
	ordered := []string{"int", "string", "byte", "int64"}
	// the struct key: 1..3 members in flatten order (own members first, then those of the embedded struct); the six
	// shapes (members, of which embedded) are taken in turn, so that every run sees each of them
	sh := [][2]int{{3, 2}, {1, 0}, {2, 1}, {3, 0}, {2, 0}, {3, 1}}[shape%6]
	nf := sh[0]
	radices := map[int][]int{1: {8}, 2: {4, 2}, 3: {2, 2, 2}}[nf]
	var fields []keyField
	nEmb := sh[1]
	if nEmb > 0 {
		feats = append(feats, fmt.Sprintf("embedded-struct-members:%d", nEmb))
	}
	for i := 0; i < nf; i++ {
		fields = append(fields, keyField{name: fmt.Sprintf("F%d", i), typ: r.Pick(ordered), radix: radices[i], embedded: i >= nf-nEmb})
	}
	feats = append(feats, fmt.Sprintf("struct-key-members:%d", nf))
	var src strings.Builder
	src.WriteString("package zzkeytypes\n\n// Ref makes the generator emit the builtin sets.\ntype Ref struct {\n\ta int64\n\tb int\n\tc byte\n\td string\n}\n\n")
	if nEmb > 0 {
		src.WriteString("// Base is embedded in the key.\ntype Base struct {\n")
		for _, f := range fields {
			if f.embedded {
				fmt.Fprintf(&src, "\t%s %s\n", f.name, f.typ)
			}
		}
		src.WriteString("}\n\n")
	}
	embedFirst := r.Bool()
	src.WriteString("// K1 is a struct key.\n// +genset=true\ntype K1 struct {\n")
	if nEmb > 0 && embedFirst {
		src.WriteString("\tBase\n")
		feats = append(feats, "embedded-declared-first")
	}
	for _, f := range fields {
		if !f.embedded {
			fmt.Fprintf(&src, "\t%s %s\n", f.name, f.typ)
		}
	}
	if nEmb > 0 && !embedFirst {
		src.WriteString("\tBase\n")
	}
	src.WriteString("}\n\n// NotASet has no tag.\ntype NotASet struct {\n\tX int\n}\n")

	var m strings.Builder
	m.WriteString("package main\n\nimport (\n\t\"example.com/m/zzkeytypes\"\n\t\"example.com/m/setrun\"\n\t\"example.com/m/sets\"\n)\n\n")
	m.WriteString("var keyStrings = []string{\"\", \"a\", \"ab\", \"b\", \"ba\", \"c\", \"z\", \"é\"}\n\nfunc keyStringIndex(s string) int {\n\tfor i, x := range keyStrings {\n\t\tif x == s {\n\t\t\treturn i\n\t\t}\n\t}\n\tpanic(\"unknown element \" + s)\n}\n\n")
	// fromKey: digits most significant first in flatten order
	m.WriteString("func fromK1(k int) zzkeytypes.K1 {\n\tvar v zzkeytypes.K1\n")
	div := 1
	for i := len(fields) - 1; i >= 0; i-- {
		f := fields[i]
		fmt.Fprintf(&m, "\tv.%s = %s\n", f.name, keyEnc(f.typ, fmt.Sprintf("((k / %d) %% %d)", div, f.radix)))
		div *= f.radix
	}
	m.WriteString("\treturn v\n}\n\nfunc toK1(v zzkeytypes.K1) int {\n\tk := 0\n")
	for _, f := range fields {
		fmt.Fprintf(&m, "\tk = k*%d + (%s)\n", f.radix, keyDec(f.typ, "v."+f.name))
	}
	m.WriteString("\treturn k\n}\n\nfunc lessK1(a, b zzkeytypes.K1) bool {\n")
	for _, f := range fields {
		fmt.Fprintf(&m, "\tif a.%s != b.%s {\n\t\treturn a.%s < b.%s\n\t}\n", f.name, f.name, f.name, f.name)
	}
	m.WriteString("\treturn false\n}\n\nfunc main() {\n\tsetrun.Main(map[string]setrun.Ops{\n")
	m.WriteString("\t\t\"Int\": setrun.Run[int, sets.Empty, sets.Int](sets.NewInt, func(k int) int { return k - 3 }, func(v int) int { return v + 3 }, func(a, b int) bool { return a < b }, sets.IntKeySet),\n")
	m.WriteString("\t\t\"Int64\": setrun.Run[int64, sets.Empty, sets.Int64](sets.NewInt64, func(k int) int64 { return int64(k)*1000000007 - 5000000000 }, func(v int64) int { return int((v + 5000000000) / 1000000007) }, func(a, b int64) bool { return a < b }, sets.Int64KeySet),\n")
	m.WriteString("\t\t\"Byte\": setrun.Run[byte, sets.Empty, sets.Byte](sets.NewByte, func(k int) byte { return byte(k * 37) }, func(v byte) int { return int(v) / 37 }, func(a, b byte) bool { return a < b }, sets.ByteKeySet),\n")
	m.WriteString("\t\t\"String\": setrun.Run[string, sets.Empty, sets.String](sets.NewString, func(k int) string { return keyStrings[k] }, keyStringIndex, func(a, b string) bool { return a < b }, sets.StringKeySet),\n")
	m.WriteString("\t\t\"K1\": setrun.Run[zzkeytypes.K1, sets.Empty, sets.K1](sets.NewK1, fromK1, toK1, lessK1, sets.K1KeySet),\n\t})\n}\n")

	lines := []string{common.Line("set", "regen", common.Hex(src.String()), common.Hex(m.String()))}
	kinds := []string{"K1", "K1", "K1", "Int", "Int64", "Byte", "String"}
	for h := 0; h < nhist; h++ {
		lines = append(lines, common.Line("set", "reset", r.Pick(kinds)))
		lines = append(lines, genHistory(r, 3+r.Intn(5))...)
	}
	// the generated order of the struct key, pair by pair: every two-element set is listed three times (the list is
	// collected in map order before it is sorted, so a comparison that is wrong for one pair shows with probability 1/2
	// per listing)
	for a := 0; a < 8; a++ {
		for b := a + 1; b < 8; b++ {
			for rep := 0; rep < 3; rep++ {
				lines = append(lines, common.Line("set", "reset", "K1"), common.Line("set", "new", fmt.Sprintf("%d;%d", a, b)), common.Line("set", "list", "0"))
			}
		}
	}
	return lines, feats
}

func setChildEnv(root string) []string {
	var env []string
	for _, kv := range os.Environ() {
		if strings.HasPrefix(kv, "GOFLAGS=") || strings.HasPrefix(kv, "GOPATH=") || strings.HasPrefix(kv, "GO111MODULE=") {
			continue
		}
		env = append(env, kv)
	}
	return append(env, "GOPATH="+root, "GO111MODULE=off", "GOFLAGS=", "GOPROXY=off", "GOTOOLCHAIN=local")
}

// the part of a generated file from the package clause on (the header carries the year and the tool's name)
func fromPackageClause(s string) string {
	i := strings.Index(s, "\npackage ")
	if i < 0 {
		return s
	}
	return s[i+1:]
}

func regenExec(lines []string) ([]string, []common.Failure) {
	outs := make([]string, len(lines))
	for i := range outs {
		outs[i] = "not-run"
	}
	fail := func(sig, what string) ([]string, []common.Failure) {
		return outs, []common.Failure{{Sig: sig, What: what}}
	}
	f := common.Fields(lines[0])
	keysSrc, mainSrc := common.Unhex(f[2]), common.Unhex(f[3])
	root, err := os.MkdirTemp("", "verif-set-")
	if err != nil {
		return fail("harness", err.Error())
	}
	defer os.RemoveAll(root)
	write := func(rel, content string) error {
		p := filepath.Join(root, "src", "example.com/m", rel)
		if err := os.MkdirAll(filepath.Dir(p), 0o755); err != nil {
			return err
		}
		return os.WriteFile(p, []byte(content), 0o644)
	}
	boiler, _ := os.ReadFile("/repo/boilerplate/boilerplate.go.txt")
	if err := os.WriteFile(filepath.Join(root, "boilerplate.txt"), boiler, 0o644); err != nil {
		return fail("harness", err.Error())
	}
	for rel, c := range map[string]string{"zzkeytypes/types.go": keysSrc, "setrun/setrun.go": setrun.Source, "cmd/check/main.go": mainSrc} {
		if err := write(rel, c); err != nil {
			return fail("harness", err.Error())
		}
	}
	self, _ := os.Executable()
	gen := exec.Command(self, "setgen-child", root)
	gen.Env = setChildEnv(root)
	if out, err := runTimeout(gen, 60*time.Second); err != nil {
		return fail("set-gen-fails", fmt.Sprintf("set-gen failed on an input it accepts: %v\n%s\n--- input\n%s", err, firstN(string(out), 1500), keysSrc))
	}
	outs[0] = "ok"
	var fails []common.Failure
	// "The checked-in set types are what the generator currently produces."
	for _, name := range []string{"byte.go", "int.go", "int64.go", "string.go", "empty.go", "doc.go"} {
		regen, err1 := os.ReadFile(filepath.Join(root, "src/example.com/m/sets", name))
		checked, err2 := os.ReadFile(filepath.Join("/repo/examples/set-gen/sets", name))
		if err1 != nil || err2 != nil {
			fails = append(fails, common.Failure{Sig: "checked-in-set-not-regenerated", What: fmt.Sprintf("%s: %v %v", name, err1, err2)})
			continue
		}
		if a, b := fromPackageClause(string(regen)), fromPackageClause(string(checked)); a != b {
			fails = append(fails, common.Failure{Sig: "checked-in-set-differs-from-generated",
				What: fmt.Sprintf("examples/set-gen/sets/%s is not what set-gen generates now; first difference: %s", name, firstDiffLine(a, b))})
		}
	}
	if _, err := os.Stat(filepath.Join(root, "src/example.com/m/sets/notASet.go")); err == nil {
		fails = append(fails, common.Failure{Sig: "set-generated-for-untagged-struct", What: "a set was generated for struct NotASet, which has no +genset tag"})
	}
	bin := filepath.Join(root, "check.bin")
	b := exec.Command("go", "build", "-o", bin, "example.com/m/cmd/check")
	b.Env = setChildEnv(root)
	b.Dir = root
	if out, err := runTimeout(b, 180*time.Second); err != nil {
		k1, _ := os.ReadFile(filepath.Join(root, "src/example.com/m/sets/k1.go"))
		return outs, append(fails, common.Failure{Sig: "regenerated-sets-do-not-compile",
			What: fmt.Sprintf("the regenerated sets package does not compile with its input:\n%s\n--- input\n%s\n--- k1.go\n%s", firstN(string(out), 1200), keysSrc, firstN(string(k1), 3000))})
	}
	run := exec.Command(bin)
	run.Stdin = strings.NewReader(strings.Join(lines[1:], "\n") + "\n")
	out, err := runTimeout(run, 120*time.Second)
	if err != nil {
		return outs, append(fails, common.Failure{Sig: "checker-crashed", What: fmt.Sprintf("%v\n%s", err, firstN(string(out), 1500))})
	}
	ol := strings.Split(strings.TrimRight(string(out), "\n"), "\n")
	for i := 1; i < len(lines); i++ {
		if i-1 < len(ol) {
			outs[i] = ol[i-1]
		}
	}
	rest := len(lines) - 1
	if rest > len(ol) {
		rest = len(ol)
	}
	for _, l := range ol[rest:] {
		if p := strings.SplitN(l, "\t", 3); len(p) == 3 && p[0] == "FAIL" {
			fails = append(fails, common.Failure{Sig: "regenerated-" + p[1], What: p[2] + "\n--- key package\n" + keysSrc})
		}
	}
	return outs, fails
}

func firstN(s string, n int) string {
	if len(s) > n {
		return s[:n]
	}
	return s
}

func firstDiffLine(a, b string) string {
	la, lb := strings.Split(a, "\n"), strings.Split(b, "\n")
	for i := 0; i < len(la) || i < len(lb); i++ {
		x, y := "", ""
		if i < len(la) {
			x = la[i]
		}
		if i < len(lb) {
			y = lb[i]
		}
		if x != y {
			return fmt.Sprintf("line %d: generated %q, checked in %q", i+1, x, y)
		}
	}
	return ""
}

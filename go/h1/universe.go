package main

import (
	"fmt"
	"go/build"
	"os"
	"path/filepath"
	"sync"

	"k8s.io/gengo/parser"
	"k8s.io/gengo/types"
	"verif/common"
)

// snapshot converts a real universe into the neutral form (one UObj per distinct *types.Type)
type snapper struct {
	objs map[*types.Type]*common.UObj
}

func (s *snapper) obj(t *types.Type) *common.UObj {
	if t == nil {
		return nil
	}
	if o, ok := s.objs[t]; ok {
		return o
	}
	o := &common.UObj{ID: len(s.objs), Pkg: t.Name.Package, Name: t.Name.Name, Kind: string(t.Kind), Len: t.Len,
		CommentLines: t.CommentLines, SecondClosest: t.SecondClosestCommentLines}
	s.objs[t] = o
	o.Elem, o.Key, o.Under = s.obj(t.Elem), s.obj(t.Key), s.obj(t.Underlying)
	for _, m := range t.Members {
		o.Members = append(o.Members, common.UMember{Name: m.Name, Embedded: m.Embedded, Tags: m.Tags, Type: s.obj(m.Type), CommentLines: m.CommentLines})
	}
	if t.Methods != nil {
		o.Methods = map[string]*common.UObj{}
		for k, m := range t.Methods {
			o.Methods[k] = s.obj(m)
		}
	}
	if sig := t.Signature; sig != nil {
		o.HasSig = true
		o.Variadic = sig.Variadic
		o.Recv = s.obj(sig.Receiver)
		for i, p := range sig.Parameters {
			o.Params = append(o.Params, common.UParam{Name: sig.ParameterNames[i], Type: s.obj(p)})
		}
		for i, p := range sig.Results {
			o.Results = append(o.Results, common.UParam{Name: sig.ResultNames[i], Type: s.obj(p)})
		}
	}
	o.ConstVal = t.ConstValue
	if t.Kind != types.Unknown && t.Kind != types.DeclarationOf && (t.Kind != types.Alias || t.Underlying != nil) {
		func() {
			defer func() { recover() }()
			o.Prim, o.Assign, o.AnonStruct = t.IsPrimitive(), t.IsAssignable(), t.IsAnonymousStruct()
		}()
	}
	return o
}

func snapshotUniverse(u types.Universe) *common.USnap {
	s := &snapper{objs: map[*types.Type]*common.UObj{}}
	snap := &common.USnap{Pkgs: map[string]*common.UPkg{}}
	for path, p := range u {
		pk := &common.UPkg{Path: p.Path, Name: p.Name, Types: map[string]*common.UObj{}, Funcs: map[string]*common.UObj{}, Vars: map[string]*common.UObj{}, Consts: map[string]*common.UObj{},
			Comments: p.Comments, DocComments: p.DocComments}
		for i := range p.Imports {
			pk.Imports = append(pk.Imports, i)
		}
		for k, t := range p.Types {
			pk.Types[k] = s.obj(t)
		}
		for k, t := range p.Functions {
			pk.Funcs[k] = s.obj(t)
		}
		for k, t := range p.Variables {
			pk.Vars[k] = s.obj(t)
		}
		for k, t := range p.Constants {
			pk.Consts[k] = s.obj(t)
		}
		snap.Pkgs[path] = pk
	}
	return snap
}

func loadV1(prog *common.Program, requested []string) (*common.USnap, error) {
	b := parser.New()
	for _, p := range prog.Pkgs {
		if err := b.AddFileForTest(p.Path, p.Path+"/"+p.File, []byte(p.Source)); err != nil {
			return nil, fmt.Errorf("AddFileForTest(%s): %v", p.Path, err)
		}
	}
	u, err := b.FindTypes()
	if err != nil {
		return nil, err
	}
	if len(prog.Pkgs[0].Source)%2 == 0 {
		// the same Builder fills a second, fresh universe: it must be as good as the first
		if u, err = b.FindTypes(); err != nil {
			return nil, err
		}
	}
	return snapshotUniverse(u), nil
}

func lookupChecksV1() []common.Failure {
	var fails []common.Failure
	u1, u2 := types.Universe{}, types.Universe{}
	for _, n := range []string{"string", "int", "byte", "uint8", "int8", "bool", "float64", "rune", "int32"} {
		a, b := u1.Type(types.Name{Name: n}), u2.Type(types.Name{Name: n})
		if a != b {
			fails = append(fails, common.Failure{Sig: "builtin-not-shared", What: "builtin " + n + " is a different object in two universes"})
		}
		if a != u1.Type(types.Name{Name: n}) {
			fails = append(fails, common.Failure{Sig: "lookup-not-idempotent", What: "looking up builtin " + n + " twice gives two objects"})
		}
	}
	for _, n := range []types.Name{{Package: "p", Name: "T"}, {Package: "", Name: "[]p.T"}, {Package: "q/r", Name: "X"}} {
		if u1.Type(n) != u1.Type(n) || u1.Function(n) != u1.Function(n) || u1.Variable(n) != u1.Variable(n) || u1.Constant(n) != u1.Constant(n) || u1.Package(n.Package) != u1.Package(n.Package) {
			fails = append(fails, common.Failure{Sig: "lookup-not-idempotent", What: fmt.Sprintf("repeated lookup of %v gives different objects", n)})
		}
		if u1.Type(n) == u1.Function(n) || u1.Function(n) == u1.Variable(n) || u1.Variable(n) == u1.Constant(n) {
			fails = append(fails, common.Failure{Sig: "categories-merged", What: fmt.Sprintf("type/function/variable/constant %v share an object", n)})
		}
	}
	return fails
}

func init() {
	for _, p := range []string{"C01", "C06", "C20"} {
		props[p] = common.UniverseProperty(p, common.UniImpl{Load: loadV1, LookupChecks: lookupChecksV1, LoadHistory: loadHistoryV1, LoadHistoryLookups: loadHistoryV1L})
	}
	props["C11"] = common.LoadingProperty(common.UniImpl{Load: loadV1, LoadHistory: loadHistoryV1, LoadHistoryLookups: loadHistoryV1L, RequestTwice: requestTwiceV1, RequestSeq: requestSeqV1})
}

// ---- C11: loading histories through the real v1 Builder (GOPATH mode on a scratch tree) ----

func writeGopath(prog *common.Program) (string, error) {
	root, err := os.MkdirTemp("", "verif-gopath-")
	if err != nil {
		return "", err
	}
	for _, p := range prog.Pkgs {
		dir := filepath.Join(root, "src", p.Path)
		if err := os.MkdirAll(dir, 0o755); err != nil {
			return root, err
		}
		if err := os.WriteFile(filepath.Join(dir, p.File), []byte(p.Source), 0o644); err != nil {
			return root, err
		}
		for fn, src := range p.Extra {
			if err := os.WriteFile(filepath.Join(dir, fn), []byte(src), 0o644); err != nil {
				return root, err
			}
		}
	}
	return root, nil
}

var gopathMu sync.Mutex

func loadHistoryV1(prog *common.Program, initial []string, steps [][]string) (*common.USnap, bool, []string, error) {
	return loadHistoryV1L(prog, initial, steps, nil)
}

// … with hand lookups: before incremental step i every name in lookups[i] is looked up with Universe.Type
func loadHistoryV1L(prog *common.Program, initial []string, steps [][]string, lookups [][][3]string) (*common.USnap, bool, []string, error) {
	gopathMu.Lock()
	defer gopathMu.Unlock()
	root, err := writeGopath(prog)
	if root != "" {
		defer os.RemoveAll(root)
	}
	if err != nil {
		return nil, false, nil, err
	}
	os.Setenv("GO111MODULE", "off")
	os.Setenv("GOPATH", root)
	build.Default.GOPATH = root
	b := parser.New()
	b.IncludeTestFiles = prog.TestFiles
	for _, p := range initial {
		if err := b.AddDir(p); err != nil {
			return nil, false, nil, fmt.Errorf("AddDir(%s): %v", p, err)
		}
	}
	u, err := b.FindTypes()
	if err != nil {
		return nil, false, nil, err
	}
	stable := true
	for si, step := range steps {
		if si < len(lookups) {
			for _, n := range lookups[si] {
				switch nm := (types.Name{Package: n[0], Name: n[1]}); n[2] {
				case "func":
					u.Function(nm)
				case "var":
					u.Variable(nm)
				case "const":
					u.Constant(nm)
				default:
					u.Type(nm)
				}
			}
		}
		// objects obtained before the incremental load
		before := map[types.Name]*types.Type{}
		kinds := map[*types.Type]types.Kind{}
		for _, pk := range u {
			for _, t := range pk.Types {
				before[types.Name{Package: pk.Path, Name: t.Name.Name}] = t
				kinds[t] = t.Kind
			}
		}
		for _, p := range step {
			if _, err := b.AddDirectoryTo(p, &u); err != nil {
				return nil, false, nil, fmt.Errorf("AddDirectoryTo(%s): %v", p, err)
			}
		}
		for n, t := range before {
			if n.Package == "" {
				continue
			}
			if u.Type(types.Name{Package: t.Name.Package, Name: t.Name.Name}) != t || (kinds[t] != types.Unknown && t.Kind != kinds[t]) {
				stable = false
			}
		}
	}
	return snapshotUniverse(u), stable, b.FindPackages(), nil
}

// requestSeqV1 asks one Builder for the packages one after the other (AddDir) and returns the error of each request
func requestSeqV1(prog *common.Program, pkgs []string) []error {
	gopathMu.Lock()
	defer gopathMu.Unlock()
	root, err := writeGopath(prog)
	if root != "" {
		defer os.RemoveAll(root)
	}
	if err != nil {
		return []error{err}
	}
	os.Setenv("GO111MODULE", "off")
	os.Setenv("GOPATH", root)
	build.Default.GOPATH = root
	b := parser.New()
	var errs []error
	for _, pkg := range pkgs {
		errs = append(errs, b.AddDir(pkg))
	}
	return errs
}

func requestTwiceV1(prog *common.Program, pkg string) (error, error) {
	gopathMu.Lock()
	defer gopathMu.Unlock()
	root, err := writeGopath(prog)
	if root != "" {
		defer os.RemoveAll(root)
	}
	if err != nil {
		return err, err
	}
	os.Setenv("GO111MODULE", "off")
	os.Setenv("GOPATH", root)
	build.Default.GOPATH = root
	b := parser.New()
	e1 := b.AddDir(pkg)
	e2 := b.AddDir(pkg)
	return e1, e2
}

package main

import (
	"k8s.io/gengo/generator"
	"k8s.io/gengo/namer"
	"k8s.io/gengo/types"
	"verif/common"
)

type trk struct{ t *namer.DefaultImportTracker }

func (t trk) AddSymbol(pkg, name, path string) {
	t.t.AddSymbol(types.Name{Package: pkg, Name: name, Path: path})
}
func (t trk) AddType(pkg, name string) {
	t.t.AddType(&types.Type{Name: types.Name{Package: pkg, Name: name}, Kind: types.Struct})
}
func (t trk) ImportLines() []string          { return t.t.ImportLines() }
func (t trk) LocalNameOf(p string) string    { return t.t.LocalNameOf(p) }
func (t trk) PathOf(n string) (string, bool) { return t.t.PathOf(n) }

func init() {
	props["C07"] = common.TrackerProperty(common.TrackerImpl{
		New: func(local string) common.TrackerAPI { return trk{generator.NewImportTrackerForPackage(local)} },
	})
}

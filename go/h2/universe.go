package main

import (
	"fmt"
	"os"
	"path/filepath"
	"strings"
	"sync"

	"golang.org/x/tools/go/packages"

	"k8s.io/gengo/v2/parser"
	"k8s.io/gengo/v2/types"
	"verif/common"
)

// snapshot converts a real universe into the neutral form (one UObj per distinct *types.Type)
type snapper struct {
	objs map[*types.Type]*common.UObj
}

func (s *snapper) obj(t *types.Type) *common.UObj {
	if t == nil {
		return nil
	}
	if o, ok := s.objs[t]; ok {
		return o
	}
	o := &common.UObj{ID: len(s.objs), Pkg: t.Name.Package, Name: t.Name.Name, Kind: string(t.Kind), Len: t.Len,
		CommentLines: t.CommentLines, SecondClosest: t.SecondClosestCommentLines}
	s.objs[t] = o
	o.Elem, o.Key, o.Under = s.obj(t.Elem), s.obj(t.Key), s.obj(t.Underlying)
	for _, m := range t.Members {
		o.Members = append(o.Members, common.UMember{Name: m.Name, Embedded: m.Embedded, Tags: m.Tags, Type: s.obj(m.Type), CommentLines: m.CommentLines})
	}
	if t.Methods != nil {
		o.Methods = map[string]*common.UObj{}
		for k, m := range t.Methods {
			o.Methods[k] = s.obj(m)
		}
	}
	if sig := t.Signature; sig != nil {
		o.HasSig = true
		o.Variadic = sig.Variadic
		o.Recv = s.obj(sig.Receiver)
		for _, p := range sig.Parameters {
			o.Params = append(o.Params, common.UParam{Name: p.Name, Type: s.obj(p.Type)})
		}
		for _, p := range sig.Results {
			o.Results = append(o.Results, common.UParam{Name: p.Name, Type: s.obj(p.Type)})
		}
	}
	o.ConstVal = t.ConstValue
	if t.TypeParams != nil && len(t.TypeParams) > 0 {
		o.TypeParams = map[string]*common.UObj{}
		for k, tp := range t.TypeParams {
			o.TypeParams[k] = s.obj(tp)
		}
	}
	if t.Kind != types.Unknown && t.Kind != types.DeclarationOf {
		// asked of every described type, whether or not the loader left a Go type in it: no answer (a panic) is an answer too
		func() {
			defer func() {
				if recover() != nil {
					o.ComparablePanics = true
				}
			}()
			c := t.IsComparable()
			o.Comparable = &c
		}()
	}
	if t.Kind != types.Unknown && t.Kind != types.DeclarationOf && (t.Kind != types.Alias || t.Underlying != nil) {
		func() {
			defer func() { recover() }()
			o.Prim, o.Assign, o.AnonStruct = t.IsPrimitive(), t.IsAssignable(), t.IsAnonymousStruct()
		}()
	}
	return o
}

func snapshotUniverse(u types.Universe) *common.USnap {
	s := &snapper{objs: map[*types.Type]*common.UObj{}}
	snap := &common.USnap{Pkgs: map[string]*common.UPkg{}}
	for path, p := range u {
		pk := &common.UPkg{Path: p.Path, Name: p.Name, Types: map[string]*common.UObj{}, Funcs: map[string]*common.UObj{}, Vars: map[string]*common.UObj{}, Consts: map[string]*common.UObj{},
			Comments: p.Comments, DocComments: p.DocComments}
		for i := range p.Imports {
			pk.Imports = append(pk.Imports, i)
		}
		for k, t := range p.Types {
			pk.Types[k] = s.obj(t)
		}
		for k, t := range p.Functions {
			pk.Funcs[k] = s.obj(t)
		}
		for k, t := range p.Variables {
			pk.Vars[k] = s.obj(t)
		}
		for k, t := range p.Constants {
			pk.Consts[k] = s.obj(t)
		}
		snap.Pkgs[path] = pk
	}
	return snap
}

// WriteModule materialises the program as a Go module under root.
func writeModule(prog *common.Program, root string) error {
	if err := os.WriteFile(filepath.Join(root, "go.mod"), []byte("module "+prog.Module+"\n\ngo 1.20\n"), 0o644); err != nil {
		return err
	}
	for _, p := range prog.Pkgs {
		dir := filepath.Join(root, strings.TrimPrefix(p.Path, prog.Module+"/"))
		if err := os.MkdirAll(dir, 0o755); err != nil {
			return err
		}
		if err := os.WriteFile(filepath.Join(dir, p.File), []byte(p.Source), 0o644); err != nil {
			return err
		}
		for fn, src := range p.Extra {
			if err := os.WriteFile(filepath.Join(dir, fn), []byte(src), 0o644); err != nil {
				return err
			}
		}
	}
	return nil
}

func pkgConfig(root string) *packages.Config {
	return &packages.Config{Dir: root, Env: append(os.Environ(), "GOFLAGS=-mod=mod", "GOPROXY=off", "GOSUMDB=off", "GO111MODULE=on", "GOWORK=off", "GOTOOLCHAIN=local")}
}

func loadV1(prog *common.Program, requested []string) (*common.USnap, error) {
	root, err := os.MkdirTemp("", "verif-mod-")
	if err != nil {
		return nil, err
	}
	defer os.RemoveAll(root)
	if err := writeModule(prog, root); err != nil {
		return nil, err
	}
	p := parser.New()
	if err := p.LoadPackagesWithConfigForTesting(pkgConfig(root), requested...); err != nil {
		return nil, fmt.Errorf("LoadPackages: %v", err)
	}
	u, err := p.NewUniverse()
	if err != nil {
		return nil, err
	}
	return snapshotUniverse(u), nil
}

func lookupChecksV1() []common.Failure {
	var fails []common.Failure
	u1, u2 := types.Universe{}, types.Universe{}
	for _, n := range []string{"string", "int", "byte", "uint8", "int8", "bool", "float64", "rune", "int32"} {
		a, b := u1.Type(types.Name{Name: n}), u2.Type(types.Name{Name: n})
		if a != b {
			fails = append(fails, common.Failure{Sig: "builtin-not-shared", What: "builtin " + n + " is a different object in two universes"})
		}
		if a != u1.Type(types.Name{Name: n}) {
			fails = append(fails, common.Failure{Sig: "lookup-not-idempotent", What: "looking up builtin " + n + " twice gives two objects"})
		}
	}
	for _, n := range []types.Name{{Package: "p", Name: "T"}, {Package: "", Name: "[]p.T"}, {Package: "q/r", Name: "X"}} {
		if u1.Type(n) != u1.Type(n) || u1.Function(n) != u1.Function(n) || u1.Variable(n) != u1.Variable(n) || u1.Constant(n) != u1.Constant(n) || u1.Package(n.Package) != u1.Package(n.Package) {
			fails = append(fails, common.Failure{Sig: "lookup-not-idempotent", What: fmt.Sprintf("repeated lookup of %v gives different objects", n)})
		}
		if u1.Type(n) == u1.Function(n) || u1.Function(n) == u1.Variable(n) || u1.Variable(n) == u1.Constant(n) {
			fails = append(fails, common.Failure{Sig: "categories-merged", What: fmt.Sprintf("type/function/variable/constant %v share an object", n)})
		}
	}
	return fails
}

func init() {
	for _, p := range []string{"C01", "C06", "C20"} {
		props[p] = common.UniverseProperty(p, common.UniImpl{V2: true, Load: loadV1, LookupChecks: lookupChecksV1, LoadHistory: loadHistoryV2, LoadHistoryLookups: loadHistoryV2L})
	}
	props["C11"] = common.LoadingProperty(common.UniImpl{V2: true, Load: loadV1, LoadHistory: loadHistoryV2, LoadHistoryLookups: loadHistoryV2L, RequestTwice: requestTwiceV2, RequestSeq: requestSeqV2})
}

// ---- C11: loading histories through the real v2 Parser (scratch module; LoadPackagesTo needs cwd) ----

var chdirMu sync.Mutex

func loadHistoryV2(prog *common.Program, initial []string, steps [][]string) (*common.USnap, bool, []string, error) {
	return loadHistoryV2L(prog, initial, steps, nil)
}

// … with hand lookups: before incremental step i every name in lookups[i] is looked up with Universe.Type
func loadHistoryV2L(prog *common.Program, initial []string, steps [][]string, lookups [][][3]string) (*common.USnap, bool, []string, error) {
	chdirMu.Lock()
	defer chdirMu.Unlock()
	root, err := os.MkdirTemp("", "verif-mod-")
	if err != nil {
		return nil, false, nil, err
	}
	defer os.RemoveAll(root)
	if err := writeModule(prog, root); err != nil {
		return nil, false, nil, err
	}
	cwd, _ := os.Getwd()
	defer os.Chdir(cwd)
	if err := os.Chdir(root); err != nil {
		return nil, false, nil, err
	}
	for _, kv := range []string{"GOFLAGS=-mod=mod", "GOPROXY=off", "GOSUMDB=off", "GO111MODULE=on", "GOWORK=off", "GOTOOLCHAIN=local"} {
		i := strings.Index(kv, "=")
		os.Setenv(kv[:i], kv[i+1:])
	}
	p := parser.New()
	if err := p.LoadPackages(initial...); err != nil {
		return nil, false, nil, fmt.Errorf("LoadPackages(%v): %v", initial, err)
	}
	u, err := p.NewUniverse()
	if err != nil {
		return nil, false, nil, err
	}
	stable := true
	for si, step := range steps {
		if si < len(lookups) {
			for _, n := range lookups[si] {
				switch nm := (types.Name{Package: n[0], Name: n[1]}); n[2] {
				case "func":
					u.Function(nm)
				case "var":
					u.Variable(nm)
				case "const":
					u.Constant(nm)
				default:
					u.Type(nm)
				}
			}
		}
		before := map[types.Name]*types.Type{}
		kinds := map[*types.Type]types.Kind{}
		for _, pk := range u {
			for _, t := range pk.Types {
				before[types.Name{Package: pk.Path, Name: t.Name.Name}] = t
				kinds[t] = t.Kind
			}
		}
		if _, err := p.LoadPackagesTo(&u, step...); err != nil {
			return nil, false, nil, fmt.Errorf("LoadPackagesTo(%v): %v", step, err)
		}
		for n, t := range before {
			if n.Package == "" {
				continue
			}
			if u.Type(types.Name{Package: t.Name.Package, Name: t.Name.Name}) != t || (kinds[t] != types.Unknown && t.Kind != kinds[t]) {
				stable = false
			}
		}
	}
	return snapshotUniverse(u), stable, p.UserRequestedPackages(), nil
}

// requestSeqV2 asks one Parser for the packages one after the other and returns the error of each request
func requestSeqV2(prog *common.Program, pkgs []string) []error {
	root, err := os.MkdirTemp("", "verif-mod-")
	if err != nil {
		return []error{err}
	}
	defer os.RemoveAll(root)
	if err := writeModule(prog, root); err != nil {
		return []error{err}
	}
	p := parser.New()
	var errs []error
	for _, pkg := range pkgs {
		errs = append(errs, p.LoadPackagesWithConfigForTesting(pkgConfig(root), pkg))
	}
	return errs
}

func requestTwiceV2(prog *common.Program, pkg string) (error, error) {
	root, err := os.MkdirTemp("", "verif-mod-")
	if err != nil {
		return err, err
	}
	defer os.RemoveAll(root)
	if err := writeModule(prog, root); err != nil {
		return err, err
	}
	p := parser.New()
	e1 := p.LoadPackagesWithConfigForTesting(pkgConfig(root), pkg)
	e2 := p.LoadPackagesWithConfigForTesting(pkgConfig(root), pkg)
	return e1, e2
}

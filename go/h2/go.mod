module verif/h2

go 1.20

require (
	golang.org/x/tools v0.16.1
	k8s.io/gengo/v2 v2.0.0
	verif/common v0.0.0
)

require (
	github.com/go-logr/logr v0.2.0 // indirect
	golang.org/x/mod v0.14.0 // indirect
	k8s.io/klog/v2 v2.2.0 // indirect
)

replace (
	k8s.io/gengo/v2 => /repo/v2
	verif/common => ../common
)

package main

import (
	"fmt"
	"io"
	"os"
	"path/filepath"
	"strings"

	gengo "k8s.io/gengo/v2"
	"k8s.io/gengo/v2/generator"
	"k8s.io/gengo/v2/namer"
	"k8s.io/gengo/v2/parser"
	"k8s.io/gengo/v2/types"
	"verif/common"
)

const btPkg = "example.com/m/p"

func btWrite(root string, files, deps map[string]string) error {
	if err := os.WriteFile(filepath.Join(root, "go.mod"), []byte("module example.com/m\n\ngo 1.20\n"), 0o644); err != nil {
		return err
	}
	if err := os.MkdirAll(filepath.Join(root, "p"), 0o755); err != nil {
		return err
	}
	for n, src := range files {
		if err := os.MkdirAll(filepath.Dir(filepath.Join(root, "p", n)), 0o755); err != nil {
			return err
		}
		if err := os.WriteFile(filepath.Join(root, "p", n), []byte(src), 0o644); err != nil {
			return err
		}
	}
	for path, src := range deps {
		dir := filepath.Join(root, strings.TrimPrefix(path, "example.com/m/"))
		if err := os.MkdirAll(dir, 0o755); err != nil {
			return err
		}
		if err := os.WriteFile(filepath.Join(dir, "dep.go"), []byte(src), 0o644); err != nil {
			return err
		}
	}
	return nil
}

func btReadBack(dir string) (map[string]string, error) {
	out := map[string]string{}
	ents, err := os.ReadDir(dir)
	if err != nil {
		return nil, err
	}
	for _, e := range ents {
		if e.IsDir() {
			sub, err := btReadBack(filepath.Join(dir, e.Name()))
			if err != nil {
				return nil, err
			}
			for n, c := range sub {
				out[e.Name()+"/"+n] = c
			}
			continue
		}
		b, err := os.ReadFile(filepath.Join(dir, e.Name()))
		if err != nil {
			return nil, err
		}
		out[e.Name()] = string(b)
	}
	return out, nil
}

type inplaceGen struct {
	generator.GoGenerator
	pkg string
}

func (g inplaceGen) Filter(c *generator.Context, t *types.Type) bool {
	return t.Name.Package == g.pkg && t.Kind != types.DeclarationOf
}
func (g inplaceGen) GenerateType(c *generator.Context, t *types.Type, w io.Writer) error {
	_, err := fmt.Fprintf(w, "type Gen_%s struct{}\n\n", t.Name.Name)
	return err
}

func init() {
	props["C12"] = common.BuildTagProperty(common.BtImpl{
		V2: true,
		Visible: func(files, deps map[string]string, tags []string) (*common.USnap, error) {
			root, err := os.MkdirTemp("", "verif-bt-")
			if err != nil {
				return nil, err
			}
			defer os.RemoveAll(root)
			if err := btWrite(root, files, deps); err != nil {
				return nil, err
			}
			p := parser.NewWithOptions(parser.Options{BuildTags: tags})
			if err := p.LoadPackagesWithConfigForTesting(pkgConfig(root), btPkg); err != nil {
				return nil, err
			}
			u, err := p.NewUniverse()
			if err != nil {
				return nil, err
			}
			return snapshotUniverse(u), nil
		},
		Run: func(files, deps map[string]string, tag, out string, wild bool) (map[string]string, *common.USnap, error) {
			chdirMu.Lock()
			defer chdirMu.Unlock()
			root, err := os.MkdirTemp("", "verif-bt-")
			if err != nil {
				return nil, nil, err
			}
			defer os.RemoveAll(root)
			if err := btWrite(root, files, deps); err != nil {
				return nil, nil, err
			}
			cwd, _ := os.Getwd()
			defer os.Chdir(cwd)
			if err := os.Chdir(root); err != nil {
				return nil, nil, err
			}
			for _, kv := range []string{"GOFLAGS=-mod=mod", "GOPROXY=off", "GOSUMDB=off", "GO111MODULE=on", "GOWORK=off", "GOTOOLCHAIN=local"} {
				i := strings.Index(kv, "=")
				os.Setenv(kv[:i], kv[i+1:])
			}
			var seen *common.USnap
			var herr error
			patterns := []string{btPkg}
			if wild {
				patterns = []string{"./..."}
			}
			err = gengo.Execute(namer.NameSystems{"public": namer.NewPublicNamer(0), "raw": namer.NewRawNamer("", nil)}, "public",
				func(c *generator.Context) []generator.Target {
					seen = snapshotUniverse(c.Universe)
					var header []byte
					header, herr = gengo.GoBoilerplate("", tag, "")
					pkgName, pkgPath, pkgDir := "p", btPkg, filepath.Join(root, "p")
					if wild {
						pkgName, pkgPath, pkgDir = "zzgen", btPkg+"/zzgen", filepath.Join(root, "p", "zzgen")
					}
					return []generator.Target{&generator.SimpleTarget{PkgName: pkgName, PkgPath: pkgPath, PkgDir: pkgDir, HeaderComment: header,
						GeneratorsFunc: func(*generator.Context) []generator.Generator {
							return []generator.Generator{inplaceGen{GoGenerator: generator.GoGenerator{OutputFilename: out}, pkg: btPkg}}
						}}}
				}, tag, patterns)
			if err == nil {
				err = herr
			}
			if err != nil {
				return nil, nil, err
			}
			after, err := btReadBack(filepath.Join(root, "p"))
			return after, seen, err
		},
		Header: func(tag string) ([]byte, error) { return gengo.GoBoilerplate("", tag, "") },
		HeaderFile: func(tag, boilerplate, generatedBy string) ([]byte, error) {
			dir, err := os.MkdirTemp("", "verif-hdr-")
			if err != nil {
				return nil, err
			}
			defer os.RemoveAll(dir)
			fn := filepath.Join(dir, "boilerplate.go.txt")
			if err := os.WriteFile(fn, []byte(boilerplate), 0o644); err != nil {
				return nil, err
			}
			return gengo.GoBoilerplate(fn, tag, generatedBy)
		},
	})
}

package main

import (
	"verif/common"
)

var props = map[string]common.Property{}

func main() { common.Main("v2", props) }

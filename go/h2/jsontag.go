package main

import (
	"encoding/json"
	"fmt"
	"reflect"
	"strconv"
	"strings"
	"unicode"

	"k8s.io/gengo/v2/parser/tags"
	"k8s.io/gengo/v2/types"
	"verif/common"
)

// ---- C19: JSON struct-tag lookup agrees with encoding/json ----

func showJSON(j tags.JSON) string {
	return common.Hex(j.Name) + " " + common.B01(j.Omit) + " " + common.B01(j.Inline) + " " + common.B01(j.Omitempty)
}

// encoding/json's isValidTag, restated
func jsonValidName(s string) bool {
	if s == "" {
		return false
	}
	for _, c := range s {
		switch {
		case strings.ContainsRune("!#$%&()*+-./:;<=>?@[]^_{|}~ ", c):
		case !unicode.IsLetter(c) && !unicode.IsDigit(c):
			return false
		}
	}
	return true
}

// what encoding/json does with field f carrying the raw tag: marshal a one-field struct
func encodingJSONView(f, raw string) (name string, omitted, omitempty bool, ok bool) {
	defer func() {
		if r := recover(); r != nil {
			ok = false
		}
	}()
	t := reflect.StructOf([]reflect.StructField{{Name: f, Type: reflect.TypeOf(0), Tag: reflect.StructTag(raw)}})
	key := func(v int64) (string, bool) {
		x := reflect.New(t).Elem()
		x.Field(0).SetInt(v)
		b, err := json.Marshal(x.Interface())
		if err != nil {
			panic(err)
		}
		var m map[string]int
		if err := json.Unmarshal(b, &m); err != nil {
			panic(err)
		}
		for k := range m {
			return k, true
		}
		return "", false
	}
	n1, present1 := key(1)
	_, present0 := key(0)
	if !present1 {
		return "", true, false, true
	}
	return n1, false, !present0, true
}

func jsonExec1(line string) (out string, fails []common.Failure) {
	f := common.Fields(line)
	defer func() {
		if r := recover(); r != nil {
			out = "panic"
			fails = append(fails, common.Failure{Sig: "panic", What: fmt.Sprintf("%s panics: %v", f[1], r)})
		}
	}()
	switch f[1] {
	case "lookup":
		field, tagv, raw := common.Unhex(f[2]), common.Unhex(f[3]), common.Unhex(f[4])
		// the other fields of the member are what the parser may have set: the answer is about name and tag alone
		j, _ := tags.LookupJSON(types.Member{Name: field, Tags: raw, Embedded: (len(field)+len(raw))%2 == 1,
			CommentLines: []string{"json:\"-\""}, Type: types.String})
		out = showJSON(j)
		namePart := tagv
		opts := ""
		if i := strings.Index(tagv, ","); i >= 0 {
			namePart, opts = tagv[:i], tagv[i+1:]
		}
		// inline flag: exactly when the option list contains the word inline
		if tagv != "-" {
			word := false
			for _, w := range strings.Split(opts, ",") {
				if w == "inline" {
					word = true
				}
			}
			if j.Inline != word {
				fails = append(fails, common.Failure{Sig: "json-inline-word", What: fmt.Sprintf("tag %q: Inline=%v but the option list %q contains the word inline: %v", raw, j.Inline, opts, word)})
			}
		}
		// agreement with encoding/json, for names it considers valid (or no name)
		if tagv == "-" || namePart == "" || jsonValidName(namePart) {
			name, omitted, oe, ok := encodingJSONView(field, raw)
			if ok {
				if j.Omit != omitted || (!omitted && (j.Omitempty != oe)) {
					fails = append(fails, common.Failure{Sig: "json-flags-differ", What: fmt.Sprintf("field %s tag %q: gengo %+v, encoding/json name=%q omitted=%v omitempty=%v", field, raw, j, name, omitted, oe)})
				} else if !omitted && j.Name != name {
					sig := "json-name-differs"
					if j.Inline && namePart == "" && j.Name == "" && name == field {
						sig = "json-inline-unnamed"
					}
					fails = append(fails, common.Failure{Sig: sig, What: fmt.Sprintf("field %s tag %q: gengo name %q, encoding/json name %q", field, raw, j.Name, name)})
				}
			}
		}
	case "rt":
		field, raw := common.Unhex(f[2]), common.Unhex(f[4])
		j, _ := tags.LookupJSON(types.Member{Name: field, Tags: raw})
		s := j.String()
		j2, _ := tags.LookupJSON(types.Member{Name: field, Tags: "json:" + strconv.Quote(s)})
		out = showJSON(j2)
		if !(j.Inline && j.Name != "") && j2 != j {
			fails = append(fails, common.Failure{Sig: "json-roundtrip", What: fmt.Sprintf("field %s tag %q: %+v renders as %q which reads back as %+v", field, raw, j, s, j2)})
		}
	case "render":
		j := tags.JSON{Name: common.Unhex(f[2]), Omit: f[3] == "1", Inline: f[4] == "1", Omitempty: f[5] == "1"}
		out = common.Hex(j.String())
	default:
		out = "bad-op"
	}
	return
}

var jsonNameToks = []string{"", "", "a", "name", "fooBar", "-", "x-y", "a.b", "9", "é", "a b", " ", "a\"b", "a\\b", "_", "~", "omitempty", "inline", "世", "a'b", "a`b"[:1] + "c"}
var jsonOptToks = []string{"omitempty", "inline", "string", "omitemptyx", "inlined", "xinline", "", " omitempty", "omitempty ", "Inline", "OMITEMPTY", "omitzero", "-",
	// option words glued together or repeated without a comma are one unknown word
	"omitemptyomitempty", "inlineinline", "noinlineinline", "omitemptyinline", "inlineomitempty"}

func jsonGen(c *common.Ctx) {
	corpus := [][2]string{{"F", `json:"-"`}, {"F", `json:"-,"`}, {"F", `json:",inline"`}, {"F", `json:"foo,inline"`},
		{"F", `json:"x,omitemptyx,inline"`}, {"F", `json:",omitempty"`}, {"F", ``}, {"Foo", `yaml:"a" json:"b,omitempty"`},
		{"F", `json:"a,omitempty,"`}, {"F", `json:",,inline"`}, {"F", `json:"-,omitempty"`}}
	emit := func(field, raw string, feats ...string) {
		tagv := reflect.StructTag(raw).Get("json")
		for _, op := range []string{"lookup", "rt"} {
			c.Case([]string{common.Line("json", op, common.Hex(field), common.Hex(tagv), common.Hex(raw))},
				common.Meta{Nontrivial: raw != "", Features: append([]string{"op:" + op}, feats...)})
		}
	}
	for _, cs := range corpus {
		emit(cs[0], cs[1], "corpus")
	}
	r := c.RNG("gen")
	n := c.Scale(20000, 400000)
	for i := 0; i < n; i++ {
		field := r.Pick([]string{"F", "Foo", "A", "Name", "X1"})
		var v strings.Builder
		v.WriteString(r.Pick(jsonNameToks))
		feats := []string{}
		for k := r.Intn(4); k > 0; k-- {
			v.WriteString(",")
			v.WriteString(r.Pick(jsonOptToks))
		}
		val := v.String()
		if r.Chance(1, 12) {
			val = "-"
		}
		var raw string
		switch r.Intn(8) {
		case 0:
			raw = `yaml:"x" json:` + strconv.Quote(val)
			feats = append(feats, "other-key-before")
		case 1:
			raw = `json:` + strconv.Quote(val) + ` protobuf:"bytes,1,opt,name=x"`
			feats = append(feats, "other-key-after")
		case 2:
			raw = `json:"` + val + `"` // unescaped: may be malformed when val has quotes/backslashes
			feats = append(feats, "raw-unescaped")
		case 3:
			raw = `jsonx:` + strconv.Quote(val)
			feats = append(feats, "no-json-key")
		default:
			raw = `json:` + strconv.Quote(val)
		}
		emit(field, raw, feats...)
		if r.Chance(1, 10) {
			c.Case([]string{common.Line("json", "render", common.Hex(r.Pick(jsonNameToks)), common.B01(r.Chance(1, 4)), common.B01(r.Bool()), common.B01(r.Bool()))},
				common.Meta{Nontrivial: true, Features: []string{"op:render"}})
		}
	}
	if c.Tier == "thorough" {
		// all tags of <= 4 tokens over the token alphabet
		toks := []string{"", "a", "-", "omitempty", "inline", "inlined", "string"}
		var rec func(parts []string)
		rec = func(parts []string) {
			if len(parts) > 0 {
				emit("F", `json:`+strconv.Quote(strings.Join(parts, ",")), "exhaustive")
			}
			if len(parts) == 4 {
				return
			}
			for _, t := range toks {
				rec(append(parts[:len(parts):len(parts)], t))
			}
		}
		rec(nil)
	}
}

func init() {
	props["C19"] = common.Property{
		Gen: jsonGen,
		Exec: func(lines []string) ([]string, []common.Failure) {
			outs := make([]string, len(lines))
			var fails []common.Failure
			for i, l := range lines {
				o, fs := jsonExec1(l)
				outs[i] = o
				fails = append(fails, fs...)
			}
			return outs, fails
		},
	}
}

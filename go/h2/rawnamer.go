package main

import (
	"k8s.io/gengo/v2/generator"
	"k8s.io/gengo/v2/namer"
	"k8s.io/gengo/v2/types"
	"verif/common"
)

func init() {
	props["C02"] = common.RawProperty(common.RawImpl{
		V2: true,
		Names: func(pkg, tracker string, specs []*common.TypeSpec) ([]string, []string) {
			cache := map[string]*types.Type{}
			var tr namer.ImportTracker
			switch tracker {
			case "none":
			case "-":
				tr = generator.NewImportTracker()
			default:
				tr = generator.NewImportTrackerForPackage(tracker)
			}
			var nm namer.Namer
			if tr == nil {
				nm = namer.NewRawNamer(pkg, nil)
			} else {
				nm = namer.NewRawNamer(pkg, tr)
			}
			names := make([]string, len(specs))
			for i, s := range specs {
				names[i] = nm.Name(buildType(s, cache))
			}
			if tr == nil {
				return names, nil
			}
			return names, tr.ImportLines()
		},
	})
}

package main

import (
	gengo "k8s.io/gengo/v2"
	"verif/common"
)

func init() {
	props["C08"] = common.TagsProperty(common.TagsImpl{
		Extract: gengo.ExtractCommentTags,
		Bool:    gengo.ExtractSingleBoolCommentTag,
		BoolOp:  "bool2",
		FS: func(marker string, names, lines []string) (map[string][]common.FSTag, error) {
			m, err := gengo.ExtractFunctionStyleCommentTags(marker, names, lines)
			if err != nil {
				return nil, err
			}
			out := map[string][]common.FSTag{}
			for k, ts := range m {
				for _, t := range ts {
					out[k] = append(out[k], common.FSTag{Name: t.Name, Args: t.Args, Value: t.Value})
				}
				if len(ts) == 0 {
					out[k] = nil
				}
			}
			return out, nil
		},
	})
}

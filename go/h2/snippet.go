package main

import (
	"errors"
	"io"
	"strings"
	"text/template"

	"k8s.io/gengo/v2/generator"
	"k8s.io/gengo/v2/namer"
	"k8s.io/gengo/v2/types"
	"verif/common"
)

type swV struct {
	s *generator.SnippetWriter
	c *generator.Context
}

func (s swV) Do(format string, args interface{}) { s.s.Do(format, args) }
func (s swV) Err() error                         { return s.s.Error() }

func (s swV) Renew(w io.Writer, left, right string, names []string) common.SWAPI {
	for k := range s.c.Namers {
		delete(s.c.Namers, k)
	}
	for k, v := range mkNamers(names) {
		s.c.Namers[k] = v
	}
	return swV{generator.NewSnippetWriter(w, s.c, left, right), s.c}
}

type bodyGen struct {
	generator.GoGenerator
	failAt string
	n      int
}

func (g *bodyGen) Init(c *generator.Context, w io.Writer) error {
	io.WriteString(w, "init;")
	if g.failAt == "init" {
		return errors.New(common.BodyHookErr)
	}
	return nil
}
func (g *bodyGen) GenerateType(c *generator.Context, t *types.Type, w io.Writer) error {
	g.n++
	name := "type" + common.Itoa(g.n)
	w.Write([]byte(name + ";"))
	if g.failAt == name {
		return errors.New(common.BodyHookErr)
	}
	return nil
}
func (g *bodyGen) Finalize(c *generator.Context, w io.Writer) error {
	io.WriteString(w, "fin;")
	if g.failAt == "fin" {
		return errors.New(common.BodyHookErr)
	}
	return nil
}

func mkNamers(names []string) namer.NameSystems {
	ns := namer.NameSystems{}
	for _, n := range names {
		switch n {
		case "public":
			ns[n] = namer.NewPublicNamer(0)
		case "private":
			ns[n] = namer.NewPrivateNamer(0)
		case "raw":
			ns[n] = namer.NewRawNamer("", nil)
		}
	}
	return ns
}

var swType = &types.Type{Name: types.Name{Package: "k8s.io/api/core/v1", Name: "Pod"}, Kind: types.Struct}

func snippetImpl() common.SnippetImpl {
	return common.SnippetImpl{
		V2: true,
		NewSW: func(w io.Writer, left, right string, names []string) common.SWAPI {
			c := &generator.Context{Namers: mkNamers(names)}
			return swV{generator.NewSnippetWriter(w, c, left, right), c}
		},
		NamerFuncs: func(names []string) template.FuncMap {
			fm := template.FuncMap{}
			for n, nm := range mkNamers(names) {
				fm[n] = nm.Name
			}
			return fm
		},
		Data: func() interface{} {
			return generator.Args{"type": swType, "s": "str", "n": 3, "list": []string{"a", "b"}}
		},
		NewET: func(w io.Writer) common.ETAPI { return generator.NewErrorTracker(w) },
		ArgsWith: func(a map[interface{}]interface{}, k, v interface{}) map[interface{}]interface{} {
			return generator.Args(a).With(k, v)
		},
		ArgsWithArgs: func(a, b map[interface{}]interface{}) map[interface{}]interface{} {
			return generator.Args(a).WithArgs(generator.Args(b))
		},
		ExecuteBody: func(w io.Writer, k int, failAt string) error {
			c := &generator.Context{Namers: namer.NameSystems{}}
			for i := 0; i < k; i++ {
				c.Order = append(c.Order, &types.Type{Name: types.Name{Package: "p", Name: "T" + common.Itoa(i)}, Kind: types.Struct})
			}
			return c.ExecuteBodyForVerif(w, &bodyGen{failAt: failAt})
		},
	}
}

var _ = strings.NewReader

func (s swV) Append(data string) error     { return s.s.Append(strings.NewReader(data)) }
func (s swV) Dup(w io.Writer) common.SWAPI { return swV{s.s.Dup(w), s.c} }
func (s swV) Merge(data string, o common.SWAPI) error {
	return s.s.Merge(strings.NewReader(data), o.(swV).s)
}

func init() {
	props["C15"] = common.SnippetProperty(snippetImpl())
}

package main

import (
	"os"

	"k8s.io/gengo/v2/generator"
	"k8s.io/gengo/v2/namer"
	"k8s.io/gengo/v2/parser"
	"k8s.io/gengo/v2/types"
	"verif/common"
)

// contextOrder: generator.NewContext on the universe parsed from the spec's source; judged by common.ContextOracle
func contextOrderOf(s *common.OrderSpec, n string, c *generator.Context, want []string) ([]int, string, error) {
	canon := orderNamer(n)
	var names []string
	seen := map[*types.Type]bool{}
	distinct := true
	for _, t := range c.Order {
		names = append(names, canon.Name(t))
		if seen[t] {
			distinct = false
		}
		seen[t] = true
	}
	total := 0
	for _, p := range c.Universe {
		total += len(p.Types) + len(p.Functions) + len(p.Variables) + len(p.Constants)
	}
	var have []string
	for k := range c.Namers {
		have = append(have, k)
	}
	wrong := common.ContextOracle(names, len(c.Order), total, distinct, have, want)
	// ids of the spec's entries, in the order they have in Context.Order
	id := map[*types.Type]int{}
	k := 0
	for _, p := range s.Pkgs {
		pk := c.Universe[p.Path]
		for ci, l := range [][]string{p.Types, p.Funcs, p.Vars, p.Consts} {
			for _, nm := range l {
				var t *types.Type
				if pk != nil {
					t = []map[string]*types.Type{pk.Types, pk.Functions, pk.Variables, pk.Constants}[ci][nm]
				}
				if t != nil {
					id[t] = k
				}
				k++
			}
		}
	}
	var ids []int
	for _, t := range c.Order {
		if i, ok := id[t]; ok {
			ids = append(ids, i)
		}
	}
	return ids, wrong, nil
}

func contextOrder(s *common.OrderSpec, n string) ([]int, string, error) {
	prog := &common.Program{Module: "example.com/m", V2: true}
	var req []string
	for i := range s.Pkgs {
		p := &s.Pkgs[i]
		prog.Pkgs = append(prog.Pkgs, &common.ProgPkg{Path: p.Path, Name: "x", File: "decls.go", Source: p.SourceOf()})
		req = append(req, p.Path)
	}
	root, err := os.MkdirTemp("", "verif-ord-")
	if err != nil {
		return nil, "", err
	}
	defer os.RemoveAll(root)
	if err := writeModule(prog, root); err != nil {
		return nil, "", err
	}
	p := parser.New()
	if err := p.LoadPackagesWithConfigForTesting(pkgConfig(root), req...); err != nil {
		return nil, "", err
	}
	systems := namer.NameSystems{"canon": orderNamer(n), "aaa": namer.NewPublicNamer(3), "zzz": namer.NewRawNamer("", nil)}
	c, err := generator.NewContext(p, systems, "canon")
	if err != nil {
		return nil, "", err
	}
	return contextOrderOf(s, n, c, []string{"canon", "aaa", "zzz"})
}

func orderNamer(n string) namer.Namer {
	switch n {
	case "raw":
		return namer.NewRawNamer("", nil)
	case "public0":
		return namer.NewPublicNamer(0)
	case "public1":
		return namer.NewPublicNamer(1)
	case "public2":
		return namer.NewPublicNamer(2)
	case "private0":
		return namer.NewPrivateNamer(0)
	}
	return namer.NewPrivateNamer(1)
}

// builds the universe; ids in spec order
func orderUniverse(s *common.OrderSpec) (types.Universe, []*types.Type) {
	u := types.Universe{}
	var byID []*types.Type
	// every other spec is built the way hand-written universes are: package literals stored under their import path,
	// with the Path field left unset (the order must be a function of the universe's keys, not of that field)
	bare := 0
	for _, p := range s.Pkgs {
		bare += len(p.Path) + len(p.Types)
	}
	for _, p := range s.Pkgs {
		pkg := u.Package(p.Path)
		if bare%2 == 0 {
			pkg.Path = ""
		}
		add := func(m map[string]*types.Type, names []string, kind types.Kind) {
			for _, n := range names {
				t := &types.Type{Name: types.Name{Package: p.Path, Name: n}, Kind: kind}
				m[n] = t
				byID = append(byID, t)
			}
		}
		add(pkg.Types, p.Types, types.Struct)
		add(pkg.Functions, p.Funcs, types.DeclarationOf)
		add(pkg.Variables, p.Vars, types.DeclarationOf)
		add(pkg.Constants, p.Consts, types.DeclarationOf)
	}
	return u, byID
}

func orderIDs(res []*types.Type, byID []*types.Type) []int {
	idx := map[*types.Type]int{}
	for i, t := range byID {
		idx[t] = i
	}
	out := make([]int, len(res))
	for i, t := range res {
		out[i] = idx[t]
	}
	return out
}

func init() {
	// "ex": the canonical order survives the run – every target and generator of one run, sharing one Context, is
	// offered its types in that order (the executor's filtering must not disturb Context.Order)
	props["C03"] = common.Combine(map[string]common.Property{"ex": common.ExecProperty(execImpl(), "C04", common.ExecGenSharedContext), "ord": common.OrderProperty(common.OrderImpl{
		Names: func(s *common.OrderSpec, n string) []string {
			_, byID := orderUniverse(s)
			nm := orderNamer(n)
			out := make([]string, len(byID))
			for i, t := range byID {
				out[i] = nm.Name(t)
			}
			return out
		},
		OrderUniverse: func(s *common.OrderSpec, n string, runs int) [][]int {
			var out [][]int
			for i := 0; i < runs; i++ {
				u, byID := orderUniverse(s)
				o := namer.Orderer{Namer: orderNamer(n)}
				out = append(out, orderIDs(o.OrderUniverse(u), byID))
			}
			return out
		},
		ContextOrder: contextOrder,
		OrderTypes: func(s *common.OrderSpec, n string, list []int) []int {
			_, byID := orderUniverse(s)
			in := make([]*types.Type, len(list))
			for i, id := range list {
				in[i] = byID[id]
			}
			o := namer.Orderer{Namer: orderNamer(n)}
			return orderIDs(o.OrderTypes(in), byID)
		},
	})})
}

package main

import (
	"k8s.io/gengo/v2/namer"
	"k8s.io/gengo/v2/types"
	"verif/common"
)

func orderNamer(n string) namer.Namer {
	switch n {
	case "raw":
		return namer.NewRawNamer("", nil)
	case "public0":
		return namer.NewPublicNamer(0)
	case "public1":
		return namer.NewPublicNamer(1)
	case "public2":
		return namer.NewPublicNamer(2)
	case "private0":
		return namer.NewPrivateNamer(0)
	}
	return namer.NewPrivateNamer(1)
}

// builds the universe; ids in spec order
func orderUniverse(s *common.OrderSpec) (types.Universe, []*types.Type) {
	u := types.Universe{}
	var byID []*types.Type
	for _, p := range s.Pkgs {
		pkg := u.Package(p.Path)
		add := func(m map[string]*types.Type, names []string, kind types.Kind) {
			for _, n := range names {
				t := &types.Type{Name: types.Name{Package: p.Path, Name: n}, Kind: kind}
				m[n] = t
				byID = append(byID, t)
			}
		}
		add(pkg.Types, p.Types, types.Struct)
		add(pkg.Functions, p.Funcs, types.DeclarationOf)
		add(pkg.Variables, p.Vars, types.DeclarationOf)
		add(pkg.Constants, p.Consts, types.DeclarationOf)
	}
	return u, byID
}

func orderIDs(res []*types.Type, byID []*types.Type) []int {
	idx := map[*types.Type]int{}
	for i, t := range byID {
		idx[t] = i
	}
	out := make([]int, len(res))
	for i, t := range res {
		out[i] = idx[t]
	}
	return out
}

func init() {
	props["C03"] = common.OrderProperty(common.OrderImpl{
		Names: func(s *common.OrderSpec, n string) []string {
			_, byID := orderUniverse(s)
			nm := orderNamer(n)
			out := make([]string, len(byID))
			for i, t := range byID {
				out[i] = nm.Name(t)
			}
			return out
		},
		OrderUniverse: func(s *common.OrderSpec, n string, runs int) [][]int {
			var out [][]int
			for i := 0; i < runs; i++ {
				u, byID := orderUniverse(s)
				o := namer.Orderer{Namer: orderNamer(n)}
				out = append(out, orderIDs(o.OrderUniverse(u), byID))
			}
			return out
		},
		OrderTypes: func(s *common.OrderSpec, n string, list []int) []int {
			_, byID := orderUniverse(s)
			in := make([]*types.Type, len(list))
			for i, id := range list {
				in[i] = byID[id]
			}
			o := namer.Orderer{Namer: orderNamer(n)}
			return orderIDs(o.OrderTypes(in), byID)
		},
	})
}

package main

import (
	"bytes"

	"k8s.io/gengo/v2/generator"
	"verif/common"
)

func init() {
	ft := generator.NewGoFile()
	props["C09"] = common.AsmProperty(common.AsmImpl{
		V2: true,
		Assemble: func(a *common.AsmFile) []byte {
			f := &generator.File{Name: "zz.go", FileType: "go", PackageName: a.PkgName, Header: []byte(a.Header), Imports: map[string]struct{}{}}
			for _, i := range a.Imports {
				f.Imports[i] = struct{}{}
			}
			f.Vars.WriteString(a.Vars)
			f.Consts.WriteString(a.Consts)
			f.Body.WriteString(a.Body)
			var b bytes.Buffer
			ft.Assemble(&b, f)
			return b.Bytes()
		},
		Format: ft.Format,
	})
}

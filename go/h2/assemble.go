package main

import (
	"bytes"
	"path/filepath"

	"k8s.io/gengo/v2/generator"
	"k8s.io/gengo/v2/namer"
	"verif/common"
)

func asmFile(a *common.AsmFile) *generator.File {
	f := &generator.File{Name: "zz.go", FileType: "go", PackageName: a.PkgName, Header: []byte(a.Header), Imports: map[string]struct{}{}}
	for _, i := range a.Imports {
		f.Imports[i] = struct{}{}
	}
	f.Vars.WriteString(a.Vars)
	f.Consts.WriteString(a.Consts)
	f.Body.WriteString(a.Body)
	return f
}

func init() {
	ft := generator.NewGoFile()
	// "ex": the lines the generators contribute reach the file through the real ExecutePackage/ExecuteTarget
	props["C09"] = common.Combine(map[string]common.Property{"ex": common.ExecProperty(execImpl(), "C04", common.ExecGenContributions), "asm": common.AsmProperty(common.AsmImpl{
		V2: true,
		Assemble: func(a *common.AsmFile) []byte {
			var b bytes.Buffer
			ft.Assemble(&b, asmFile(a))
			return b.Bytes()
		},
		Format:       ft.Format,
		AssembleFile: func(a *common.AsmFile, path string) error { return ft.AssembleFile(asmFile(a), path) },
		PackageRun: func(header, doc []byte, otherBody, dir string) error {
			c := &generator.Context{Namers: namer.NameSystems{}, FileTypes: map[string]generator.FileType{generator.GoFileType: generator.NewGoFile()}}
			t := generator.SimpleTarget{PkgName: "demo", PkgPath: "example.com/demo", PkgDir: filepath.Join(dir, "demo"), HeaderComment: header, PkgDocComment: doc,
				GeneratorsFunc: func(*generator.Context) []generator.Generator {
					return []generator.Generator{generator.GoGenerator{OutputFilename: "doc.go"}, generator.GoGenerator{OutputFilename: "other.go", OptionalBody: []byte(otherBody)}}
				}}
			return c.ExecuteTarget(t)
		},
	})})
}

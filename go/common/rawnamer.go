package common

import (
	"fmt"
	"go/ast"
	"go/importer"
	"go/parser"
	"go/token"
	gotypes "go/types"
	"path/filepath"
	"sort"
	"strings"
)

// ---- C02: raw names + tracked imports ---------------------------------------------------------

type RawImpl struct {
	V2 bool
	// Names names the types in order with one raw namer for output package `pkg`; tracker: "none" (nil),
	// "-" (tracker without a local package) or the tracker's local package. Returns names and import lines.
	Names func(pkg string, tracker string, types []*TypeSpec) (names []string, importLines []string)
}

var rawPaths = []string{"k8s.io/api/core/v1", "k8s.io/apimachinery/pkg/apis/meta/v1", "a/b-c/d.e", "example.com/out/v1", "x", "my.org/api/v1", "a/b", "other/b", "go/types", "x/type", "net/port", "im/port", "inter/face", "other/face",
	// leaves that spell a keyword only once '_', '.' and '-' are dropped; three packages sharing their last two elements
	"x/type_", "y/go.", "z/fall-through", "a.example/api/core/v1", "b.example/client/core/v1"}
var rawNames = []string{"Pod", "Foo", "T1", "Baz", "Time", "X"}

func pkgIdent(path string) string {
	leaf := filepath.Base(path)
	var b strings.Builder
	for _, c := range leaf {
		if c == '_' || c >= '0' && c <= '9' || c >= 'a' && c <= 'z' || c >= 'A' && c <= 'Z' {
			b.WriteRune(c)
		}
	}
	s := b.String()
	if token.IsKeyword(s) || s == "" {
		s = "p" + s
	}
	return s
}

type mapImporter struct {
	pkgs map[string]*gotypes.Package
	def  gotypes.Importer
}

func (m mapImporter) Import(path string) (*gotypes.Package, error) {
	if p, ok := m.pkgs[path]; ok {
		return p, nil
	}
	if path == "unsafe" {
		return gotypes.Unsafe, nil
	}
	return nil, fmt.Errorf("package %q not declared", path)
}

func collectNamed(t *TypeSpec, out map[string]map[string]bool) {
	if t == nil {
		return
	}
	if t.Kind == "named" {
		if out[t.Pkg] == nil {
			out[t.Pkg] = map[string]bool{}
		}
		out[t.Pkg][t.Name] = true
	}
	collectNamed(t.Key, out)
	collectNamed(t.Elem, out)
	for _, m := range t.Members {
		collectNamed(m.Type, out)
	}
	for _, p := range t.Params {
		collectNamed(p, out)
	}
	for _, p := range t.Results {
		collectNamed(p, out)
	}
}

// expected go/types type of a spec
func goTypeOf(t *TypeSpec, pkgs map[string]*gotypes.Package, out *gotypes.Package) gotypes.Type {
	switch t.Kind {
	case "named":
		return pkgs[t.Pkg].Scope().Lookup(t.Name).Type()
	case "builtin":
		return gotypes.Universe.Lookup(t.Name).Type()
	case "map":
		return gotypes.NewMap(goTypeOf(t.Key, pkgs, out), goTypeOf(t.Elem, pkgs, out))
	case "slice":
		return gotypes.NewSlice(goTypeOf(t.Elem, pkgs, out))
	case "array":
		return gotypes.NewArray(goTypeOf(t.Elem, pkgs, out), int64(t.Len))
	case "pointer":
		return gotypes.NewPointer(goTypeOf(t.Elem, pkgs, out))
	case "chan":
		return gotypes.NewChan(gotypes.SendRecv, goTypeOf(t.Elem, pkgs, out))
	case "struct":
		var fs []*gotypes.Var
		for _, m := range t.Members {
			fs = append(fs, gotypes.NewField(token.NoPos, out, m.Name, goTypeOf(m.Type, pkgs, out), false))
		}
		return gotypes.NewStruct(fs, nil)
	case "iface":
		return gotypes.NewInterfaceType(nil, nil).Complete()
	case "func":
		tuple := func(l []*TypeSpec) *gotypes.Tuple {
			var vs []*gotypes.Var
			for _, p := range l {
				vs = append(vs, gotypes.NewVar(token.NoPos, out, "", goTypeOf(p, pkgs, out)))
			}
			return gotypes.NewTuple(vs...)
		}
		return gotypes.NewSignature(nil, tuple(t.Params), tuple(t.Results), false)
	}
	panic("kind outside the fragment: " + t.Kind)
}

func RawProperty(impl RawImpl) Property {
	variant := "v1"
	if impl.V2 {
		variant = "v2"
	}
	exec1 := func(line string) (out string, fails []Failure) {
		f := Fields(line)
		defer func() {
			if r := recover(); r != nil {
				out = "panic"
				fails = append(fails, Failure{"panic", fmt.Sprintf("raw naming panics: %v", r)})
			}
		}()
		hasTr, trLocal, lp := f[3] == "1", f[4], Unhex(f[5])
		types := DecTypes(f[6])
		tracker := "none"
		if hasTr {
			tracker = "-"
			if trLocal != "-" {
				tracker = Unhex(trLocal)
			}
		}
		names, lines := impl.Names(lp, tracker, types)
		fail := func(sig, what string) { fails = append(fails, Failure{sig, what}) }
		il := "-"
		if hasTr {
			il = HexList(lines)
		}
		out = HexList(names) + "|" + il
		// ---- oracle: type-check the rendered names in a file of the output package
		named := map[string]map[string]bool{}
		for _, t := range types {
			collectNamed(t, named)
		}
		fset := token.NewFileSet()
		pkgs := map[string]*gotypes.Package{}
		for _, path := range SortedKeys(named) {
			if path == lp {
				continue
			}
			var src strings.Builder
			fmt.Fprintf(&src, "package %s\n", pkgIdent(path))
			for _, n := range SortedKeys(named[path]) {
				fmt.Fprintf(&src, "type %s struct{ F int }\n", n)
			}
			af, err := parser.ParseFile(fset, path+"/x.go", src.String(), 0)
			if err != nil {
				panic(err)
			}
			p, err := (&gotypes.Config{}).Check(path, fset, []*ast.File{af}, nil)
			if err != nil {
				panic(err)
			}
			pkgs[path] = p
		}
		var src strings.Builder
		fmt.Fprintf(&src, "package %s\n", pkgIdent(lp))
		if hasTr {
			if len(lines) > 0 {
				src.WriteString("import (\n")
				for _, l := range lines {
					src.WriteString("\t" + l + "\n")
					if _, p, ok := parseImportLine(l); ok && p == lp {
						fail("self-import", fmt.Sprintf("the import lines name the output package %q itself", lp))
					}
				}
				src.WriteString(")\n")
			}
		} else {
			for _, path := range SortedKeys(pkgs) {
				fmt.Fprintf(&src, "import %q\n", path)
			}
		}
		for _, n := range SortedKeys(named[lp]) {
			fmt.Fprintf(&src, "type %s struct{ F int }\n", n)
		}
		for i, n := range names {
			fmt.Fprintf(&src, "var V%d %s\n", i, n)
		}
		af, err := parser.ParseFile(fset, lp+"/out.go", src.String(), 0)
		if err != nil {
			fail("does-not-parse", fmt.Sprintf("rendered names do not parse: %v\n%s", err, src.String()))
			return
		}
		var terrs []string
		conf := gotypes.Config{Importer: mapImporter{pkgs, importer.Default()}, Error: func(e error) { terrs = append(terrs, e.Error()) }}
		outPkg, _ := conf.Check(lp, fset, []*ast.File{af}, nil)
		if len(terrs) > 0 {
			sig := "does-not-typecheck"
			for _, e := range terrs {
				if strings.Contains(e, "imported and not used") {
					sig = "unneeded-import"
				}
				if strings.Contains(e, "undefined") || strings.Contains(e, "undeclared") {
					sig = "missing-import"
				}
			}
			fail(sig, fmt.Sprintf("file of package %s with the rendered names does not type-check: %v\n%s", lp, terrs, src.String()))
			return
		}
		pkgs[lp] = outPkg
		for i, t := range types {
			got := outPkg.Scope().Lookup(fmt.Sprintf("V%d", i)).Type()
			exp := goTypeOf(t, pkgs, outPkg)
			if !gotypes.Identical(got, exp) {
				fail("denotes-other-type", fmt.Sprintf("%q denotes %s, the type it was made from is %s", names[i], got, exp))
			}
		}
		return
	}
	return Property{
		Exec: func(lines []string) ([]string, []Failure) {
			outs := make([]string, len(lines))
			var fails []Failure
			for i, l := range lines {
				o, fs := exec1(l)
				outs[i] = o
				fails = append(fails, fs...)
			}
			return outs, fails
		},
		Gen: func(c *Ctx) { rawGen(c, variant) },
	}
}

func genRawType(r *RNG, depth int, paths []string) *TypeSpec {
	leaf := func() *TypeSpec {
		if r.Chance(2, 5) {
			return &TypeSpec{Kind: "builtin", Name: r.Pick(GenBuiltins)}
		}
		return &TypeSpec{Kind: "named", Pkg: r.Pick(paths), Name: r.Pick(rawNames)}
	}
	if depth <= 0 || r.Chance(1, 4) {
		return leaf()
	}
	switch r.Intn(9) {
	case 0:
		return &TypeSpec{Kind: "map", Key: genRawType(r, 0, paths), Elem: genRawType(r, depth-1, paths)}
	case 1:
		return &TypeSpec{Kind: "slice", Elem: genRawType(r, depth-1, paths)}
	case 2:
		return &TypeSpec{Kind: "array", Len: r.Intn(5), Elem: genRawType(r, depth-1, paths)}
	case 3:
		return &TypeSpec{Kind: "pointer", Elem: genRawType(r, depth-1, paths)}
	case 4:
		return &TypeSpec{Kind: "chan", Elem: genRawType(r, depth-1, paths)}
	case 5:
		t := &TypeSpec{Kind: "struct"}
		for i := r.Intn(4); i > 0; i-- {
			t.Members = append(t.Members, MemberSpec{[]string{"A", "B", "c"}[len(t.Members)], genRawType(r, depth-1, paths)})
		}
		return t
	case 6:
		return &TypeSpec{Kind: "iface"}
	case 7:
		t := &TypeSpec{Kind: "func"}
		for i := r.Intn(3); i > 0; i-- {
			t.Params = append(t.Params, genRawType(r, depth-1, paths))
		}
		for i := r.Intn(3); i > 0; i-- {
			t.Results = append(t.Results, genRawType(r, depth-1, paths))
		}
		return t
	}
	return leaf()
}

func rawGen(c *Ctx, variant string) {
	r := c.RNG("gen")
	n := c.Scale(4000, 80000)
	for it := 0; it < n; it++ {
		mode := r.Intn(4) // 0: nil tracker, 1: tracker without local, 2,3: tracker knowing the output package
		paths := rawPaths
		if mode == 0 {
			// nil tracker: "ordinary assumptions" – package name = path base, bases distinct
			paths = []string{"k8s.io/api/core/v1", "a/b", "x", "go/types", "my.org/api/meta"}
		}
		lp := r.Pick([]string{"example.com/out/v1", "a/b", "out", "k8s.io/api/core/v1", "x/types"})
		if mode == 0 {
			lp = r.Pick([]string{"out", "a/b", "k8s.io/api/core/v1"})
		}
		var avail []string
		for _, p := range paths {
			avail = append(avail, p)
		}
		avail = append(avail, lp, lp) // local types are frequent
		k := 1 + r.Intn(4)
		types := make([]*TypeSpec, k)
		feats := []string{[]string{"tracker:nil", "tracker:no-local", "tracker:local", "tracker:local"}[mode]}
		for i := range types {
			types[i] = genRawType(r, 3, avail)
			feats = append(feats, "kind:"+types[i].Kind)
		}
		hasTr, trLocal := "1", Hex(lp)
		switch mode {
		case 0:
			hasTr, trLocal = "0", "-"
		case 1:
			trLocal = "-"
		}
		sort.Strings(feats)
		c.Case([]string{Line("raw", "names", variant, hasTr, trLocal, Hex(lp), EncTypes(types))}, Meta{Nontrivial: true, Features: feats})
	}
}

package common

import (
	"fmt"
	"sort"
	"strings"
)

// ---- C03: canonical order ----------------------------------------------------------------

type OrderPkgSpec struct {
	Path                       string
	Types, Funcs, Vars, Consts []string
}

type OrderSpec struct{ Pkgs []OrderPkgSpec }

// Entries lists (sort key, package, name) per id, ids in spec order.
func (s *OrderSpec) Entries() (keys []string) {
	for _, p := range s.Pkgs {
		for cat, l := range [][]string{p.Types, p.Funcs, p.Vars, p.Consts} {
			for _, n := range l {
				keys = append(keys, p.Path+"\x00"+Itoa(cat)+"\x00"+n)
			}
		}
	}
	return
}

func (s *OrderSpec) Enc() string {
	var ps []string
	for _, p := range s.Pkgs {
		ps = append(ps, p.Path+":"+strings.Join(p.Types, ",")+"|"+strings.Join(p.Funcs, ",")+"|"+strings.Join(p.Vars, ",")+"|"+strings.Join(p.Consts, ","))
	}
	return strings.Join(ps, ";")
}

func splitNE(s, sep string) []string {
	if s == "" {
		return nil
	}
	return strings.Split(s, sep)
}

func DecOrderSpec(e string) *OrderSpec {
	s := &OrderSpec{}
	for _, p := range splitNE(e, ";") {
		i := strings.Index(p, ":")
		cats := strings.Split(p[i+1:], "|")
		s.Pkgs = append(s.Pkgs, OrderPkgSpec{Path: p[:i], Types: splitNE(cats[0], ","), Funcs: splitNE(cats[1], ","), Vars: splitNE(cats[2], ","), Consts: splitNE(cats[3], ",")})
	}
	return s
}

type OrderImpl struct {
	// Names returns the ordering namer's name for every id (fresh namer instance).
	Names func(s *OrderSpec, namer string) []string
	// OrderUniverse builds the universe as Go maps and runs the real OrderUniverse `runs` times
	// (each on a freshly built universe and namer); results are id lists.
	OrderUniverse func(s *OrderSpec, namer string, runs int) [][]int
	// OrderTypes runs the real OrderTypes on the given id list.
	OrderTypes func(s *OrderSpec, namer string, list []int) []int
	// ContextOrder parses the spec as real source (SourceOf), builds a generator.Context with NewContext – several naming
	// systems, `namer` the canonical one – and returns Context.Order restricted to the spec's entries as ids, plus what
	// the oracle found wrong with the whole of Context.Order / Context.Namers ("" if nothing).
	ContextOrder func(s *OrderSpec, namer string) (ids []int, wrong string, err error)
}

// SourceOf renders one package of the spec as Go source (names are distinct per package in specs made for it).
func (p *OrderPkgSpec) SourceOf() string {
	var b strings.Builder
	b.WriteString("package " + pkgIdent(p.Path) + "\n\n")
	for _, n := range p.Types {
		b.WriteString("type " + n + " int64\n\n")
	}
	for _, n := range p.Funcs {
		b.WriteString("func " + n + "() {}\n\n")
	}
	for _, n := range p.Vars {
		b.WriteString("var " + n + " int64\n\n")
	}
	for _, n := range p.Consts {
		b.WriteString("const " + n + " int64 = 1\n\n")
	}
	return b.String()
}

// ContextOracle judges a whole Context.Order: names of consecutive entries non-decreasing, every member of the universe
// exactly once; and that every naming system handed to NewContext is in Context.Namers.
func ContextOracle(orderNames []string, orderCount, universeCount int, distinct bool, haveNamers, wantNamers []string) string {
	for i := 1; i < len(orderNames); i++ {
		if orderNames[i] < orderNames[i-1] {
			return fmt.Sprintf("Context.Order is not sorted by the canonical naming system: %q comes after %q", orderNames[i], orderNames[i-1])
		}
	}
	if orderCount != universeCount || !distinct {
		return fmt.Sprintf("Context.Order has %d entries (distinct: %v), the universe has %d members", orderCount, distinct, universeCount)
	}
	sort.Strings(haveNamers)
	sort.Strings(wantNamers)
	if fmt.Sprint(haveNamers) != fmt.Sprint(wantNamers) {
		return fmt.Sprintf("Context.Namers has %v, NewContext was given %v", haveNamers, wantNamers)
	}
	return ""
}

func OrderProperty(impl OrderImpl) Property {
	exec1 := func(line string) (out string, fails []Failure) {
		f := Fields(line)
		defer func() {
			if r := recover(); r != nil {
				out = "panic"
				fails = append(fails, Failure{"panic", fmt.Sprintf("%s panics: %v", f[1], r)})
			}
		}()
		namer, spec := Unhex(f[2]), DecOrderSpec(Unhex(f[3]))
		names := impl.Names(spec, namer)
		keys := spec.Entries()
		check := func(what string, input []int, res []int) {
			// complete: every entry exactly once
			a := append([]int(nil), input...)
			b := append([]int(nil), res...)
			sort.Ints(a)
			sort.Ints(b)
			if fmt.Sprint(a) != fmt.Sprint(b) {
				fails = append(fails, Failure{"order-incomplete", fmt.Sprintf("%s: result %v is not a permutation of the %d entries", what, res, len(input))})
				return
			}
			for i := 1; i < len(res); i++ {
				if names[res[i]] < names[res[i-1]] {
					fails = append(fails, Failure{"order-unsorted", fmt.Sprintf("%s: %q comes after %q", what, names[res[i]], names[res[i-1]])})
					return
				}
			}
		}
		switch f[1] {
		case "universe":
			if HexList(names) != f[6] || HexList(keys) != f[5] {
				fails = append(fails, Failure{"facts-stale", "names/keys in the line differ from what the namer gives now (harness)"})
			}
			all := make([]int, len(keys))
			for i := range all {
				all[i] = i
			}
			runs := impl.OrderUniverse(spec, namer, 24)
			for _, r := range runs {
				check("OrderUniverse", all, r)
				if fmt.Sprint(r) != fmt.Sprint(runs[0]) {
					tie := false
					for i := 1; i < len(r); i++ {
						if names[r[i]] == names[r[i-1]] {
							tie = true
						}
					}
					fails = append(fails, Failure{"order-not-deterministic", fmt.Sprintf("two runs over the same universe give %v and %v (names %q, ties present: %v)", runs[0], r, names, tie)})
					break
				}
			}
			out = idsField(runs[0])
		case "context":
			// the same question asked of generator.NewContext: Context.Order is the canonical order of the parsed universe
			all := make([]int, len(keys))
			for i := range all {
				all[i] = i
			}
			ids, wrong, err := impl.ContextOrder(spec, namer)
			if err != nil {
				fails = append(fails, Failure{"generator-ill-typed", "the program made from the spec does not load (harness): " + err.Error()})
				out = "-"
				return
			}
			if wrong != "" {
				fails = append(fails, Failure{"context-order", wrong})
			}
			check("NewContext", all, ids)
			out = idsField(ids)
		case "types":
			list := parseIDs(f[4])
			res := impl.OrderTypes(spec, namer, list)
			check("OrderTypes", list, res)
			out = idsField(res)
		default:
			out = "bad-op"
		}
		return
	}
	return Property{
		Exec: func(lines []string) ([]string, []Failure) {
			outs := make([]string, len(lines))
			var fails []Failure
			for i, l := range lines {
				o, fs := exec1(l)
				outs[i] = o
				fails = append(fails, fs...)
			}
			return outs, fails
		},
		Gen: func(c *Ctx) { orderGen(c, impl) },
	}
}

func orderGen(c *Ctx, impl OrderImpl) {
	r := c.RNG("gen")
	paths := []string{"a", "a/b", "b", "k8s.io/api/v1", "z-x", "a/b/c"}
	names := []string{"Baz", "Foo", "bar", "Qux", "A", "baz"}
	namers := []string{"raw", "public0", "public1", "public2", "private0", "private1"}
	emit := func(spec *OrderSpec, namer string, feats []string) {
		keys := spec.Entries()
		nm := impl.Names(spec, namer)
		perm := r.Perm(len(keys))
		ties := false
		seen := map[string]bool{}
		for _, n := range nm {
			if seen[n] {
				ties = true
			}
			seen[n] = true
		}
		if ties {
			feats = append(feats, "ties")
		}
		c.Case([]string{Line("ord", "universe", Hex(namer), Hex(spec.Enc()), idsField(perm), HexList(keys), HexList(nm))},
			Meta{Nontrivial: len(keys) >= 2, Features: feats})
		if len(keys) > 0 && r.Chance(1, 3) {
			var list []int
			for _, i := range r.Perm(len(keys)) {
				if r.Bool() {
					list = append(list, i)
				}
			}
			c.Case([]string{Line("ord", "types", Hex(namer), Hex(spec.Enc()), idsField(list), HexList(nm))}, Meta{Nontrivial: len(list) >= 2, Features: []string{"op:types"}})
		}
	}
	pick := func(k int) []string {
		var out []string
		seen := map[string]bool{}
		for i := 0; i < k; i++ {
			n := r.Pick(names)
			if !seen[n] {
				seen[n] = true
				out = append(out, n)
			}
		}
		return out
	}
	// generator.NewContext on real source: distinct identifiers per package, several naming systems, one of them canonical
	if impl.ContextOrder != nil {
		idents := []string{"Baz", "Foo", "Bar", "Qux", "A", "Zed", "Mid", "Box"}
		cpaths := []string{"example.com/m/a", "example.com/m/a/b", "example.com/m/b", "example.com/m/z_x", "example.com/m/api/v1"}
		for i, n := 0, c.Scale(12, 150); i < n; i++ {
			spec := &OrderSpec{}
			for _, pi := range r.Perm(len(cpaths))[:1+r.Intn(3)] {
				ns := append([]string(nil), idents...)
				for k := range ns {
					j := r.Intn(k + 1)
					ns[k], ns[j] = ns[j], ns[k]
				}
				a, b, cc, d := r.Intn(3), r.Intn(3), r.Intn(2), r.Intn(2)
				spec.Pkgs = append(spec.Pkgs, OrderPkgSpec{Path: cpaths[pi], Types: ns[:a], Funcs: ns[a : a+b], Vars: ns[a+b : a+b+cc], Consts: ns[a+b+cc : a+b+cc+d]})
			}
			namer := r.Pick(namers)
			keys := spec.Entries()
			nm := impl.Names(spec, namer)
			c.Case([]string{Line("ord", "context", Hex(namer), Hex(spec.Enc()), idsField(r.Perm(len(keys))), HexList(keys), HexList(nm))},
				Meta{Nontrivial: len(keys) >= 2, Features: []string{"op:context"}})
		}
	}
	// corpus: three types called Baz in three packages under the public namer (F4)
	emit(&OrderSpec{Pkgs: []OrderPkgSpec{{Path: "a", Types: []string{"Baz"}}, {Path: "b", Types: []string{"Baz"}}, {Path: "c", Types: []string{"Baz", "Foo"}}}}, "public0", []string{"corpus"})
	n := c.Scale(1500, 30000)
	for i := 0; i < n; i++ {
		spec := &OrderSpec{}
		np := 1 + r.Intn(4)
		used := map[string]bool{}
		for j := 0; j < np; j++ {
			p := r.Pick(paths)
			if used[p] {
				continue
			}
			used[p] = true
			spec.Pkgs = append(spec.Pkgs, OrderPkgSpec{Path: p, Types: pick(r.Intn(4)), Funcs: pick(r.Intn(3)), Vars: pick(r.Intn(2)), Consts: pick(r.Intn(2))})
		}
		emit(spec, r.Pick(namers), nil)
	}
	if c.Tier == "thorough" {
		// all universes with <= 4 entries over 2 names in 2 packages (forces ties)
		var rec func(spec []string)
		cells := []string{"a:T:Baz", "a:T:Foo", "a:F:Baz", "b:T:Baz", "b:T:Foo", "b:C:Baz"}
		rec = func(chosen []string) {
			if len(chosen) > 0 {
				m := map[string]*OrderPkgSpec{}
				var order []string
				for _, ch := range chosen {
					parts := strings.Split(ch, ":")
					if m[parts[0]] == nil {
						m[parts[0]] = &OrderPkgSpec{Path: parts[0]}
						order = append(order, parts[0])
					}
					switch parts[1] {
					case "T":
						m[parts[0]].Types = append(m[parts[0]].Types, parts[2])
					case "F":
						m[parts[0]].Funcs = append(m[parts[0]].Funcs, parts[2])
					case "C":
						m[parts[0]].Consts = append(m[parts[0]].Consts, parts[2])
					}
				}
				spec := &OrderSpec{}
				for _, p := range order {
					spec.Pkgs = append(spec.Pkgs, *m[p])
				}
				for _, nm := range []string{"raw", "public0", "private1"} {
					emit(spec, nm, []string{"exhaustive"})
				}
			}
			if len(chosen) == 4 {
				return
			}
			start := 0
			if len(chosen) > 0 {
				for i, cell := range cells {
					if cell == chosen[len(chosen)-1] {
						start = i + 1
					}
				}
			}
			for _, cell := range cells[start:] {
				rec(append(chosen[:len(chosen):len(chosen)], cell))
			}
		}
		rec(nil)
	}
}

package common

import (
	"fmt"
	"go/ast"
	"go/constant"
	"go/parser"
	"go/token"
	gotypes "go/types"
	"sort"
	"strings"
)

// ---- generated multi-package Go programs and their go/types facts (C01, C05, C06, C11, C20) ----

type ProgPkg struct {
	Path    string
	Name    string
	Source  string            // one file (named File)
	File    string            // file name, e.g. "types.go"
	Imports []string          // direct imports (paths)
	Extra   map[string]string // further files of the package (name -> source); used by C05
}

type Program struct {
	Module string
	Pkgs   []*ProgPkg // in dependency order (a package only imports earlier ones)
	V2     bool       // may use generics
	// TestFiles: the loader is asked to include in-package test files (v1 Builder.IncludeTestFiles); the *_test.go files
	// among Extra then belong to their packages
	TestFiles bool
}

func (p *Program) Pkg(path string) *ProgPkg {
	for _, q := range p.Pkgs {
		if q.Path == path {
			return q
		}
	}
	return nil
}

type namedRef struct {
	pkg, name  string
	kind       string // struct, alias (over basic/map/slice), iface, other
	generic    bool
	comparable bool
	fields     []string // struct: declared field names
}

type progGen struct {
	r     *RNG
	v2    bool
	named []namedRef // declared so far (all packages)
}

var progBasics = []string{"string", "int", "bool", "byte", "int64", "uint8", "float64", "int8", "rune", "int32", "complex128", "uint16", "uintptr", "float32"}

// typeExpr returns a Go type expression usable in package cur; records imports.
func (g *progGen) typeExpr(cur string, depth int, imports map[string]bool, allowIface bool) string {
	r := g.r
	leaf := func() string {
		if len(g.named) > 0 && r.Chance(1, 2) {
			n := g.named[r.Intn(len(g.named))]
			s := n.name
			if n.pkg != cur {
				imports[n.pkg] = true
				s = pkgIdent(n.pkg) + "." + n.name
			}
			if n.generic {
				s += "[" + r.Pick([]string{"int", "string", "bool"}) + "]"
			}
			return s
		}
		return r.Pick(progBasics)
	}
	if depth <= 0 || r.Chance(1, 3) {
		return leaf()
	}
	switch r.Intn(11) {
	case 0:
		return "*" + g.typeExpr(cur, depth-1, imports, allowIface)
	case 1:
		return "[]" + g.typeExpr(cur, depth-1, imports, allowIface)
	case 2:
		return fmt.Sprintf("[%d]", r.Intn(5)) + g.typeExpr(cur, depth-1, imports, allowIface)
	case 3:
		return "map[" + r.Pick([]string{"string", "int", "bool", "int8", "rune"}) + "]" + g.typeExpr(cur, depth-1, imports, allowIface)
	case 4:
		return "chan " + g.typeExpr(cur, depth-1, imports, allowIface)
	case 5:
		// anonymous struct (exported fields so that printing is package independent)
		var fs []string
		for i := r.Intn(3); i > 0; i-- {
			fn := fmt.Sprintf("X%d", len(fs))
			if r.Chance(1, 8) {
				fn = fmt.Sprintf("x%d", len(fs)) // unexported: such literals are different types in different packages
			}
			fs = append(fs, fmt.Sprintf("%s %s", fn, g.typeExpr(cur, depth-1, imports, allowIface)))
		}
		return "struct{ " + strings.Join(fs, "; ") + " }"
	case 6:
		return "struct{}"
	case 7:
		if allowIface {
			if g.v2 && depth%2 == 0 {
				return "any" // the predeclared spelling: gengo has a ready-made object for it
			}
			return "interface{}"
		}
		return leaf()
	case 8:
		var ps, rs []string
		for i := r.Intn(3); i > 0; i-- {
			ps = append(ps, g.typeExpr(cur, depth-1, imports, allowIface))
		}
		for i := r.Intn(3); i > 0; i-- {
			rs = append(rs, g.typeExpr(cur, depth-1, imports, allowIface))
		}
		res := ""
		if len(rs) == 1 {
			res = " " + rs[0]
		} else if len(rs) > 1 {
			res = " (" + strings.Join(rs, ", ") + ")"
		}
		return "func(" + strings.Join(ps, ", ") + ")" + res
	case 9:
		if allowIface && r.Chance(1, 2) {
			return "error"
		}
		return leaf()
	}
	return leaf()
}

type ProgOpts struct {
	V2             bool
	MaxPkgs        int
	Comments       bool // add doc comments (C05 uses its own layout generator; here only simple ones)
	UnexportedAnon bool // allow anonymous structs with unexported fields (known finding F7)
}

// GenProgram generates a well-typed multi-package program over the supported fragment.
func GenProgram(r *RNG, o ProgOpts) *Program {
	g := &progGen{r: r, v2: o.V2}
	root := "example.com/m"
	if r.Chance(1, 5) {
		// import paths that begin like the spelling of an anonymous type
		root = r.Pick([]string{"changelog", "functions", "mapper", "structs", "chan2", "interfaces"})
	}
	prog := &Program{Module: root, V2: o.V2}
	paths := []string{root + "/a", root + "/b", root + "/a/sub", root + "/c-d", root + "/v1"}
	np := 1 + r.Intn(o.MaxPkgs)
	for pi := 0; pi < np; pi++ {
		path := paths[pi]
		pk := &ProgPkg{Path: path, Name: pkgIdent(path), File: "types.go"}
		imports := map[string]bool{}
		var b strings.Builder
		nd := 2 + r.Intn(6)
		// names declared in this package are referable from the start (forward references through pointers etc.)
		var mine []namedRef
		if r.Chance(1, 5) {
			// a package-level type that shadows a predeclared name: a different type from the builtin, in this package only
			// ("any" only without generics: `[T any]` would then be constrained by the local type, and v2 walks the
			// implicit constraint interface under the constrained type's own name -- outside every property's fragment, see DESIGN.md F19)
			shadows := []string{"byte int32", "rune string", "float float64", "uintptr bool", "float32 int64", "uint16 string", "complex128 float64"}
			if !o.V2 {
				shadows = append(shadows, "any int")
			}
			sh := r.Pick(shadows)
			fmt.Fprintf(&b, "type %s\n\n", sh)
		}
		for di := 0; di < nd; di++ {
			kind := r.Intn(12)
			name := fmt.Sprintf("%s%d", []string{"S", "A", "P", "R", "C", "F", "I", "E", "M", "G", "S", "S"}[kind], di)
			ref := namedRef{pkg: path, name: name, kind: "other"}
			switch kind {
			case 0, 10, 11: // struct with fields, tags, embedded fields
				ref.kind = "struct"
				fmt.Fprintf(&b, "// %s is a struct.\ntype %s struct {\n", name, name)
				if r.Chance(1, 5) {
					// shadowing shape: embeds an earlier struct by value and re-declares its field names with scalar types
					var cands []namedRef
					for _, n := range g.named {
						if n.kind == "struct" && !n.generic && len(n.fields) > 0 {
							cands = append(cands, n)
						}
					}
					if len(cands) > 0 {
						n := cands[r.Intn(len(cands))]
						s := n.name
						if n.pkg != path {
							imports[n.pkg] = true
							s = pkgIdent(n.pkg) + "." + n.name
						}
						fmt.Fprintf(&b, "\t%s\n", s)
						for _, f := range n.fields {
							if r.Chance(3, 4) {
								fmt.Fprintf(&b, "\t%s %s\n", f, r.Pick([]string{"int", "string", "bool", "[2]int8"}))
								ref.fields = append(ref.fields, f)
							}
						}
						b.WriteString("}\n\n")
						break
					}
				}
				for fi, nf := 0, r.Intn(4); fi < nf; fi++ {
					tag := ""
					if r.Chance(1, 3) {
						tag = " `json:\"" + r.Pick([]string{"a", "b,omitempty", "-", ",inline"}) + "\" x:\"y z\"`"
					}
					fname := fmt.Sprintf("F%d", fi)
					if r.Chance(1, 6) {
						fname = fmt.Sprintf("f%d", fi)
					}
					fmt.Fprintf(&b, "\t%s %s%s\n", fname, g.typeExpr(path, 2, imports, true), tag)
					ref.fields = append(ref.fields, fname)
					if (di+fi)%4 == 3 {
						// a blank field: it is a field of the Go type like any other (padding, or a reference nobody names)
						fmt.Fprintf(&b, "\t_ %s\n", []string{"*int", "[4]byte", "[]byte", "map[string]int"}[(di*3+fi)%4])
					}
				}
				// embedded field: an earlier named struct (no cycles by value)
				if r.Chance(1, 3) {
					for _, n := range g.named {
						if n.kind == "struct" && !n.generic {
							s := n.name
							if n.pkg != path {
								imports[n.pkg] = true
								s = pkgIdent(n.pkg) + "." + n.name
							}
							if r.Bool() {
								s = "*" + s
							}
							fmt.Fprintf(&b, "\t%s\n", s)
							break
						}
					}
				}
				// self reference through a pointer / slice (cyclic)
				if r.Chance(1, 3) {
					fmt.Fprintf(&b, "\tNext *%s\n\tKids []%s\n", name, name)
				}
				b.WriteString("}\n\n")
			case 1: // defined over basic / map / slice: Alias kind
				ref.kind = "alias"
				under := r.Pick([]string{"string", "int", "int8", "rune", "[]string", "map[string]int", "[]byte", "float64", "uint8", "complex128"})
				if r.Chance(1, 4) && len(g.named) > 0 {
					n := g.named[r.Intn(len(g.named))]
					if !n.generic {
						s := n.name
						if n.pkg != path {
							imports[n.pkg] = true
							s = pkgIdent(n.pkg) + "." + n.name
						}
						under = r.Pick([]string{"[]", "map[string]"}) + s
					}
				}
				fmt.Fprintf(&b, "type %s %s\n\n", name, under)
			case 2:
				fmt.Fprintf(&b, "type %s *%s\n\n", name, g.typeExpr(path, 1, imports, true))
			case 3:
				fmt.Fprintf(&b, "type %s [%d]%s\n\n", name, 1+r.Intn(4), g.typeExpr(path, 1, imports, true))
			case 4:
				fmt.Fprintf(&b, "type %s chan %s\n\n", name, g.typeExpr(path, 1, imports, true))
			case 5:
				var ps []string
				np := r.Intn(3)
				for i := 0; i < np; i++ {
					t := g.typeExpr(path, 1, imports, true)
					if i == np-1 && r.Chance(1, 3) {
						t = "..." + t
					}
					ps = append(ps, fmt.Sprintf("p%d %s", i, t))
				}
				res := ""
				if r.Bool() {
					res = " (r0 " + g.typeExpr(path, 1, imports, true) + ", err error)"
				}
				fmt.Fprintf(&b, "type %s func(%s)%s\n\n", name, strings.Join(ps, ", "), res)
			case 6: // named interface with methods
				ref.kind = "iface"
				fmt.Fprintf(&b, "type %s interface {\n", name)
				for mi, nm := 0, 1+r.Intn(2); mi < nm; mi++ {
					fmt.Fprintf(&b, "\t// M%d does things.\n\tM%d(x %s) %s\n", mi, mi, g.typeExpr(path, 1, imports, true), g.typeExpr(path, 1, imports, true))
				}
				b.WriteString("}\n\n")
			case 7:
				ref.kind = "iface"
				fmt.Fprintf(&b, "type %s interface{}\n\n", name)
			case 8: // defined type over another named struct/other type of an earlier decl
				if len(g.named) > 0 {
					n := g.named[r.Intn(len(g.named))]
					if !n.generic {
						s := n.name
						if n.pkg != path {
							imports[n.pkg] = true
							s = pkgIdent(n.pkg) + "." + n.name
						}
						ref.kind = n.kind
						fmt.Fprintf(&b, "type %s %s\n\n", name, s)
						break
					}
				}
				ref.kind = "alias"
				fmt.Fprintf(&b, "type %s string\n\n", name)
			case 9:
				if o.V2 {
					ref.generic = true
					ref.kind = "struct"
					fmt.Fprintf(&b, "type %s[T any] struct {\n\tV T\n\tP *T\n\tL []T\n}\n\n", name)
					if r.Bool() {
						// methods of the generic declaration mention T: their description must not depend on an instantiation
						fmt.Fprintf(&b, "// Get of %s.\nfunc (recv %s[T]) Get(d T) T { return recv.V }\n\n", name, name)
						if r.Bool() {
							fmt.Fprintf(&b, "// Set of %s.\nfunc (recv *%s[T]) Set(v T, more ...T) (old *T) { panic(\"\") }\n\n", name, name)
						}
					}
				} else {
					ref.kind = "struct"
					fmt.Fprintf(&b, "type %s struct{ V int }\n\n", name)
				}
			}
			mine = append(mine, ref)
			g.named = append(g.named, ref)
			// methods on non-interface, non-pointer-underlying named types
			if (kind == 0 || kind == 1 || kind == 3 || kind == 10) && r.Chance(1, 3) {
				for mi, nm := 0, 1+r.Intn(2); mi < nm; mi++ {
					recv := name
					if r.Bool() {
						recv = "*" + name
					}
					variadic := ""
					if r.Chance(1, 4) {
						variadic = ", more ...string"
					}
					fmt.Fprintf(&b, "// Meth%d of %s.\nfunc (recv %s) Meth%d(a %s%s) (out %s) { panic(\"\") }\n\n", mi, name, recv, mi, g.typeExpr(path, 1, imports, true), variadic, g.typeExpr(path, 1, imports, true))
				}
			}
		}
		// functions, variables, constants
		for i, n := 0, r.Intn(3); i < n; i++ {
			fmt.Fprintf(&b, "// Fn%d is a function.\nfunc Fn%d(x %s, y ...%s) (%s, error) { panic(\"\") }\n\n", i, i, g.typeExpr(path, 1, imports, true), g.typeExpr(path, 0, imports, true), g.typeExpr(path, 1, imports, true))
		}
		for i, n := 0, r.Intn(3); i < n; i++ {
			fmt.Fprintf(&b, "var V%d %s\n\n", i, g.typeExpr(path, 2, imports, true))
		}
		b.WriteString(r.Pick([]string{"", "const CI = 42\n\n", "const CS string = \"he said \\\"hi\\\"\"\n\nconst CF = 1.5\n\n", "const (\n\tCA int8 = -3\n\tCB = 'x'\n\tCT = true\n)\n\n", "const Big = 1 << 70\n\n",
			// constants of a defined string type: their value is the string, not its Go spelling
			"// Phase is a defined string type.\ntype Phase string\n\nconst (\n\tPending Phase = \"Pending\"\n\tQuoted  Phase = \"a \\\"b\\\"\\n\"\n)\n\n"}))
		_ = mine
		var src strings.Builder
		fmt.Fprintf(&src, "// Package %s is generated.\npackage %s\n\n", pk.Name, pk.Name)
		for _, im := range SortedKeys(imports) {
			pk.Imports = append(pk.Imports, im)
		}
		if len(pk.Imports) > 0 {
			src.WriteString("import (\n")
			for _, im := range pk.Imports {
				fmt.Fprintf(&src, "\t%s %q\n", pkgIdent(im), im)
			}
			src.WriteString(")\n\n")
		}
		src.WriteString(b.String())
		pk.Source = src.String()
		prog.Pkgs = append(prog.Pkgs, pk)
	}
	return prog
}

// ---- type-check and export facts ----

type Checked struct {
	Fset  *token.FileSet
	Pkgs  map[string]*gotypes.Package
	Files map[string]*ast.File
}

func (p *Program) Check() (*Checked, error) {
	c := &Checked{Fset: token.NewFileSet(), Pkgs: map[string]*gotypes.Package{}, Files: map[string]*ast.File{}}
	for _, pk := range p.Pkgs {
		f, err := parser.ParseFile(c.Fset, pk.Path+"/"+pk.File, pk.Source, parser.ParseComments)
		if err != nil {
			return nil, fmt.Errorf("%s: %v", pk.Path, err)
		}
		files := []*ast.File{f}
		if p.TestFiles {
			for _, fn := range SortedKeys(pk.Extra) {
				if strings.HasSuffix(fn, "_test.go") {
					tf, err := parser.ParseFile(c.Fset, pk.Path+"/"+fn, pk.Extra[fn], parser.ParseComments)
					if err != nil {
						return nil, fmt.Errorf("%s: %v", pk.Path, err)
					}
					files = append(files, tf)
				}
			}
		}
		conf := gotypes.Config{Importer: mapImporter{pkgs: c.Pkgs}}
		tp, err := conf.Check(pk.Path, c.Fset, files, nil)
		if err != nil {
			return nil, fmt.Errorf("%s: %v", pk.Path, err)
		}
		c.Pkgs[pk.Path] = tp
		c.Files[pk.Path] = f
	}
	return c, nil
}

type factExporter struct {
	ids   map[gotypes.Type]int
	lines []string
}

func (e *factExporter) methods(n int, at func(int) *gotypes.Func) string {
	var ms []string
	for i := 0; i < n; i++ {
		m := at(i)
		ms = append(ms, Hex(m.Name())+":"+Itoa(e.node(m.Type()))+":"+Hex(m.String()))
	}
	if len(ms) == 0 {
		return "-"
	}
	return strings.Join(ms, ";")
}

func (e *factExporter) tuple(t *gotypes.Tuple) string {
	var ps []string
	for i := 0; i < t.Len(); i++ {
		ps = append(ps, Hex(t.At(i).Name())+":"+Itoa(e.node(t.At(i).Type())))
	}
	if len(ps) == 0 {
		return "-"
	}
	return strings.Join(ps, ";")
}

func (e *factExporter) node(t gotypes.Type) int {
	if id, ok := e.ids[t]; ok {
		return id
	}
	id := len(e.ids)
	e.ids[t] = id
	idx := len(e.lines)
	e.lines = append(e.lines, "") // reserve (children may be emitted first; order is irrelevant)
	var fields []string
	switch x := t.(type) {
	case *gotypes.Alias:
		fields = []string{"alias", Itoa(e.node(gotypes.Unalias(x)))}
	case *gotypes.Basic:
		fields = []string{"basic", Hex(x.Name())}
	case *gotypes.Named:
		var tps []string
		for i := 0; i < x.TypeParams().Len(); i++ {
			tp := x.TypeParams().At(i)
			tps = append(tps, Hex(tp.Obj().Name())+":"+Itoa(e.node(tp.Constraint())))
		}
		tpf := "-"
		if len(tps) > 0 {
			tpf = strings.Join(tps, ";")
		}
		// methods and (last field) underlying node of the generic origin: what v2 describes a generic declaration by
		fields = []string{"named", Itoa(e.node(x.Underlying())), e.methods(x.Origin().NumMethods(), x.Origin().Method), tpf, Itoa(e.node(x.Origin().Underlying()))}
	case *gotypes.Pointer:
		fields = []string{"pointer", Itoa(e.node(x.Elem()))}
	case *gotypes.Slice:
		fields = []string{"slice", Itoa(e.node(x.Elem()))}
	case *gotypes.Array:
		fields = []string{"array", fmt.Sprint(x.Len()), Itoa(e.node(x.Elem()))}
	case *gotypes.Map:
		fields = []string{"map", Itoa(e.node(x.Key())), Itoa(e.node(x.Elem()))}
	case *gotypes.Chan:
		fields = []string{"chan", Itoa(e.node(x.Elem()))}
	case *gotypes.Struct:
		var fs []string
		for i := 0; i < x.NumFields(); i++ {
			f := x.Field(i)
			fs = append(fs, Hex(f.Name())+":"+B01(f.Anonymous())+":"+Hex(x.Tag(i))+":"+Itoa(e.node(f.Type())))
		}
		ff := "-"
		if len(fs) > 0 {
			ff = strings.Join(fs, ";")
		}
		fields = []string{"struct", ff}
	case *gotypes.Signature:
		recv := "-"
		if x.Recv() != nil {
			recv = Itoa(e.node(x.Recv().Type()))
		}
		fields = []string{"sig", e.tuple(x.Params()), e.tuple(x.Results()), B01(x.Variadic()), recv}
	case *gotypes.Interface:
		x.Complete()
		fields = []string{"iface", e.methods(x.NumMethods(), x.Method)}
	case *gotypes.TypeParam:
		fields = []string{"tparam", Itoa(e.node(x.Constraint()))}
	default:
		fields = []string{"other", "-"}
	}
	e.lines[idx] = Line(append([]string{"uni", "node", Itoa(id), Hex(t.String())}, fields...)...)
	return id
}

// FactLines exports the node and package lines of a checked program.
func (c *Checked) FactLines(p *Program) []string {
	e := &factExporter{ids: map[gotypes.Type]int{}}
	var pkgLines []string
	for _, pk := range p.Pkgs {
		tp := c.Pkgs[pk.Path]
		var objs []string
		names := tp.Scope().Names()
		sort.Strings(names)
		for _, n := range names {
			obj := tp.Scope().Lookup(n)
			switch o := obj.(type) {
			case *gotypes.TypeName:
				objs = append(objs, "T:"+Hex(n)+":"+Itoa(e.node(o.Type()))+":"+Hex(o.String())+":")
			case *gotypes.Func:
				objs = append(objs, "F:"+Hex(n)+":"+Itoa(e.node(o.Type()))+":"+Hex(o.String())+":")
			case *gotypes.Var:
				objs = append(objs, "V:"+Hex(n)+":"+Itoa(e.node(o.Type()))+":"+Hex(o.String())+":")
			case *gotypes.Const:
				cv := o.Val().String()
				if o.Val().Kind() == constant.String {
					cv = constant.StringVal(o.Val())
				}
				objs = append(objs, "C:"+Hex(n)+":"+Itoa(e.node(o.Type()))+":"+Hex(o.String())+":"+Hex(cv))
			}
		}
		of := "-"
		if len(objs) > 0 {
			of = strings.Join(objs, ";")
		}
		pkgLines = append(pkgLines, Line("uni", "pkg", Hex(pk.Path), Hex(tp.Name()), HexList(pk.Imports), of))
	}
	return append(e.lines, pkgLines...)
}

// ModuleOfPath: the module (v2) / root directory a generated package path belongs to
func ModuleOfPath(p string) string {
	if strings.HasPrefix(p, "example.com/m") {
		return "example.com/m"
	}
	if i := strings.Index(p, "/"); i > 0 {
		return p[:i]
	}
	return p
}

package common

import (
	"bufio"
	"bytes"
	"encoding/json"
	"flag"
	"fmt"
	"hash/fnv"
	"os"
	"os/exec"
	"sort"
	"strings"
	"time"
)

// Failure is a property failure observed by a direct oracle on the real code's behaviour.
// Sig is a stable signature computed from the failing input's class; KNOWN_FINDINGS.txt is
// matched against (property, Sig).
type Failure struct {
	Sig  string `json:"sig"`
	What string `json:"what"`
}

// Property is one property's machinery for one gengo module variant.
type Property struct {
	// Gen generates cases by calling ctx.Case for each.
	Gen func(ctx *Ctx)
	// Exec runs one case (protocol lines forming one history) on the real code and returns one
	// canonical output per line, plus the oracle's failures. It must not depend on earlier cases.
	Exec func(lines []string) ([]string, []Failure)
	// NoModel: the case lines are not sent to the Lean driver (oracle-only part).
	NoModel bool
	// SelfCheck validates harness tables against their Go authorities (optional).
	SelfCheck func() []string
}

type Meta struct {
	Desc       interface{}
	Features   []string
	Nontrivial bool
	NoModel    bool // this case is oracle-only
}

type failRec struct {
	Sig      string   `json:"sig"`
	What     string   `json:"what"`
	Count    int      `json:"count"`
	Lines    []string `json:"lines"`
	Readable []string `json:"readable"`
	Impl     []string `json:"impl"`
	size     int
}

// ModelReports prefixes the expected output of a line that only the model answers; the rest is the required prefix of its answer
const ModelReports = "?"

type mismatchRec struct {
	Lines    []string `json:"lines"`
	Readable []string `json:"readable"`
	Index    int      `json:"index"`
	Impl     string   `json:"impl"`
	Model    string   `json:"model"`
	size     int
}

type pending struct {
	lines []string
	impl  []string
}

type Ctx struct {
	Prop, Tier, Variant string
	Seed                int64
	DriverPath          string
	OutPath             string
	P                   Property

	evaluations   int
	nontrivial    map[uint64]struct{}
	features      map[string]int
	samples       []interface{}
	fails         map[string]*failRec
	mismatches    int
	reportSamples []interface{}
	firstMis      *mismatchRec
	batch         []pending
	batchLines    int
	modelLines    int
	selfErrs      []string
	start         time.Time
	driverErr     string
}

// Scale returns q in the quick tier and t in the thorough tier.
func (c *Ctx) Scale(q, t int) int {
	if c.Tier == "thorough" {
		return t
	}
	return q
}

func (c *Ctx) RNG(label string) *RNG {
	return NewRNG(c.Seed, c.Prop+"/"+c.Variant+"/"+label)
}

func hash64(ss []string) uint64 {
	h := fnv.New64a()
	for _, s := range ss {
		h.Write([]byte(s))
		h.Write([]byte{0})
	}
	return h.Sum64()
}

func readableAll(lines []string) []string {
	out := make([]string, len(lines))
	for i, l := range lines {
		out[i] = Readable(l)
	}
	return out
}

func sizeOf(lines []string) int {
	n := 0
	for _, l := range lines {
		n += len(l) + 1
	}
	return n
}

func (c *Ctx) safeExec(lines []string) (outs []string, fails []Failure) {
	defer func() {
		if r := recover(); r != nil {
			outs = make([]string, len(lines))
			for i := range outs {
				outs[i] = fmt.Sprintf("harness-panic: %v", r)
			}
			fails = []Failure{{Sig: "uncaught-panic", What: fmt.Sprintf("uncaught panic in the code under test: %v", r)}}
		}
	}()
	return c.P.Exec(lines)
}

// PCase is one case of a parallel batch.
type PCase struct {
	Lines []string
	Meta  Meta
}

// Cases runs a batch of cases with `workers` concurrent executions of Exec (which must be safe for
// that) and records them in order.
func (c *Ctx) Cases(batch []PCase, workers int) {
	type res struct {
		outs  []string
		fails []Failure
	}
	results := make([]res, len(batch))
	sem := make(chan struct{}, workers)
	done := make(chan int, len(batch))
	for i := range batch {
		sem <- struct{}{}
		go func(i int) {
			defer func() { <-sem; done <- i }()
			o, f := c.safeExec(batch[i].Lines)
			results[i] = res{o, f}
		}(i)
	}
	for range batch {
		<-done
	}
	for i, b := range batch {
		c.record(b.Lines, b.Meta, results[i].outs, results[i].fails)
	}
}

// Case runs one case on the real code, records the oracle's verdict and queues the lines for the model.
func (c *Ctx) Case(lines []string, m Meta) {
	outs, fails := c.safeExec(lines)
	c.record(lines, m, outs, fails)
}

func (c *Ctx) record(lines []string, m Meta, outs []string, fails []Failure) {
	if len(outs) != len(lines) {
		panic(fmt.Sprintf("harness bug: %d outputs for %d lines", len(outs), len(lines)))
	}
	c.evaluations++
	for _, f := range m.Features {
		c.features[f]++
	}
	if m.Nontrivial {
		c.nontrivial[hash64(lines)] = struct{}{}
	}
	if len(c.samples) < 6 && (m.Nontrivial || c.evaluations > 50) && c.evaluations%7 == 1 {
		var d interface{} = m.Desc
		if d == nil {
			d = map[string]interface{}{"lines": readableAll(lines), "impl": outs}
		}
		c.samples = append(c.samples, d)
	}
	for _, f := range fails {
		r := c.fails[f.Sig]
		sz := sizeOf(lines)
		if r == nil {
			r = &failRec{Sig: f.Sig, size: 1 << 60}
			c.fails[f.Sig] = r
		}
		r.Count++
		if sz < r.size {
			r.size = sz
			r.What = f.What
			r.Lines = lines
			r.Readable = readableAll(lines)
			r.Impl = outs
		}
	}
	if !c.P.NoModel && !m.NoModel {
		c.batch = append(c.batch, pending{lines, outs})
		c.batchLines += len(lines)
		if c.batchLines >= 50000 {
			c.flush()
		}
	}
}

// SampleDesc lets a property add an explicit sample to the evidence.
func (c *Ctx) SampleDesc(d interface{}) {
	if len(c.samples) < 8 {
		c.samples = append(c.samples, d)
	}
}

func (c *Ctx) Feature(name string, n int) { c.features[name] += n }

func (c *Ctx) flush() {
	if len(c.batch) == 0 {
		return
	}
	var in bytes.Buffer
	for _, p := range c.batch {
		for _, l := range p.lines {
			in.WriteString(l)
			in.WriteByte('\n')
		}
	}
	cmd := exec.Command(c.DriverPath)
	cmd.Stdin = &in
	var out, errb bytes.Buffer
	cmd.Stdout = &out
	cmd.Stderr = &errb
	err := cmd.Run()
	var model []string
	sc := bufio.NewScanner(&out)
	sc.Buffer(make([]byte, 1<<20), 1<<28)
	for sc.Scan() {
		model = append(model, sc.Text())
	}
	if err != nil || len(model) != c.batchLines {
		c.driverErr = fmt.Sprintf("driver failed: err=%v, %d outputs for %d lines; stderr: %.300s", err, len(model), c.batchLines, errb.String())
		for len(model) < c.batchLines {
			model = append(model, "driver-missing-output")
		}
	}
	k := 0
	for _, p := range c.batch {
		for i := range p.lines {
			if strings.HasPrefix(p.impl[i], ModelReports) {
				// a line only the model answers: the answer must have the announced form and is counted as a feature
				if want := p.impl[i][len(ModelReports):]; strings.HasPrefix(model[k+i], want) {
					key := "model-reports:" + model[k+i]
					if c.features[key] == 0 && len(c.reportSamples) < 6 {
						// the first case of every kind of answer is kept as a sample (source lines only)
						var src []string
						for _, l := range readableAll(p.lines) {
							if strings.Contains(l, "\tsrc\t") || strings.Contains(l, " src ") {
								src = append(src, Trunc(l, 600))
							}
						}
						c.reportSamples = append(c.reportSamples, map[string]interface{}{"model_reports": model[k+i], "sources": src})
					}
					c.features[key]++
					continue
				}
			}
			if model[k+i] != p.impl[i] {
				c.mismatches++
				sz := sizeOf(p.lines)
				if c.firstMis == nil || sz < c.firstMis.size {
					c.firstMis = &mismatchRec{Lines: p.lines, Readable: readableAll(p.lines), Index: i, Impl: p.impl[i], Model: model[k+i], size: sz}
				}
				break
			}
		}
		k += len(p.lines)
	}
	c.modelLines += c.batchLines
	c.batch = nil
	c.batchLines = 0
}

type Partial struct {
	Property      string         `json:"property"`
	Variant       string         `json:"variant"`
	Tier          string         `json:"tier"`
	Seed          int64          `json:"seed"`
	Evaluations   int            `json:"evaluations"`
	Distinct      int            `json:"distinct_nontrivial"`
	ModelLines    int            `json:"model_lines_compared"`
	Features      map[string]int `json:"features"`
	Samples       []interface{}  `json:"samples"`
	Mismatches    int            `json:"mismatches"`
	FirstMismatch *mismatchRec   `json:"first_mismatch,omitempty"`
	Failures      []*failRec     `json:"failures"`
	SelfCheck     []string       `json:"selfcheck_errors"`
	DriverError   string         `json:"driver_error,omitempty"`
	WallS         float64        `json:"wall_s"`
}

func (c *Ctx) finish() {
	c.flush()
	p := Partial{Property: c.Prop, Variant: c.Variant, Tier: c.Tier, Seed: c.Seed,
		Evaluations: c.evaluations, Distinct: len(c.nontrivial), ModelLines: c.modelLines,
		Features: c.features, Samples: append(c.samples, c.reportSamples...), Mismatches: c.mismatches, FirstMismatch: c.firstMis,
		SelfCheck: c.selfErrs, DriverError: c.driverErr, WallS: time.Since(c.start).Seconds()}
	sigs := make([]string, 0, len(c.fails))
	for s := range c.fails {
		sigs = append(sigs, s)
	}
	sort.Strings(sigs)
	for _, s := range sigs {
		p.Failures = append(p.Failures, c.fails[s])
	}
	b, err := json.MarshalIndent(p, "", " ")
	if err != nil {
		panic(err)
	}
	if err := os.WriteFile(c.OutPath, b, 0o644); err != nil {
		panic(err)
	}
}

// Main is the entry point of a harness binary.
func Main(variant string, props map[string]Property) {
	prop := flag.String("prop", "", "property id")
	tier := flag.String("tier", "quick", "quick|thorough")
	seed := flag.Int64("seed", 1, "VERIF_SEED")
	driver := flag.String("driver", "", "path of the compiled Lean driver")
	out := flag.String("out", "", "partial result file")
	replay := flag.String("replay", "", "replay file (re-run its lines on the real code and the model)")
	list := flag.Bool("list", false, "list the properties this binary serves")
	flag.Parse()
	if *list {
		for _, k := range SortedKeys(props) {
			fmt.Println(k)
		}
		return
	}
	p, ok := props[*prop]
	if !ok {
		fmt.Fprintf(os.Stderr, "harness %s does not serve %s\n", variant, *prop)
		os.Exit(3)
	}
	c := &Ctx{Prop: *prop, Tier: *tier, Variant: variant, Seed: *seed, DriverPath: *driver, OutPath: *out, P: p,
		nontrivial: map[uint64]struct{}{}, features: map[string]int{}, fails: map[string]*failRec{}, start: time.Now()}
	if *replay != "" {
		c.replay(*replay)
		return
	}
	if p.SelfCheck != nil {
		c.selfErrs = p.SelfCheck()
	}
	p.Gen(c)
	c.finish()
}

func (c *Ctx) replay(path string) {
	b, err := os.ReadFile(path)
	if err != nil {
		fmt.Fprintln(os.Stderr, err)
		os.Exit(3)
	}
	var r struct {
		Lines []string `json:"lines"`
	}
	if err := json.Unmarshal(b, &r); err != nil || len(r.Lines) == 0 {
		fmt.Fprintln(os.Stderr, "replay file has no lines")
		os.Exit(3)
	}
	outs, fails := c.safeExec(r.Lines)
	c.batch = []pending{{r.Lines, outs}}
	c.batchLines = len(r.Lines)
	if !c.P.NoModel {
		c.flush()
	}
	for i, l := range r.Lines {
		fmt.Printf("line %d: %s\n  impl: %s\n", i, Readable(l), outs[i])
	}
	if c.firstMis != nil {
		fmt.Printf("MODEL DIFFERS at line %d: model=%s impl=%s\n", c.firstMis.Index, c.firstMis.Model, c.firstMis.Impl)
	}
	for _, f := range fails {
		fmt.Printf("ORACLE FAILURE %s: %s\n", f.Sig, f.What)
	}
	if len(fails) > 0 || c.firstMis != nil {
		os.Exit(1)
	}
	fmt.Println("replay: no failure")
}

// Trunc shortens a string for messages.
func Trunc(s string, n int) string {
	if len(s) <= n {
		return s
	}
	return s[:n] + "…"
}

// JoinSorted joins strings after sorting a copy.
func JoinSorted(ss []string, sep string) string {
	c := append([]string(nil), ss...)
	sort.Strings(c)
	return strings.Join(c, sep)
}

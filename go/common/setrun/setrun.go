// Package setrun executes set-operation histories (the protocol lines of component "set") on a generated set
// type and judges every step against a reference implementation (sorted slices without duplicates).
//
// It has no dependencies outside the standard library: the harness uses it in-process for the checked-in set
// types and copies this very file (Source) into a scratch GOPATH to run the same histories on sets that the
// real set-gen has just regenerated.
package setrun

import (
	"bufio"
	_ "embed"
	"fmt"
	"os"
	"sort"
	"strconv"
	"strings"
)

//go:embed setrun.go
var Source string

type Failure struct{ Sig, What string }

type Ops struct {
	// Run executes the history on fresh sets of the concrete type and returns outputs and failures
	Run func(lines []string) ([]string, []Failure)
}

// SetI is the method set of a generated set type S with element type K (E is the package's Empty type).
type SetI[K comparable, E any, S any] interface {
	~map[K]E
	Insert(items ...K) S
	Delete(items ...K) S
	Has(item K) bool
	HasAll(items ...K) bool
	HasAny(items ...K) bool
	Clone() S
	Difference(s2 S) S
	SymmetricDifference(s2 S) S
	Union(s2 S) S
	Intersection(s2 S) S
	IsSuperset(s2 S) bool
	Equal(s2 S) bool
	List() []K
	UnsortedList() []K
	PopAny() (K, bool)
	Len() int
}

func Atoi(s string) int        { n, _ := strconv.Atoi(s); return n }
func Itoa(n int) string        { return strconv.Itoa(n) }
func Fields(l string) []string { return strings.Split(l, "\t") }
func B01(b bool) string {
	if b {
		return "1"
	}
	return "0"
}
func Readable(l string) string { return strings.ReplaceAll(l, "\t", " ") }

// Main is the child process: protocol lines on stdin; one output line per input line, then the failures.
// kinds maps the kind named in "set reset <kind>" to its runner; the lines are cut into segments at every reset.
func Main(kinds map[string]Ops) {
	sc := bufio.NewScanner(os.Stdin)
	sc.Buffer(make([]byte, 1<<20), 1<<26)
	var lines []string
	for sc.Scan() {
		lines = append(lines, sc.Text())
	}
	w := bufio.NewWriter(os.Stdout)
	defer w.Flush()
	var fails []Failure
	for i := 0; i < len(lines); {
		j := i + 1
		for j < len(lines) && Fields(lines[j])[1] != "reset" {
			j++
		}
		seg := lines[i:j]
		f := Fields(seg[0])
		ops, ok := kinds[f[len(f)-1]]
		if f[1] != "reset" || !ok {
			for range seg {
				fmt.Fprintln(w, "bad-segment")
			}
			i = j
			continue
		}
		outs, fs := ops.Run(seg)
		for _, o := range outs {
			fmt.Fprintln(w, o)
		}
		fails = append(fails, fs...)
		i = j
	}
	for _, f := range fails {
		fmt.Fprintf(w, "FAIL\t%s\t%s\n", f.Sig, strings.ReplaceAll(f.What, "\n", " "))
	}
}

func ParseSetKeys(s string) []int {
	if s == "-" {
		return nil
	}
	var out []int
	for _, p := range strings.Split(s, ";") {
		out = append(out, Atoi(p))
	}
	return out
}

func showSetKeys(ks []int) string {
	if len(ks) == 0 {
		return "-"
	}
	sort.Ints(ks)
	s := make([]string, len(ks))
	for i, k := range ks {
		s[i] = Itoa(k)
	}
	return strings.Join(s, ";")
}

// reference implementation: sorted int slices without duplicates
type refSet []int

func refOf(ks []int) refSet {
	m := map[int]bool{}
	for _, k := range ks {
		m[k] = true
	}
	var out refSet
	for k := range m {
		out = append(out, k)
	}
	sort.Ints(out)
	return out
}
func (r refSet) has(k int) bool {
	for _, x := range r {
		if x == k {
			return true
		}
	}
	return false
}
func (r refSet) String() string { return showSetKeys(append([]int(nil), r...)) }

// Run builds the runner of histories for the concrete set type S with element type K.
// keySet (optional): the generated <Type>KeySet constructor; every other "new" then builds its set from the keys of a map
func Run[K comparable, E any, S SetI[K, E, S]](newSet func(items ...K) S, fromKey func(int) K, toKey func(K) int, less func(a, b K) bool, keySet ...func(theMap interface{}) S) Ops {
	conv := func(ks []int) []K {
		out := make([]K, len(ks))
		for i, k := range ks {
			out[i] = fromKey(k)
		}
		return out
	}
	keysOf := func(s S) []int {
		var out []int
		for k := range s {
			out = append(out, toKey(k))
		}
		return out
	}
	return Ops{Run: func(lines []string) ([]string, []Failure) {
		outs := make([]string, len(lines))
		var fails []Failure
		var heap []S
		var ref []refSet
		fail := func(sig, what string) { fails = append(fails, Failure{Sig: sig, What: what}) }
		dump := func() string {
			parts := make([]string, len(heap))
			for i, s := range heap {
				parts[i] = "{" + showSetKeys(keysOf(s)) + "}"
			}
			return strings.Join(parts, " ")
		}
		checkRef := func(op string) {
			for i := range heap {
				if got := showSetKeys(keysOf(heap[i])); got != ref[i].String() {
					fail("set-semantics", fmt.Sprintf("after %s set %d holds {%s}, set theory says {%s}", op, i, got, ref[i]))
				}
			}
		}
		for idx, l := range lines {
			f := Fields(l)
			func() {
				defer func() {
					if r := recover(); r != nil {
						outs[idx] = "panic"
						fail("panic", fmt.Sprintf("%s panics: %v", Readable(l), r))
					}
				}()
				res := "-"
				alloc := func(s S, r refSet) {
					heap = append(heap, s)
					ref = append(ref, r)
					res = Itoa(len(heap) - 1)
				}
				b := func(x bool) string { return B01(x) }
				switch f[1] {
				case "reset":
					heap, ref = nil, nil
				case "new":
					ks := ParseSetKeys(f[2])
					if len(keySet) > 0 && (len(ks)+idx)%2 == 0 {
						// the other constructor: from the keys of a map (the empty map included); the set must be usable
						m := map[K]bool{}
						for _, k := range conv(ks) {
							m[k] = true
						}
						alloc(keySet[0](m), refOf(ks))
					} else {
						alloc(newSet(conv(ks)...), refOf(ks))
					}
				case "clone":
					i := Atoi(f[2])
					alloc(heap[i].Clone(), append(refSet(nil), ref[i]...))
				case "list":
					i := Atoi(f[2])
					lst := heap[i].List()
					ks := make([]string, len(lst))
					for j, k := range lst {
						ks[j] = Itoa(toKey(k))
						if j > 0 && !less(lst[j-1], k) {
							fail("list-not-ascending", fmt.Sprintf("List() = %v is not strictly ascending", lst))
						}
					}
					if len(lst) != len(ref[i]) {
						fail("list-incomplete", fmt.Sprintf("List() has %d entries for a set of %d", len(lst), len(ref[i])))
					}
					res = "-"
					if len(ks) > 0 {
						res = strings.Join(ks, ";")
					}
					un := heap[i].UnsortedList()
					var uk []int
					for _, k := range un {
						uk = append(uk, toKey(k))
					}
					if showSetKeys(uk) != ref[i].String() || len(un) != len(ref[i]) {
						fail("unsortedlist", fmt.Sprintf("UnsortedList() = %v for {%s}", un, ref[i]))
					}
				case "len":
					i := Atoi(f[2])
					res = Itoa(heap[i].Len())
					if heap[i].Len() != len(ref[i]) {
						fail("len", fmt.Sprintf("Len() = %d for {%s}", heap[i].Len(), ref[i]))
					}
				case "popany":
					i := Atoi(f[2])
					k, ok := heap[i].PopAny()
					if !ok {
						res = "none"
						if len(ref[i]) != 0 {
							fail("popany", "PopAny reports an empty set for a non-empty one")
						}
					} else {
						res = Itoa(toKey(k))
						if !ref[i].has(toKey(k)) {
							fail("popany", fmt.Sprintf("PopAny returned %v, not a member of {%s}", k, ref[i]))
						}
						var nr refSet
						for _, x := range ref[i] {
							if x != toKey(k) {
								nr = append(nr, x)
							}
						}
						ref[i] = nr
					}
				case "insert", "delete":
					i := Atoi(f[2])
					ks := ParseSetKeys(f[3])
					if f[1] == "insert" {
						heap[i].Insert(conv(ks)...)
						ref[i] = refOf(append(append([]int(nil), ref[i]...), ks...))
					} else {
						heap[i].Delete(conv(ks)...)
						var nr refSet
						for _, x := range ref[i] {
							del := false
							for _, k := range ks {
								if k == x {
									del = true
								}
							}
							if !del {
								nr = append(nr, x)
							}
						}
						ref[i] = nr
					}
				case "has":
					i, k := Atoi(f[2]), Atoi(f[3])
					got := heap[i].Has(fromKey(k))
					res = b(got)
					if got != ref[i].has(k) {
						fail("set-semantics", fmt.Sprintf("Has(%d) = %v on {%s}", k, got, ref[i]))
					}
				case "hasall", "hasany":
					i := Atoi(f[2])
					ks := ParseSetKeys(f[3])
					all, any := true, false
					for _, k := range ks {
						if ref[i].has(k) {
							any = true
						} else {
							all = false
						}
					}
					var got, exp bool
					if f[1] == "hasall" {
						got, exp = heap[i].HasAll(conv(ks)...), all
					} else {
						got, exp = heap[i].HasAny(conv(ks)...), any
					}
					res = b(got)
					if got != exp {
						fail("set-semantics", fmt.Sprintf("%s(%v) = %v on {%s}", f[1], ks, got, ref[i]))
					}
				case "union", "inter", "diff", "symdiff", "superset", "equal":
					i, j := Atoi(f[2]), Atoi(f[3])
					var r refSet
					in := func(s refSet, k int) bool { return s.has(k) }
					all := refOf(append(append([]int(nil), ref[i]...), ref[j]...))
					for _, k := range all {
						a, bb := in(ref[i], k), in(ref[j], k)
						keep := false
						switch f[1] {
						case "union":
							keep = a || bb
						case "inter":
							keep = a && bb
						case "diff":
							keep = a && !bb
						case "symdiff":
							keep = a != bb
						}
						if keep {
							r = append(r, k)
						}
					}
					switch f[1] {
					case "union":
						alloc(heap[i].Union(heap[j]), r)
					case "inter":
						alloc(heap[i].Intersection(heap[j]), r)
					case "diff":
						alloc(heap[i].Difference(heap[j]), r)
					case "symdiff":
						alloc(heap[i].SymmetricDifference(heap[j]), r)
					case "superset":
						got := heap[i].IsSuperset(heap[j])
						exp := true
						for _, k := range ref[j] {
							if !ref[i].has(k) {
								exp = false
							}
						}
						res = b(got)
						if got != exp {
							fail("set-semantics", fmt.Sprintf("{%s}.IsSuperset({%s}) = %v", ref[i], ref[j], got))
						}
					case "equal":
						got := heap[i].Equal(heap[j])
						res = b(got)
						if got != (ref[i].String() == ref[j].String()) {
							fail("set-semantics", fmt.Sprintf("{%s}.Equal({%s}) = %v", ref[i], ref[j], got))
						}
					}
				default:
					outs[idx] = "bad-op"
					return
				}
				checkRef(f[1])
				outs[idx] = "r=" + res + " | " + dump()
			}()
		}
		return outs, fails
	}}
}

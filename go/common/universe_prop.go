package common

import (
	"fmt"
	gotypes "go/types"
	"strings"
)

type UniImpl struct {
	V2 bool
	// Load builds the real universe: v1 AddFileForTest for every package (dependency order) + FindTypes;
	// v2 a scratch module on disk + LoadPackages(requested…) + NewUniverse.
	Load func(prog *Program, requested []string) (*USnap, error)
	// Builtins reports, for two fresh universes, whether the builtin objects are shared singletons and
	// whether repeated lookups return the same object (C06).
	LookupChecks func() []Failure
	// LoadHistory runs a loading history on the real code: an initial load of `initial`, then one
	// incremental load per element of `steps`. It returns the final universe, whether every object
	// obtained before an incremental load was still the registered one afterwards, and the reported
	// input list.
	LoadHistory func(prog *Program, initial []string, steps [][]string) (snap *USnap, objectsStable bool, inputs []string, err error)
	// LoadHistoryLookups: the same with hand lookups (Universe.Type of (package, name)) made right before incremental step i
	LoadHistoryLookups func(prog *Program, initial []string, steps [][]string, lookups [][][3]string) (snap *USnap, objectsStable bool, inputs []string, err error)
	// RequestTwice asks the same loader for package pkg twice, ignoring the first answer, and returns both errors
	RequestTwice func(prog *Program, pkg string) (first, second error)
	// RequestSeq asks one loader for the packages one after the other and returns the error of each request
	RequestSeq func(prog *Program, pkgs []string) []error
}

func progLines(variant string, prog *Program, facts []string, requested []string) []string {
	ls := []string{Line("uni", "reset", variant)}
	for _, p := range prog.Pkgs {
		ls = append(ls, Line("uni", "src", Hex(p.Path), Hex(p.Name), Hex(p.File), HexList(p.Imports), Hex(p.Source)))
	}
	ls = append(ls, facts...)
	ls = append(ls, Line("uni", "hyp"))
	ls = append(ls, Line("uni", "load", HexList(requested)), Line("uni", "dump"))
	return ls
}

type loadScript struct {
	initial []string
	steps   [][]string
	lookups [][][3]string // lookups[i]: made right before steps[i]
}

func (ls *loadScript) requested() []string {
	seen := map[string]bool{}
	var out []string
	for _, l := range append([][]string{ls.initial}, ls.steps...) {
		for _, p := range l {
			if !seen[p] {
				seen[p] = true
				out = append(out, p)
			}
		}
	}
	return out
}

func progFromLines(lines []string) (*Program, []string, *loadScript) {
	prog := &Program{Module: "example.com/m"}
	var facts []string
	script := &loadScript{}
	var pending [][3]string
	for _, l := range lines {
		f := Fields(l)
		switch f[1] {
		case "reset":
			prog.V2 = f[2] == "v2"
		case "src":
			prog.Pkgs = append(prog.Pkgs, &ProgPkg{Path: Unhex(f[2]), Name: Unhex(f[3]), File: Unhex(f[4]), Imports: UnhexList(f[5]), Source: Unhex(f[6])})
			prog.Module = ModuleOfPath(prog.Pkgs[0].Path)
		case "node", "pkg":
			facts = append(facts, l)
		case "load":
			script.initial = UnhexList(f[2])
		case "lookup":
			pending = append(pending, [3]string{Unhex(f[3]), Unhex(f[4]), f[2]})
		case "loadto":
			script.steps = append(script.steps, UnhexList(f[2]))
			script.lookups = append(script.lookups, pending)
			pending = nil
		}
	}
	return prog, facts, script
}

// UniverseProperty: prop is C01, C06 or C20; they share programs, loaders and the model, and differ in
// the oracle that judges the real universe.
func UniverseProperty(prop string, impl UniImpl) Property {
	variant := "v1"
	if impl.V2 {
		variant = "v2"
	}
	exec := func(lines []string) ([]string, []Failure) {
		outs := make([]string, len(lines))
		for i := range outs {
			outs[i] = "ok"
			if Fields(lines[i])[1] == "hyp" {
				outs[i] = ModelReports + "hyp " // answered by the model only: do the facts meet the theorems' hypotheses?
			}
		}
		var fails []Failure
		if len(lines) == 1 && Fields(lines[0])[1] == "lookupchecks" {
			return outs, impl.LookupChecks()
		}
		prog, facts, script := progFromLines(lines)
		requested := script.requested()
		chk, err := prog.Check()
		if err != nil {
			return outs, []Failure{{"generator-ill-typed", "the generated program does not type-check (harness): " + err.Error()}}
		}
		if strings.Join(chk.FactLines(prog), "\n") != strings.Join(facts, "\n") {
			fails = append(fails, Failure{"facts-stale", "the facts in the lines differ from go/types' view now (harness)"})
		}
		var snap *USnap
		switch {
		case len(script.steps) > 0 && impl.LoadHistoryLookups != nil:
			// an initial load, then hand lookups and incremental loads
			snap, _, _, err = impl.LoadHistoryLookups(prog, script.initial, script.steps, script.lookups)
		case !impl.V2 && len(requested) < len(prog.Pkgs) && impl.LoadHistory != nil:
			// v1 with dependency-only packages: the GOPATH-mode loader (AddFileForTest marks every package requested)
			snap, _, _, err = impl.LoadHistory(prog, requested, nil)
		default:
			snap, err = impl.Load(prog, requested)
		}
		di := len(lines) - 1
		if err != nil {
			for i, l := range lines {
				if op := Fields(l)[1]; op == "load" || op == "loadto" {
					outs[i] = "fail"
				}
			}
			outs[di] = ""
			fails = append(fails, Failure{"load-fails", fmt.Sprintf("loading a well-typed program failed: %v", err)})
			return outs, fails
		}
		outs[di] = Hex(snap.Dump())
		fails = append(fails, UniverseOracles(prop, snap, chk, prog, requested, impl.V2)...)
		return outs, fails
	}
	return Property{
		Exec: exec,
		Gen: func(c *Ctx) {
			if prop == "C06" && impl.LookupChecks != nil {
				// lookups are idempotent and builtins are shared singletons: judged directly
				c.Case([]string{Line("uni", "lookupchecks", variant)}, Meta{NoModel: true, Nontrivial: true, Features: []string{"lookup-identity"}})
			}
			// corpus: hand-written programs for past witnesses and corner cases
			for _, prog := range corpusPrograms(impl.V2) {
				chk, err := prog.Check()
				if err != nil {
					panic("corpus program ill-typed: " + err.Error())
				}
				var requested []string
				for _, p := range prog.Pkgs {
					requested = append(requested, p.Path)
				}
				c.Case(progLines(variant, prog, chk.FactLines(prog), requested), Meta{Nontrivial: true, Features: []string{"corpus"}})
			}
			r := c.RNG("programs")
			n := c.Scale(120, 2500)
			if !impl.V2 {
				n = c.Scale(400, 6000)
			}
			var batch []PCase
			for i := 0; i < n; i++ {
				prog := GenProgram(r, ProgOpts{V2: impl.V2, MaxPkgs: 3})
				chk, err := prog.Check()
				if err != nil {
					c.Feature("generator-discarded", 1)
					continue
				}
				var requested []string
				for _, p := range prog.Pkgs {
					requested = append(requested, p.Path)
				}
				feats := []string{fmt.Sprintf("pkgs:%d", len(prog.Pkgs))}
				if len(prog.Pkgs) > 1 && r.Chance(1, 3) {
					// only some packages are requested; the others are dependencies (or not loaded at all)
					requested = nil
					for _, p := range prog.Pkgs {
						if r.Bool() {
							requested = append(requested, p.Path)
						}
					}
					if len(requested) == 0 {
						requested = []string{prog.Pkgs[len(prog.Pkgs)-1].Path}
					}
					if len(requested) < len(prog.Pkgs) {
						feats = append(feats, "has-unrequested-package")
					}
				}
				src := ""
				for _, p := range prog.Pkgs {
					src += p.Source
				}
				for _, kw := range []string{"interface {", "chan ", "func(", "struct{ ", "[T any]", "...", "`json", "Next *", "error"} {
					if strings.Contains(src, kw) {
						feats = append(feats, "has:"+kw)
					}
				}
				if len(requested) >= 2 && impl.LoadHistoryLookups != nil && r.Chance(1, 4) {
					// the importers first, then – after hand lookups of types that are not loaded yet – the rest, one by one
					ls := []string{Line("uni", "reset", variant)}
					for _, p := range prog.Pkgs {
						ls = append(ls, Line("uni", "src", Hex(p.Path), Hex(p.Name), Hex(p.File), HexList(p.Imports), Hex(p.Source)))
					}
					ls = append(ls, chk.FactLines(prog)...)
					ls = append(ls, Line("uni", "hyp"))
					last := requested[len(requested)-1]
					ls = append(ls, Line("uni", "load", HexList([]string{last})))
					for i := len(requested) - 2; i >= 0; i-- {
						if r.Bool() {
							sc := chk.Pkgs[requested[i]].Scope()
							for _, nm := range sc.Names() {
								if tn, ok := sc.Lookup(nm).(*gotypes.TypeName); ok && !tn.IsAlias() && r.Bool() {
									if named, ok := tn.Type().(*gotypes.Named); ok && named.TypeParams().Len() == 0 {
										ls = append(ls, Line("uni", "lookup", "type", Hex(requested[i]), Hex(nm)))
										feats = append(feats, "lookup-before-load")
									}
								}
								// Universe.Function / Variable / Constant by hand, of declarations that exist and of ones that never will
								what := ""
								switch sc.Lookup(nm).(type) {
								case *gotypes.Func:
									what = "func"
								case *gotypes.Var:
									what = "var"
								case *gotypes.Const:
									what = "const"
								}
								if what != "" && r.Chance(1, 3) {
									ls = append(ls, Line("uni", "lookup", what, Hex(requested[i]), Hex(nm)))
									feats = append(feats, "lookup-decl-before-load")
								}
							}
							if r.Chance(1, 4) {
								ls = append(ls, Line("uni", "lookup", r.Pick([]string{"func", "var", "const"}), Hex(requested[i]), Hex("NeverDeclared")))
								feats = append(feats, "lookup-decl-never-declared")
							}
						}
						ls = append(ls, Line("uni", "loadto", HexList([]string{requested[i]})))
					}
					ls = append(ls, Line("uni", "dump"))
					batch = append(batch, PCase{ls, Meta{Nontrivial: true, Features: append(feats, "incremental-loads")}})
					continue
				}
				batch = append(batch, PCase{progLines(variant, prog, chk.FactLines(prog), requested), Meta{Nontrivial: true, Features: feats}})
				if len(batch) == 32 {
					c.Cases(batch, 12)
					batch = nil
				}
			}
			c.Cases(batch, 12)
		},
	}
}

func mkProg(v2 bool, pkgs ...[3]string) *Program {
	prog := &Program{Module: "example.com/m", V2: v2}
	for _, p := range pkgs {
		pk := &ProgPkg{Path: p[0], Name: pkgIdent(p[0]), File: "types.go", Source: p[2]}
		if p[1] != "" {
			pk.Imports = strings.Split(p[1], ",")
		}
		prog.Pkgs = append(prog.Pkgs, pk)
	}
	return prog
}

func corpusPrograms(v2 bool) []*Program {
	ps := []*Program{
		// F1/F3: every builtin scalar keeps its identity
		mkProg(v2, [3]string{"example.com/m/a", "", "package a\n\ntype T struct {\n\tA int8\n\tB uint8\n\tC byte\n\tD rune\n\tE int32\n\tF complex64\n\tG complex128\n\tH []int8\n\tI map[rune]byte\n}\n\ntype K int8\n\ntype R rune\n"}),
		// F7: the same anonymous struct literal with an unexported field in two packages
		mkProg(v2, [3]string{"example.com/m/a", "", "package a\n\ntype A struct {\n\tF struct{ x int }\n}\n"},
			[3]string{"example.com/m/b", "", "package b\n\ntype B struct {\n\tG struct{ x int }\n}\n"}),
		// cyclic types, method sets, embedded interfaces, error, variadics
		mkProg(v2, [3]string{"example.com/m/a", "", "package a\n\ntype Node struct {\n\tNext *Node\n\tKids map[string][]Node\n\tErr error\n}\n\nfunc (n *Node) Walk(f func(*Node) bool, more ...int) (ok bool) { panic(\"\") }\n\nfunc (n Node) Len() int { panic(\"\") }\n\ntype Walker interface {\n\tWalk(f func(*Node) bool, more ...int) (ok bool)\n}\n\ntype Both interface {\n\tWalker\n\tLen() int\n}\n\ntype Fn func(Both) Walker\n"}),
	}
	ps = append(ps,
		// the same short name in two packages (the internal/versioned wrapper): a.Spec holds b.Spec, which holds references
		mkProg(v2, [3]string{"example.com/m/b", "", "package b\n\ntype Spec struct {\n\tReplicas *int32\n\tLabels map[string]string\n}\n\ntype Plain struct{ N int }\n"},
			[3]string{"example.com/m/a", "example.com/m/b", "package a\n\nimport b \"example.com/m/b\"\n\ntype Spec struct {\n\tPaused bool\n\tBase b.Spec\n}\n\ntype Plain struct {\n\tOK bool\n\tBase b.Plain\n}\n\ntype Wrapper struct {\n\tPaused bool\n\tBase b.Spec\n}\n"}))
	if v2 {
		// F2: a.User{F b.Foo[int]} is walked before b's declaration of Foo
		ps = append(ps, mkProg(true, [3]string{"example.com/m/b", "", "package b\n\ntype Foo[T any] struct {\n\tV T\n\tP *T\n}\n"},
			[3]string{"example.com/m/a", "example.com/m/b", "package a\n\nimport b \"example.com/m/b\"\n\ntype User struct {\n\tF b.Foo[int]\n\tG b.Foo[string]\n}\n"}),
			mkProg(true, [3]string{"example.com/m/a", "", "package a\n\ntype T struct{ X int }\n\ntype U = T\n\ntype W struct{ F U; G any }\n"}),
			// a generic struct with a method, instantiated by a type that is walked before the declaration
			mkProg(true, [3]string{"example.com/m/b", "", "package b\n\ntype Foo[T any] struct {\n\tV T\n}\n\nfunc (f Foo[T]) Get(d T) T { return f.V }\n"},
				[3]string{"example.com/m/a", "example.com/m/b", "package a\n\nimport b \"example.com/m/b\"\n\ntype User struct {\n\tF b.Foo[int]\n}\n"}))
	}
	return ps
}

// ---- C11: the universe does not depend on how loading was split or ordered ----

func reachableNamed(chk *Checked, requested []string) map[string]bool {
	seen := map[gotypes.Type]bool{}
	out := map[string]bool{}
	var rec func(t gotypes.Type)
	rec = func(t gotypes.Type) {
		t = gotypes.Unalias(t)
		if seen[t] {
			return
		}
		seen[t] = true
		switch x := t.(type) {
		case *gotypes.Named:
			if x.Obj().Pkg() != nil {
				out[x.Obj().Pkg().Path()+"."+x.Obj().Name()] = true
			}
			rec(x.Underlying())
			for i := 0; i < x.NumMethods(); i++ {
				rec(x.Method(i).Type())
			}
			for i := 0; i < x.TypeArgs().Len(); i++ {
				rec(x.TypeArgs().At(i))
			}
		case *gotypes.Pointer:
			rec(x.Elem())
		case *gotypes.Slice:
			rec(x.Elem())
		case *gotypes.Array:
			rec(x.Elem())
		case *gotypes.Chan:
			rec(x.Elem())
		case *gotypes.Map:
			rec(x.Key())
			rec(x.Elem())
		case *gotypes.Struct:
			for i := 0; i < x.NumFields(); i++ {
				rec(x.Field(i).Type())
			}
		case *gotypes.Signature:
			for i := 0; i < x.Params().Len(); i++ {
				rec(x.Params().At(i).Type())
			}
			for i := 0; i < x.Results().Len(); i++ {
				rec(x.Results().At(i).Type())
			}
			if x.Recv() != nil {
				rec(x.Recv().Type())
			}
		case *gotypes.Interface:
			x.Complete()
			for i := 0; i < x.NumMethods(); i++ {
				rec(x.Method(i).Type())
			}
		}
	}
	for _, path := range requested {
		sc := chk.Pkgs[path].Scope()
		for _, n := range sc.Names() {
			rec(sc.Lookup(n).Type())
		}
	}
	return out
}

func LoadingProperty(impl UniImpl) Property {
	variant := "v1"
	if impl.V2 {
		variant = "v2"
	}
	exec := func(lines []string) ([]string, []Failure) {
		outs := make([]string, len(lines))
		for i := range outs {
			outs[i] = "ok"
			if Fields(lines[i])[1] == "hyp" {
				outs[i] = ModelReports + "hyp "
			}
		}
		var fails []Failure
		prog := &Program{Module: "example.com/m", V2: impl.V2}
		var initial []string
		var steps [][]string
		var loadIdx []int
		dumpIdx, inputsIdx := -1, -1
		expectErr := false
		for i, l := range lines {
			f := Fields(l)
			switch f[1] {
			case "src":
				prog.Pkgs = append(prog.Pkgs, &ProgPkg{Path: Unhex(f[2]), Name: Unhex(f[3]), File: Unhex(f[4]), Imports: UnhexList(f[5]), Source: Unhex(f[6])})
				prog.Module = ModuleOfPath(prog.Pkgs[0].Path)
			case "testfiles":
				prog.TestFiles = true
			case "srcx":
				for _, p := range prog.Pkgs {
					if p.Path == Unhex(f[2]) {
						if p.Extra == nil {
							p.Extra = map[string]string{}
						}
						p.Extra[Unhex(f[3])] = Unhex(f[4])
					}
				}
			case "load":
				initial = UnhexList(f[2])
				loadIdx = append(loadIdx, i)
			case "loadto":
				steps = append(steps, UnhexList(f[2]))
				loadIdx = append(loadIdx, i)
			case "dump":
				dumpIdx = i
			case "inputs":
				inputsIdx = i
			case "expecterror":
				expectErr = true
			}
		}
		for _, l := range lines {
			if f := Fields(l); f[1] == "retry" && impl.RequestTwice != nil {
				// asking again for a package that does not parse must fail again
				e1, e2 := impl.RequestTwice(prog, Unhex(f[2]))
				if e1 == nil {
					fails = append(fails, Failure{"bad-package-no-error", fmt.Sprintf("requesting %s (a file of it does not parse) returned no error", Unhex(f[2]))})
				} else if e2 == nil {
					fails = append(fails, Failure{"bad-package-no-error-on-retry", fmt.Sprintf("requesting %s again after the error %q returned no error: the loader kept the files it had parsed before the broken one", Unhex(f[2]), Trunc(e1.Error(), 120))})
				}
				return outs, fails
			}
		}
		for _, l := range lines {
			if f := Fields(l); f[1] == "retryseq" && impl.RequestSeq != nil {
				// requests on one loader, one after the other: those marked "err" must fail whatever was asked before
				pkgs, want := UnhexList(f[2]), strings.Split(f[3], ",")
				errs := impl.RequestSeq(prog, pkgs)
				for i, w := range want {
					if w == "err" && (i >= len(errs) || errs[i] == nil) {
						fails = append(fails, Failure{"bad-package-no-error-in-sequence", fmt.Sprintf("requests %v on one loader: request %d (%s: missing, broken, or depending on a broken package) returned no error", pkgs, i+1, pkgs[i])})
					}
				}
				return outs, fails
			}
		}
		if expectErr {
			// a requested package that is missing or does not parse must yield an error
			_, _, _, err := impl.LoadHistory(prog, initial, steps)
			if err == nil {
				fails = append(fails, Failure{"bad-package-no-error", fmt.Sprintf("loading %v %v (with a missing or broken requested package) returned no error", initial, steps)})
			}
			return outs, fails
		}
		chk, err := prog.Check()
		if err != nil {
			return outs, []Failure{{"generator-ill-typed", err.Error()}}
		}
		snap, stable, inputs, err := impl.LoadHistory(prog, initial, steps)
		if err != nil {
			for _, i := range loadIdx {
				outs[i] = "fail"
			}
			return outs, []Failure{{"load-fails", fmt.Sprintf("history %v %v failed: %v", initial, steps, err)}}
		}
		if dumpIdx >= 0 {
			outs[dumpIdx] = Hex(snap.Dump())
		}
		req := map[string]bool{}
		for _, p := range initial {
			req[p] = true
		}
		for _, s := range steps {
			for _, p := range s {
				req[p] = true
			}
		}
		requested := SortedKeys(req)
		if inputsIdx >= 0 {
			outs[inputsIdx] = HexList(inputs)
			if strings.Join(inputs, ",") != strings.Join(requested, ",") {
				fails = append(fails, Failure{"inputs-wrong", fmt.Sprintf("reported inputs %v, requested %v", inputs, requested)})
			}
		}
		if !stable {
			fails = append(fails, Failure{"object-invalidated", "an object obtained before an incremental load is no longer the registered one (or changed) afterwards"})
		}
		// same universe as one combined load
		if len(steps) > 0 {
			one, _, _, err := impl.LoadHistory(prog, requested, nil)
			if err != nil {
				fails = append(fails, Failure{"load-fails", fmt.Sprintf("combined load of %v failed: %v", requested, err)})
			} else if one.Dump() != snap.Dump() {
				fails = append(fails, Failure{"history-dependent", fmt.Sprintf("loading %v then %v gives a different universe than loading %v at once:\n%s\n--- vs ---\n%s", initial, steps, requested, Trunc(firstDiff(snap.Dump(), one.Dump()), 600), "")})
			}
		}
		// requested packages complete and faithful; dependency packages contribute only what is reachable
		for _, f := range UniverseOracles("C01", snap, chk, prog, requested, impl.V2) {
			fails = append(fails, f)
		}
		reach := reachableNamed(chk, requested)
		for path, pk := range snap.Pkgs {
			if req[path] || path == "" {
				continue
			}
			if len(pk.Funcs)+len(pk.Vars)+len(pk.Consts) > 0 {
				fails = append(fails, Failure{"dependency-overscanned", fmt.Sprintf("dependency package %s contributes functions/variables/constants", path)})
			}
			for k := range pk.Types {
				base := k
				if i := strings.Index(k, "["); i >= 0 {
					base = k[:i]
				}
				if !reach[path+"."+base] {
					fails = append(fails, Failure{"dependency-overscanned", fmt.Sprintf("type %s.%s of a dependency package is in the universe but not reachable from the requested packages %v", path, k, requested)})
				}
			}
		}
		return outs, fails
	}
	return Property{
		Exec: exec,
		Gen: func(c *Ctx) {
			r := c.RNG("histories")
			n := c.Scale(60, 1200)
			if !impl.V2 {
				n = c.Scale(120, 2400)
			}
			for i := 0; i < n; i++ {
				prog := GenProgram(r, ProgOpts{V2: impl.V2, MaxPkgs: 5})
				if !impl.V2 && i%3 == 1 {
					// the rarely used option of the v1 loader: in-package test files belong to their packages – of every
					// package, whether it is first met as a dependency or requested
					prog.TestFiles = true
					for pi, p := range prog.Pkgs {
						p.Extra = map[string]string{"zz_extra_test.go": fmt.Sprintf("package %s\n\n// OnlyInTest%d is declared in a test file.\ntype OnlyInTest%d struct {\n\tN int\n}\n", p.Name, pi, pi)}
					}
				}
				chk, err := prog.Check()
				if err != nil {
					c.Feature("generator-discarded", 1)
					continue
				}
				facts := chk.FactLines(prog)
				// request set: a non-empty subset
				var req []string
				for _, p := range prog.Pkgs {
					if r.Chance(2, 3) {
						req = append(req, p.Path)
					}
				}
				if len(req) == 0 {
					req = []string{prog.Pkgs[len(prog.Pkgs)-1].Path}
				}
				// a random split and order
				perm := r.Perm(len(req))
				var order []string
				for _, j := range perm {
					order = append(order, req[j])
				}
				k := 1 + r.Intn(len(order))
				initial := order[:k]
				var steps [][]string
				for rest := order[k:]; len(rest) > 0; {
					m := 1 + r.Intn(len(rest))
					steps = append(steps, rest[:m])
					rest = rest[m:]
				}
				ls := []string{Line("uni", "reset", variant)}
				for _, p := range prog.Pkgs {
					ls = append(ls, Line("uni", "src", Hex(p.Path), Hex(p.Name), Hex(p.File), HexList(p.Imports), Hex(p.Source)))
				}
				if prog.TestFiles {
					ls = append(ls, Line("uni", "testfiles"))
					for _, p := range prog.Pkgs {
						for _, fn := range SortedKeys(p.Extra) {
							ls = append(ls, Line("uni", "srcx", Hex(p.Path), Hex(fn), Hex(p.Extra[fn])))
						}
					}
				}
				ls = append(ls, facts...)
				ls = append(ls, Line("uni", "hyp"))
				ls = append(ls, Line("uni", "load", HexList(initial)))
				for _, s := range steps {
					ls = append(ls, Line("uni", "loadto", HexList(s)))
				}
				ls = append(ls, Line("uni", "inputs"), Line("uni", "dump"))
				feats := []string{fmt.Sprintf("pkgs:%d", len(prog.Pkgs)), fmt.Sprintf("requested:%d", len(req)), fmt.Sprintf("steps:%d", len(steps))}
				if prog.TestFiles {
					feats = append(feats, "include-test-files")
				}
				if len(req) < len(prog.Pkgs) {
					feats = append(feats, "has-dependency-only-package")
				}
				c.Case(ls, Meta{Nontrivial: len(steps) > 0 || len(req) < len(prog.Pkgs), Features: feats})
				if i%4 == 0 {
					// a missing / broken requested package
					bad := &Program{Module: prog.Module, V2: prog.V2, Pkgs: append([]*ProgPkg(nil), prog.Pkgs...)}
					var ls2 []string
					ls2 = append(ls2, Line("uni", "reset", variant))
					badReq := prog.Module + "/doesnotexist"
					feat := "missing"
					var badSteps [][]string
					badInitial := append([]string(nil), initial...)
					switch r.Intn(4) {
					case 0:
						badInitial = append(badInitial, badReq)
					case 1: // does not parse, requested with the others
						bp := &ProgPkg{Path: prog.Module + "/zbroken", Name: "zbroken", File: "types.go", Source: "package zbroken\n\ntype T struct {\n"}
						bad.Pkgs = append(bad.Pkgs, bp)
						badInitial = append(badInitial, bp.Path)
						feat = "broken-initial"
					case 2: // does not parse, requested in a later incremental load
						bp := &ProgPkg{Path: prog.Module + "/zbroken", Name: "zbroken", File: "types.go", Source: "package zbroken\n\ntype T struct{}\n\nfunc (\n\ntype Lost int\n"}
						bad.Pkgs = append(bad.Pkgs, bp)
						badSteps = [][]string{{bp.Path}}
						feat = "broken-incremental"
					case 3: // does not parse, first seen as a dependency, requested later
						bp := &ProgPkg{Path: prog.Module + "/zbroken", Name: "zbroken", File: "types.go", Source: "package zbroken\n\ntype T struct{}\n\nfunc (\n\ntype Lost int\n"}
						ip := &ProgPkg{Path: prog.Module + "/zimp", Name: "zimp", File: "types.go", Imports: []string{bp.Path}, Source: "package zimp\n\nimport zbroken \"" + prog.Module + "/zbroken\"\n\ntype U struct{ F zbroken.T }\n"}
						bad.Pkgs = append(bad.Pkgs, bp, ip)
						badInitial = append(badInitial, ip.Path)
						badSteps = [][]string{{bp.Path}}
						feat = "broken-dependency-then-requested"
					}
					for _, p := range bad.Pkgs {
						ls2 = append(ls2, Line("uni", "src", Hex(p.Path), Hex(p.Name), Hex(p.File), HexList(p.Imports), Hex(p.Source)))
					}
					ls2 = append(ls2, Line("uni", "expecterror"), Line("uni", "load", HexList(badInitial)))
					for _, st := range badSteps {
						ls2 = append(ls2, Line("uni", "loadto", HexList(st)))
					}
					_ = badReq
					c.Case(ls2, Meta{Nontrivial: true, NoModel: true, Features: []string{"bad-requested-package", "bad:" + feat}})
					if i%8 == 4 {
						// error paths with a history, on one loader: the importer of a package that does not parse, asked
						// for twice; a package with an import that does not exist, then that import itself
						bp := &ProgPkg{Path: prog.Module + "/zbroken", Name: "zbroken", File: "types.go", Source: "package zbroken\n\ntype T struct{}\n\nfunc (\n\ntype Lost int\n"}
						ip := &ProgPkg{Path: prog.Module + "/zimp", Name: "zimp", File: "types.go", Imports: []string{bp.Path}, Source: "package zimp\n\nimport zbroken \"" + prog.Module + "/zbroken\"\n\ntype U struct{ F zbroken.T }\n"}
						ap := &ProgPkg{Path: prog.Module + "/zapp", Name: "zapp", File: "types.go", Source: "package zapp\n\nimport gone \"" + prog.Module + "/zgone\"\n\ntype U struct{ F gone.T }\n"}
						mk := func(pkgs []*ProgPkg, seq []string, want string, feat string) {
							ls4 := []string{Line("uni", "reset", variant)}
							for _, p := range pkgs {
								ls4 = append(ls4, Line("uni", "src", Hex(p.Path), Hex(p.Name), Hex(p.File), HexList(p.Imports), Hex(p.Source)))
							}
							ls4 = append(ls4, Line("uni", "expecterror"), Line("uni", "retryseq", HexList(seq), want))
							c.Case(ls4, Meta{Nontrivial: true, NoModel: true, Features: []string{"bad-requested-package", "bad:" + feat}})
						}
						if impl.V2 {
							mk([]*ProgPkg{bp, ip}, []string{ip.Path, ip.Path}, "err,err", "importer-of-broken-package-requested-twice")
						}
						mk([]*ProgPkg{ap}, []string{ap.Path, prog.Module + "/zgone"}, "?,err", "missing-import-then-requested")
						mk([]*ProgPkg{ap}, []string{prog.Module + "/zgone", ap.Path, prog.Module + "/zgone"}, "err,?,err", "missing-import-requested-before-and-after")
					}
					if i%8 == 0 {
						// a package of two files, the second of which does not parse, requested twice
						bp := &ProgPkg{Path: prog.Module + "/zhalf", Name: "zhalf", File: "a.go", Source: "package zhalf\n\ntype A int\n",
							Extra: map[string]string{"b.go": "package zhalf\n\ntype B int\n\nfunc (\n"}}
						ls3 := []string{Line("uni", "reset", variant),
							Line("uni", "src", Hex(bp.Path), Hex(bp.Name), Hex(bp.File), HexList(nil), Hex(bp.Source)),
							Line("uni", "srcx", Hex(bp.Path), Hex("b.go"), Hex(bp.Extra["b.go"])),
							Line("uni", "expecterror"), Line("uni", "retry", Hex(bp.Path))}
						c.Case(ls3, Meta{Nontrivial: true, NoModel: true, Features: []string{"bad-requested-package", "bad:second-file-broken-requested-twice"}})
					}
				}
			}
		},
	}
}

func firstDiff(a, b string) string {
	la, lb := strings.Split(a, "\n"), strings.Split(b, "\n")
	for i := 0; i < len(la) || i < len(lb); i++ {
		x, y := "", ""
		if i < len(la) {
			x = la[i]
		}
		if i < len(lb) {
			y = lb[i]
		}
		if x != y {
			return Readable("x\ty\t"+x) + "  |  " + Readable("x\ty\t"+y)
		}
	}
	return ""
}

package common

import (
	"fmt"
	"strings"
)

type UniImpl struct {
	V2 bool
	// Load builds the real universe: v1 AddFileForTest for every package (dependency order) + FindTypes;
	// v2 a scratch module on disk + LoadPackages(requested…) + NewUniverse.
	Load func(prog *Program, requested []string) (*USnap, error)
	// Builtins reports, for two fresh universes, whether the builtin objects are shared singletons and
	// whether repeated lookups return the same object (C06).
	LookupChecks func() []Failure
}

func progLines(variant string, prog *Program, facts []string, requested []string) []string {
	ls := []string{Line("uni", "reset", variant)}
	for _, p := range prog.Pkgs {
		ls = append(ls, Line("uni", "src", Hex(p.Path), Hex(p.Name), Hex(p.File), HexList(p.Imports), Hex(p.Source)))
	}
	ls = append(ls, facts...)
	ls = append(ls, Line("uni", "load", HexList(requested)), Line("uni", "dump"))
	return ls
}

func progFromLines(lines []string) (*Program, []string, []string) {
	prog := &Program{Module: "example.com/m"}
	var facts, requested []string
	for _, l := range lines {
		f := Fields(l)
		switch f[1] {
		case "reset":
			prog.V2 = f[2] == "v2"
		case "src":
			prog.Pkgs = append(prog.Pkgs, &ProgPkg{Path: Unhex(f[2]), Name: Unhex(f[3]), File: Unhex(f[4]), Imports: UnhexList(f[5]), Source: Unhex(f[6])})
		case "node", "pkg":
			facts = append(facts, l)
		case "load":
			requested = UnhexList(f[2])
		}
	}
	return prog, facts, requested
}

// UniverseProperty: prop is C01, C06 or C20; they share programs, loaders and the model, and differ in
// the oracle that judges the real universe.
func UniverseProperty(prop string, impl UniImpl) Property {
	variant := "v1"
	if impl.V2 {
		variant = "v2"
	}
	exec := func(lines []string) ([]string, []Failure) {
		outs := make([]string, len(lines))
		for i := range outs {
			outs[i] = "ok"
		}
		var fails []Failure
		if len(lines) == 1 && Fields(lines[0])[1] == "lookupchecks" {
			return outs, impl.LookupChecks()
		}
		prog, facts, requested := progFromLines(lines)
		chk, err := prog.Check()
		if err != nil {
			return outs, []Failure{{"generator-ill-typed", "the generated program does not type-check (harness): " + err.Error()}}
		}
		if strings.Join(chk.FactLines(prog), "\n") != strings.Join(facts, "\n") {
			fails = append(fails, Failure{"facts-stale", "the facts in the lines differ from go/types' view now (harness)"})
		}
		snap, err := impl.Load(prog, requested)
		li, di := len(lines)-2, len(lines)-1
		if err != nil {
			outs[li] = "fail"
			outs[di] = ""
			fails = append(fails, Failure{"load-fails", fmt.Sprintf("loading a well-typed program failed: %v", err)})
			return outs, fails
		}
		outs[di] = Hex(snap.Dump())
		fails = append(fails, UniverseOracles(prop, snap, chk, prog, requested, impl.V2)...)
		return outs, fails
	}
	return Property{
		Exec: exec,
		Gen: func(c *Ctx) {
			if prop == "C06" && impl.LookupChecks != nil {
				// lookups are idempotent and builtins are shared singletons: judged directly
				c.Case([]string{Line("uni", "lookupchecks", variant)}, Meta{NoModel: true, Nontrivial: true, Features: []string{"lookup-identity"}})
			}
			// corpus: hand-written programs for past witnesses and corner cases
			for _, prog := range corpusPrograms(impl.V2) {
				chk, err := prog.Check()
				if err != nil {
					panic("corpus program ill-typed: " + err.Error())
				}
				var requested []string
				for _, p := range prog.Pkgs {
					requested = append(requested, p.Path)
				}
				c.Case(progLines(variant, prog, chk.FactLines(prog), requested), Meta{Nontrivial: true, Features: []string{"corpus"}})
			}
			r := c.RNG("programs")
			n := c.Scale(120, 2500)
			if !impl.V2 {
				n = c.Scale(400, 6000)
			}
			var batch []PCase
			for i := 0; i < n; i++ {
				prog := GenProgram(r, ProgOpts{V2: impl.V2, MaxPkgs: 3})
				chk, err := prog.Check()
				if err != nil {
					c.Feature("generator-discarded", 1)
					continue
				}
				var requested []string
				for _, p := range prog.Pkgs {
					requested = append(requested, p.Path)
				}
				feats := []string{fmt.Sprintf("pkgs:%d", len(prog.Pkgs))}
				src := ""
				for _, p := range prog.Pkgs {
					src += p.Source
				}
				for _, kw := range []string{"interface {", "chan ", "func(", "struct{ ", "[T any]", "...", "`json", "Next *", "error"} {
					if strings.Contains(src, kw) {
						feats = append(feats, "has:"+kw)
					}
				}
				batch = append(batch, PCase{progLines(variant, prog, chk.FactLines(prog), requested), Meta{Nontrivial: true, Features: feats}})
				if len(batch) == 32 {
					c.Cases(batch, 12)
					batch = nil
				}
			}
			c.Cases(batch, 12)
		},
	}
}

func mkProg(v2 bool, pkgs ...[3]string) *Program {
	prog := &Program{Module: "example.com/m", V2: v2}
	for _, p := range pkgs {
		pk := &ProgPkg{Path: p[0], Name: pkgIdent(p[0]), File: "types.go", Source: p[2]}
		if p[1] != "" {
			pk.Imports = strings.Split(p[1], ",")
		}
		prog.Pkgs = append(prog.Pkgs, pk)
	}
	return prog
}

func corpusPrograms(v2 bool) []*Program {
	ps := []*Program{
		// F1/F3: every builtin scalar keeps its identity
		mkProg(v2, [3]string{"example.com/m/a", "", "package a\n\ntype T struct {\n\tA int8\n\tB uint8\n\tC byte\n\tD rune\n\tE int32\n\tF complex64\n\tG complex128\n\tH []int8\n\tI map[rune]byte\n}\n\ntype K int8\n\ntype R rune\n"}),
		// F7: the same anonymous struct literal with an unexported field in two packages
		mkProg(v2, [3]string{"example.com/m/a", "", "package a\n\ntype A struct {\n\tF struct{ x int }\n}\n"},
			[3]string{"example.com/m/b", "", "package b\n\ntype B struct {\n\tG struct{ x int }\n}\n"}),
		// cyclic types, method sets, embedded interfaces, error, variadics
		mkProg(v2, [3]string{"example.com/m/a", "", "package a\n\ntype Node struct {\n\tNext *Node\n\tKids map[string][]Node\n\tErr error\n}\n\nfunc (n *Node) Walk(f func(*Node) bool, more ...int) (ok bool) { panic(\"\") }\n\nfunc (n Node) Len() int { panic(\"\") }\n\ntype Walker interface {\n\tWalk(f func(*Node) bool, more ...int) (ok bool)\n}\n\ntype Both interface {\n\tWalker\n\tLen() int\n}\n\ntype Fn func(Both) Walker\n"}),
	}
	if v2 {
		// F2: a.User{F b.Foo[int]} is walked before b's declaration of Foo
		ps = append(ps, mkProg(true, [3]string{"example.com/m/b", "", "package b\n\ntype Foo[T any] struct {\n\tV T\n\tP *T\n}\n"},
			[3]string{"example.com/m/a", "example.com/m/b", "package a\n\nimport b \"example.com/m/b\"\n\ntype User struct {\n\tF b.Foo[int]\n\tG b.Foo[string]\n}\n"}),
			mkProg(true, [3]string{"example.com/m/a", "", "package a\n\ntype T struct{ X int }\n\ntype U = T\n\ntype W struct{ F U; G any }\n"}))
	}
	return ps
}

package common

import (
	"encoding/hex"
	"sort"
	"strconv"
	"strings"
)

// Hex encodes a string field of the line protocol.
func Hex(s string) string { return hex.EncodeToString([]byte(s)) }

func Unhex(s string) string {
	b, err := hex.DecodeString(s)
	if err != nil {
		panic("bad hex field: " + s)
	}
	return string(b)
}

// HexList encodes a list field: "-" is the empty list, otherwise comma-separated hex items.
func HexList(ss []string) string {
	if len(ss) == 0 {
		return "-"
	}
	out := make([]string, len(ss))
	for i, s := range ss {
		out[i] = Hex(s)
	}
	return strings.Join(out, ",")
}

func UnhexList(s string) []string {
	if s == "-" {
		return nil
	}
	parts := strings.Split(s, ",")
	out := make([]string, len(parts))
	for i, p := range parts {
		out[i] = Unhex(p)
	}
	return out
}

// Line joins protocol fields with TAB.
func Line(fields ...string) string { return strings.Join(fields, "\t") }

func Fields(line string) []string { return strings.Split(line, "\t") }

func Itoa(n int) string { return strconv.Itoa(n) }

func Atoi(s string) int {
	n, err := strconv.Atoi(s)
	if err != nil {
		panic("bad int field: " + s)
	}
	return n
}

func B01(b bool) string {
	if b {
		return "1"
	}
	return "0"
}

// SortedKeys returns the keys of a string-keyed map in byte order.
func SortedKeys[V any](m map[string]V) []string {
	ks := make([]string, 0, len(m))
	for k := range m {
		ks = append(ks, k)
	}
	sort.Strings(ks)
	return ks
}

// Readable turns a protocol line into something a person can read (hex fields decoded when they
// decode to printable text); used only for samples and replay files.
func Readable(line string) string {
	fs := Fields(line)
	for i, f := range fs {
		if i < 2 || f == "" || f == "-" {
			continue
		}
		items := strings.Split(f, ",")
		ok := true
		dec := make([]string, len(items))
		for j, it := range items {
			b, err := hex.DecodeString(it)
			if err != nil || (len(it) < 2 && it != "") {
				ok = false
				break
			}
			dec[j] = strconv.Quote(string(b))
		}
		if ok {
			fs[i] = strings.Join(dec, ",")
		}
	}
	return strings.Join(fs, " ")
}

package common

import (
	"os"
	"strings"
)

type execGenOpts struct {
	fileTypeTrouble bool
	hookErrors      bool
}

var exFilenames = []string{"alpha.go", "beta.go", "gamma.go"}

func subsetInts(r *RNG, ids []int, num, den int) []int {
	var out []int
	for _, x := range ids {
		if r.Chance(num, den) {
			out = append(out, x)
		}
	}
	return out
}

func genExecConfig(r *RNG, v2 bool, o execGenOpts) *ExecConfig {
	cfg := &ExecConfig{V2: v2}
	n := r.Intn(6)
	for i := 1; i <= n; i++ {
		cfg.Order = append(cfg.Order, i)
	}
	for _, nm := range []string{"public", "raw"} {
		if r.Bool() {
			cfg.Namers = append(cfg.Namers, nm)
		}
	}
	cfg.FileTypes = []string{"go"}
	if r.Chance(1, 3) {
		cfg.FileTypes = append(cfg.FileTypes, "other")
	}
	nt := 1 + r.Intn(3)
	dirs := []string{"d1", "d2", "d1/sub", "d3"}
	for ti := 0; ti < nt; ti++ {
		t := &ExecTarget{Name: []string{"pkga", "pkgb", "pkgc"}[ti], Dir: dirs[(ti+r.Intn(2))%len(dirs)], Accept: subsetInts(r, cfg.Order, 3, 4)}
		if r.Bool() {
			t.Header = "// header of " + t.Name + "\n\n"
		}
		dup := false
		for _, u := range cfg.Targets {
			if u.Dir == t.Dir {
				dup = true
			}
		}
		if dup {
			continue
		}
		ng := r.Intn(5)
		for gi := 0; gi < ng; gi++ {
			g := &ExecGen{Name: "g" + Itoa(gi+1), Accept: subsetInts(r, cfg.Order, 2, 3), FileType: "go", Filename: exFilenames[r.Intn(3)]}
			if r.Chance(1, 8) {
				// a file name with a directory part: the directory is not the executor's to create
				g.Filename = "nested/delta.go"
				if r.Bool() {
					nested := t.Dir + "/nested"
					have := false
					for _, d := range cfg.Dirs {
						if d == nested {
							have = true
						}
					}
					if !have {
						cfg.Dirs = append(cfg.Dirs, nested)
					}
				}
			}
			switch r.Intn(5) {
			case 0:
				g.NamersNil = true
			case 1:
				g.Namers = []string{"mine" + Itoa(gi+1)}
			case 2:
				g.Namers = []string{"public"} // overrides a base system
			case 3:
				g.Namers = []string{"x", "raw", "y" + Itoa(gi+1)}
			}
			// contributed lines are text, not formats: some carry '%' (a modulo, a format-string constant)
			for k := r.Intn(3); k > 0; k-- {
				v := "v" + Itoa(gi) + Itoa(k) + " = " + Itoa(k)
				if r.Chance(1, 4) {
					v = "v" + Itoa(gi) + Itoa(k) + " = hash % " + Itoa(k+1)
				}
				g.Vars = append(g.Vars, v)
			}
			for k := r.Intn(3); k > 0; k-- {
				cst := "c" + Itoa(gi) + Itoa(k) + " = " + Itoa(k)
				if r.Chance(1, 4) {
					cst = "c" + Itoa(gi) + Itoa(k) + " = \"%s/%d%%\""
				}
				g.Consts = append(g.Consts, cst)
			}
			for k := r.Intn(3); k > 0; k-- {
				g.Imports = append(g.Imports, []string{"fmt", "os", "alias \"a/b\"", "k8s.io/x", "\"strings\""}[r.Intn(5)])
			}
			g.Silent = r.Chance(1, 4)
			if o.fileTypeTrouble && r.Chance(1, 6) {
				g.FileType = []string{"", "other", "nope"}[r.Intn(3)]
			}
			if o.hookErrors && r.Chance(1, 5) {
				switch r.Intn(3) {
				case 0:
					g.InitErr = true
				case 1:
					g.FinErr = true
				default:
					if len(cfg.Order) > 0 {
						g.TypeErr = []int{cfg.Order[r.Intn(len(cfg.Order))]}
					}
				}
			}
			t.Gens = append(t.Gens, g)
		}
		cfg.Targets = append(cfg.Targets, t)
	}
	return cfg
}

func cloneExecConfig(c *ExecConfig) *ExecConfig {
	d := *c
	d.Targets = nil
	for _, t := range c.Targets {
		u := *t
		u.Gens = nil
		for _, g := range t.Gens {
			h := *g
			u.Gens = append(u.Gens, &h)
		}
		d.Targets = append(d.Targets, &u)
	}
	d.Dirs = append([]string(nil), c.Dirs...)
	d.Files = append([][2]string(nil), c.Files...)
	return &d
}

func execFeatures(cfg *ExecConfig) []string {
	f := []string{"targets:" + Itoa(len(cfg.Targets))}
	for _, t := range cfg.Targets {
		files := map[string]int{}
		for _, g := range t.Gens {
			files[g.Filename]++
			if g.InitErr || g.FinErr || len(g.TypeErr) > 0 {
				f = append(f, "hook-error")
			}
			if g.FileType != "go" {
				f = append(f, "filetype:"+g.FileType)
			}
		}
		for _, n := range files {
			if n > 1 {
				f = append(f, "shared-file")
			}
		}
	}
	if cfg.Verify {
		f = append(f, "verify")
	}
	return f
}

func nontrivialExec(cfg *ExecConfig) bool {
	for _, t := range cfg.Targets {
		if len(t.Gens) >= 2 {
			return true
		}
	}
	return false
}

// C04: protocol
func ExecGenProtocol(c *Ctx, v2 bool) {
	r := c.RNG("gen")
	n := c.Scale(3000, 60000)
	for i := 0; i < n; i++ {
		cfg := genExecConfig(r, v2, execGenOpts{fileTypeTrouble: true, hookErrors: i%5 == 0})
		c.Case(cfg.Lines(), Meta{Nontrivial: nontrivialExec(cfg), Features: execFeatures(cfg)})
	}
}

// C03: runs of two or three targets over one Context, no faults: what each target and generator is offered
func ExecGenSharedContext(c *Ctx, v2 bool) {
	r := c.RNG("gen-shared")
	n := c.Scale(600, 12000)
	for i := 0; i < n; i++ {
		cfg := genExecConfig(r, v2, execGenOpts{})
		if len(cfg.Targets) < 2 {
			continue
		}
		c.Case(cfg.Lines(), Meta{Nontrivial: nontrivialExec(cfg), Features: append(execFeatures(cfg), "shared-context")})
	}
}

// C09: what the generators of a file contribute (variables, constants, bodies, imports) reaches the file as it is
func ExecGenContributions(c *Ctx, v2 bool) {
	r := c.RNG("gen-contrib")
	n := c.Scale(500, 10000)
	for i := 0; i < n; i++ {
		cfg := genExecConfig(r, v2, execGenOpts{})
		contributes := false
		for _, t := range cfg.Targets {
			for _, g := range t.Gens {
				if len(g.Vars)+len(g.Consts) > 0 {
					contributes = true
				}
			}
		}
		if !contributes {
			continue
		}
		c.Case(cfg.Lines(), Meta{Nontrivial: true, Features: append(execFeatures(cfg), "contributions")})
	}
}

// C13: every fault position of each base configuration
func ExecGenFailures(c *Ctx, v2 bool) {
	r := c.RNG("gen")
	n := c.Scale(150, 3000)
	for i := 0; i < n; i++ {
		base := genExecConfig(r, v2, execGenOpts{})
		c.Case(base.Lines(), Meta{Nontrivial: nontrivialExec(base), Features: append(execFeatures(base), "fault:none")})
		for ti, t := range base.Targets {
			// hook faults
			for gi, g := range t.Gens {
				for _, pos := range append([]int{-1, -2}, intersectOrder(base.Order, t.Accept, g.Accept)...) {
					cfg := cloneExecConfig(base)
					h := cfg.Targets[ti].Gens[gi]
					feat := "fault:type-hook"
					switch pos {
					case -1:
						h.InitErr = true
						feat = "fault:init-hook"
					case -2:
						h.FinErr = true
						feat = "fault:finalize-hook"
					default:
						h.TypeErr = []int{pos}
					}
					c.Case(cfg.Lines(), Meta{Nontrivial: true, Features: []string{feat}})
				}
			}
			// file faults: creation (a directory sits at the file's path), formatting (marker)
			seen := map[string]bool{}
			for gi, g := range t.Gens {
				if seen[g.Filename] {
					continue
				}
				seen[g.Filename] = true
				cfg := cloneExecConfig(base)
				cfg.Dirs = append(cfg.Dirs, t.Dir+"/"+g.Filename)
				c.Case(cfg.Lines(), Meta{Nontrivial: true, Features: []string{"fault:create"}})
				cfg = cloneExecConfig(base)
				h := cfg.Targets[ti].Gens[gi]
				h.Vars = append(h.Vars, "bad = "+ExecFailMarker)
				h.Imports = nil
				for _, o := range cfg.Targets[ti].Gens {
					if o.Filename == h.Filename {
						o.Imports = nil // unformatted text is written with the import block in map order
					}
				}
				c.Case(cfg.Lines(), Meta{Nontrivial: true, Features: []string{"fault:format"}})
			}
			// the target directory cannot be created: a file sits where a parent directory should be
			if t.Dir == "d1/sub" {
				clash := false
				for _, u := range base.Targets {
					if u.Dir == "d1" {
						clash = true
					}
				}
				if !clash {
					cfg := cloneExecConfig(base)
					var keep []string
					for _, d := range cfg.Dirs {
						if d != "d1" && !strings.HasPrefix(d, "d1/") {
							keep = append(keep, d) // nothing can be below a file
						}
					}
					cfg.Dirs = keep
					cfg.Files = append(cfg.Files, [2]string{"d1", "i am a file"})
					c.Case(cfg.Lines(), Meta{Nontrivial: true, Features: []string{"fault:mkdir"}})
				}
			}
		}
	}
}

// C10: generate, perturb the on-disk copy, verify
func ExecGenVerify(impl ExecImpl) func(c *Ctx, v2 bool) {
	return func(c *Ctx, v2 bool) {
		r := c.RNG("gen")
		if impl.ArgsVerify != nil {
			for _, m := range ArgsVerifyModes {
				c.Case([]string{Line("ex", "argsverify", Hex(m[0]))}, Meta{Nontrivial: true, Features: []string{"generator-args:" + strings.SplitN(m[0], ":", 2)[0]}})
			}
		}
		n := c.Scale(250, 5000)
		for i := 0; i < n; i++ {
			base := genExecConfig(r, v2, execGenOpts{})
			if r.Chance(1, 10) && len(base.Targets) > 0 && len(base.Targets[0].Gens) > 0 {
				g := base.Targets[0].Gens[0]
				g.Vars = append(g.Vars, "bad = "+ExecFailMarker)
				for _, o := range base.Targets[0].Gens {
					if o.Filename == g.Filename {
						o.Imports = nil
					}
				}
			}
			// generate with the real code to learn what is written
			root := materialise(base)
			for ti := range base.Targets {
				func() {
					defer func() { recover() }()
					impl.RunTarget(base, ti, root, &ExecRecorder{})
				}()
			}
			gen := snapshot(root)
			os.RemoveAll(root)
			paths := SortedKeys(gen.files)
			emit := func(feat string, files map[string]string, dirs []string) {
				cfg := cloneExecConfig(base)
				cfg.Verify = true
				cfg.Dirs = dirs
				for _, p := range SortedKeys(files) {
					cfg.Files = append(cfg.Files, [2]string{p, files[p]})
				}
				c.Case(cfg.Lines(), Meta{Nontrivial: len(paths) > 0, Features: append(execFeatures(cfg), "perturb:"+feat)})
			}
			copyFiles := func() map[string]string {
				m := map[string]string{}
				for k, v := range gen.files {
					m[k] = v
				}
				return m
			}
			emit("none", copyFiles(), gen.dirs)
			if len(paths) == 0 {
				continue
			}
			p := paths[r.Intn(len(paths))]
			content := gen.files[p]
			positions := []int{0, len(content) / 2, len(content) - 1}
			if c.Tier == "thorough" && i < 20 {
				positions = nil
				for k := range content {
					positions = append(positions, k)
				}
			}
			for _, pos := range positions {
				if pos < 0 || pos >= len(content) {
					continue
				}
				m := copyFiles()
				b := []byte(content)
				b[pos] ^= 0x01
				m[p] = string(b)
				emit("byte-edit", m, gen.dirs)
			}
			// insertions, in particular of bytes a "tolerant" comparison might skip (CR before LF, spaces)
			var nl []int
			for k := 0; k < len(content); k++ {
				if content[k] == '\n' {
					nl = append(nl, k)
				}
			}
			for _, ins := range []string{"\r", " ", "x", "\n", "\t"} {
				pos := r.Intn(len(content) + 1)
				if len(nl) > 0 && r.Chance(2, 3) {
					pos = nl[r.Intn(len(nl))]
				}
				m := copyFiles()
				m[p] = content[:pos] + ins + content[pos:]
				emit("insert", m, gen.dirs)
			}
			// regenerate (not verify) over stale on-disk copies that are longer / shorter than the new output
			for _, stale := range []string{content + "// stale tail that must not survive\n", content[:len(content)/3], "x"} {
				cfg := cloneExecConfig(base)
				cfg.Dirs = gen.dirs
				for _, q := range SortedKeys(gen.files) {
					c := gen.files[q]
					if q == p {
						c = stale
					}
					cfg.Files = append(cfg.Files, [2]string{q, c})
				}
				c.Case(cfg.Lines(), Meta{Nontrivial: true, Features: []string{"regenerate-over-stale"}})
			}
			m := copyFiles()
			m[p] = content[:len(content)/2]
			emit("truncate", m, gen.dirs)
			m = copyFiles()
			m[p] = content + "\n"
			emit("extend", m, gen.dirs)
			m = copyFiles()
			delete(m, p)
			emit("delete", m, gen.dirs)
			emit("missing-dir", map[string]string{}, nil)
			m = copyFiles()
			m["unrelated.txt"] = "x"
			emit("extra-file", m, gen.dirs)
			if len(paths) >= 2 {
				q := paths[(r.Intn(len(paths)-1)+1+indexOf(paths, p))%len(paths)]
				m = copyFiles()
				delete(m, p)
				m[q] = gen.files[q] + "x"
				emit("two-bad", m, gen.dirs)
			}
		}
	}
}

func indexOf(l []string, x string) int {
	for i, y := range l {
		if y == x {
			return i
		}
	}
	return 0
}

package common

import (
	"fmt"
	"go/constant"
	gotypes "go/types"
	"sort"
	"strings"
)

// ---- neutral snapshot of a gengo universe (built by h1/h2 from the real types.Universe) ----

type UMember struct {
	Name     string
	Embedded bool
	Tags     string
	Type     *UObj

	CommentLines []string
}

type UParam struct {
	Name string
	Type *UObj
}

type UObj struct {
	ID               int // identity class: one per distinct *types.Type pointer
	Pkg, Name        string
	Kind             string
	Elem, Key        *UObj
	Under, Recv      *UObj
	Len              int64
	Members          []UMember
	Methods          map[string]*UObj
	HasSig           bool
	Params           []UParam
	Results          []UParam
	Variadic         bool
	TypeParams       map[string]*UObj
	ConstVal         *string
	Prim, Assign     bool
	AnonStruct       bool
	Comparable       *bool // v2 only
	ComparablePanics bool  // v2 only: IsComparable panicked
	CommentLines     []string
	SecondClosest    []string
}

type UPkg struct {
	Path, Name                 string
	Imports                    []string
	Types, Funcs, Vars, Consts map[string]*UObj
	Comments, DocComments      []string
}

type USnap struct{ Pkgs map[string]*UPkg }

func uref(o *UObj) string {
	if o == nil {
		return "-"
	}
	p := ""
	if o.Kind == "TypeParam" {
		p = "tp:"
	}
	return p + Hex(o.Pkg) + "/" + Hex(o.Name)
}

func unamed(l []UParam) string {
	s := make([]string, len(l))
	for i, p := range l {
		s[i] = Hex(p.Name) + ">" + uref(p.Type)
	}
	return strings.Join(s, ",")
}

func umap(m map[string]*UObj) string {
	var s []string
	for _, k := range SortedKeys(m) {
		s = append(s, Hex(k)+">"+uref(m[k]))
	}
	return strings.Join(s, ",")
}

func ShowUObj(o *UObj) string {
	var ms []string
	for _, m := range o.Members {
		ms = append(ms, Hex(m.Name)+">"+B01(m.Embedded)+">"+Hex(m.Tags)+">"+uref(m.Type))
	}
	sig := "-"
	if o.HasSig {
		v := ""
		if o.Variadic {
			v = "v"
		}
		sig = "(" + unamed(o.Params) + ")(" + unamed(o.Results) + ")" + v + "r=" + uref(o.Recv)
	}
	cv := "-"
	if o.ConstVal != nil {
		cv = Hex(*o.ConstVal)
	}
	flags := "-"
	if o.Kind != "Unknown" && o.Kind != "" && o.Kind != "DeclarationOf" {
		flags = B01(o.Prim) + B01(o.Assign) + B01(o.AnonStruct)
	}
	return fmt.Sprintf("%s|%s/%s|e=%s|k=%s|u=%s|l=%d|m=%s|M=%s|s=%s|tp=%s|c=%s|f=%s", o.Kind, Hex(o.Pkg), Hex(o.Name), uref(o.Elem), uref(o.Key), uref(o.Under), o.Len,
		strings.Join(ms, ","), umap(o.Methods), sig, umap(o.TypeParams), cv, flags)
}

// Dump renders the snapshot exactly like lean/Gengo/Driver/Universe.lean's `dump`.
func (s *USnap) Dump() string {
	var lines []string
	for _, p := range SortedKeys(s.Pkgs) {
		pk := s.Pkgs[p]
		imps := append([]string(nil), pk.Imports...)
		sort.Strings(imps)
		lines = append(lines, "P "+Hex(pk.Path)+" "+Hex(pk.Name)+" "+HexList(imps))
	}
	for _, cat := range []struct {
		tag string
		get func(*UPkg) map[string]*UObj
	}{{"T", func(p *UPkg) map[string]*UObj { return p.Types }}, {"F", func(p *UPkg) map[string]*UObj { return p.Funcs }},
		{"V", func(p *UPkg) map[string]*UObj { return p.Vars }}, {"C", func(p *UPkg) map[string]*UObj { return p.Consts }}} {
		for _, p := range SortedKeys(s.Pkgs) {
			m := cat.get(s.Pkgs[p])
			for _, k := range SortedKeys(m) {
				lines = append(lines, cat.tag+" "+Hex(p)+"/"+Hex(k)+" "+ShowUObj(m[k]))
			}
		}
	}
	return strings.Join(lines, "\n")
}

// ---- oracles: the snapshot against go/types, without the model ----

type occ struct {
	g gotypes.Type
	o *UObj
}

type uniOracle struct {
	snap    *USnap
	v2      bool
	fails   []Failure
	seen    map[[2]interface{}]bool
	occs    []occ
	reached map[*UObj]bool
}

func (u *uniOracle) fail(sig, what string) {
	for _, f := range u.fails {
		if f.Sig == sig {
			return // one witness per signature is enough
		}
	}
	u.fails = append(u.fails, Failure{sig, what})
}

func basicSame(a, b string) bool {
	if a == b {
		return true
	}
	pairs := map[string]string{"byte": "uint8", "uint8": "byte", "rune": "int32", "int32": "rune"}
	return pairs[a] == b
}

func kindOfGo(g gotypes.Type) string {
	switch g.(type) {
	case *gotypes.Struct:
		return "Struct"
	case *gotypes.Map:
		return "Map"
	case *gotypes.Slice:
		return "Slice"
	case *gotypes.Pointer:
		return "Pointer"
	case *gotypes.Array:
		return "Array"
	case *gotypes.Chan:
		return "Chan"
	case *gotypes.Signature:
		return "Func"
	case *gotypes.Interface:
		return "Interface"
	}
	return "?"
}

// describes checks that gengo object o faithfully describes Go type g.
func (u *uniOracle) describes(o *UObj, g gotypes.Type, ctx string) {
	if o == nil {
		u.fail("missing-reference", ctx+": no object recorded for "+g.String())
		return
	}
	g = gotypes.Unalias(g)
	key := [2]interface{}{o, g}
	if u.seen[key] {
		return
	}
	u.seen[key] = true
	u.occs = append(u.occs, occ{g, o})
	u.reached[o] = true
	if o.Kind == "Unknown" || o.Kind == "" {
		u.fail("unresolved-placeholder", fmt.Sprintf("%s: %s is left without a kind", ctx, g))
		return
	}
	switch x := g.(type) {
	case *gotypes.Basic:
		if x.Info()&gotypes.IsUntyped != 0 {
			// the type of an untyped constant is not a builtin scalar type: only its spelling is compared
			if o.Name != x.Name() {
				u.fail("basic-misreported", fmt.Sprintf("%s: %s is reported as %q", ctx, x.Name(), o.Name))
			}
			return
		}
		if o.Kind != "Builtin" || !basicSame(o.Name, x.Name()) || o.Pkg != "" {
			sig := "basic-misreported"
			if o.Kind == "Unsupported" {
				sig = "basic-unsupported:" + x.Name()
			}
			u.fail(sig, fmt.Sprintf("%s: Go type %s is reported as %s %q", ctx, x.Name(), o.Kind, o.Name))
		}
	case *gotypes.TypeParam:
		if o.Kind != "TypeParam" {
			u.fail("kind-mismatch", fmt.Sprintf("%s: type parameter %s reported as %s", ctx, x, o.Kind))
		}
	case *gotypes.Named:
		und := x.Underlying()
		generic := x.TypeParams().Len() > 0
		wantName := x.Obj().Name()
		wantPkg := ""
		if x.Obj().Pkg() != nil {
			wantPkg = x.Obj().Pkg().Path()
		}
		if generic {
			var tps []string
			for i := 0; i < x.TypeParams().Len(); i++ {
				tps = append(tps, x.TypeParams().At(i).Obj().Name())
			}
			wantName += "[" + strings.Join(tps, ",") + "]"
		}
		if o.Pkg != wantPkg || o.Name != wantName {
			u.fail("named-misnamed", fmt.Sprintf("%s: %s is reported under the name %s.%s", ctx, x, o.Pkg, o.Name))
		}
		switch und.(type) {
		case *gotypes.Basic, *gotypes.Map, *gotypes.Slice:
			if o.Kind != "Alias" {
				u.fail("kind-mismatch", fmt.Sprintf("%s: defined type %s over %s is reported as %s", ctx, x, und, o.Kind))
				return
			}
			u.describes(o.Under, und, ctx+" underlying of "+x.String())
		default:
			if generic {
				und = x.Origin().Underlying()
			}
			u.structural(o, und, ctx+" "+x.String(), true)
		}
		// method set: explicitly declared methods (interfaces: checked structurally above)
		if _, isIface := und.(*gotypes.Interface); !isIface {
			// a generic declaration is described by the methods of the declaration itself (x may be an instantiation)
			decl := x.Origin()
			want := map[string]*gotypes.Func{}
			for i := 0; i < decl.NumMethods(); i++ {
				want[decl.Method(i).Name()] = decl.Method(i)
			}
			u.methodSet(o, want, ctx+" "+x.String())
		}
	default:
		u.structural(o, g, ctx, false)
	}
}

func (u *uniOracle) methodSet(o *UObj, want map[string]*gotypes.Func, ctx string) {
	if len(want) != len(o.Methods) {
		u.fail("method-set-mismatch", fmt.Sprintf("%s: methods %v reported, Go has %v", ctx, SortedKeys(o.Methods), SortedKeys(want)))
		return
	}
	for n, f := range want {
		m := o.Methods[n]
		if m == nil {
			u.fail("method-set-mismatch", fmt.Sprintf("%s: method %s missing", ctx, n))
			continue
		}
		u.describes(m, f.Type(), ctx+" method "+n)
	}
}

func (u *uniOracle) structural(o *UObj, g gotypes.Type, ctx string, named bool) {
	if k := kindOfGo(g); k != o.Kind {
		u.fail("kind-mismatch", fmt.Sprintf("%s: %s is reported as %s", ctx, g, o.Kind))
		return
	}
	switch x := g.(type) {
	case *gotypes.Pointer:
		u.describes(o.Elem, x.Elem(), ctx+" elem")
	case *gotypes.Slice:
		u.describes(o.Elem, x.Elem(), ctx+" elem")
	case *gotypes.Chan:
		u.describes(o.Elem, x.Elem(), ctx+" elem")
	case *gotypes.Array:
		if o.Len != x.Len() {
			u.fail("array-length", fmt.Sprintf("%s: array length %d reported, Go has %d", ctx, o.Len, x.Len()))
		}
		u.describes(o.Elem, x.Elem(), ctx+" elem")
	case *gotypes.Map:
		u.describes(o.Key, x.Key(), ctx+" key")
		u.describes(o.Elem, x.Elem(), ctx+" elem")
	case *gotypes.Struct:
		if len(o.Members) != x.NumFields() {
			u.fail("field-mismatch", fmt.Sprintf("%s: %d members reported for %s", ctx, len(o.Members), x))
			return
		}
		for i := 0; i < x.NumFields(); i++ {
			f, m := x.Field(i), o.Members[i]
			if m.Name != f.Name() || m.Embedded != f.Anonymous() || m.Tags != x.Tag(i) {
				u.fail("field-mismatch", fmt.Sprintf("%s: member %d is %q embedded=%v tag=%q, Go has %q embedded=%v tag=%q", ctx, i, m.Name, m.Embedded, m.Tags, f.Name(), f.Anonymous(), x.Tag(i)))
			}
			u.describes(m.Type, f.Type(), ctx+" field "+f.Name())
		}
	case *gotypes.Signature:
		if !o.HasSig {
			u.fail("signature-mismatch", ctx+": no signature recorded")
			return
		}
		tup := func(ps []UParam, t *gotypes.Tuple, what string) {
			if len(ps) != t.Len() {
				u.fail("signature-mismatch", fmt.Sprintf("%s: %d %s reported, Go has %d", ctx, len(ps), what, t.Len()))
				return
			}
			for i := 0; i < t.Len(); i++ {
				if ps[i].Name != t.At(i).Name() {
					u.fail("signature-mismatch", fmt.Sprintf("%s: %s %d is named %q, Go has %q", ctx, what, i, ps[i].Name, t.At(i).Name()))
				}
				u.describes(ps[i].Type, t.At(i).Type(), fmt.Sprintf("%s %s %d", ctx, what, i))
			}
		}
		tup(o.Params, x.Params(), "parameters")
		tup(o.Results, x.Results(), "results")
		if o.Variadic != x.Variadic() {
			u.fail("signature-mismatch", fmt.Sprintf("%s: variadic=%v reported", ctx, o.Variadic))
		}
		if (x.Recv() != nil) != (o.Recv != nil) {
			u.fail("signature-mismatch", fmt.Sprintf("%s: receiver presence differs", ctx))
		} else if x.Recv() != nil {
			u.describes(o.Recv, x.Recv().Type(), ctx+" receiver")
		}
	case *gotypes.Interface:
		x.Complete()
		want := map[string]*gotypes.Func{}
		for i := 0; i < x.NumMethods(); i++ {
			want[x.Method(i).Name()] = x.Method(i)
		}
		u.methodSet(o, want, ctx)
	}
}

func containsRef(g gotypes.Type, seen map[gotypes.Type]bool) bool {
	g = gotypes.Unalias(g)
	if seen[g] {
		return false
	}
	seen[g] = true
	switch x := g.(type) {
	case *gotypes.Pointer, *gotypes.Map, *gotypes.Slice, *gotypes.Chan, *gotypes.Signature, *gotypes.Interface:
		return true
	case *gotypes.Basic:
		return x.Kind() == gotypes.UnsafePointer
	case *gotypes.Named:
		return containsRef(x.Underlying(), seen)
	case *gotypes.Array:
		return containsRef(x.Elem(), seen)
	case *gotypes.Struct:
		for i := 0; i < x.NumFields(); i++ {
			if containsRef(x.Field(i).Type(), seen) {
				return true
			}
		}
	case *gotypes.TypeParam:
		return true
	}
	return false
}

// UniverseOracles evaluates C01 (faithful), C06 (identity/closure) and C20 (predicates) on a snapshot.
func UniverseOracles(prop string, snap *USnap, c *Checked, prog *Program, requested []string, v2 bool) []Failure {
	u := &uniOracle{snap: snap, v2: v2, seen: map[[2]interface{}]bool{}, reached: map[*UObj]bool{}}
	for _, path := range requested {
		tp := c.Pkgs[path]
		pk := snap.Pkgs[path]
		if pk == nil {
			u.fail("package-missing", "requested package "+path+" is not in the universe")
			continue
		}
		if pk.Name != tp.Name() || pk.Path != path {
			u.fail("package-meta", fmt.Sprintf("package %s reported as path %q name %q", path, pk.Path, pk.Name))
		}
		want := append([]string(nil), prog.Pkg(path).Imports...)
		sort.Strings(want)
		got := append([]string(nil), pk.Imports...)
		sort.Strings(got)
		if fmt.Sprint(want) != fmt.Sprint(got) {
			u.fail("package-imports", fmt.Sprintf("package %s: imports %v reported, source has %v", path, got, want))
		}
		for _, n := range tp.Scope().Names() {
			switch obj := tp.Scope().Lookup(n).(type) {
			case *gotypes.TypeName:
				if obj.IsAlias() {
					continue // `type U = T` is another name for T, not a declaration of a type (outside the fragment)
				}
				key := n
				if nt, ok := obj.Type().(*gotypes.Named); ok && nt.TypeParams().Len() > 0 {
					var tps []string
					for i := 0; i < nt.TypeParams().Len(); i++ {
						tps = append(tps, nt.TypeParams().At(i).Obj().Name())
					}
					key = n + "[" + strings.Join(tps, ",") + "]"
				}
				o := pk.Types[key]
				if o == nil {
					u.fail("declaration-missing", fmt.Sprintf("type %s.%s is not in the universe", path, key))
					continue
				}
				u.describes(o, obj.Type(), "type "+path+"."+n)
			case *gotypes.Func:
				o := pk.Funcs[n]
				if o == nil || o.Kind != "DeclarationOf" {
					u.fail("declaration-missing", fmt.Sprintf("func %s.%s is not in the universe", path, n))
					continue
				}
				u.describes(o.Under, obj.Type(), "func "+path+"."+n)
			case *gotypes.Var:
				o := pk.Vars[n]
				if o == nil || o.Kind != "DeclarationOf" {
					u.fail("declaration-missing", fmt.Sprintf("var %s.%s is not in the universe", path, n))
					continue
				}
				u.describes(o.Under, obj.Type(), "var "+path+"."+n)
			case *gotypes.Const:
				o := pk.Consts[n]
				if o == nil || o.Kind != "DeclarationOf" {
					u.fail("declaration-missing", fmt.Sprintf("const %s.%s is not in the universe", path, n))
					continue
				}
				u.describes(o.Under, obj.Type(), "const "+path+"."+n)
				// the value: a string constant's is the string itself (whatever its declared type), any other the
				// type checker's rendering
				wantVal := obj.Val().String()
				if obj.Val().Kind() == constant.String {
					wantVal = constant.StringVal(obj.Val())
				}
				if o.ConstVal == nil || *o.ConstVal != wantVal {
					got := "<none>"
					if o.ConstVal != nil {
						got = *o.ConstVal
					}
					u.fail("constant-value", fmt.Sprintf("const %s.%s: reported value %q, the type checker has %q", path, n, got, wantVal))
				}
			}
		}
	}
	if prop == "C06" || prop == "C20" {
		u.fails = filterSigs(u.fails, prop)
	}
	switch prop {
	case "C06":
		// one object per Go type, and never one object for two different Go types
		for i := 0; i < len(u.occs); i++ {
			for j := i + 1; j < len(u.occs); j++ {
				a, b := u.occs[i], u.occs[j]
				// outside C06's quantifier: generic declarations and anything mentioning a type parameter;
				// a method's own signature (it has a receiver) is not one of the listed kinds of occurrence
				if c06Excluded(a.g) || c06Excluded(b.g) {
					continue
				}
				id := gotypes.Identical(a.g, b.g)
				// named and basic types: identical => one object; anonymous types: identically spelled => one object
				_, an := a.g.(*gotypes.Named)
				_, ab := a.g.(*gotypes.Basic)
				sameObjRequired := id && (an || ab || a.g.String() == b.g.String())
				if sameObjRequired && a.o != b.o {
					u.fail("identical-types-two-objects", fmt.Sprintf("%s occurs as two different objects (%s.%s / %s.%s)", a.g, a.o.Pkg, a.o.Name, b.o.Pkg, b.o.Name))
				}
				if !id && a.o == b.o && !(namedOverSame(a.g, b.g)) {
					sig := "distinct-types-merged"
					if anonStructUnexported(a.g) && anonStructUnexported(b.g) {
						sig = "anon-struct-unexported-merged"
					}
					u.fail(sig, fmt.Sprintf("%s and %s are different Go types but one object %s.%s", a.g, b.g, a.o.Pkg, a.o.Name))
				}
			}
		}
		// looking a named type up gives the object its occurrences point to (the one registered under its name)
		for _, oc := range u.occs {
			nt, ok := oc.g.(*gotypes.Named)
			if !ok || c06Excluded(oc.g) || nt.Obj().Pkg() == nil || oc.o == nil {
				continue
			}
			var reg *UObj
			if pk := snap.Pkgs[nt.Obj().Pkg().Path()]; pk != nil {
				reg = pk.Types[nt.Obj().Name()]
			}
			if reg != oc.o {
				u.fail("lookup-not-the-referenced-object", fmt.Sprintf("%s: the object registered under this name is not the object its occurrences refer to (registered: %v)", oc.g, reg != nil))
				break
			}
		}
	case "C20":
		for _, oc := range u.occs {
			g, o := oc.g, oc.o
			if o.Kind == "TypeParam" || mentionsGeneric(g, map[gotypes.Type]bool{}) {
				continue
			}
			if o.Assign && containsRef(g, map[gotypes.Type]bool{}) {
				u.fail("assignable-unsound", fmt.Sprintf("%s is reported assignable but contains a reference type", g))
			}
			bg, isBasic := g.(*gotypes.Basic)
			if isBasic && bg.Info()&gotypes.IsUntyped != 0 {
				continue // the type of an untyped constant: not a type a program can name
			}
			if nt, ok := g.(*gotypes.Named); ok {
				_, isBasic = nt.Underlying().(*gotypes.Basic)
			}
			if bt, ok := g.Underlying().(*gotypes.Basic); ok && bt.Kind() == gotypes.UnsafePointer {
				isBasic = false
			}
			if o.Prim != isBasic {
				u.fail("primitive-mismatch", fmt.Sprintf("%s: IsPrimitive=%v", g, o.Prim))
			}
			if o.ComparablePanics {
				u.fail("comparable-unanswered", fmt.Sprintf("%s: IsComparable panics (the loader left no Go type in the object)", g))
			}
			if o.Comparable != nil && *o.Comparable != gotypes.Comparable(g) {
				u.fail("comparable-mismatch", fmt.Sprintf("%s: IsComparable=%v, Go says %v", g, *o.Comparable, gotypes.Comparable(g)))
			}
			st, isSt := g.(*gotypes.Struct)
			wantAnon := isSt && st.NumFields() == 0
			if o.AnonStruct != wantAnon {
				u.fail("anonymous-struct-mismatch", fmt.Sprintf("%s: IsAnonymousStruct=%v", g, o.AnonStruct))
			}
		}
	}
	return u.fails
}

// which of the structural failures matter for a property other than C01
func filterSigs(fs []Failure, prop string) []Failure {
	var out []Failure
	for _, f := range fs {
		if prop == "C06" && (f.Sig == "unresolved-placeholder" || f.Sig == "missing-reference") {
			out = append(out, f)
		}
	}
	return out
}

func c06Excluded(g gotypes.Type) bool {
	if sig, ok := g.(*gotypes.Signature); ok && sig.Recv() != nil {
		return true
	}
	return mentionsGeneric(g, map[gotypes.Type]bool{})
}

func mentionsGeneric(g gotypes.Type, seen map[gotypes.Type]bool) bool {
	g = gotypes.Unalias(g)
	if seen[g] {
		return false
	}
	seen[g] = true
	switch x := g.(type) {
	case *gotypes.TypeParam:
		return true
	case *gotypes.Named:
		return x.TypeParams().Len() > 0 || x.TypeArgs().Len() > 0
	case *gotypes.Pointer:
		return mentionsGeneric(x.Elem(), seen)
	case *gotypes.Slice:
		return mentionsGeneric(x.Elem(), seen)
	case *gotypes.Array:
		return mentionsGeneric(x.Elem(), seen)
	case *gotypes.Chan:
		return mentionsGeneric(x.Elem(), seen)
	case *gotypes.Map:
		return mentionsGeneric(x.Key(), seen) || mentionsGeneric(x.Elem(), seen)
	case *gotypes.Struct:
		for i := 0; i < x.NumFields(); i++ {
			if mentionsGeneric(x.Field(i).Type(), seen) {
				return true
			}
		}
	case *gotypes.Signature:
		for i := 0; i < x.Params().Len(); i++ {
			if mentionsGeneric(x.Params().At(i).Type(), seen) {
				return true
			}
		}
		for i := 0; i < x.Results().Len(); i++ {
			if mentionsGeneric(x.Results().At(i).Type(), seen) {
				return true
			}
		}
	}
	return false
}

func isGenericInst(g gotypes.Type) bool {
	nt, ok := g.(*gotypes.Named)
	return ok && nt.TypeParams().Len() > 0
}

// signatures of methods print with their receiver: two method objects are distinct by construction
func namedOverSame(a, b gotypes.Type) bool { return false }

func anonStructUnexported(g gotypes.Type) bool {
	found := false
	var rec func(t gotypes.Type, depth int)
	rec = func(t gotypes.Type, depth int) {
		if depth > 6 {
			return
		}
		switch x := gotypes.Unalias(t).(type) {
		case *gotypes.Struct:
			for i := 0; i < x.NumFields(); i++ {
				if !x.Field(i).Exported() {
					found = true
				}
				rec(x.Field(i).Type(), depth+1)
			}
		case *gotypes.Pointer:
			rec(x.Elem(), depth+1)
		case *gotypes.Slice:
			rec(x.Elem(), depth+1)
		case *gotypes.Array:
			rec(x.Elem(), depth+1)
		case *gotypes.Map:
			rec(x.Key(), depth+1)
			rec(x.Elem(), depth+1)
		case *gotypes.Chan:
			rec(x.Elem(), depth+1)
		case *gotypes.Signature:
			for i := 0; i < x.Params().Len(); i++ {
				rec(x.Params().At(i).Type(), depth+1)
			}
			for i := 0; i < x.Results().Len(); i++ {
				rec(x.Results().At(i).Type(), depth+1)
			}
		}
	}
	rec(g, 0)
	return found
}

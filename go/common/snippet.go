package common

import (
	"bytes"
	"errors"
	"fmt"
	"io"
	"sort"
	"strings"
	"text/template"
)

// ---- C15 (snippet writer, Args) and the writer part of C13 (ErrorTracker) ---------------------

type SWAPI interface {
	Do(format string, args interface{})
	Err() error
	Append(data string) error         // v2 only
	Dup(w io.Writer) SWAPI            // v2 only
	Merge(data string, o SWAPI) error // v2 only
}

type ETAPI interface {
	io.Writer
	Error() error
}

type SnippetImpl struct {
	V2 bool
	// NewSW creates a SnippetWriter over w whose context has the named naming systems.
	NewSW func(w io.Writer, left, right string, namers []string) SWAPI
	// NamerFuncs returns, for the direct engine run, name -> func(type) string from fresh namers.
	NamerFuncs func(namers []string) template.FuncMap
	// Data returns the args value passed to Do (contains a type under "type").
	Data         func() interface{}
	NewET        func(w io.Writer) ETAPI
	ArgsWith     func(a map[interface{}]interface{}, k, v interface{}) map[interface{}]interface{}
	ArgsWithArgs func(a, b map[interface{}]interface{}) map[interface{}]interface{}
}

type injErr struct{ idx int }

func (e *injErr) Error() string { return fmt.Sprintf("injected write failure at call %d", e.idx) }

type faultyWriter struct {
	chunks []string
	calls  int
	fail   map[int]bool
}

func (w *faultyWriter) Write(p []byte) (int, error) {
	i := w.calls
	w.calls++
	if w.fail[i] {
		return 0, &injErr{i}
	}
	w.chunks = append(w.chunks, string(p))
	return len(p), nil
}

type recWriter struct{ chunks []string }

func (w *recWriter) Write(p []byte) (int, error) {
	w.chunks = append(w.chunks, string(p))
	return len(p), nil
}

// engineRun runs text/template directly (no SnippetWriter involved).
func engineRun(impl SnippetImpl, tmpl, left, right string, namers []string) (parseErr bool, chunks []string, execErr bool) {
	t, err := template.New("direct").Delims(left, right).Funcs(impl.NamerFuncs(namers)).Parse(tmpl)
	if err != nil {
		return true, nil, false
	}
	w := &recWriter{}
	err = t.Execute(w, impl.Data())
	return false, w.chunks, err != nil
}

func errClass(err error) string {
	if err == nil {
		return "-"
	}
	var ie *injErr
	if errors.As(err, &ie) {
		return fmt.Sprintf("write%d", ie.idx)
	}
	return "other"
}

func parseFails(s string) map[int]bool {
	m := map[int]bool{}
	if s == "-" {
		return m
	}
	for _, p := range strings.Split(s, ",") {
		m[Atoi(p)] = true
	}
	return m
}

func showArgsHeap(h []map[interface{}]interface{}) string {
	parts := make([]string, len(h))
	for i, m := range h {
		var kvs []string
		for k, v := range m {
			kvs = append(kvs, Hex(fmt.Sprint(k))+"="+Hex(fmt.Sprint(v)))
		}
		sort.Strings(kvs)
		parts[i] = strings.Join(kvs, ";")
	}
	return strings.Join(parts, "|")
}

func copyArgs(m map[interface{}]interface{}) map[interface{}]interface{} {
	c := map[interface{}]interface{}{}
	for k, v := range m {
		c[k] = v
	}
	return c
}

func sameArgs(a, b map[interface{}]interface{}) bool {
	if len(a) != len(b) {
		return false
	}
	for k, v := range a {
		if w, ok := b[k]; !ok || w != v {
			return false
		}
	}
	return true
}

func SnippetProperty(impl SnippetImpl) Property {
	exec := func(lines []string) ([]string, []Failure) {
		outs := make([]string, len(lines))
		var fails []Failure
		fail := func(sig, what string) { fails = append(fails, Failure{sig, what}) }
		var fw [2]*faultyWriter
		var et [2]ETAPI
		var sw [2]SWAPI
		var firstErr [2]string // class of the first error observed per snippet writer
		var left, right string
		var namers []string
		var heap []map[interface{}]interface{}
		sinkOf := func(i int) io.Writer {
			if et[i] != nil {
				return et[i]
			}
			return fw[i]
		}
		// classes: parse/exec are told apart using the direct engine when the error first appears
		classOf := map[string]string{}
		swErr := func(i int, parseFailed bool) string {
			if sw[i] == nil {
				return "x"
			}
			err := sw[i].Err()
			c := errClass(err)
			if c == "other" {
				if k, ok := classOf[err.Error()]; ok {
					return k
				}
				c = "exec"
				if parseFailed {
					c = "parse"
				}
				classOf[err.Error()] = c
			}
			return c
		}
		lastClass := [2]string{"-", "x"}
		dump := func(ret string) string {
			sink := func(i int) string { return fmt.Sprintf("%d:%s", fw[i].calls, HexList(fw[i].chunks)) }
			return fmt.Sprintf("r=%s s0=%s s1=%s A=%s B=%s", ret, lastClass[0], lastClass[1], sink(0), sink(1))
		}
		refresh := func(i int, parseFailed bool) {
			if sw[i] == nil {
				return
			}
			c := swErr(i, parseFailed)
			if firstErr[i] != "" && c != firstErr[i] {
				fail("first-error-not-reported", fmt.Sprintf("snippet writer %d first failed with %s but Error() now reports %s", i, firstErr[i], c))
			}
			if firstErr[i] == "" && c != "-" {
				firstErr[i] = c
			}
			lastClass[i] = c
		}
		for idx, l := range lines {
			f := Fields(l)
			func() {
				defer func() {
					if r := recover(); r != nil {
						outs[idx] = "panic"
						fail("panic", fmt.Sprintf("%s panics: %v", Readable(l), r))
					}
				}()
				switch f[1] {
				case "new":
					for i := 0; i < 2; i++ {
						fw[i] = &faultyWriter{fail: parseFails(f[2+i])}
						et[i] = nil
						if f[4+i] == "1" {
							et[i] = impl.NewET(fw[i])
						}
					}
					left, right, namers = Unhex(f[6]), Unhex(f[7]), UnhexList(f[8])
					sw[0] = impl.NewSW(sinkOf(0), left, right, namers)
					sw[1] = nil
					firstErr = [2]string{}
					lastClass = [2]string{"-", "x"}
					outs[idx] = dump("-")
				case "do", "append", "merge":
					i := Atoi(f[2])
					before := [2]int{fw[0].calls, fw[1].calls}
					beforeLog := [2]int{len(fw[0].chunks), len(fw[1].chunks)}
					hadErr := sw[i].Err() != nil
					etHadErr := et[i] != nil && et[i].Error() != nil
					ret := "-"
					parseFailed := false
					switch f[1] {
					case "do":
						tmpl := Unhex(f[3])
						pe, chunks, ee := engineRun(impl, tmpl, left, right, namers)
						parseFailed = pe
						// the engine facts embedded in the line must be what text/template does now
						emb := "P"
						if !pe {
							emb = "X\t" + HexList(chunks) + "\t" + B01(ee)
						}
						if strings.Join(f[4:], "\t") != emb {
							fail("engine-facts-stale", "the engine facts in the line differ from text/template's behaviour (harness)")
						}
						sw[i].Do(tmpl, impl.Data())
						// do_is_engine: no earlier error, nothing injected in range => exactly the engine's chunks
						if !hadErr && !etHadErr && !pe {
							got := fw[i].chunks[beforeLog[i]:]
							injected := false
							for c := before[i]; c < fw[i].calls; c++ {
								if fw[i].fail[c] {
									injected = true
								}
							}
							if !injected && strings.Join(got, "\x00") != strings.Join(chunks, "\x00") {
								fail("do-not-engine", fmt.Sprintf("Do(%q) wrote %q, text/template writes %q", tmpl, got, chunks))
							}
							if !injected && ee != (sw[i].Err() != nil) {
								fail("do-error-differs", fmt.Sprintf("Do(%q): engine error=%v, Error()=%v", tmpl, ee, sw[i].Err()))
							}
						}
						if pe && !hadErr && sw[i].Err() == nil {
							fail("parse-error-swallowed", fmt.Sprintf("Do(%q) does not parse but Error() is nil", tmpl))
						}
					case "append":
						ret = errClass(sw[i].Append(Unhex(f[3])))
					case "merge":
						j := Atoi(f[3])
						otherHad := sw[j].Err() != nil
						otherClass := lastClass[j]
						ret = errClass(sw[i].Merge(Unhex(f[4]), sw[j]))
						if !hadErr && otherHad {
							refresh(i, false)
							if lastClass[i] != otherClass {
								fail("merge-lost-error", fmt.Sprintf("merging a writer with error %s leaves Error()=%s", otherClass, lastClass[i]))
							}
						}
					}
					// sticky: an errored snippet writer writes nothing further
					if hadErr && (fw[i].calls != before[i] || len(fw[i].chunks) != beforeLog[i]) {
						fail("write-after-error", fmt.Sprintf("%s reached the writer although the snippet writer already had an error", f[1]))
					}
					// ErrorTracker: after its first failure the underlying writer is never called again
					if etHadErr && fw[i].calls != before[i] {
						fail("tracker-reaches-writer", "the underlying writer was called after the ErrorTracker recorded an error")
					}
					// a failed write is never swallowed
					for c := before[i]; c < fw[i].calls; c++ {
						if fw[i].fail[c] && sw[i].Err() == nil && ret == "-" {
							fail("write-error-swallowed", fmt.Sprintf("write call %d failed during %s but no error is reported", c, f[1]))
						}
						if fw[i].fail[c] && et[i] != nil && et[i].Error() == nil {
							fail("tracker-lost-error", fmt.Sprintf("write call %d failed but ErrorTracker.Error() is nil", c))
						}
					}
					refresh(i, parseFailed)
					outs[idx] = dump(ret)
				case "dup":
					sw[1] = sw[0].Dup(sinkOf(1))
					lastClass[1] = lastClass[0]
					firstErr[1] = firstErr[0]
					if (sw[1].Err() == nil) != (sw[0].Err() == nil) {
						fail("dup-lost-error", "Dup does not preserve the accumulated error")
					}
					outs[idx] = dump("-")
				case "argsnew":
					heap = nil
					outs[idx] = showArgsHeap(heap)
				case "argslit":
					ks, vs := UnhexList(f[2]), UnhexList(f[3])
					m := map[interface{}]interface{}{}
					for i := range ks {
						m[ks[i]] = vs[i]
					}
					heap = append(heap, m)
					outs[idx] = showArgsHeap(heap)
				case "with", "withargs":
					a := Atoi(f[2])
					snap := make([]map[interface{}]interface{}, len(heap))
					for i, m := range heap {
						snap[i] = copyArgs(m)
					}
					var res map[interface{}]interface{}
					if f[1] == "with" {
						k, v := Unhex(f[3]), Unhex(f[4])
						res = impl.ArgsWith(heap[a], k, v)
						if impl.V2 && res[k] != v {
							fail("args-winner", fmt.Sprintf("With(%q,%q) on %v gives %v", k, v, snap[a], res))
						}
					} else {
						b := Atoi(f[3])
						res = impl.ArgsWithArgs(heap[a], heap[b])
						if impl.V2 {
							for k, v := range snap[b] {
								if res[k] != v {
									fail("args-winner", fmt.Sprintf("WithArgs: key %v should come from the argument: %v", k, res))
								}
							}
						}
						for k := range res {
							_, in1 := snap[a][k]
							_, in2 := snap[b][k]
							if !in1 && !in2 {
								fail("args-content", fmt.Sprintf("WithArgs invented key %v", k))
							}
						}
						if len(res) < len(snap[a]) || len(res) < len(snap[b]) {
							fail("args-content", "WithArgs dropped keys")
						}
					}
					for i := range heap {
						if !sameArgs(heap[i], snap[i]) {
							fail("args-mutated", fmt.Sprintf("%s changed an existing map in place: %v -> %v", f[1], snap[i], heap[i]))
						}
					}
					heap = append(heap, res)
					outs[idx] = showArgsHeap(heap)
				default:
					outs[idx] = "bad-op"
				}
			}()
		}
		return outs, fails
	}
	return Property{Exec: exec, Gen: func(c *Ctx) { snippetGen(c, impl) }}
}

// templates with L/R standing for the delimiters
var swTemplates = []string{
	"hello", "", "L.sR", "a L.sR b L.nR c", "L.type|publicR", "type L.type|rawR is L.type|privateR",
	"Lrange .listR<L.R>LendR", "Lif .sRyesLelseRnoLendR", "L.type|public|printf \"%q\"R",
	// do not parse
	"L.type|nosuchR", "LifR", "L.s", "Lend R", "L.type|R",
	// fail at execution
	"before L.s.xR after", "a Lindex .list 10R", "Ltemplate \"nope\"R", "x L.s|publicR y", "L.n.yR",
}

var swDelims = [][2]string{{"$", "$"}, {"{{", "}}"}, {"@", "@"}, {"<<", ">>"}, {"$", "$"}}

func snippetGen(c *Ctx, impl SnippetImpl) {
	r := c.RNG("gen")
	allNamers := []string{"public", "private", "raw"}
	mkDo := func(i int, tmplRaw string, d [2]string, namers []string) string {
		tmpl := strings.ReplaceAll(strings.ReplaceAll(tmplRaw, "L", d[0]), "R", d[1])
		pe, chunks, ee := engineRun(impl, tmpl, d[0], d[1], namers)
		if pe {
			return Line("sw", "do", Itoa(i), Hex(tmpl), "P")
		}
		return Line("sw", "do", Itoa(i), Hex(tmpl), "X", HexList(chunks), B01(ee))
	}
	failsStr := func(fs []int) string {
		if len(fs) == 0 {
			return "-"
		}
		s := make([]string, len(fs))
		for i, f := range fs {
			s[i] = Itoa(f)
		}
		return strings.Join(s, ",")
	}
	n := c.Scale(8000, 160000)
	for it := 0; it < n; it++ {
		d := swDelims[r.Intn(len(swDelims))]
		var namers []string
		for _, nm := range allNamers {
			if r.Chance(3, 4) {
				namers = append(namers, nm)
			}
		}
		var fa, fb []int
		feats := []string{}
		if r.Chance(1, 2) {
			fa = append(fa, r.Intn(8))
			feats = append(feats, "fault-A")
		}
		if r.Chance(1, 4) {
			fb = append(fb, r.Intn(4))
			feats = append(feats, "fault-B")
		}
		lines := []string{Line("sw", "new", failsStr(fa), failsStr(fb), B01(r.Chance(1, 3)), B01(r.Chance(1, 3)), Hex(d[0]), Hex(d[1]), HexList(namers))}
		k := 1 + r.Intn(6)
		dupDone := false
		for j := 0; j < k; j++ {
			who := 0
			if dupDone && r.Bool() {
				who = 1
			}
			op := r.Intn(10)
			switch {
			case !impl.V2 || op < 5:
				lines = append(lines, mkDo(who, r.Pick(swTemplates), d, namers))
			case op < 7:
				lines = append(lines, Line("sw", "append", Itoa(who), Hex(r.Pick([]string{"", "raw text", "x"}))))
				feats = append(feats, "append")
			case op < 8 && !dupDone:
				lines = append(lines, Line("sw", "dup"))
				dupDone = true
				feats = append(feats, "dup")
			case dupDone:
				lines = append(lines, Line("sw", "merge", Itoa(who), Itoa(1-who), Hex(r.Pick([]string{"", "merged"}))))
				feats = append(feats, "merge")
			default:
				lines = append(lines, mkDo(who, r.Pick(swTemplates), d, namers))
			}
		}
		c.Case(lines, Meta{Nontrivial: k >= 2, Features: feats})
		if it%4 == 0 {
			// Args compositions
			variant := "v1"
			if impl.V2 {
				variant = "v2"
			}
			al := []string{Line("sw", "argsnew", variant)}
			keys := []string{"a", "b", "c", "type"}
			nmaps := 1 + r.Intn(2)
			for m := 0; m < nmaps; m++ {
				var ks, vs []string
				for _, key := range keys {
					if r.Bool() {
						ks = append(ks, key)
						vs = append(vs, r.Pick([]string{"1", "2", "x"}))
					}
				}
				al = append(al, Line("sw", "argslit", HexList(ks), HexList(vs)))
			}
			size := nmaps
			for j := r.Intn(4) + 1; j > 0; j-- {
				if r.Bool() {
					al = append(al, Line("sw", "with", Itoa(r.Intn(size)), Hex(r.Pick(keys)), Hex(r.Pick([]string{"9", "new"}))))
				} else {
					al = append(al, Line("sw", "withargs", Itoa(r.Intn(size)), Itoa(r.Intn(size))))
				}
				size++
			}
			c.Case(al, Meta{Nontrivial: true, Features: []string{"args"}})
		}
	}
}

var _ = bytes.NewReader

package common

import (
	"bytes"
	"errors"
	"fmt"
	"io"
	"sort"
	"strings"
	"text/template"
)

// ---- C15 (snippet writer, Args) and the writer part of C13 (ErrorTracker) ---------------------

type SWAPI interface {
	Do(format string, args interface{})
	Err() error
	Append(data string) error         // v2 only
	Dup(w io.Writer) SWAPI            // v2 only
	Merge(data string, o SWAPI) error // v2 only
	// Renew changes the naming systems of the SAME context in place and returns a new writer on it.
	Renew(w io.Writer, left, right string, namers []string) SWAPI
}

type ETAPI interface {
	io.Writer
	Error() error
}

type SnippetImpl struct {
	V2 bool
	// NewSW creates a SnippetWriter over w whose context has the named naming systems.
	NewSW func(w io.Writer, left, right string, namers []string) SWAPI
	// NamerFuncs returns, for the direct engine run, name -> func(type) string from fresh namers.
	NamerFuncs func(namers []string) template.FuncMap
	// Data returns the args value passed to Do (contains a type under "type").
	Data         func() interface{}
	NewET        func(w io.Writer) ETAPI
	ArgsWith     func(a map[interface{}]interface{}, k, v interface{}) map[interface{}]interface{}
	ArgsWithArgs func(a, b map[interface{}]interface{}) map[interface{}]interface{}
	// ExecuteBody runs the real executeBody (verif hook) over w for a generator with k types whose hooks
	// write one chunk each (ignoring write results) and whose hook `failAt` ("", "init", "type<j>", "fin")
	// returns an error.
	ExecuteBody func(w io.Writer, k int, failAt string) error
}

// BodyHookErr is the text of the error a failing hook returns in ExecuteBody.
const BodyHookErr = "injected-hook-failure"

// BodyChunks lists the chunks the hooks of ExecuteBody write, in order.
func BodyChunks(k int, failAt string) (chunks []string, hookFails bool) {
	chunks = append(chunks, "init;")
	if failAt == "init" {
		return chunks, true
	}
	for j := 1; j <= k; j++ {
		chunks = append(chunks, fmt.Sprintf("type%d;", j))
		if failAt == fmt.Sprintf("type%d", j) {
			return chunks, true
		}
	}
	chunks = append(chunks, "fin;")
	return chunks, failAt == "fin"
}

type injErr struct{ idx int }

func (e *injErr) Error() string { return fmt.Sprintf("injected write failure at call %d", e.idx) }

type faultyWriter struct {
	chunks []string
	calls  int
	fail   map[int]bool
}

func (w *faultyWriter) Write(p []byte) (int, error) {
	i := w.calls
	w.calls++
	if w.fail[i] {
		return 0, &injErr{i}
	}
	w.chunks = append(w.chunks, string(p))
	return len(p), nil
}

// io.WriteString prefers this method: it must behave like Write
func (w *faultyWriter) WriteString(s string) (int, error) { return w.Write([]byte(s)) }

type recWriter struct{ chunks []string }

func (w *recWriter) Write(p []byte) (int, error) {
	w.chunks = append(w.chunks, string(p))
	return len(p), nil
}

// engineRun runs text/template directly (no SnippetWriter involved).
func engineRun(impl SnippetImpl, tmpl, left, right string, namers []string) (parseErr bool, chunks []string, execErr bool) {
	t, err := template.New("direct").Delims(left, right).Funcs(impl.NamerFuncs(namers)).Parse(tmpl)
	if err != nil {
		return true, nil, false
	}
	w := &recWriter{}
	err = t.Execute(w, impl.Data())
	return false, w.chunks, err != nil
}

func errClass(err error) string {
	if err == nil {
		return "-"
	}
	var ie *injErr
	if errors.As(err, &ie) {
		return fmt.Sprintf("write%d", ie.idx)
	}
	return "other"
}

func parseFails(s string) map[int]bool {
	m := map[int]bool{}
	if s == "-" {
		return m
	}
	for _, p := range strings.Split(s, ",") {
		m[Atoi(p)] = true
	}
	return m
}

func showArgsHeap(h []map[interface{}]interface{}) string {
	parts := make([]string, len(h))
	for i, m := range h {
		var kvs []string
		for k, v := range m {
			kvs = append(kvs, Hex(fmt.Sprint(k))+"="+Hex(fmt.Sprint(v)))
		}
		sort.Strings(kvs)
		parts[i] = strings.Join(kvs, ";")
	}
	return strings.Join(parts, "|")
}

func copyArgs(m map[interface{}]interface{}) map[interface{}]interface{} {
	c := map[interface{}]interface{}{}
	for k, v := range m {
		c[k] = v
	}
	return c
}

func sameArgs(a, b map[interface{}]interface{}) bool {
	if len(a) != len(b) {
		return false
	}
	for k, v := range a {
		if w, ok := b[k]; !ok || w != v {
			return false
		}
	}
	return true
}

func SnippetProperty(impl SnippetImpl) Property {
	exec := func(lines []string) ([]string, []Failure) {
		outs := make([]string, len(lines))
		var fails []Failure
		fail := func(sig, what string) { fails = append(fails, Failure{sig, what}) }
		var fw [2]*faultyWriter
		var et [2]ETAPI
		var sw [2]SWAPI
		var firstErr [2]string // class of the first error observed per snippet writer
		var left, right string
		var namers []string
		var heap []map[interface{}]interface{}
		sinkOf := func(i int) io.Writer {
			if et[i] != nil {
				return et[i]
			}
			return fw[i]
		}
		// classes: parse/exec are told apart using the direct engine when the error first appears
		classOf := map[string]string{}
		swErr := func(i int, parseFailed bool) string {
			if sw[i] == nil {
				return "x"
			}
			err := sw[i].Err()
			c := errClass(err)
			if c == "other" {
				if k, ok := classOf[err.Error()]; ok {
					return k
				}
				c = "exec"
				if parseFailed {
					c = "parse"
				}
				classOf[err.Error()] = c
			}
			return c
		}
		lastClass := [2]string{"-", "x"}
		dump := func(ret string) string {
			sink := func(i int) string { return fmt.Sprintf("%d:%s", fw[i].calls, HexList(fw[i].chunks)) }
			return fmt.Sprintf("r=%s s0=%s s1=%s A=%s B=%s", ret, lastClass[0], lastClass[1], sink(0), sink(1))
		}
		refresh := func(i int, parseFailed bool) {
			if sw[i] == nil {
				return
			}
			c := swErr(i, parseFailed)
			if firstErr[i] != "" && c != firstErr[i] {
				fail("first-error-not-reported", fmt.Sprintf("snippet writer %d first failed with %s but Error() now reports %s", i, firstErr[i], c))
			}
			if firstErr[i] == "" && c != "-" {
				firstErr[i] = c
			}
			lastClass[i] = c
		}
		for idx, l := range lines {
			f := Fields(l)
			func() {
				defer func() {
					if r := recover(); r != nil {
						outs[idx] = "panic"
						fail("panic", fmt.Sprintf("%s panics: %v", Readable(l), r))
					}
				}()
				switch f[1] {
				case "new":
					for i := 0; i < 2; i++ {
						fw[i] = &faultyWriter{fail: parseFails(f[2+i])}
						et[i] = nil
						if f[4+i] == "1" {
							et[i] = impl.NewET(fw[i])
						}
					}
					left, right, namers = Unhex(f[6]), Unhex(f[7]), UnhexList(f[8])
					sw[0] = impl.NewSW(sinkOf(0), left, right, namers)
					sw[1] = nil
					firstErr = [2]string{}
					lastClass = [2]string{"-", "x"}
					outs[idx] = dump("-")
				case "do", "append", "merge":
					i := Atoi(f[2])
					before := [2]int{fw[0].calls, fw[1].calls}
					beforeLog := [2]int{len(fw[0].chunks), len(fw[1].chunks)}
					hadErr := sw[i].Err() != nil
					etHadErr := et[i] != nil && et[i].Error() != nil
					ret := "-"
					parseFailed := false
					switch f[1] {
					case "do":
						tmpl := Unhex(f[3])
						pe, chunks, ee := engineRun(impl, tmpl, left, right, namers)
						parseFailed = pe
						// the engine facts embedded in the line must be what text/template does now
						emb := "P"
						if !pe {
							emb = "X\t" + HexList(chunks) + "\t" + B01(ee)
						}
						if strings.Join(f[4:], "\t") != emb {
							fail("engine-facts-stale", "the engine facts in the line differ from text/template's behaviour (harness)")
						}
						sw[i].Do(tmpl, impl.Data())
						// do_is_engine: no earlier error, nothing injected in range => exactly the engine's chunks
						if !hadErr && !etHadErr && !pe {
							got := fw[i].chunks[beforeLog[i]:]
							injected := false
							for c := before[i]; c < fw[i].calls; c++ {
								if fw[i].fail[c] {
									injected = true
								}
							}
							if !injected && strings.Join(got, "\x00") != strings.Join(chunks, "\x00") {
								fail("do-not-engine", fmt.Sprintf("Do(%q) wrote %q, text/template writes %q", tmpl, got, chunks))
							}
							if !injected && ee != (sw[i].Err() != nil) {
								fail("do-error-differs", fmt.Sprintf("Do(%q): engine error=%v, Error()=%v", tmpl, ee, sw[i].Err()))
							}
						}
						if pe && !hadErr && sw[i].Err() == nil {
							fail("parse-error-swallowed", fmt.Sprintf("Do(%q) does not parse but Error() is nil", tmpl))
						}
					case "append":
						ret = errClass(sw[i].Append(Unhex(f[3])))
					case "merge":
						j := Atoi(f[3])
						otherHad := sw[j].Err() != nil
						otherClass := lastClass[j]
						ret = errClass(sw[i].Merge(Unhex(f[4]), sw[j]))
						if !hadErr && otherHad {
							refresh(i, false)
							if lastClass[i] != otherClass {
								fail("merge-lost-error", fmt.Sprintf("merging a writer with error %s leaves Error()=%s", otherClass, lastClass[i]))
							}
						}
					}
					// sticky: an errored snippet writer writes nothing further
					if hadErr && (fw[i].calls != before[i] || len(fw[i].chunks) != beforeLog[i]) {
						fail("write-after-error", fmt.Sprintf("%s reached the writer although the snippet writer already had an error", f[1]))
					}
					// ErrorTracker: after its first failure the underlying writer is never called again
					if etHadErr && fw[i].calls != before[i] {
						fail("tracker-reaches-writer", "the underlying writer was called after the ErrorTracker recorded an error")
					}
					// a failed write is never swallowed
					for c := before[i]; c < fw[i].calls; c++ {
						if fw[i].fail[c] && sw[i].Err() == nil && ret == "-" {
							fail("write-error-swallowed", fmt.Sprintf("write call %d failed during %s but no error is reported", c, f[1]))
						}
						if fw[i].fail[c] && et[i] != nil && et[i].Error() == nil {
							fail("tracker-lost-error", fmt.Sprintf("write call %d failed but ErrorTracker.Error() is nil", c))
						}
					}
					refresh(i, parseFailed)
					outs[idx] = dump(ret)
				case "etwrite":
					i := Atoi(f[2])
					before := fw[i].calls
					hadErr := et[i].Error() != nil
					var err error
					var nw int
					if f[3] == "s" {
						nw, err = io.WriteString(et[i], Unhex(f[4]))
					} else {
						nw, err = et[i].Write([]byte(Unhex(f[4])))
					}
					if hadErr && nw != 0 {
						fail("tracker-count-after-error", fmt.Sprintf("a write refused because of the earlier error claims to have written %d bytes; nothing reached the writer", nw))
					}
					if hadErr && fw[i].calls != before {
						fail("tracker-reaches-writer", "the underlying writer was called after the ErrorTracker recorded an error")
					}
					for c := before; c < fw[i].calls; c++ {
						if fw[i].fail[c] && (et[i].Error() == nil || err == nil) {
							fail("tracker-lost-error", fmt.Sprintf("write call %d failed (mode %s) but the ErrorTracker did not record/return it", c, f[3]))
						}
					}
					if hadErr && err == nil {
						fail("tracker-not-sticky", "a write after the first failure succeeded")
					}
					outs[idx] = dump(errClass(err))
				case "renew":
					namers = UnhexList(f[2])
					sw[0] = sw[0].Renew(sinkOf(0), left, right, namers)
					firstErr[0] = ""
					lastClass[0] = "-"
					outs[idx] = dump("-")
				case "body":
					i := Atoi(f[2])
					k, failAt := Atoi(f[5]), Unhex(f[6])
					chunks, hf := BodyChunks(k, failAt)
					if HexList(chunks) != f[3] || B01(hf) != f[4] {
						fail("engine-facts-stale", "body chunks in the line are stale (harness)")
					}
					before := fw[i].calls
					etHad := et[i] != nil && et[i].Error() != nil
					err := impl.ExecuteBody(sinkOf(i), k, failAt)
					cls := errClass(err)
					if cls == "other" {
						cls = "exec"
					}
					injected := -1
					for c := before; c < fw[i].calls; c++ {
						if fw[i].fail[c] && injected < 0 {
							injected = c
						}
					}
					if hf && (err == nil || !strings.Contains(err.Error(), BodyHookErr)) {
						fail("hook-error-swallowed", fmt.Sprintf("hook %s failed but executeBody returned %v", failAt, err))
					}
					if !hf && (injected >= 0 || etHad) && err == nil {
						fail("body-write-error-swallowed", fmt.Sprintf("a write through the tracker failed (call %d) but executeBody returned nil", injected))
					}
					if injected >= 0 && fw[i].calls != injected+1 {
						fail("tracker-reaches-writer", "the underlying writer was called after the first failed write")
					}
					outs[idx] = dump(cls)
				case "dup":
					sw[1] = sw[0].Dup(sinkOf(1))
					lastClass[1] = lastClass[0]
					firstErr[1] = firstErr[0]
					if (sw[1].Err() == nil) != (sw[0].Err() == nil) {
						fail("dup-lost-error", "Dup does not preserve the accumulated error")
					}
					outs[idx] = dump("-")
				case "argsnew":
					heap = nil
					outs[idx] = showArgsHeap(heap)
				case "argslit":
					ks, vs := UnhexList(f[2]), UnhexList(f[3])
					m := map[interface{}]interface{}{}
					for i := range ks {
						m[ks[i]] = vs[i]
					}
					heap = append(heap, m)
					outs[idx] = showArgsHeap(heap)
				case "with", "withargs":
					a := Atoi(f[2])
					snap := make([]map[interface{}]interface{}, len(heap))
					for i, m := range heap {
						snap[i] = copyArgs(m)
					}
					var res map[interface{}]interface{}
					if f[1] == "with" {
						k, v := Unhex(f[3]), Unhex(f[4])
						res = impl.ArgsWith(heap[a], k, v)
						if impl.V2 && res[k] != v {
							fail("args-winner", fmt.Sprintf("With(%q,%q) on %v gives %v", k, v, snap[a], res))
						}
					} else {
						b := Atoi(f[3])
						res = impl.ArgsWithArgs(heap[a], heap[b])
						if impl.V2 {
							for k, v := range snap[b] {
								if res[k] != v {
									fail("args-winner", fmt.Sprintf("WithArgs: key %v should come from the argument: %v", k, res))
								}
							}
						}
						for k := range res {
							_, in1 := snap[a][k]
							_, in2 := snap[b][k]
							if !in1 && !in2 {
								fail("args-content", fmt.Sprintf("WithArgs invented key %v", k))
							}
						}
						if len(res) < len(snap[a]) || len(res) < len(snap[b]) {
							fail("args-content", "WithArgs dropped keys")
						}
					}
					for i := range heap {
						if !sameArgs(heap[i], snap[i]) {
							fail("args-mutated", fmt.Sprintf("%s changed an existing map in place: %v -> %v", f[1], snap[i], heap[i]))
						}
					}
					// "extended by copy": the result shares no storage with an existing map, also when an operand is empty
					if res != nil {
						const probe = "\x00probe"
						res[probe] = 1
						for i := range heap {
							if _, shared := heap[i][probe]; shared {
								fail("args-aliased", fmt.Sprintf("%s returned map %d itself instead of a copy: a later store into the result changes it", f[1], i))
							}
						}
						delete(res, probe)
					}
					heap = append(heap, res)
					outs[idx] = showArgsHeap(heap)
				default:
					outs[idx] = "bad-op"
				}
			}()
		}
		return outs, fails
	}
	return Property{Exec: exec, Gen: func(c *Ctx) { snippetGen(c, impl) }}
}

// templates with L/R standing for the delimiters
var swTemplates = []string{
	"hello", "", "L.sR", "a L.sR b L.nR c", "L.type|publicR", "type L.type|rawR is L.type|privateR",
	"Lrange .listR<L.R>LendR", "Lif .sRyesLelseRnoLendR", "L.type|public|printf \"%q\"R",
	// do not parse
	"L.type|nosuchR", "LifR", "L.s", "Lend R", "L.type|R",
	// fail at execution
	"before L.s.xR after", "a Lindex .list 10R", "Ltemplate \"nope\"R", "x L.s|publicR y", "L.n.yR",
}

var swDelims = [][2]string{{"$", "$"}, {"{{", "}}"}, {"@", "@"}, {"<<", ">>"}, {"$", "$"}}

func snippetGen(c *Ctx, impl SnippetImpl) {
	r := c.RNG("gen")
	allNamers := []string{"public", "private", "raw"}
	mkDo := func(i int, tmplRaw string, d [2]string, namers []string) string {
		tmpl := strings.ReplaceAll(strings.ReplaceAll(tmplRaw, "L", d[0]), "R", d[1])
		pe, chunks, ee := engineRun(impl, tmpl, d[0], d[1], namers)
		if pe {
			return Line("sw", "do", Itoa(i), Hex(tmpl), "P")
		}
		return Line("sw", "do", Itoa(i), Hex(tmpl), "X", HexList(chunks), B01(ee))
	}
	failsStr := func(fs []int) string {
		if len(fs) == 0 {
			return "-"
		}
		s := make([]string, len(fs))
		for i, f := range fs {
			s[i] = Itoa(f)
		}
		return strings.Join(s, ",")
	}
	n := c.Scale(8000, 160000)
	for it := 0; it < n; it++ {
		d := swDelims[r.Intn(len(swDelims))]
		var namers []string
		for _, nm := range allNamers {
			if r.Chance(3, 4) {
				namers = append(namers, nm)
			}
		}
		var fa, fb []int
		feats := []string{}
		if r.Chance(1, 2) {
			fa = append(fa, r.Intn(8))
			feats = append(feats, "fault-A")
		}
		if r.Chance(1, 4) {
			fb = append(fb, r.Intn(4))
			feats = append(feats, "fault-B")
		}
		lines := []string{Line("sw", "new", failsStr(fa), failsStr(fb), B01(r.Chance(1, 3)), B01(r.Chance(1, 3)), Hex(d[0]), Hex(d[1]), HexList(namers))}
		k := 1 + r.Intn(6)
		dupDone := false
		for j := 0; j < k; j++ {
			who := 0
			if dupDone && r.Bool() {
				who = 1
			}
			op := r.Intn(10)
			switch {
			case !impl.V2 || op < 5:
				lines = append(lines, mkDo(who, r.Pick(swTemplates), d, namers))
			case op < 7:
				lines = append(lines, Line("sw", "append", Itoa(who), Hex(r.Pick([]string{"", "raw text", "x"}))))
				feats = append(feats, "append")
			case op < 8 && !dupDone:
				lines = append(lines, Line("sw", "dup"))
				dupDone = true
				feats = append(feats, "dup")
			case dupDone:
				lines = append(lines, Line("sw", "merge", Itoa(who), Itoa(1-who), Hex(r.Pick([]string{"", "merged"}))))
				feats = append(feats, "merge")
			default:
				lines = append(lines, mkDo(who, r.Pick(swTemplates), d, namers))
			}
		}
		c.Case(lines, Meta{Nontrivial: k >= 2, Features: feats})
		if it%3 == 0 {
			// the context's naming systems change between writers (same context object)
			var ns2 []string
			for _, nm := range allNamers {
				if r.Chance(1, 2) {
					ns2 = append(ns2, nm)
				}
			}
			l2 := []string{Line("sw", "new", "-", "-", "0", "0", Hex(d[0]), Hex(d[1]), HexList(namers)),
				mkDo(0, r.Pick(swTemplates[:9]), d, namers), Line("sw", "renew", HexList(ns2))}
			for j := 0; j < 2; j++ {
				l2 = append(l2, mkDo(0, r.Pick(swTemplates[4:11]), d, ns2))
			}
			c.Case(l2, Meta{Nontrivial: true, Features: []string{"renew-context-namers"}})
		}
		if it%3 == 1 {
			trackerCases(c, r, failsStr)
		}
		if it%4 == 0 {
			// Args compositions
			variant := "v1"
			if impl.V2 {
				variant = "v2"
			}
			al := []string{Line("sw", "argsnew", variant)}
			keys := []string{"a", "b", "c", "type"}
			nmaps := 1 + r.Intn(2)
			for m := 0; m < nmaps; m++ {
				var ks, vs []string
				for _, key := range keys {
					if r.Bool() && (m == 0 || it%3 != 0) { // every third case: the second map is empty
						ks = append(ks, key)
						vs = append(vs, r.Pick([]string{"1", "2", "x"}))
					}
				}
				al = append(al, Line("sw", "argslit", HexList(ks), HexList(vs)))
			}
			size := nmaps
			for j := r.Intn(4) + 1; j > 0; j-- {
				if r.Bool() {
					al = append(al, Line("sw", "with", Itoa(r.Intn(size)), Hex(r.Pick(keys)), Hex(r.Pick([]string{"9", "new"}))))
				} else {
					al = append(al, Line("sw", "withargs", Itoa(r.Intn(size)), Itoa(r.Intn(size))))
				}
				size++
			}
			c.Case(al, Meta{Nontrivial: true, Features: []string{"args"}})
		}
	}
}

// trackerCases: straight ErrorTracker writes (Write and io.WriteString) and executeBody over a failing writer
func trackerCases(c *Ctx, r *RNG, failsStr func([]int) string) {
	// straight ErrorTracker writes (Write and io.WriteString) and executeBody over a failing writer
	fail := []int{r.Intn(5)}
	l3 := []string{Line("sw", "new", failsStr(fail), "-", "1", "0", Hex("$"), Hex("$"), "-")}
	for j := r.Intn(4); j > 0; j-- {
		l3 = append(l3, Line("sw", "etwrite", "0", r.Pick([]string{"w", "s"}), Hex(r.Pick([]string{"x", "data", ""}))))
	}
	c.Case(l3, Meta{Nontrivial: true, Features: []string{"tracker-direct"}})
	kk := r.Intn(4)
	failAt := r.Pick([]string{"", "", "init", "fin", "type1", "type2"})
	chunks, hf := BodyChunks(kk, failAt)
	var ff []int
	if r.Chance(2, 3) {
		ff = []int{r.Intn(kk + 2)}
	}
	l4 := []string{Line("sw", "new", failsStr(ff), "-", B01(r.Chance(1, 4)), "0", Hex("$"), Hex("$"), "-"),
		Line("sw", "body", "0", HexList(chunks), B01(hf), Itoa(kk), Hex(failAt))}
	c.Case(l4, Meta{Nontrivial: true, Features: []string{"executeBody-over-failing-writer"}})
}

// ErrTrackerProperty is the ErrorTracker/executeBody part of the "sw" component on its own (used by C13).
func ErrTrackerProperty(impl SnippetImpl) Property {
	p := SnippetProperty(impl)
	p.Gen = func(c *Ctx) {
		r := c.RNG("tracker")
		failsStr := func(fs []int) string {
			if len(fs) == 0 {
				return "-"
			}
			s := make([]string, len(fs))
			for i, f := range fs {
				s[i] = Itoa(f)
			}
			return strings.Join(s, ",")
		}
		n := c.Scale(4000, 80000)
		for i := 0; i < n; i++ {
			trackerCases(c, r, failsStr)
		}
	}
	return p
}

// Combine merges properties that serve different protocol components into one: cases are generated
// by each in turn and executed by the one whose component (first protocol field) matches.
func Combine(parts map[string]Property) Property {
	return Property{
		Gen: func(c *Ctx) {
			for _, k := range SortedKeys(parts) {
				parts[k].Gen(c)
			}
		},
		Exec: func(lines []string) ([]string, []Failure) {
			return parts[Fields(lines[0])[0]].Exec(lines)
		},
	}
}

var _ = bytes.NewReader

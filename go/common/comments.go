package common

// C05: doc comments reach exactly the declaration they document.
//
// A layout generator writes gofmt-stable packages in which every comment block is placed on purpose (as the
// doc block of a declaration, as the block one blank line above it, as a trailing comment, inside a function
// body, as a file header ...) and remembers, per declaration, which block it meant as documentation. The
// real loaders are run on the package; what they deliver is compared
//   - with the Lean model (Model/Comments.lean), which is driven by facts taken from go/parser (the comment
//     groups with first/last line and text) and from the source text (is there code before the comment), and
//   - with the generator's intent (the oracle; independent of model and implementation).

import (
	"fmt"
	"go/ast"
	"go/format"
	"go/parser"
	"go/scanner"
	"go/token"
	"sort"
	"strings"
)

type CmImpl struct {
	V2 bool
	// Load loads the one-package program with the real loader and returns the universe snapshot.
	Load func(prog *Program) (*USnap, error)
	// LoadLater: the package is first seen as a dependency of package `first` and requested in a later, incremental load
	LoadLater func(prog *Program, first, then string) (*USnap, error)
	// LoadAll: all packages of prog are requested in one load
	LoadAll func(prog *Program) (*USnap, error)
}

const cmPkgPath = "example.com/m/p"

type cmIntent struct {
	Key       string
	Doc       []string
	Second    []string
	HasSecond bool
}

type cmDecl struct {
	Key  string
	Line int
	Both bool // has a second-closest comment (types, functions, variables, constants)
}

func cmSplit(s string) []string { return strings.Split(strings.TrimRight(s, "\n"), "\n") }

// ---- facts from go/parser and the source text ----

type cmFile struct {
	Name   string
	Groups string // start:end:trailing:hexlist;…
	Code   string // the lines that hold a token other than a comment (go/scanner), comma separated
	Both   []cmDecl
	Docs   []cmDecl
	Header []string // file.Doc lines
	All    []string // every comment group's lines, in order
}

func cmFacts(name, src string) (*cmFile, error) {
	fset := token.NewFileSet()
	f, err := parser.ParseFile(fset, name, src, parser.ParseComments)
	if err != nil {
		return nil, err
	}
	out := &cmFile{Name: name}
	var gs []string
	for _, g := range f.Comments {
		start, end := fset.Position(g.Pos()), fset.Position(g.End())
		trailing := false
		for i := start.Offset - 1; i >= 0 && src[i] != '\n'; i-- {
			if src[i] != ' ' && src[i] != '\t' {
				trailing = true
			}
		}
		gs = append(gs, fmt.Sprintf("%d:%d:%s:%s", start.Line, end.Line, B01(trailing), HexList(cmSplit(g.Text()))))
		out.All = append(out.All, cmSplit(g.Text())...)
	}
	// lines with code: from the token stream, not from the syntax tree
	var sc scanner.Scanner
	sfset := token.NewFileSet()
	sc.Init(sfset.AddFile(name, -1, len(src)), []byte(src), nil, scanner.ScanComments)
	seen := map[int]bool{}
	var code []string
	for {
		pos, tok, lit := sc.Scan()
		if tok == token.EOF {
			break
		}
		if tok == token.COMMENT || (tok == token.SEMICOLON && lit == "\n") {
			continue
		}
		first, last := sfset.Position(pos).Line, sfset.Position(pos).Line+strings.Count(lit, "\n")
		for l := first; l <= last; l++ {
			if !seen[l] {
				seen[l] = true
				code = append(code, fmt.Sprint(l))
			}
		}
	}
	out.Code = "-"
	if len(code) > 0 {
		out.Code = strings.Join(code, ",")
	}
	out.Groups = "-"
	if len(gs) > 0 {
		out.Groups = strings.Join(gs, ";")
	}
	if f.Doc != nil {
		out.Header = cmSplit(f.Doc.Text())
	}
	line := func(p token.Pos) int { return fset.Position(p).Line }
	for _, d := range f.Decls {
		switch d := d.(type) {
		case *ast.FuncDecl:
			if d.Recv == nil {
				out.Both = append(out.Both, cmDecl{"func " + d.Name.Name, line(d.Name.Pos()), true})
			} else {
				t := d.Recv.List[0].Type
				if st, ok := t.(*ast.StarExpr); ok {
					t = st.X
				}
				out.Docs = append(out.Docs, cmDecl{"method " + t.(*ast.Ident).Name + "." + d.Name.Name, line(d.Name.Pos()), false})
			}
		case *ast.GenDecl:
			for _, s := range d.Specs {
				switch s := s.(type) {
				case *ast.TypeSpec:
					out.Both = append(out.Both, cmDecl{"type " + s.Name.Name, line(s.Name.Pos()), true})
					switch t := s.Type.(type) {
					case *ast.StructType:
						for _, fl := range t.Fields.List {
							if len(fl.Names) == 0 {
								e := fl.Type
								if st, ok := e.(*ast.StarExpr); ok {
									e = st.X
								}
								out.Docs = append(out.Docs, cmDecl{"field " + s.Name.Name + "." + e.(*ast.Ident).Name, line(e.Pos()), false})
							}
							for _, n := range fl.Names {
								out.Docs = append(out.Docs, cmDecl{"field " + s.Name.Name + "." + n.Name, line(n.Pos()), false})
							}
						}
					case *ast.InterfaceType:
						for _, fl := range t.Methods.List {
							for _, n := range fl.Names {
								out.Docs = append(out.Docs, cmDecl{"imethod " + s.Name.Name + "." + n.Name, line(n.Pos()), false})
							}
						}
					}
				case *ast.ValueSpec:
					kind := "var "
					if d.Tok == token.CONST {
						kind = "const "
					}
					for _, n := range s.Names {
						out.Both = append(out.Both, cmDecl{kind + n.Name, line(n.Pos()), true})
					}
				}
			}
		}
	}
	return out, nil
}

func cmLines(ds []cmDecl) string {
	if len(ds) == 0 {
		return "-"
	}
	s := make([]string, len(ds))
	for i, d := range ds {
		s[i] = fmt.Sprint(d.Line)
	}
	return strings.Join(s, ",")
}

// what the real universe delivered for a declaration
func cmDelivered(pk *UPkg, key string) (doc, second []string, ok bool) {
	kind, name, _ := strings.Cut(key, " ")
	var o *UObj
	switch kind {
	case "type":
		o = pk.Types[name]
	case "func":
		o = pk.Funcs[name]
	case "var":
		o = pk.Vars[name]
	case "const":
		o = pk.Consts[name]
	case "field":
		tn, fn, _ := strings.Cut(name, ".")
		t := pk.Types[tn]
		if t == nil {
			return nil, nil, false
		}
		for _, m := range t.Members {
			if m.Name == fn {
				return m.CommentLines, nil, true
			}
		}
		return nil, nil, false
	case "method", "imethod":
		tn, mn, _ := strings.Cut(name, ".")
		t := pk.Types[tn]
		if t == nil || t.Methods[mn] == nil {
			return nil, nil, false
		}
		return t.Methods[mn].CommentLines, nil, true
	}
	if o == nil {
		return nil, nil, false
	}
	return o.CommentLines, o.SecondClosest, true
}

// ---- the layout generator ----

type cmGen struct {
	r       *RNG
	n       int
	intents []cmIntent
	words   int
	types   []string // declared non-interface type names (method receivers)
	feats   map[string]bool
}

var cmWords = []string{"alpha", "beta", "gamma", "delta", "+k8s:deepcopy-gen=true", "+genclient", "+tag=value", "TODO(x): later", "omega"}

// block returns the source lines of a comment block and the lines it should be delivered as
func (g *cmGen) block(ind string, allowMulti bool) (src []string, text []string) {
	r := g.r
	g.words++
	id := fmt.Sprintf("c%d", g.words)
	var list []*ast.Comment
	switch k := r.Intn(8); {
	case k == 0:
		src = []string{ind + "/* " + id + " " + r.Pick(cmWords) + " */"}
		list = []*ast.Comment{{Text: strings.TrimSpace(src[0])}}
		g.feats["block-comment"] = true
	case k == 1 && allowMulti:
		body := "/*\n" + id + "\n" + r.Pick(cmWords) + "\n*/"
		src = strings.Split(body, "\n")
		list = []*ast.Comment{{Text: body}}
		g.feats["multi-line-block-comment"] = true
	default:
		n := 1 + r.Intn(3)
		for i := 0; i < n; i++ {
			l := "// " + id + " " + r.Pick(cmWords)
			if i > 0 && i < n-1 && r.Chance(1, 4) {
				l = "//"
			}
			src = append(src, ind+l)
			list = append(list, &ast.Comment{Text: l})
		}
	}
	return src, cmSplit((&ast.CommentGroup{List: list}).Text())
}

// item writes [pre block, blank line]? [doc block]? decl-lines [trailing]? and records the intent for keys
func (g *cmGen) item(b *[]string, ind string, decl []string, keys []string, both bool, allowMulti bool) {
	r := g.r
	none := []string{""}
	doc, second := none, none
	if r.Chance(1, 3) {
		src, text := g.block(ind, allowMulti)
		*b = append(*b, src...)
		*b = append(*b, "")
		second = text
		g.feats["detached-block"] = true
	}
	if r.Chance(1, 2) {
		src, text := g.block(ind, allowMulti)
		*b = append(*b, src...)
		doc = text
		g.feats["doc-block"] = true
	} else {
		g.feats["undocumented"] = true
	}
	lines := append([]string(nil), decl...)
	if r.Chance(1, 3) {
		g.words++
		lines[len(lines)-1] += fmt.Sprintf(" // t%d trailing", g.words)
		g.feats["trailing"] = true
		if len(decl) > 1 {
			g.feats["trailing-after-closing-brace"] = true
		}
	} else if len(lines) > 1 && r.Chance(1, 4) {
		g.words++
		lines[0] += fmt.Sprintf(" // t%d trailing", g.words)
		g.feats["trailing-after-opening-brace"] = true
	}
	for i := range lines {
		if lines[i] != "" {
			lines[i] = ind + lines[i]
		}
	}
	*b = append(*b, lines...)
	for _, k := range keys {
		g.intents = append(g.intents, cmIntent{Key: k, Doc: doc, Second: second, HasSecond: both})
	}
}

func (g *cmGen) sep(b *[]string) {
	if g.r.Chance(2, 3) {
		*b = append(*b, "")
	} else {
		g.feats["adjacent-declarations"] = true
	}
}

func (g *cmGen) name(p string) string { g.n++; return fmt.Sprintf("%s%d", p, g.n) }

func (g *cmGen) members(tn string, iface bool) []string {
	r := g.r
	var b []string
	embedded := map[string]bool{}
	for i, n := 0, r.Intn(5); i < n; i++ {
		if iface {
			m := g.name("M")
			g.item(&b, "\t", []string{m + "(x int) string"}, []string{"imethod " + tn + "." + m}, false, false)
		} else {
			switch r.Intn(6) {
			case 0:
				f1, f2 := g.name("A"), g.name("B")
				g.item(&b, "\t", []string{f1 + ", " + f2 + " int"}, []string{"field " + tn + "." + f1, "field " + tn + "." + f2}, false, false)
				g.feats["two-names-one-line"] = true
			case 1:
				if len(g.types) > 0 {
					e := g.types[r.Intn(len(g.types))]
					if !embedded[e] {
						embedded[e] = true
						star := ""
						if r.Bool() {
							star = "*"
						}
						g.item(&b, "\t", []string{star + e}, []string{"field " + tn + "." + e}, false, false)
						g.feats["embedded-field"] = true
					}
				}
			default:
				f := g.name("F")
				tag := ""
				if r.Chance(1, 4) {
					tag = " `json:\"x\"`"
				}
				g.item(&b, "\t", []string{f + " " + r.Pick([]string{"int", "string", "[]byte", "map[string]int"}) + tag}, []string{"field " + tn + "." + f}, false, false)
			}
		}
		if r.Chance(1, 3) {
			b = append(b, "")
		}
	}
	if r.Chance(1, 5) {
		g.words++
		b = append(b, fmt.Sprintf("\t// c%d dangling at the end", g.words))
		g.feats["dangling-comment-in-body"] = true
	}
	return b
}

func (g *cmGen) file(pkgDoc bool, nItems int) string {
	r := g.r
	var b []string
	if r.Chance(1, 3) {
		g.words++
		b = append(b, fmt.Sprintf("// c%d Copyright header", g.words), "")
		g.feats["file-header"] = true
	}
	if pkgDoc {
		g.words++
		b = append(b, fmt.Sprintf("// Package p c%d.", g.words))
	}
	b = append(b, "package p")
	if r.Chance(1, 4) {
		b[len(b)-1] += " // import \"example.com/m/p\""
	}
	b = append(b, "")
	for i := 0; i < nItems; i++ {
		switch r.Intn(10) {
		case 0:
			n := g.name("T")
			g.item(&b, "", []string{"type " + n + " " + r.Pick([]string{"int", "string", "[]string", "map[string]bool"})}, []string{"type " + n}, true, true)
			g.types = append(g.types, n)
		case 1, 2:
			n := g.name("S")
			decl := []string{"type " + n + " struct {"}
			mem := g.members(n, false)
			if len(mem) == 0 {
				decl = []string{"type " + n + " struct{}"}
			} else {
				decl = append(decl, mem...)
				decl = append(decl, "}")
			}
			g.item(&b, "", decl, []string{"type " + n}, true, true)
			g.types = append(g.types, n)
		case 3:
			n := g.name("I")
			decl := []string{"type " + n + " interface {"}
			mem := g.members(n, true)
			if len(mem) == 0 {
				decl = []string{"type " + n + " interface{}"}
			} else {
				decl = append(decl, mem...)
				decl = append(decl, "}")
			}
			g.item(&b, "", decl, []string{"type " + n}, true, true)
		case 4:
			n := g.name("Fn")
			decl := []string{"func " + n + "() {}"}
			if r.Bool() {
				g.words++
				decl = []string{"func " + n + "(x int) int {", fmt.Sprintf("\t// c%d inside the body", g.words), "\tx++", "\treturn x"}
				if r.Chance(1, 3) {
					g.words++
					decl = append(decl, fmt.Sprintf("\t// c%d last line of the body", g.words))
					g.feats["comment-last-in-body"] = true
				}
				decl = append(decl, "}")
			}
			g.item(&b, "", decl, []string{"func " + n}, true, true)
		case 5:
			if len(g.types) == 0 {
				continue
			}
			t := g.types[r.Intn(len(g.types))]
			n := g.name("Meth")
			recv := t
			if r.Bool() {
				recv = "*" + t
			}
			g.item(&b, "", []string{"func (r " + recv + ") " + n + "() {}"}, []string{"method " + t + "." + n}, false, true)
			g.feats["method"] = true
		case 6:
			n := g.name("V")
			g.item(&b, "", []string{"var " + n + r.Pick([]string{" int", " = 3", " string", " = []int{1, 2}"})}, []string{"var " + n}, true, true)
		case 7:
			n := g.name("K")
			g.item(&b, "", []string{"const " + n + r.Pick([]string{" = 1", " string = \"x\"", " = 'c'"})}, []string{"const " + n}, true, true)
		case 8:
			n1, n2 := g.name("V"), g.name("W")
			g.item(&b, "", []string{"var " + n1 + ", " + n2 + " int"}, []string{"var " + n1, "var " + n2}, true, true)
			g.feats["two-names-one-line"] = true
		case 9:
			// grouped declaration
			kw := r.Pick([]string{"var", "const", "type"})
			var body []string
			for j, m := 0, 1+r.Intn(3); j < m; j++ {
				switch kw {
				case "var":
					n := g.name("GV")
					g.item(&body, "\t", []string{n + " int"}, []string{"var " + n}, true, false)
				case "const":
					n := g.name("GK")
					g.item(&body, "\t", []string{n + " = " + fmt.Sprint(j)}, []string{"const " + n}, true, false)
				case "type":
					n := g.name("GT")
					g.item(&body, "\t", []string{n + " int"}, []string{"type " + n}, true, false)
					g.types = append(g.types, n)
				}
				if r.Chance(1, 3) {
					body = append(body, "")
				}
			}
			g.feats["grouped-"+kw] = true
			// the group itself may carry a doc block and a trailing comment after the parenthesis
			if r.Chance(1, 2) {
				src, _ := g.block("", true)
				b = append(b, src...)
				g.feats["doc-on-group"] = true
			}
			open := kw + " ("
			if r.Chance(1, 3) {
				g.words++
				open += fmt.Sprintf(" // t%d after the parenthesis", g.words)
				g.feats["trailing-after-opening-paren"] = true
			}
			b = append(b, open)
			b = append(b, body...)
			b = append(b, ")")
		}
		g.sep(&b)
	}
	if r.Chance(1, 4) {
		g.words++
		b = append(b, "", fmt.Sprintf("// c%d at the end of the file", g.words))
	}
	return strings.Join(b, "\n") + "\n"
}

// GenCommentCase returns the protocol lines of one case, or nil if gofmt does not leave the layout alone.
func genCommentCase(r *RNG) ([]string, Meta) {
	g := &cmGen{r: r, feats: map[string]bool{}}
	files := map[string]string{}
	order := []string{"types.go"}
	files["types.go"] = g.file(r.Bool(), 2+r.Intn(7))
	if r.Chance(1, 2) {
		files["more.go"] = g.file(false, 1+r.Intn(5))
		order = append(order, "more.go")
		g.feats["multi-file"] = true
	}
	var wantPkg []string
	if r.Chance(1, 2) {
		var b []string
		n := g.words
		if r.Bool() {
			b = append(b, fmt.Sprintf("// c%d Copyright header", n+1), fmt.Sprintf("// c%d second line", n+2), "")
		}
		b = append(b, fmt.Sprintf("// +k8s:deepcopy-gen=package c%d", n+3), fmt.Sprintf("// Package p is documented here c%d.", n+4), "package p")
		if r.Bool() {
			b = append(b, "", fmt.Sprintf("// c%d after the clause", n+5))
		}
		g.words += 5
		files["doc.go"] = strings.Join(b, "\n") + "\n"
		order = append(order, "doc.go")
		g.feats["doc.go"] = true
		wantPkg = append(wantPkg, "yes")
	}
	// gofmt canonical form; the intent is tied to structure, which gofmt preserves
	for _, n := range order {
		out, err := format.Source([]byte(files[n]))
		if err != nil {
			panic("comment layout generator produced unparsable source: " + err.Error() + "\n" + files[n])
		}
		again, _ := format.Source(out)
		if string(again) != string(out) {
			return nil, Meta{}
		}
		files[n] = string(out)
	}
	ls := []string{}
	for _, n := range order {
		ls = append(ls, Line("cm", "src", Hex(n), Hex(files[n])))
	}
	for _, n := range order {
		f, err := cmFacts(n, files[n])
		if err != nil {
			panic(err)
		}
		ls = append(ls, Line("cm", "attr", f.Groups, f.Code, cmLines(f.Both)), Line("cm", "doc", f.Groups, f.Code, cmLines(f.Docs)))
	}
	for _, in := range g.intents {
		sec := "~"
		if in.HasSecond {
			sec = HexList(in.Second)
		}
		ls = append(ls, Line("cm", "want", Hex(in.Key), HexList(in.Doc), sec))
	}
	if len(wantPkg) > 0 {
		ls = append(ls, Line("cm", "wantpkg"))
	}
	if g.n%40 == 7 && r.Chance(1, 5) {
		// once in a while: a standard-library package first met as a dependency, then requested
		ls = append(ls, Line("cm", "importer", "std"))
		g.feats["standard-library-dependency-requested-later"] = true
		feats := SortedKeys(g.feats)
		feats = append(feats, fmt.Sprintf("files:%d", len(order)), fmt.Sprintf("decls:%d", len(g.intents)/4*4))
		return ls, Meta{Nontrivial: len(g.intents) > 0, Features: feats}
	}
	switch r.Intn(3) {
	case 0:
		// the package is first loaded as a dependency of another one and requested later
		ls = append(ls, Line("cm", "importer"))
		g.feats["dependency-first-requested-later"] = true
	case 1:
		// another requested package, scanned first, refers to every type of this one
		ls = append(ls, Line("cm", "importer", "user"))
		g.feats["types-first-walked-from-another-requested-package"] = true
	}
	feats := SortedKeys(g.feats)
	feats = append(feats, fmt.Sprintf("files:%d", len(order)), fmt.Sprintf("decls:%d", len(g.intents)/4*4))
	return ls, Meta{Nontrivial: len(g.intents) > 0, Features: feats}
}

func cmShow(l []string) string { return fmt.Sprintf("%q", l) }

func cmEq(a, b []string) bool {
	if len(a) == 0 {
		a = []string{""}
	}
	if len(b) == 0 {
		b = []string{""}
	}
	return strings.Join(a, "\n") == strings.Join(b, "\n") && len(a) == len(b)
}

func CommentsProperty(impl CmImpl) Property {
	exec := func(lines []string) ([]string, []Failure) {
		outs := make([]string, len(lines))
		for i := range outs {
			outs[i] = "ok"
		}
		var fails []Failure
		files := map[string]string{}
		var order []string
		for _, l := range lines {
			f := Fields(l)
			if f[1] == "src" {
				files[Unhex(f[2])] = Unhex(f[3])
				order = append(order, Unhex(f[2]))
			}
		}
		pk := &ProgPkg{Path: cmPkgPath, Name: "p", File: order[0], Source: files[order[0]], Extra: map[string]string{}}
		for _, n := range order[1:] {
			pk.Extra[n] = files[n]
		}
		prog := &Program{Module: "example.com/m", V2: impl.V2, Pkgs: []*ProgPkg{pk}}
		later, user, std := false, false, false
		var typeNames []string
		for _, l := range lines {
			f := Fields(l)
			if f[1] == "importer" {
				if len(f) > 2 && f[2] == "user" {
					user = true
				} else if len(f) > 2 && f[2] == "std" {
					std = true
				} else {
					later = true
				}
			}
			if f[1] == "want" {
				if k := Unhex(f[2]); strings.HasPrefix(k, "type ") && !strings.Contains(k, ".") && k[5] >= 'A' && k[5] <= 'Z' {
					typeNames = append(typeNames, k[5:])
				}
			}
		}
		var snap *USnap
		var err error
		if user && impl.LoadAll != nil {
			// a second requested package, scanned before this one (its path sorts first), uses every type of this one: the
			// types are walked from there first
			src := "package a\n\nimport p \"" + cmPkgPath + "\"\n\nvar _ p.Anchor\n\n// Use is here.\ntype Use struct {\n"
			for i, n := range typeNames {
				src += fmt.Sprintf("\tF%d p.%s\n", i, n)
			}
			src += "}\n"
			if _, has := files["zz_anchor.go"]; !has {
				pk.Extra["zz_anchor.go"] = "package p\n\ntype Anchor int\n"
			}
			a := &ProgPkg{Path: "example.com/m/a", Name: "a", File: "a.go", Imports: []string{cmPkgPath}, Source: src}
			prog.Pkgs = append([]*ProgPkg{a}, prog.Pkgs...)
			snap, err = impl.LoadAll(prog)
		} else if later && impl.LoadLater != nil {
			q := &ProgPkg{Path: "example.com/m/q", Name: "q", File: "q.go", Imports: []string{cmPkgPath},
				Source: "package q\n\nimport _ \"" + cmPkgPath + "\"\n\n// Q is here.\ntype Q int\n"}
			prog.Pkgs = append(prog.Pkgs, q)
			snap, err = impl.LoadLater(prog, q.Path, cmPkgPath)
		} else {
			snap, err = impl.Load(prog)
		}
		if err != nil || snap.Pkgs[cmPkgPath] == nil {
			for i, l := range lines {
				if op := Fields(l)[1]; op == "attr" || op == "doc" {
					outs[i] = "load-fails"
				}
			}
			return outs, []Failure{{"load-fails", fmt.Sprintf("loading the package failed: %v", err)}}
		}
		if std && impl.LoadLater != nil {
			// a package of the standard library (no module of its own), first loaded as a dependency and requested later, is
			// delivered the same comments as when it is requested straight away
			const lib = "sort"
			q := &ProgPkg{Path: "example.com/m/q", Name: "q", File: "q.go", Source: "package q\n\nimport _ \"" + lib + "\"\n\n// Q is here.\ntype Q int\n"}
			sp := &Program{Module: "example.com/m", V2: impl.V2, Pkgs: []*ProgPkg{q}}
			got, err1 := impl.LoadLater(sp, q.Path, lib)
			ref, err2 := impl.LoadLater(sp, lib, lib)
			if err1 != nil || err2 != nil || got.Pkgs[lib] == nil || ref.Pkgs[lib] == nil {
				fails = append(fails, Failure{"load-fails", fmt.Sprintf("loading %s after / before its importer failed: %v / %v", lib, err1, err2)})
			} else {
				g, r := got.Pkgs[lib], ref.Pkgs[lib]
				for _, n := range SortedKeys(r.Types) {
					rt, gt := r.Types[n], g.Types[n]
					if gt == nil {
						fails = append(fails, Failure{"declaration-missing", lib + "." + n + " is missing when the package is requested after its importer"})
						break
					}
					bad := !cmEq(rt.CommentLines, gt.CommentLines)
					for i, m := range rt.Members {
						if i >= len(gt.Members) || !cmEq(m.CommentLines, gt.Members[i].CommentLines) {
							bad = true
						}
					}
					for mn, m := range rt.Methods {
						if gt.Methods[mn] == nil || !cmEq(m.CommentLines, gt.Methods[mn].CommentLines) {
							bad = true
						}
					}
					if bad {
						fails = append(fails, Failure{"doc-lost", fmt.Sprintf("%s.%s (standard library, requested after its importer): delivered %s, requested straight away it is delivered %s", lib, n, cmShow(gt.CommentLines), cmShow(rt.CommentLines))})
						break
					}
				}
				for _, n := range SortedKeys(r.Funcs) {
					if gf := g.Funcs[n]; gf == nil || !cmEq(r.Funcs[n].CommentLines, gf.CommentLines) {
						fails = append(fails, Failure{"doc-lost", fmt.Sprintf("func %s.%s (standard library, requested after its importer) lost its doc comment", lib, n)})
						break
					}
				}
			}
		}
		upk := snap.Pkgs[cmPkgPath]
		// positions (file, line) of blocks, to classify failures
		facts := map[string]*cmFile{}
		for _, n := range order {
			f, err := cmFacts(n, files[n])
			if err != nil {
				return outs, []Failure{{"generator-unparsable", err.Error()}}
			}
			facts[n] = f
		}
		fi := 0
		for i, l := range lines {
			f := Fields(l)
			switch f[1] {
			case "attr", "doc":
				fc := facts[order[fi/2]]
				ds := fc.Both
				if f[1] == "doc" {
					ds = fc.Docs
				}
				fi++
				if f[2] != fc.Groups || f[3] != fc.Code || f[4] != cmLines(ds) {
					fails = append(fails, Failure{"facts-stale", "the facts in the lines differ from go/parser's view now (harness)"})
				}
				var parts []string
				for _, d := range ds {
					doc, sec, ok := cmDelivered(upk, d.Key)
					switch {
					case !ok:
						parts = append(parts, "missing")
					case d.Both:
						parts = append(parts, HexList(doc)+"/"+HexList(sec))
					default:
						parts = append(parts, HexList(doc))
					}
				}
				outs[i] = strings.Join(parts, "|")
			case "want":
				key, wantDoc := Unhex(f[2]), UnhexList(f[3])
				doc, sec, ok := cmDelivered(upk, key)
				if !ok {
					fails = append(fails, Failure{"declaration-missing", key + " is not in the universe"})
					continue
				}
				if !cmEq(doc, wantDoc) {
					sig := "doc-misattributed"
					if cmEq(wantDoc, nil) {
						sig = "doc-delivered-to-undocumented"
						for _, d := range doc {
							if strings.Contains(d, "trailing") || strings.Contains(d, "after the parenthesis") {
								sig = "trailing-comment-delivered"
							}
						}
					} else if cmEq(doc, nil) {
						sig = "doc-lost"
					}
					fails = append(fails, Failure{sig, fmt.Sprintf("%s: delivered %s, its doc block is %s", key, cmShow(doc), cmShow(wantDoc))})
				}
				if f[4] != "~" {
					wantSec := UnhexList(f[4])
					if !cmEq(sec, wantSec) {
						sig := "second-closest-wrong"
						if cmEq(wantSec, nil) {
							// something was delivered although no block is one blank line above: where does it come from?
							sig = "second-closest-not-blank-separated"
						} else if cmEq(sec, nil) {
							sig = "second-closest-lost"
						}
						fails = append(fails, Failure{sig, fmt.Sprintf("%s: second-closest delivered %s, the block one blank line above is %s", key, cmShow(sec), cmShow(wantSec))})
					}
				}
			case "wantpkg":
				dg := facts["doc.go"]
				if dg == nil {
					continue
				}
				if !cmEq(upk.Comments, dg.All) {
					fails = append(fails, Failure{"package-comments", fmt.Sprintf("package comments %s, doc.go has %s", cmShow(upk.Comments), cmShow(dg.All))})
				}
				if !cmEq(upk.DocComments, dg.Header) {
					fails = append(fails, Failure{"package-doc-comments", fmt.Sprintf("package doc comments %s, doc.go's package clause is documented by %s", cmShow(upk.DocComments), cmShow(dg.Header))})
				}
			}
		}
		return outs, fails
	}
	return Property{
		Exec: exec,
		Gen: func(c *Ctx) {
			for i, ls := range cmCorpus() {
				if i == 0 {
					// … and once per run for sure: the standard-library package requested after its importer
					c.Case(append(append([]string(nil), ls...), Line("cm", "importer", "std")), Meta{Nontrivial: true, Features: []string{"corpus", "standard-library-dependency-requested-later"}})
				}
				c.Case(ls, Meta{Nontrivial: true, Features: []string{"corpus"}})
			}
			r := c.RNG("layouts")
			n := c.Scale(300, 6000)
			var batch []PCase
			for i := 0; i < n; i++ {
				ls, meta := genCommentCase(r)
				if ls == nil {
					c.Feature("not-gofmt-stable-discarded", 1)
					continue
				}
				batch = append(batch, PCase{ls, meta})
				if len(batch) == 32 {
					c.Cases(batch, 12)
					batch = nil
				}
			}
			c.Cases(batch, 12)
		},
	}
}

// hand-written layouts: past witnesses (F5) and corners
func cmCorpus() [][]string {
	mk := func(src string, wants ...[3]string) []string {
		f, err := cmFacts("types.go", src)
		if err != nil {
			panic(err)
		}
		ls := []string{Line("cm", "src", Hex("types.go"), Hex(src)), Line("cm", "attr", f.Groups, f.Code, cmLines(f.Both)), Line("cm", "doc", f.Groups, f.Code, cmLines(f.Docs))}
		for _, w := range wants {
			doc, sec := []string{""}, "~"
			if w[1] != "" {
				doc = strings.Split(w[1], "\n")
			}
			if w[2] != "~" {
				s := []string{""}
				if w[2] != "" {
					s = strings.Split(w[2], "\n")
				}
				sec = HexList(s)
			}
			ls = append(ls, Line("cm", "want", Hex(w[0]), HexList(doc), sec))
		}
		return ls
	}
	return [][]string{
		// F5: the declaration following a trailing comment
		mk("package p\n\ntype T struct {\n\tA int // about A\n\tB int\n}\n\nvar X int // about X\nvar Y int\n",
			[3]string{"field T.A", "", "~"}, [3]string{"field T.B", "", "~"}, [3]string{"var X", "", ""}, [3]string{"var Y", "", ""}),
		mk("package p\n\n// detached\n\n// doc\n// more doc\ntype T int\n", [3]string{"type T", "doc\nmore doc", "detached"}),
		mk("package p\n\nvar ( // after paren\n\tA int\n)\n\ntype S struct { // after brace\n\tF int\n}\n", [3]string{"var A", "", ""}, [3]string{"field S.F", "", "~"}),
	}
}

var _ = sort.Strings

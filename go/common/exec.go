package common

import (
	"fmt"
	"os"
	"path/filepath"
	"sort"
	"strings"
)

// ---- executor component "ex": C04 (protocol), C13 (failures), C10 (verify-only) ---------------

type ExecGen struct {
	Name      string
	Accept    []int
	NamersNil bool
	Namers    []string
	FileType  string
	Filename  string
	Vars      []string
	Consts    []string
	Imports   []string
	InitErr   bool
	FinErr    bool
	TypeErr   []int
	Silent    bool // the hooks write nothing to the body
}

type ExecTarget struct {
	Name, Dir string
	Accept    []int
	Header    string
	Gens      []*ExecGen
}

type ExecConfig struct {
	V2        bool
	Order     []int
	Namers    []string
	Verify    bool
	FileTypes []string
	Targets   []*ExecTarget
	Dirs      []string
	Files     [][2]string
}

const ExecFailMarker = "@@FAIL@@"
const ExecHookErr = "injected-hook-failure"

// ExecRecorder collects the trace of one target run.
type ExecRecorder struct{ Events []string }

func (r *ExecRecorder) Add(ev string) { r.Events = append(r.Events, ev) }

func ShowIDs(ids []int) string {
	s := make([]string, len(ids))
	for i, x := range ids {
		s[i] = Itoa(x)
	}
	return "[" + strings.Join(s, ",") + "]"
}

func ShowNames(ns []string) string {
	c := append([]string(nil), ns...)
	sort.Strings(c)
	return "[" + strings.Join(c, ",") + "]"
}

func ContainsInt(l []int, x int) bool {
	for _, y := range l {
		if x == y {
			return true
		}
	}
	return false
}

// Bytes the recording generator writes (must equal initBytes/typeBytes/finBytes of the model).
func ExecInitBytes(g string) string        { return "// init " + g + "\n" }
func ExecTypeBytes(g string, t int) string { return fmt.Sprintf("// type %s %d\n", g, t) }
func ExecFinBytes(g string) string         { return "// fin " + g + "\n" }

// ExecFormat is the harness's file formatter: fails on the marker, otherwise sorts the lines of
// the import block (so that the map-ordered block written by the real Assemble is canonical).
func ExecFormat(src []byte) ([]byte, error) {
	s := string(src)
	if strings.Contains(s, ExecFailMarker) {
		return nil, fmt.Errorf("cannot format: marker present")
	}
	i := strings.Index(s, "import (\n")
	if i < 0 {
		return src, nil
	}
	j := strings.Index(s[i:], ")\n")
	if j < 0 {
		return src, nil
	}
	block := s[i+len("import (\n") : i+j]
	lines := strings.Split(strings.TrimSuffix(block, "\n"), "\n")
	sort.Strings(lines)
	return []byte(s[:i] + "import (\n" + strings.Join(lines, "\n") + "\n" + s[i+j:]), nil
}

type ExecImpl struct {
	V2 bool
	// RunTarget runs the real ExecutePackage/ExecuteTarget for target i of cfg rooted at root.
	RunTarget func(cfg *ExecConfig, i int, root string, rec *ExecRecorder) error
	// RunAll runs the real ExecutePackages/ExecuteTargets over all targets.
	RunAll func(cfg *ExecConfig, root string) error
	// Session makes one Context for all targets of cfg, as ExecutePackages/ExecuteTargets do: Run executes target i on
	// it, Order reports the ids of its canonical Order as it is now.
	Session func(cfg *ExecConfig, root string) *ExecSession
	// ArgsVerify (v1, optional) drives the way a tool asks for verify-only mode, args.GeneratorArgs: "flag:<preset>:<argv>"
	// registers the flags on a fresh flag set over a GeneratorArgs whose VerifyOnly was preset in code, parses argv and
	// reports the resulting VerifyOnly; "run:<perturbation>" generates through GeneratorArgs.Execute, perturbs the
	// output, runs Execute again with VerifyOnly and reports "verify=<ok|err:file|err:other> disk=<same|changed>".
	ArgsVerify func(mode string) (string, error)
}

type ExecSession struct {
	Run   func(i int, rec *ExecRecorder) error
	Order func() []int
}

// ArgsVerifyModes: the scenarios of ArgsVerify and what the property demands of each
var ArgsVerifyModes = [][2]string{
	{"flag:true:", "true"}, {"flag:true:--verify-only=false", "false"}, {"flag:false:", "false"}, {"flag:false:--verify-only", "true"},
	{"flag:true:--verify-only", "true"},
	{"run:intact", "verify=ok disk=same"}, {"run:edited", "verify=err:file disk=same"}, {"run:missing", "verify=err:file disk=same"},
	{"run:truncated", "verify=err:file disk=same"},
}

func idsField(ids []int) string {
	if len(ids) == 0 {
		return "-"
	}
	s := make([]string, len(ids))
	for i, x := range ids {
		s[i] = Itoa(x)
	}
	return strings.Join(s, ",")
}

func parseIDs(s string) []int {
	if s == "-" {
		return nil
	}
	var out []int
	for _, p := range strings.Split(s, ",") {
		out = append(out, Atoi(p))
	}
	return out
}

// Lines renders a configuration as protocol lines.
func (c *ExecConfig) Lines() []string {
	v := "v1"
	if c.V2 {
		v = "v2"
	}
	ls := []string{Line("ex", "new", v, idsField(c.Order), HexList(c.Namers), B01(c.Verify), HexList(c.FileTypes))}
	// a directory on disk has all its parents (materialise uses MkdirAll): say so explicitly
	seenDir := map[string]bool{}
	for _, d := range c.Dirs {
		parts := strings.Split(d, "/")
		for i := 1; i <= len(parts); i++ {
			p := strings.Join(parts[:i], "/")
			if !seenDir[p] {
				seenDir[p] = true
				ls = append(ls, Line("ex", "dir", Hex(p)))
			}
		}
	}
	for _, f := range c.Files {
		ls = append(ls, Line("ex", "file", Hex(f[0]), Hex(f[1])))
	}
	for _, t := range c.Targets {
		ls = append(ls, Line("ex", "target", Hex(t.Name), Hex(t.Dir), idsField(t.Accept), Hex(t.Header)))
		for _, g := range t.Gens {
			ns := HexList(g.Namers)
			if g.NamersNil {
				ns = "nil"
			}
			ls = append(ls, Line("ex", "gen", Hex(g.Name), idsField(g.Accept), ns, Hex(g.FileType), Hex(g.Filename),
				HexList(g.Vars), HexList(g.Consts), HexList(g.Imports), B01(g.InitErr), B01(g.FinErr), idsField(g.TypeErr), B01(g.Silent)))
		}
	}
	return append(ls, Line("ex", "run"))
}

func parseExecConfig(lines []string) *ExecConfig {
	c := &ExecConfig{}
	for _, l := range lines {
		f := Fields(l)
		switch f[1] {
		case "new":
			c.V2 = f[2] == "v2"
			c.Order = parseIDs(f[3])
			c.Namers = UnhexList(f[4])
			c.Verify = f[5] == "1"
			c.FileTypes = UnhexList(f[6])
		case "dir":
			c.Dirs = append(c.Dirs, Unhex(f[2]))
		case "file":
			c.Files = append(c.Files, [2]string{Unhex(f[2]), Unhex(f[3])})
		case "target":
			c.Targets = append(c.Targets, &ExecTarget{Name: Unhex(f[2]), Dir: Unhex(f[3]), Accept: parseIDs(f[4]), Header: Unhex(f[5])})
		case "gen":
			g := &ExecGen{Name: Unhex(f[2]), Accept: parseIDs(f[3]), FileType: Unhex(f[5]), Filename: Unhex(f[6]),
				Vars: UnhexList(f[7]), Consts: UnhexList(f[8]), Imports: UnhexList(f[9]), InitErr: f[10] == "1", FinErr: f[11] == "1", TypeErr: parseIDs(f[12]), Silent: f[13] == "1"}
			if f[4] == "nil" {
				g.NamersNil = true
			} else {
				g.Namers = UnhexList(f[4])
			}
			t := c.Targets[len(c.Targets)-1]
			t.Gens = append(t.Gens, g)
		}
	}
	return c
}

type diskSnap struct {
	dirs  []string
	files map[string]string
}

func snapshot(root string) diskSnap {
	s := diskSnap{files: map[string]string{}}
	filepath.Walk(root, func(p string, info os.FileInfo, err error) error {
		if err != nil || p == root {
			return nil
		}
		rel, _ := filepath.Rel(root, p)
		if info.IsDir() {
			s.dirs = append(s.dirs, rel)
		} else {
			b, _ := os.ReadFile(p)
			s.files[rel] = string(b)
		}
		return nil
	})
	sort.Strings(s.dirs)
	return s
}

func (s diskSnap) String() string {
	var fs []string
	for _, k := range SortedKeys(s.files) {
		fs = append(fs, k+"="+Hex(s.files[k]))
	}
	return "dirs=" + strings.Join(s.dirs, ",") + " files=" + strings.Join(fs, ",")
}

func materialise(cfg *ExecConfig) string {
	root, err := os.MkdirTemp("", "verif-ex-")
	if err != nil {
		panic(err)
	}
	for _, d := range cfg.Dirs {
		os.MkdirAll(filepath.Join(root, d), 0o755)
	}
	for _, f := range cfg.Files {
		os.MkdirAll(filepath.Dir(filepath.Join(root, f[0])), 0o755)
		os.WriteFile(filepath.Join(root, f[0]), []byte(f[1]), 0o644)
	}
	return root
}

// execExpectedStop: where the documented protocol ends early for this target ("filetype", "hook" or ""), and whether
// a file the run reaches has a file type that is not registered in the context
func execExpectedStop(cfg *ExecConfig, t *ExecTarget) (stopped string, unknown bool) {
	files := map[string]string{}
	for _, g := range t.Gens {
		if g.FileType == "" {
			return "filetype", false
		}
		if ft, ok := files[g.Filename]; ok && ft != g.FileType {
			return "filetype", false
		}
		files[g.Filename] = g.FileType
		if g.InitErr || g.FinErr {
			return "hook", false
		}
		for _, id := range intersectOrder(cfg.Order, t.Accept, g.Accept) {
			if ContainsInt(g.TypeErr, id) {
				return "hook", false
			}
		}
	}
	for _, ft := range files {
		known := false
		for _, k := range cfg.FileTypes {
			if k == ft {
				known = true
			}
		}
		if !known {
			unknown = true
		}
	}
	return "", unknown
}

// classifyExecErr maps the error of a run to a small enum.  Hook errors are recognised by the text the harness's own
// hooks return, a refused directory by the operating system's "mkdir" prefix; file-type errors are recognised by the
// situation, not by the wording of the message (a reworded message is not a violation of any property): a non-hook
// error of a target whose protocol ends at an empty or conflicting file type is "filetype", one of a target that
// reaches a file of an unregistered type is "unknowntype".  File errors are identified by the file names they mention,
// which C10 and C13 do speak about.
func classifyExecErr(err error, t *ExecTarget, cfg *ExecConfig) string {
	if err == nil {
		return "ok"
	}
	m := err.Error()
	switch {
	case strings.Contains(m, ExecHookErr):
		return "hook"
	case strings.HasPrefix(m, "mkdir "):
		return "mkdir"
	}
	switch stopped, unknown := execExpectedStop(cfg, t); {
	case stopped == "filetype":
		return "filetype"
	case stopped == "" && unknown:
		return "unknowntype"
	}
	seen := map[string]bool{}
	var names []string
	for _, g := range t.Gens {
		if !seen[g.Filename] && strings.Contains(m, g.Filename) {
			seen[g.Filename] = true
			names = append(names, g.Filename)
		}
	}
	sort.Strings(names)
	return "files:" + strings.Join(names, ",")
}

// ExecProperty builds the property `prop` (C04, C13 or C10) over the executor component.
func ExecProperty(impl ExecImpl, prop string, gen func(c *Ctx, v2 bool)) Property {
	exec := func(lines []string) ([]string, []Failure) {
		outs := make([]string, len(lines))
		for i := range outs {
			outs[i] = "ok"
		}
		var fails []Failure
		fail := func(sig, what string) { fails = append(fails, Failure{sig, what}) }
		if f := Fields(lines[0]); len(lines) == 1 && f[1] == "argsverify" {
			if impl.ArgsVerify != nil {
				mode := Unhex(f[2])
				want := ""
				for _, m := range ArgsVerifyModes {
					if m[0] == mode {
						want = m[1]
					}
				}
				got, err := impl.ArgsVerify(mode)
				if err != nil {
					fail("harness", "argsverify "+mode+": "+err.Error())
				} else if got != want {
					fail("verify-request-not-honoured", fmt.Sprintf("GeneratorArgs, scenario %s: %s, the property demands %s", mode, got, want))
				}
			}
			return outs, fails
		}
		cfg := parseExecConfig(lines)
		root := materialise(cfg)
		defer os.RemoveAll(root)
		before := snapshot(root)
		var parts []string
		var classes []string
		anyUnknown := false
		var sess *ExecSession
		if impl.Session != nil {
			sess = impl.Session(cfg, root)
		}
		for i, t := range cfg.Targets {
			rec := &ExecRecorder{}
			pre := snapshot(root)
			var err error
			func() {
				defer func() {
					if r := recover(); r != nil {
						err = fmt.Errorf("panic: %v", r)
						fail("panic", fmt.Sprintf("executing target %s panics: %v", t.Name, r))
					}
				}()
				if sess != nil {
					// the targets of one run share one Context
					err = sess.Run(i, rec)
				} else {
					err = impl.RunTarget(cfg, i, root, rec)
				}
			}()
			if sess != nil {
				if got := sess.Order(); ShowIDs(got) != ShowIDs(cfg.Order) {
					fail("context-order-changed", fmt.Sprintf("executing target %s changed the Context's canonical order from %s to %s", t.Name, ShowIDs(cfg.Order), ShowIDs(got)))
				}
			}
			cls := classifyExecErr(err, t, cfg)
			classes = append(classes, cls)
			if cls == "unknowntype" {
				anyUnknown = true
			}
			parts = append(parts, cls+";"+strings.Join(rec.Events, " "))
			post := snapshot(root)
			switch prop {
			case "C04":
				execOracleProtocol(cfg, t, rec.Events, cls, post, fail)
			case "C13":
				execOracleFailures(cfg, t, cls, err, pre, post, fail)
			case "C10":
				// what would a generate run write? (real code, scratch directory, same target)
				gcfg := *cfg
				gcfg.Verify = false
				gcfg.Files = nil
				gcfg.Dirs = nil
				// (the reference is what the files should contain; directories that file names mention exist there)
				for _, g := range t.Gens {
					if d := filepath.Dir(g.Filename); d != "." {
						gcfg.Dirs = append(gcfg.Dirs, filepath.Join(t.Dir, d))
					}
				}
				groot := materialise(&gcfg)
				var gerr error
				func() {
					defer func() {
						if r := recover(); r != nil {
							gerr = fmt.Errorf("panic: %v", r)
						}
					}()
					gerr = impl.RunTarget(&gcfg, i, groot, &ExecRecorder{})
				}()
				expected := snapshot(groot).files
				os.RemoveAll(groot)
				execOracleVerify(cfg, t, cls, err, pre, post, expected, classifyExecErr(gerr, t, cfg), fail)
			}
		}
		// C10: generating and then verifying the same inputs always succeeds
		if prop == "C10" && !cfg.Verify {
			vcfg := *cfg
			vcfg.Verify = true
			for i, t := range cfg.Targets {
				if classes[i] != "ok" {
					continue
				}
				var verr error
				func() {
					defer func() {
						if r := recover(); r != nil {
							verr = fmt.Errorf("panic: %v", r)
						}
					}()
					verr = impl.RunTarget(&vcfg, i, root, &ExecRecorder{})
				}()
				if verr != nil {
					fail("generate-then-verify-fails", fmt.Sprintf("target %s was generated successfully, verifying it straight afterwards fails: %v", t.Name, Trunc(verr.Error(), 300)))
				}
			}
		}
		after := snapshot(root)
		disk := after.String()
		if anyUnknown {
			disk = "?"
		}
		outs[len(lines)-1] = strings.Join(parts, " | ") + " || " + disk
		// the aggregated entry point processes every target and reports an error iff one failed
		if prop == "C13" && !anyUnknown {
			root2 := materialise(cfg)
			defer os.RemoveAll(root2)
			var aerr error
			func() {
				defer func() {
					if r := recover(); r != nil {
						aerr = fmt.Errorf("panic: %v", r)
					}
				}()
				aerr = impl.RunAll(cfg, root2)
			}()
			anyErr := false
			for _, c := range classes {
				if c != "ok" {
					anyErr = true
				}
			}
			if anyErr != (aerr != nil) {
				fail("aggregate-error-lost", fmt.Sprintf("per-target results %v but the run over all targets returned %v", classes, aerr))
			}
			if d2 := snapshot(root2).String(); d2 != after.String() {
				fail("targets-not-all-processed", fmt.Sprintf("running all targets at once leaves a different disk than running them one by one: %s vs %s", Trunc(d2, 300), Trunc(after.String(), 300)))
			}
		}
		_ = before
		return outs, fails
	}
	return Property{Exec: exec, Gen: func(c *Ctx) { gen(c, impl.V2) }}
}

// ---- oracles (statements restated directly on the observable behaviour; no model involved) ----

func intersectOrder(order, a, b []int) []int {
	out := []int{}
	for _, t := range order {
		if ContainsInt(a, t) && ContainsInt(b, t) {
			out = append(out, t)
		}
	}
	return out
}

func filterOrder(order, a []int) []int {
	out := []int{}
	for _, t := range order {
		if ContainsInt(a, t) {
			out = append(out, t)
		}
	}
	return out
}

func unionNames(a, b []string) []string {
	m := map[string]bool{}
	for _, x := range a {
		m[x] = true
	}
	for _, x := range b {
		m[x] = true
	}
	return SortedKeys(m)
}

// C04: documented hook sequence, exact filtering, private namers, file accumulation, file-type errors
func execOracleProtocol(cfg *ExecConfig, t *ExecTarget, evs []string, cls string, post diskSnap, fail func(sig, what string)) {
	pkgOrder := filterOrder(cfg.Order, t.Accept)
	// expected trace, generator by generator, up to the first early return
	var exp []string
	exp = append(exp, "G"+ShowIDs(pkgOrder))
	files := map[string]string{} // filename -> file type
	stopped := ""
	for _, g := range t.Gens {
		genOrder := intersectOrder(cfg.Order, t.Accept, g.Accept)
		for _, id := range pkgOrder {
			exp = append(exp, fmt.Sprintf("f:%s:%d", g.Name, id))
		}
		base := ShowNames(cfg.Namers)
		own := base
		if !g.NamersNil {
			own = ShowNames(unionNames(cfg.Namers, g.Namers))
		}
		o := ShowIDs(genOrder)
		exp = append(exp, "N:"+g.Name+":"+base+":"+o)
		if g.FileType == "" {
			stopped = "filetype"
			break
		}
		if ft, ok := files[g.Filename]; ok && ft != g.FileType {
			stopped = "filetype"
			break
		}
		files[g.Filename] = g.FileType
		exp = append(exp, "V:"+g.Name+":"+own+":"+o, "C:"+g.Name+":"+own+":"+o, "I:"+g.Name+":"+own+":"+o)
		if g.InitErr {
			stopped = "hook"
			break
		}
		hookFailed := false
		for _, id := range genOrder {
			exp = append(exp, fmt.Sprintf("T:%s:%d:%s", g.Name, id, own))
			if ContainsInt(g.TypeErr, id) {
				hookFailed = true
				break
			}
		}
		if hookFailed {
			stopped = "hook"
			break
		}
		exp = append(exp, "Z:"+g.Name+":"+own+":"+o)
		if g.FinErr {
			stopped = "hook"
			break
		}
		exp = append(exp, "M:"+g.Name+":"+own+":"+o)
	}
	if cls == "mkdir" {
		return // v2: nothing ran
	}
	got := strings.Join(evs, " ")
	if got != strings.Join(exp, " ") {
		// find the first difference for the message and a class for the signature
		i := 0
		for i < len(evs) && i < len(exp) && evs[i] == exp[i] {
			i++
		}
		g, e := "<end>", "<end>"
		if i < len(evs) {
			g = evs[i]
		}
		if i < len(exp) {
			e = exp[i]
		}
		sig := "protocol-sequence"
		switch {
		case len(g) > 2 && len(e) > 2 && g[0] == e[0] && g[0] == 'T':
			sig = "generate-type-set"
		case len(g) > 0 && len(e) > 0 && g[0] == e[0] && strings.Count(g, "[") > 0 && g[:strings.Index(g, "[")] == e[:strings.Index(e, "[")]:
			sig = "context-visible-to-hook"
		}
		fail(sig, fmt.Sprintf("target %s: call %d is %s, the documented protocol gives %s", t.Name, i, g, e))
	}
	if stopped == "filetype" && cls != "filetype" {
		fail("filetype-error-missing", fmt.Sprintf("target %s: empty or conflicting file type, but the run returned %q", t.Name, cls))
	}
	if stopped == "" {
		unknown := false
		for _, ft := range files {
			known := false
			for _, k := range cfg.FileTypes {
				if k == ft {
					known = true
				}
			}
			if !known {
				unknown = true
			}
		}
		if unknown && cls != "unknowntype" {
			fail("filetype-error-missing", fmt.Sprintf("target %s: unregistered file type, but the run returned %q", t.Name, cls))
		}
		// generators naming the same file contribute to one file, in generator order
		if !unknown && cls == "ok" && !cfg.Verify {
			for fname := range files {
				content, ok := post.files[filepath.Join(t.Dir, fname)]
				if !ok {
					fail("file-missing", fmt.Sprintf("target %s: file %s was not written", t.Name, fname))
					continue
				}
				// the contributed variable and constant lines are in the file as contributed, in generator order
				for _, blk := range []struct {
					kind  string
					lines func(g *ExecGen) []string
				}{{"variable", func(g *ExecGen) []string { return g.Vars }}, {"constant", func(g *ExecGen) []string { return g.Consts }}} {
					at := 0
					for _, g := range t.Gens {
						if g.Filename != fname {
							continue
						}
						for _, l := range blk.lines(g) {
							if strings.Contains(l, ExecFailMarker) {
								continue
							}
							p := strings.Index(content[at:], l+"\n")
							if p < 0 {
								fail("contribution-lost", fmt.Sprintf("target %s: file %s does not hold the contributed %s line %q (after the lines contributed before it)", t.Name, fname, blk.kind, l))
								break
							}
							at += p + len(l) + 1
						}
					}
				}
				pos := -1
				for _, g := range t.Gens {
					if g.Filename != fname {
						continue
					}
					if g.Silent {
						continue
					}
					p := strings.Index(content, ExecInitBytes(g.Name))
					if p < 0 || p < pos {
						fail("file-accumulation-order", fmt.Sprintf("target %s: file %s does not hold the generators' output in generator order", t.Name, fname))
					}
					pos = p
				}
			}
		}
	}
}

func targetFilesChanged(t *ExecTarget, pre, post diskSnap) []string {
	var changed []string
	for p, c := range post.files {
		if filepath.Dir(p) == filepath.Clean(t.Dir) || (t.Dir == "" && !strings.Contains(p, "/")) {
			if old, ok := pre.files[p]; !ok || old != c {
				changed = append(changed, p)
			}
		}
	}
	sort.Strings(changed)
	return changed
}

// C13: hook errors abort the target without writing; file errors are reported, others processed
func execOracleFailures(cfg *ExecConfig, t *ExecTarget, cls string, err error, pre, post diskSnap, fail func(sig, what string)) {
	hookFails := false
	for _, g := range t.Gens {
		if g.FileType == "" {
			break
		}
		if g.InitErr || g.FinErr {
			hookFails = true
			break
		}
		genOrder := intersectOrder(cfg.Order, t.Accept, g.Accept)
		for _, id := range genOrder {
			if ContainsInt(g.TypeErr, id) {
				hookFails = true
			}
		}
		if hookFails {
			break
		}
	}
	if cls == "mkdir" || cls == "filetype" || cls == "unknowntype" {
		return
	}
	if hookFails {
		if err == nil {
			fail("hook-error-swallowed", fmt.Sprintf("target %s: a generator hook returned an error but the run returned nil", t.Name))
		} else if !strings.Contains(err.Error(), ExecHookErr) {
			fail("hook-error-replaced", fmt.Sprintf("target %s: the run reports %q instead of the hook's error", t.Name, Trunc(err.Error(), 200)))
		}
		if ch := targetFilesChanged(t, pre, post); len(ch) > 0 {
			fail("files-written-after-hook-error", fmt.Sprintf("target %s: a hook failed but %v were written", t.Name, ch))
		}
		return
	}
	// no hook failure: every file is attempted; the bad ones are reported, the good ones written
	seen := map[string]bool{}
	for _, g := range t.Gens {
		if seen[g.Filename] {
			continue
		}
		seen[g.Filename] = true
		path := filepath.Join(t.Dir, g.Filename)
		isDir := false
		for _, d := range pre.dirs {
			if d == path {
				isDir = true
			}
		}
		// the directory the file goes to: the target's (created by the executor) or one the file name mentions (not created)
		parent := filepath.Dir(path)
		parentOK := parent == "." || contains(post.dirs, parent)
		marker := false
		for _, h := range t.Gens {
			if h.Filename == g.Filename {
				for _, v := range append(append([]string{}, h.Vars...), h.Consts...) {
					if strings.Contains(v, ExecFailMarker) {
						marker = true
					}
				}
			}
		}
		bad := isDir || !parentOK || marker
		named := err != nil && strings.Contains(err.Error(), g.Filename)
		if bad && !named {
			fail("file-error-swallowed", fmt.Sprintf("target %s: file %s cannot be created or formatted but the run returned %v", t.Name, g.Filename, err))
		}
		if !bad && !cfg.Verify {
			if _, ok := post.files[path]; !ok {
				fail("other-files-not-processed", fmt.Sprintf("target %s: file %s is fine but was not written (result %s)", t.Name, g.Filename, cls))
			}
		}
		if marker && !isDir && parentOK && !cfg.Verify {
			if c, ok := post.files[path]; !ok || !strings.Contains(c, ExecFailMarker) {
				fail("unformatted-file-not-left", fmt.Sprintf("target %s: file %s could not be formatted but its unformatted text is not on disk", t.Name, g.Filename))
			}
		}
	}
}

func contains(l []string, x string) bool {
	for _, y := range l {
		if x == y {
			return true
		}
	}
	return false
}

// C10: verify-only is a faithful, read-only comparison. `expected` holds what a generate run of the
// same target writes (obtained from the real code in a scratch directory).
func execOracleVerify(cfg *ExecConfig, t *ExecTarget, cls string, err error, pre, post diskSnap, expected map[string]string, genCls string, fail func(sig, what string)) {
	if !cfg.Verify {
		return
	}
	if pre.String() != post.String() {
		fail("verify-modified-disk", fmt.Sprintf("verify-only run changed the disk: before %s after %s", Trunc(pre.String(), 300), Trunc(post.String(), 300)))
	}
	if cls == "hook" || cls == "filetype" || cls == "unknowntype" || cls == "mkdir" || genCls == "hook" || genCls == "filetype" || genCls == "unknowntype" {
		return
	}
	var bad []string
	seen := map[string]bool{}
	for _, g := range t.Gens {
		if seen[g.Filename] {
			continue
		}
		seen[g.Filename] = true
		path := filepath.Join(t.Dir, g.Filename)
		exp, ok := expected[path]
		cur, have := pre.files[path]
		if !ok || strings.Contains(exp, ExecFailMarker) || !have || cur != exp {
			bad = append(bad, g.Filename)
		}
	}
	sort.Strings(bad)
	want := "ok"
	if len(bad) > 0 {
		want = "files:" + strings.Join(bad, ",")
	}
	if cls != want {
		sig := "verify-verdict"
		if cls != "ok" && want != "ok" {
			sig = "verify-names"
		}
		fail(sig, fmt.Sprintf("target %s: verify-only returned %q (%v); comparing the disk with a generate run gives %q", t.Name, cls, err, want))
	}
}

package common

import "hash/fnv"

// RNG is splitmix64; every random choice of a run derives from VERIF_SEED and a label.
type RNG struct{ s uint64 }

func NewRNG(seed int64, label string) *RNG {
	h := fnv.New64a()
	h.Write([]byte(label))
	return &RNG{s: uint64(seed)*0x9E3779B97F4A7C15 ^ h.Sum64()}
}

func (r *RNG) U64() uint64 {
	r.s += 0x9E3779B97F4A7C15
	z := r.s
	z = (z ^ (z >> 30)) * 0xBF58476D1CE4E5B9
	z = (z ^ (z >> 27)) * 0x94D049BB133111EB
	return z ^ (z >> 31)
}

func (r *RNG) Intn(n int) int {
	if n <= 0 {
		return 0
	}
	return int(r.U64() % uint64(n))
}

func (r *RNG) Bool() bool { return r.U64()&1 == 1 }

// Chance returns true with probability num/den.
func (r *RNG) Chance(num, den int) bool { return r.Intn(den) < num }

func (r *RNG) Pick(ss []string) string { return ss[r.Intn(len(ss))] }

// Fork derives an independent generator (so that adding draws in one place does not shift others).
func (r *RNG) Fork(label string) *RNG {
	h := fnv.New64a()
	h.Write([]byte(label))
	return &RNG{s: r.U64() ^ h.Sum64()}
}

func (r *RNG) Perm(n int) []int {
	p := make([]int, n)
	for i := range p {
		p[i] = i
	}
	for i := n - 1; i > 0; i-- {
		j := r.Intn(i + 1)
		p[i], p[j] = p[j], p[i]
	}
	return p
}

// Pick2 picks one of the given ints.
func (r *RNG) Pick2(xs ...int) int { return xs[r.Intn(len(xs))] }

package common

import (
	"fmt"
	"go/parser"
	"go/token"
	"path/filepath"
	"sort"
	"strconv"
	"strings"
)

// ---- C07: import tracker -----------------------------------------------------------------

type TrackerAPI interface {
	AddSymbol(pkg, name, path string)
	AddType(pkg, name string)
	ImportLines() []string
	LocalNameOf(path string) string
	PathOf(name string) (string, bool)
}

type TrackerImpl struct {
	New func(local string) TrackerAPI
	V2  bool
}

func trkSanitize(s string) string {
	var b strings.Builder
	for _, r := range s {
		if r != '_' && r != '.' && r != '-' {
			b.WriteRune(r)
		}
	}
	return b.String()
}

// suffix candidates of a path, shortest first, sanitised, keyword-prefixed (oracle's restatement)
func trkCandidates(path string) []string {
	dirs := strings.Split(path, "/")
	var out []string
	for n := len(dirs) - 1; n >= 0; n-- {
		c := trkSanitize(strings.Join(dirs[n:], ""))
		if token.IsKeyword(c) {
			c = "_" + c
		}
		out = append(out, c)
	}
	return out
}

func parseImportLine(l string) (alias, path string, ok bool) {
	i := strings.Index(l, " \"")
	if i < 0 || !strings.HasSuffix(l, "\"") || len(l) < i+3 {
		return "", "", false
	}
	return l[:i], l[i+2 : len(l)-1], true
}

func showPairs(m map[string]string) string {
	ks := SortedKeys(m)
	parts := make([]string, len(ks))
	for i, k := range ks {
		parts[i] = Hex(k) + "=" + Hex(m[k])
	}
	return strings.Join(parts, ";")
}

func importSpecOK(alias, path, line string) bool {
	src := "package p\nimport (\n" + line + "\n)\n"
	f, err := parser.ParseFile(token.NewFileSet(), "x.go", src, parser.ImportsOnly)
	if err != nil || len(f.Imports) != 1 {
		return false
	}
	im := f.Imports[0]
	return im.Name != nil && im.Name.Name == alias && im.Path.Value == strconv.Quote(path)
}

func TrackerProperty(impl TrackerImpl) Property {
	variant := "v1"
	if impl.V2 {
		variant = "v2"
	}
	exec := func(lines []string) ([]string, []Failure) {
		outs := make([]string, len(lines))
		var fails []Failure
		var tr TrackerAPI
		local := ""
		assigned := map[string]string{} // path -> first alias seen (stability)
		fail := func(sig, what string) { fails = append(fails, Failure{sig, what}) }
		state := func() (map[string]string, map[string]string) {
			p2n := map[string]string{}
			for _, l := range tr.ImportLines() {
				a, p, ok := parseImportLine(l)
				if !ok {
					fail("lines-bad-format", fmt.Sprintf("import line %q is not of the form alias \"path\"", l))
					continue
				}
				p2n[p] = a
			}
			n2p := map[string]string{}
			for _, n := range p2n {
				if p, ok := tr.PathOf(n); ok {
					n2p[n] = p
				}
			}
			return p2n, n2p
		}
		check := func() {
			p2n, n2p := state()
			linesNow := tr.ImportLines()
			// sorted by path, one per tracked path
			var paths []string
			for _, l := range linesNow {
				_, p, _ := parseImportLine(l)
				paths = append(paths, p)
			}
			if !sort.StringsAreSorted(paths) {
				fail("lines-unsorted", fmt.Sprintf("import lines not sorted by path: %q", linesNow))
			}
			if len(p2n) != len(linesNow) {
				fail("lines-duplicate-path", fmt.Sprintf("import lines name a path twice: %q", linesNow))
			}
			byName := map[string]string{}
			leaf := filepath.Base(local)
			for _, p := range SortedKeys(p2n) {
				n := p2n[p]
				if q, dup := byName[n]; dup {
					fail("alias-collision", fmt.Sprintf("packages %q and %q share the local name %q", q, p, n))
				}
				byName[n] = p
				if first, seen := assigned[p]; seen && first != n {
					fail("alias-unstable", fmt.Sprintf("package %q was %q and is now %q", p, first, n))
				}
				assigned[p] = n
				if p == local && local != "" {
					fail("local-imported", fmt.Sprintf("the output package %q is imported", local))
				}
				if !token.IsIdentifier(n) || n == "_" {
					cands := trkCandidates(p)
					isCand := false
					for _, c := range cands {
						if c == n {
							isCand = true
						}
					}
					switch {
					case n == "" && isCand:
						fail("alias-empty", fmt.Sprintf("package %q gets the empty local name (its leaf consists of '_', '.', '-' only)", p))
					case n != "" && n[0] >= '0' && n[0] <= '9' && isCand:
						fail("alias-digit-leading", fmt.Sprintf("package %q gets the local name %q, which is not an identifier (leaf starts with a digit)", p, n))
					default:
						fail("alias-invalid", fmt.Sprintf("package %q gets the local name %q, which is not a legal non-keyword identifier", p, n))
					}
				} else {
					if impl.V2 && n == leaf {
						fail("alias-equals-local-leaf", fmt.Sprintf("package %q gets the output package's own name %q", p, n))
					}
					for _, l := range linesNow {
						if a, q, _ := parseImportLine(l); q == p && !importSpecOK(a, q, l) {
							fail("lines-bad-spec", fmt.Sprintf("import line %q is not a valid import spec binding %q to %q", l, n, p))
						}
					}
				}
				if tr.LocalNameOf(p) != n {
					fail("lookup-not-inverse", fmt.Sprintf("LocalNameOf(%q)=%q but the import block binds %q", p, tr.LocalNameOf(p), n))
				}
				if q, ok := n2p[n]; !ok || q != p {
					fail("lookup-not-inverse", fmt.Sprintf("PathOf(%q)=%q,%v but LocalNameOf(%q)=%q", n, q, ok, p, n))
				}
			}
			// every path that was assigned a name is still tracked
			for p := range assigned {
				if _, ok := p2n[p]; !ok {
					fail("alias-unstable", fmt.Sprintf("package %q lost its local name", p))
				}
			}
		}
		for i, l := range lines {
			f := Fields(l)
			func() {
				defer func() {
					if r := recover(); r != nil {
						outs[i] = "panic"
						sig := "panic"
						if f[1] == "add" || f[1] == "addt" {
							// classify: were all candidates of the path unusable?
							pkg := Unhex(f[2])
							p2n, _ := state()
							used := map[string]bool{}
							for _, n := range p2n {
								used[n] = true
							}
							all, leafHit := true, false
							for _, c := range trkCandidates(pkg) {
								if impl.V2 && c == filepath.Base(local) {
									leafHit = true
									continue
								}
								if !used[c] {
									all = false
								}
							}
							if all && leafHit {
								sig = "exhausted-local-leaf"
							} else if all {
								sig = "exhausted"
							}
						}
						fail(sig, fmt.Sprintf("%s(%s) panics: %v", f[1], Readable(l), r))
					}
				}()
				switch f[1] {
				case "new":
					local = Unhex(f[3])
					tr = impl.New(local)
					assigned = map[string]string{}
					outs[i] = "ok"
				case "add", "addt":
					pkg := Unhex(f[2])
					if f[1] == "add" {
						tr.AddSymbol(pkg, "Sym", Unhex(f[3]))
					} else {
						tr.AddType(pkg, "Typ")
					}
					p2n, n2p := state()
					outs[i] = showPairs(p2n) + "|" + showPairs(n2p)
					check()
					// the package just added (its Path, when the symbol carries one) has a local name now
					added := pkg
					if f[1] == "add" && Unhex(f[3]) != "" {
						added = Unhex(f[3])
					}
					if _, tracked := p2n[added]; !tracked && pkg != "" && pkg != local && added != local {
						fail("added-package-not-tracked", fmt.Sprintf("%s returned, but package %q has no local name and no import line", Readable(l), added))
					}
				case "lines":
					outs[i] = HexList(tr.ImportLines())
				case "nameof":
					outs[i] = Hex(tr.LocalNameOf(Unhex(f[2])))
				case "pathof":
					p, ok := tr.PathOf(Unhex(f[2]))
					if ok {
						outs[i] = "1 " + Hex(p)
					} else {
						outs[i] = "0"
					}
				default:
					outs[i] = "bad-op"
				}
			}()
		}
		return outs, fails
	}
	return Property{Exec: exec, Gen: func(c *Ctx) { trackerGen(c, variant) }}
}

var trkPaths = []string{"a/b", "a/go", "b/go", "c/go", "a-b", "ab", "a.b", "a_b", "x/2fa", "x/_", "x/-.", "k8s.io/api/core/v1",
	"k8s.io/apimachinery/pkg/apis/meta/v1", "example.com/out/v1", "v1", "time", "x/time", "go/types", "a/b/c", "c", "b/c", "a/b-c",
	"a/bc", "type", "x/type", "y/type", "x/y/type", "func/x", "a/b_c", "x/a/b", "y/a/b", "a//b", "é/ü", "fmt", "a/v1", "b/v1", "c/v1", "core/v1", "api/core/v1"}
var trkLocals = []string{"", "", "example.com/out/v1", "a/b", "x/time", "go", "v1", "a/go", "x/b/"}
var trkSegs = []string{"a", "b", "c", "go", "type", "v1", "x-y", "x_y", "x.y", "xy", "2fa", "_", "api", "for", "core", "k8s.io"}

func trackerGen(c *Ctx, variant string) {
	mk := func(local string, ops [][2]string, typ []bool) []string {
		lines := []string{Line("trk", "new", variant, Hex(local))}
		for i, o := range ops {
			if typ != nil && typ[i] {
				lines = append(lines, Line("trk", "addt", Hex(o[0])))
			} else {
				lines = append(lines, Line("trk", "add", Hex(o[0]), Hex(o[1])))
			}
		}
		lines = append(lines, Line("trk", "lines"))
		return lines
	}
	sym := func(ps ...string) [][2]string {
		var o [][2]string
		for _, p := range ps {
			o = append(o, [2]string{p, ""})
		}
		return o
	}
	corpus := [][]string{
		mk("bar.com/pkg/foo", sym("bar.com/pkg/foo", "bar.com/pkg/baz", "bar.com/pkg/baz/baz"), nil),
		mk("", sym("a/go", "b/go"), nil),
		mk("", sym("a-b", "ab"), nil),
		mk("", sym("x/2fa", "x/_"), nil),
		mk("example.com/out/v1", sym("v1"), nil),
		mk("x/time", sym("time", "y/time"), nil),
		mk("", [][2]string{{"a/b", "vendor/a/b"}, {"a/b", "other/a/b"}, {"a/b", ""}}, nil),
	}
	for _, cs := range corpus {
		c.Case(cs, Meta{Nontrivial: true, Features: []string{"corpus"}})
	}
	r := c.RNG("gen")
	n := c.Scale(30000, 600000)
	for i := 0; i < n; i++ {
		local := r.Pick(trkLocals)
		k := 1 + r.Intn(6)
		ops := make([][2]string, k)
		typ := make([]bool, k)
		feats := []string{}
		for j := range ops {
			var p string
			if r.Chance(2, 3) {
				p = r.Pick(trkPaths)
			} else {
				ns := 1 + r.Intn(4)
				segs := make([]string, ns)
				for q := range segs {
					segs[q] = r.Pick(trkSegs)
				}
				p = strings.Join(segs, "/")
			}
			ops[j][0] = p
			if r.Chance(1, 25) {
				ops[j][1] = "vendor/" + p
				feats = append(feats, "path-field")
			}
			if r.Chance(1, 12) {
				ops[j][0] = ""
			}
			typ[j] = ops[j][1] == "" && r.Chance(1, 3)
		}
		lines := mk(local, ops, typ)
		if r.Chance(1, 3) {
			lines = append(lines, Line("trk", "nameof", Hex(ops[r.Intn(k)][0])), Line("trk", "pathof", Hex(trkSanitize(filepath.Base(ops[r.Intn(k)][0])))))
		}
		if local != "" {
			feats = append(feats, "local-set")
		}
		c.Case(lines, Meta{Nontrivial: k >= 2, Features: feats})
	}
	if c.Tier == "thorough" {
		// all sequences of length <= 4 over 8 colliding paths x 3 output packages
		alpha := []string{"a/go", "b/go", "a-b", "ab", "a/b", "x/a/b", "v1", "core/v1"}
		locals := []string{"", "out/v1", "a/b"}
		var rec func(seq []string)
		rec = func(seq []string) {
			if len(seq) > 0 {
				for _, loc := range locals {
					c.Case(mk(loc, sym(seq...), nil), Meta{Nontrivial: true, Features: []string{"exhaustive"}})
				}
			}
			if len(seq) == 4 {
				return
			}
			for _, a := range alpha {
				rec(append(seq[:len(seq):len(seq)], a))
			}
		}
		rec(nil)
	}
}

package common

// C16: deepcopy-gen output compiles and really deep-copies.
//
// A case is a generated program (package p, optionally a second package dep) over the property's fragment.
// The real deepcopy-gen (examples/deepcopy-gen/generators.Packages through args.GeneratorArgs.Execute, in a
// child process) generates zz_generated.deepcopy.go into it; a checker program is compiled together with the
// input and the generated file and, for random values of every generated type, compares the copy with the
// original by reflection (deep equality incl. nil versus empty, no shared storage, hand-written methods
// called).  The Lean model (Model/DeepCopy.lean) is driven with the same declarations and must emit the same
// method bodies; its theorems are about what those bodies do.

import (
	"fmt"
	"sort"
	"strings"
)

// ---- type expressions of the fragment ----

type DcTE struct {
	K    string // builtin, named, ptr, slice, map, array, empty (struct{})
	Name string // builtin: the Go name; named: the declared name (qualified "dep.X" for the other package)
	Len  int
	Key  *DcTE
	Elem *DcTE
}

func (t *DcTE) Go(cur string) string {
	switch t.K {
	case "builtin":
		return t.Name
	case "named":
		if strings.HasPrefix(t.Name, "dep.") && cur == "dep" {
			return strings.TrimPrefix(t.Name, "dep.")
		}
		return t.Name
	case "ptr":
		return "*" + t.Elem.Go(cur)
	case "slice":
		return "[]" + t.Elem.Go(cur)
	case "map":
		return "map[" + t.Key.Go(cur) + "]" + t.Elem.Go(cur)
	case "array":
		return fmt.Sprintf("[%d]%s", t.Len, t.Elem.Go(cur))
	case "empty":
		return "struct{}"
	}
	panic("bad te " + t.K)
}

// Enc is the protocol form: b:<name> n:<name> p(<e>) s(<e>) m(<k>,<e>) a<len>(<e>) e
func (t *DcTE) Enc() string {
	switch t.K {
	case "builtin":
		return "b:" + t.Name
	case "named":
		return "n:" + t.Name
	case "ptr":
		return "p(" + t.Elem.Enc() + ")"
	case "slice":
		return "s(" + t.Elem.Enc() + ")"
	case "map":
		return "m(" + t.Key.Enc() + "," + t.Elem.Enc() + ")"
	case "array":
		return fmt.Sprintf("a%d(%s)", t.Len, t.Elem.Enc())
	case "empty":
		return "e"
	}
	panic("bad te")
}

type DcField struct {
	Name     string
	Embedded bool
	T        *DcTE
}

type DcDecl struct {
	Pkg    string // "p" or "dep"
	Name   string // unqualified
	Kind   string // struct, alias, iface
	Fields []DcField
	Under  *DcTE
	// hand-written methods: "" none; "ptr" func (in *T) DeepCopy() *T + DeepCopyInto; "val" func (in T) DeepCopy() T;
	// "into" only func (in *T) DeepCopyInto(out *T)
	Custom   string
	Tag      string   // "", "true", "false": the type-level +k8s:deepcopy-gen tag
	Ifaces   []string // +k8s:deepcopy-gen:interfaces= (qualified names of interfaces of package p)
	Detached bool     // the tag is written in the block one blank line above the doc comment
}

func (d *DcDecl) QName() string {
	if d.Pkg == "dep" {
		return "dep." + d.Name
	}
	return d.Name
}

type DcProgram struct {
	MainPath string // import path of package p ("" = example.com/m/p): its directory name need not be "p"
	Decls    []*DcDecl
	PkgTag   map[string]bool // package -> has "+k8s:deepcopy-gen=package"
	HasDep   bool
	byName   map[string]*DcDecl
}

func (p *DcProgram) Main() string {
	if p.MainPath == "" {
		return "example.com/m/p"
	}
	return p.MainPath
}

func (p *DcProgram) decl(q string) *DcDecl {
	if p.byName == nil {
		p.byName = map[string]*DcDecl{}
		for _, d := range p.Decls {
			p.byName[d.QName()] = d
		}
	}
	return p.byName[q]
}

// ---- what gengo's predicates say about the fragment (oracle side, written from the Go spec's point of view) ----

// assignable: plain assignment copies everything (no reference anywhere inside)
func (p *DcProgram) assignable(t *DcTE, seen map[string]bool) bool {
	switch t.K {
	case "builtin", "empty":
		return true
	case "named":
		d := p.decl(t.Name)
		if d == nil || seen[t.Name] {
			return false
		}
		seen[t.Name] = true
		defer delete(seen, t.Name)
		switch d.Kind {
		case "alias":
			return p.assignable(d.Under, seen)
		case "struct":
			for _, f := range d.Fields {
				if !p.assignable(f.T, seen) {
					return false
				}
			}
			return true
		}
		return false
	case "array":
		return p.assignable(t.Elem, seen)
	}
	return false
}

// expectedGenerated: the types deepcopy-gen must generate methods for, by the documented tag semantics
func (p *DcProgram) ExpectedGenerated() []string {
	var out []string
	for _, d := range p.Decls {
		if d.Kind == "iface" {
			continue
		}
		if d.Kind == "alias" && d.Under.K == "builtin" && d.Custom == "" {
			continue // a defined type over a builtin is copied by assignment; nothing to generate
		}
		if d.Kind == "alias" && d.Under.K == "ptr" {
			continue // Go allows no methods on a defined pointer type
		}
		enabled := p.PkgTag[d.Pkg] && d.Tag != "false" || !p.PkgTag[d.Pkg] && d.Tag == "true"
		if enabled {
			out = append(out, d.QName())
		}
	}
	sort.Strings(out)
	return out
}

// ---- program generator ----

type dcGen struct {
	r      *RNG
	prog   *DcProgram
	n      int
	feats  map[string]bool
	arrays bool // allow arrays of references (known finding F18 / fixed)
	plain  bool // only builtins and named structs by value: a universe with (almost) no anonymous types
}

var dcBuiltins = []string{"int", "string", "bool", "float64", "byte", "int64", "uint32"}

func (g *dcGen) pickNamed(cur string, want func(*DcDecl) bool) *DcTE {
	var c []*DcDecl
	for _, d := range g.prog.Decls {
		if (cur == "p" || d.Pkg == "dep") && want(d) {
			c = append(c, d)
		}
	}
	if len(c) == 0 {
		return nil
	}
	d := c[g.r.Intn(len(c))]
	if d.Pkg == "dep" && cur == "p" {
		g.feats["cross-package"] = true
	}
	return &DcTE{K: "named", Name: d.QName()}
}

func (g *dcGen) builtin() *DcTE { return &DcTE{K: "builtin", Name: g.r.Pick(dcBuiltins)} }

// te generates a type expression for a position: "field", "ptr", "slice", "map", "array"
func (g *dcGen) te(cur, pos string, depth int) *DcTE {
	r := g.r
	isStruct := func(d *DcDecl) bool { return d.Kind == "struct" && d.Custom == "" && d.Tag != "false" }
	isCustom := func(d *DcDecl) bool { return d.Custom != "" }
	isIface := func(d *DcDecl) bool { return d.Kind == "iface" }
	isAliasB := func(d *DcDecl) bool { return d.Kind == "alias" && d.Under.K == "builtin" && d.Custom == "" }
	isAliasRef := func(d *DcDecl) bool {
		return d.Kind == "alias" && (d.Under.K == "map" || d.Under.K == "slice" || d.Under.K == "ptr") && d.Custom == "" && d.Tag != "false"
	}
	if g.plain {
		if r.Chance(1, 3) {
			if t := g.pickNamed(cur, isStruct); t != nil {
				return t
			}
		}
		return g.builtin()
	}
	if (pos == "map" || pos == "slice" || (pos == "array" && g.arrays)) && cur == "p" && r.Chance(2, 3) {
		// elements of interface type: map values, slice and array elements (each has a branch of its own in the generator)
		if t := g.pickNamed(cur, isIface); t != nil {
			g.feats["interface-element:"+pos] = true
			return t
		}
	}
	for try := 0; try < 20; try++ {
		k := r.Intn(14)
		if depth <= 0 && k >= 2 && k <= 5 {
			k = 0
		}
		switch k {
		case 0, 1:
			return g.builtin()
		case 2:
			if pos == "array" && !g.arrays {
				continue
			}
			g.feats["pointer"] = true
			return &DcTE{K: "ptr", Elem: g.te(cur, "ptr", depth-1)}
		case 3:
			if pos == "array" && !g.arrays {
				continue
			}
			g.feats["slice"] = true
			return &DcTE{K: "slice", Elem: g.te(cur, "slice", depth-1)}
		case 4:
			if pos == "array" && !g.arrays {
				continue
			}
			g.feats["map"] = true
			key := &DcTE{K: "builtin", Name: r.Pick([]string{"string", "int", "int64"})}
			if r.Chance(1, 5) {
				if a := g.pickNamed(cur, isAliasB); a != nil && g.prog.decl(a.Name).Under.Name != "bool" && g.prog.decl(a.Name).Under.Name != "float64" {
					key = a
					g.feats["map-key-defined-type"] = true
				}
			}
			return &DcTE{K: "map", Key: key, Elem: g.te(cur, "map", depth-1)}
		case 5:
			if pos != "field" {
				continue // arrays are only supported as struct fields
			}
			g.feats["array"] = true
			return &DcTE{K: "array", Len: 1 + r.Intn(3), Elem: g.te(cur, "array", depth-1)}
		case 6, 7:
			if pos == "array" && !g.arrays {
				if t := g.pickNamed(cur, func(d *DcDecl) bool {
					return isStruct(d) && g.prog.assignable(&DcTE{K: "named", Name: d.QName()}, map[string]bool{})
				}); t != nil {
					return t
				}
				continue
			}
			if t := g.pickNamed(cur, isStruct); t != nil {
				g.feats["named-struct"] = true
				return t
			}
		case 8:
			if pos == "ptr" || (pos == "array" && !g.arrays) {
				continue // a pointer to an interface is not supported by the generator
			}
			if t := g.pickNamed(cur, isIface); t != nil && cur == "p" {
				g.feats["interface-field"] = true
				return t
			}
		case 9:
			if pos == "array" && !g.arrays {
				continue
			}
			if t := g.pickNamed(cur, isCustom); t != nil {
				g.feats["hand-written-methods:"+g.prog.decl(t.Name).Custom] = true
				return t
			}
		case 10:
			if t := g.pickNamed(cur, isAliasB); t != nil {
				g.feats["defined-over-builtin"] = true
				return t
			}
		case 11:
			if pos == "array" && !g.arrays {
				continue
			}
			if t := g.pickNamed(cur, isAliasRef); t != nil {
				g.feats["defined-over-map-or-slice"] = true
				return t
			}
		case 12:
			if pos == "map" || pos == "field" {
				g.feats["empty-struct"] = true
				return &DcTE{K: "empty"}
			}
		}
	}
	return g.builtin()
}

func (g *dcGen) name(prefix string) string { g.n++; return fmt.Sprintf("%s%d", prefix, g.n) }

func (g *dcGen) add(d *DcDecl) { g.prog.Decls = append(g.prog.Decls, d); g.prog.byName = nil }

func (g *dcGen) pkg(cur string, ndecl int) {
	r := g.r
	for i := 0; i < ndecl; i++ {
		switch k := r.Intn(12); {
		case k < 6:
			d := &DcDecl{Pkg: cur, Name: g.name("S"), Kind: "struct"}
			for fi, nf := 0, r.Intn(5); fi < nf; fi++ {
				d.Fields = append(d.Fields, DcField{Name: fmt.Sprintf("F%d", fi), T: g.te(cur, "field", 2)})
			}
			if r.Chance(1, 4) {
				// embedded struct (by value or by pointer)
				if t := g.pickNamed(cur, func(x *DcDecl) bool { return x.Kind == "struct" && x.Custom == "" && x.Tag != "false" }); t != nil {
					base := t.Name[strings.LastIndex(t.Name, ".")+1:]
					ft := t
					if r.Bool() {
						ft = &DcTE{K: "ptr", Elem: t}
					}
					d.Fields = append(d.Fields, DcField{Name: base, Embedded: true, T: ft})
					g.feats["embedded-field"] = true
				}
			}
			if r.Chance(1, 4) {
				self := &DcTE{K: "named", Name: d.QName()}
				d.Fields = append(d.Fields, DcField{Name: "Next", T: &DcTE{K: "ptr", Elem: self}}, DcField{Name: "Kids", T: &DcTE{K: "slice", Elem: self}})
				if r.Bool() {
					d.Fields = append(d.Fields, DcField{Name: "ByName", T: &DcTE{K: "map", Key: &DcTE{K: "builtin", Name: "string"}, Elem: self}})
				}
				g.feats["recursive-type"] = true
			}
			if r.Chance(1, 8) {
				d.Fields = append(d.Fields, DcField{Name: "hidden", T: g.builtin()})
			}
			if g.arrays && !g.plain && r.Chance(1, 6) {
				// an array whose elements hold references: the struct is not assignable although every member is a "value"
				el := &DcTE{K: r.Pick([]string{"ptr", "slice"}), Elem: g.builtin()}
				d.Fields = append(d.Fields, DcField{Name: "Refs", T: &DcTE{K: "array", Len: 1 + r.Intn(2), Elem: el}})
				g.feats["array-of-references"] = true
			}
			g.add(d)
		case k == 6:
			g.add(&DcDecl{Pkg: cur, Name: g.name("B"), Kind: "alias", Under: &DcTE{K: "builtin", Name: r.Pick(dcBuiltins)}})
		case k == 7 || k == 8:
			var u *DcTE
			switch r.Intn(5) {
			case 0, 1:
				u = &DcTE{K: "map", Key: &DcTE{K: "builtin", Name: "string"}, Elem: g.te(cur, "map", 1)}
			case 2, 3:
				u = &DcTE{K: "slice", Elem: g.te(cur, "slice", 1)}
			default:
				// a defined type over a pointer: Go allows no methods on it
				u = &DcTE{K: "ptr", Elem: g.te(cur, "ptr", 1)}
				g.feats["defined-over-pointer"] = true
			}
			g.add(&DcDecl{Pkg: cur, Name: g.name("A"), Kind: "alias", Under: u})
			g.feats["top-level-defined-type"] = true
		case k == 9:
			// a defined type over a named struct: gets its own methods
			if t := g.pickNamed(cur, func(x *DcDecl) bool { return x.Kind == "struct" && x.Custom == "" }); t != nil {
				g.add(&DcDecl{Pkg: cur, Name: g.name("T"), Kind: "alias", Under: t})
				g.feats["defined-over-named-struct"] = true
			}
		case k == 10 && len(g.prog.Decls)%3 == 2:
			// a defined type over a builtin with hand-written methods (a handle, a counter): assignment is not its copy
			h := &DcDecl{Pkg: cur, Name: g.name("H"), Kind: "alias", Under: &DcTE{K: "builtin", Name: "uint32"}, Custom: "ptr"} // both methods: with DeepCopy alone the generator would call a DeepCopyInto nobody writes (it generates none for a defined builtin) – outside the accepted inputs
			g.add(h)
			g.feats["hand-written-methods-on-defined-builtin"] = true
			// … and its owner: the handle as a member, as slice element and as map value
			ref := func() *DcTE { return &DcTE{K: "named", Name: h.QName()} }
			g.add(&DcDecl{Pkg: cur, Name: g.name("S"), Kind: "struct", Fields: []DcField{{Name: "Main", T: ref()},
				{Name: "Others", T: &DcTE{K: "slice", Elem: ref()}}, {Name: "Named", T: &DcTE{K: "map", Key: &DcTE{K: "builtin", Name: "string"}, Elem: ref()}}}})
		case k == 10:
			d := &DcDecl{Pkg: cur, Name: g.name("C"), Kind: "struct", Custom: r.Pick([]string{"ptr", "val", "into"}),
				Fields: []DcField{{Name: "P", T: &DcTE{K: "ptr", Elem: &DcTE{K: "builtin", Name: "int"}}}, {Name: "L", T: &DcTE{K: "slice", Elem: &DcTE{K: "builtin", Name: "string"}}}}}
			g.add(d)
		case k == 11 && cur == "p":
			in := &DcDecl{Pkg: cur, Name: g.name("I"), Kind: "iface"}
			g.add(in)
			// implementations (pointer receivers), declared right away
			for j, m := 0, 1+r.Intn(2); j < m; j++ {
				impl := &DcDecl{Pkg: cur, Name: g.name("Impl"), Kind: "struct", Ifaces: []string{in.Name},
					Fields: []DcField{{Name: "V", T: g.builtin()}, {Name: "Q", T: &DcTE{K: "ptr", Elem: g.builtin()}}}}
				g.add(impl)
			}
			g.feats["interface"] = true
		}
	}
}

// GenDcProgram: forcePlain (optional) asks for the "plain universe" shape with the main package under a path that sorts
// after its dependency although its name sorts before: every eighth program of a run has it, whatever the dice say
func GenDcProgram(r *RNG, arrays bool, forcePlain ...bool) (*DcProgram, []string) {
	g := &dcGen{r: r, prog: &DcProgram{PkgTag: map[string]bool{}}, feats: map[string]bool{}, arrays: arrays}
	forced := len(forcePlain) > 0 && forcePlain[0]
	if r.Chance(1, 6) || forced {
		// many plain types in the first package, few in the second, hardly any anonymous type in the universe
		g.plain = true
		g.feats["plain-universe"] = true
	}
	if g.plain || r.Chance(1, 3) {
		g.prog.HasDep = true
		g.prog.PkgTag["dep"] = true
		if g.plain {
			g.pkg("dep", 8+r.Intn(5))
		} else {
			g.pkg("dep", 1+r.Intn(6))
		}
		if r.Bool() || forced {
			// the package processed first (by import path) has the names that sort last (by directory name)
			g.prog.MainPath = "example.com/m/z/app"
			g.feats["path-order-differs-from-name-order"] = true
		}
	}
	g.prog.PkgTag["p"] = r.Chance(3, 4)
	if g.plain {
		g.pkg("p", 2+r.Intn(2))
	} else {
		g.pkg("p", 2+r.Intn(6))
	}
	// tags
	if g.prog.PkgTag["p"] {
		g.feats["package-tag"] = true
		// opt out types nobody refers to (a referenced type without methods would not compile: outside the accepted inputs)
		used := map[string]bool{}
		var mark func(t *DcTE)
		mark = func(t *DcTE) {
			if t == nil {
				return
			}
			if t.K == "named" {
				used[t.Name] = true
			}
			mark(t.Elem)
			mark(t.Key)
		}
		for _, d := range g.prog.Decls {
			for _, f := range d.Fields {
				mark(f.T)
			}
			mark(d.Under)
		}
		for _, d := range g.prog.Decls {
			if d.Pkg == "p" && d.Kind != "iface" && !used[d.QName()] && len(d.Ifaces) == 0 && r.Chance(1, 4) {
				d.Tag = "false"
				d.Detached = r.Bool()
				g.feats["type-opt-out"] = true
			}
		}
	} else {
		g.feats["type-opt-in"] = true
		// opt in a random set, closed under reference (what a tagged type refers to needs its own methods)
		need := map[string]bool{}
		for _, d := range g.prog.Decls {
			if d.Pkg == "p" && d.Kind != "iface" && r.Bool() {
				need[d.QName()] = true
			}
		}
		for changed := true; changed; {
			changed = false
			var mark func(t *DcTE)
			mark = func(t *DcTE) {
				if t == nil {
					return
				}
				if t.K == "named" && !need[t.Name] {
					need[t.Name] = true
					changed = true
				}
				mark(t.Elem)
				mark(t.Key)
			}
			for _, d := range g.prog.Decls {
				if need[d.QName()] {
					for _, f := range d.Fields {
						mark(f.T)
					}
					mark(d.Under)
				}
				// implementations of a needed interface must be copyable
				for _, in := range d.Ifaces {
					if need[in] && !need[d.QName()] {
						need[d.QName()] = true
						changed = true
					}
				}
			}
		}
		for _, d := range g.prog.Decls {
			if d.Pkg == "p" && need[d.QName()] && d.Kind != "iface" && !(d.Kind == "alias" && (d.Under.K == "builtin" || d.Under.K == "ptr")) {
				d.Tag = "true"
				d.Detached = r.Chance(1, 3)
			}
		}
	}
	return g.prog, SortedKeys(g.feats)
}

// ---- source rendering ----

func (p *DcProgram) Source(pkg string) map[string]string {
	files := map[string]string{}
	var b strings.Builder
	clause := pkg
	if pkg == "p" {
		clause = p.Main()[strings.LastIndex(p.Main(), "/")+1:] // deepcopy-gen names the package after its directory
	}
	fmt.Fprintf(&b, "package %s\n\n", clause)
	if pkg == "p" && p.HasDep {
		uses := false
		for _, d := range p.Decls {
			if d.Pkg == "p" && strings.Contains(declSource(d, "p", p.Main()), "dep.") {
				uses = true
			}
		}
		if uses {
			b.WriteString("import \"example.com/m/dep\"\n\n")
		}
	}
	if pkg == "p" {
		b.WriteString("// CustomCalls counts the calls of hand-written deep-copy methods.\nvar CustomCalls int\n\n")
	} else {
		b.WriteString("// CustomCalls counts the calls of hand-written deep-copy methods.\nvar CustomCalls int\n\n")
	}
	for _, d := range p.Decls {
		if d.Pkg == pkg {
			b.WriteString(declSource(d, pkg, p.Main()))
		}
	}
	files["types.go"] = b.String()
	doc := ""
	if p.PkgTag[pkg] {
		doc = "// +k8s:deepcopy-gen=package\n\n"
	}
	files["doc.go"] = doc + "// Package " + clause + " is generated.\npackage " + clause + "\n"
	return files
}

func declSource(d *DcDecl, cur string, mainPath string) string {
	var b strings.Builder
	var tags []string
	if d.Tag != "" {
		tags = append(tags, "// +k8s:deepcopy-gen="+d.Tag)
	}
	if len(d.Ifaces) > 0 {
		var q []string
		for _, i := range d.Ifaces {
			q = append(q, mainPath+"."+i)
		}
		if (len(d.Name)+len(d.Ifaces)+len(d.Fields))%2 == 0 {
			// an empty value is skipped, and the values after it still count
			tags = append(tags, "// +k8s:deepcopy-gen:interfaces=")
		}
		tags = append(tags, "// +k8s:deepcopy-gen:interfaces="+strings.Join(q, ","))
	}
	if d.Detached && len(tags) > 0 {
		b.WriteString(strings.Join(tags, "\n") + "\n\n")
		tags = nil
	}
	fmt.Fprintf(&b, "// %s is generated.\n", d.Name)
	for _, t := range tags {
		b.WriteString(t + "\n")
	}
	switch d.Kind {
	case "struct":
		fmt.Fprintf(&b, "type %s struct {\n", d.Name)
		for _, f := range d.Fields {
			if f.Embedded {
				fmt.Fprintf(&b, "\t%s\n", f.T.Go(cur))
			} else {
				fmt.Fprintf(&b, "\t%s %s\n", f.Name, f.T.Go(cur))
			}
		}
		b.WriteString("}\n\n")
	case "alias":
		fmt.Fprintf(&b, "type %s %s\n\n", d.Name, d.Under.Go(cur))
	case "iface":
		fmt.Fprintf(&b, "type %s interface {\n\tDeepCopy%s() %s\n}\n\n", d.Name, d.Name, d.Name)
	}
	n := d.Name
	body := "\tCustomCalls++\n\t*out = *in\n\tif in.P != nil {\n\t\tx := *in.P\n\t\tout.P = &x\n\t}\n\tif in.L != nil {\n\t\tout.L = append([]string{}, in.L...)\n\t}\n"
	if d.Kind == "alias" {
		body = "\tCustomCalls++\n\t*out = *in\n"
	}
	switch d.Custom {
	case "ptr":
		fmt.Fprintf(&b, "func (in *%s) DeepCopyInto(out *%s) {\n%s}\n\nfunc (in *%s) DeepCopy() *%s {\n\tif in == nil {\n\t\treturn nil\n\t}\n\tout := new(%s)\n\tin.DeepCopyInto(out)\n\treturn out\n}\n\n", n, n, body, n, n, n)
	case "into":
		fmt.Fprintf(&b, "func (in *%s) DeepCopyInto(out *%s) {\n%s}\n\n", n, n, body)
	case "val":
		fmt.Fprintf(&b, "func (in %s) DeepCopy() %s {\n\tvar o %s\n\tout := &o\n\t{\n\t\tin := &in\n%s\t}\n\treturn o\n}\n\n", n, n, n, strings.ReplaceAll(body, "\n\t", "\n\t\t"))
	}
	return b.String()
}

// CheckerSource is the program compiled with the input and the generated code
func (p *DcProgram) CheckerSource(generated []string, seed int64, rounds int) string {
	var b strings.Builder
	b.WriteString("package main\n\nimport (\n\t\"fmt\"\n\t\"math/rand\"\n\t\"reflect\"\n\t\"strings\"\n\n\tp \"" + p.Main() + "\"\n")
	if p.HasDep {
		b.WriteString("\t\"example.com/m/dep\"\n")
	}
	b.WriteString(")\n\nvar generated = []interface{}{\n")
	for _, q := range generated {
		if strings.HasPrefix(q, "dep.") {
			fmt.Fprintf(&b, "\tnew(%s),\n", q)
		} else {
			fmt.Fprintf(&b, "\tnew(p.%s),\n", q)
		}
	}
	b.WriteString("}\n\nvar impls = map[reflect.Type][]reflect.Type{\n")
	for _, d := range p.Decls {
		if d.Kind == "iface" {
			fmt.Fprintf(&b, "\treflect.TypeOf((*p.%s)(nil)).Elem(): {", d.Name)
			for _, x := range p.Decls {
				for _, i := range x.Ifaces {
					if i == d.Name {
						fmt.Fprintf(&b, "reflect.TypeOf(p.%s{}), ", x.Name)
					}
				}
			}
			b.WriteString("},\n")
		}
	}
	b.WriteString("}\n\nvar custom = map[reflect.Type]bool{\n")
	for _, d := range p.Decls {
		if d.Custom != "" {
			q := "p." + d.Name
			if d.Pkg == "dep" {
				q = "dep." + d.Name
			}
			fmt.Fprintf(&b, "\treflect.TypeOf((*%s)(nil)).Elem(): true,\n", q)
		}
	}
	fmt.Fprintf(&b, "}\n\nfunc customCalls() int { return p.CustomCalls%s }\n\nconst seed, rounds = %d, %d\n", map[bool]string{true: " + dep.CustomCalls", false: ""}[p.HasDep], seed, rounds)
	if !p.HasDep {
		// keep the import list stable
	}
	b.WriteString(dcCheckerBody)
	return b.String()
}

const dcCheckerBody = `
func fill(r *rand.Rand, v reflect.Value, depth int) {
	if !v.CanSet() {
		return
	}
	switch v.Kind() {
	case reflect.Bool:
		v.SetBool(r.Intn(2) == 0)
	case reflect.Int, reflect.Int8, reflect.Int16, reflect.Int32, reflect.Int64:
		v.SetInt(int64(r.Intn(100)))
	case reflect.Uint, reflect.Uint8, reflect.Uint16, reflect.Uint32, reflect.Uint64:
		v.SetUint(uint64(r.Intn(100)))
	case reflect.Float32, reflect.Float64:
		v.SetFloat(float64(r.Intn(100)) / 4)
	case reflect.String:
		v.SetString(fmt.Sprintf("s%d", r.Intn(100)))
	case reflect.Ptr:
		if depth <= 0 || r.Intn(4) == 0 {
			return
		}
		n := reflect.New(v.Type().Elem())
		fill(r, n.Elem(), depth-1)
		v.Set(n)
	case reflect.Slice:
		switch k := r.Intn(5); {
		case k == 0 || depth <= 0:
			return
		case k == 1:
			v.Set(reflect.MakeSlice(v.Type(), 0, 0))
		default:
			n := 1 + r.Intn(3)
			s := reflect.MakeSlice(v.Type(), n, n+r.Intn(2))
			for i := 0; i < n; i++ {
				fill(r, s.Index(i), depth-1)
			}
			v.Set(s)
		}
	case reflect.Map:
		switch k := r.Intn(5); {
		case k == 0 || depth <= 0:
			return
		case k == 1:
			v.Set(reflect.MakeMap(v.Type()))
		default:
			m := reflect.MakeMap(v.Type())
			for i, n := 0, 1+r.Intn(3); i < n; i++ {
				k := reflect.New(v.Type().Key()).Elem()
				fill(r, k, depth-1)
				e := reflect.New(v.Type().Elem()).Elem()
				if r.Intn(4) != 0 {
					fill(r, e, depth-1)
				}
				m.SetMapIndex(k, e)
			}
			v.Set(m)
		}
	case reflect.Array:
		for i := 0; i < v.Len(); i++ {
			fill(r, v.Index(i), depth-1)
		}
	case reflect.Struct:
		for i := 0; i < v.NumField(); i++ {
			fill(r, v.Field(i), depth-1)
		}
	case reflect.Interface:
		ts := impls[v.Type()]
		if len(ts) == 0 || depth <= 0 || r.Intn(4) == 0 {
			return
		}
		n := reflect.New(ts[r.Intn(len(ts))])
		fill(r, n.Elem(), depth-1)
		v.Set(n)
	}
}

// storage collects the addresses of all mutable storage reachable from v, with the path leading there
func storage(v reflect.Value, path string, out map[uintptr]string, ncustom *int) {
	if v.IsValid() && v.Kind() != reflect.Ptr && v.Kind() != reflect.Interface && custom[v.Type()] {
		*ncustom++
	}
	switch v.Kind() {
	case reflect.Ptr:
		if v.IsNil() {
			return
		}
		if v.Type().Elem().Size() > 0 {
			out[v.Pointer()] = path + "*"
		}
		storage(v.Elem(), path+"*", out, ncustom)
	case reflect.Slice:
		if v.IsNil() {
			return
		}
		if v.Cap() > 0 && v.Type().Elem().Size() > 0 {
			out[v.Pointer()] = path + "[]"
		}
		for i := 0; i < v.Len(); i++ {
			storage(v.Index(i), path+"[]", out, ncustom)
		}
	case reflect.Map:
		if v.IsNil() {
			return
		}
		out[v.Pointer()] = path + "[map]"
		for _, k := range v.MapKeys() {
			storage(v.MapIndex(k), path+"[map]", out, ncustom)
		}
	case reflect.Array:
		for i := 0; i < v.Len(); i++ {
			storage(v.Index(i), path+"[array]", out, ncustom)
		}
	case reflect.Struct:
		for i := 0; i < v.NumField(); i++ {
			storage(v.Field(i), path+"."+v.Type().Field(i).Name, out, ncustom)
		}
	case reflect.Interface:
		if !v.IsNil() {
			storage(v.Elem(), path+"(iface)", out, ncustom)
		}
	}
}

func main() {
	r := rand.New(rand.NewSource(seed))
	for _, g := range generated {
		t := reflect.TypeOf(g).Elem()
		failed := map[string]bool{}
		for i := 0; i < rounds; i++ {
			orig := reflect.New(t)
			fill(r, orig.Elem(), 4)
			var cp reflect.Value
			before := customCalls()
			func() {
				defer func() {
					if e := recover(); e != nil && !failed["panic"] {
						failed["panic"] = true
						fmt.Printf("FAIL %s panic %v on %#v\n", t.Name(), e, orig.Elem().Interface())
					}
				}()
				m := orig.MethodByName("DeepCopy")
				if !m.IsValid() {
					if !failed["nomethod"] {
						failed["nomethod"] = true
						fmt.Printf("FAIL %s no-DeepCopy-method\n", t.Name())
					}
					return
				}
				out := m.Call(nil)[0]
				if out.Kind() == reflect.Ptr && out.Type().Elem() == t {
					cp = out.Elem()
				} else {
					cp = out
				}
			}()
			if !cp.IsValid() {
				continue
			}
			if !reflect.DeepEqual(orig.Elem().Interface(), cp.Interface()) && !failed["equal"] {
				failed["equal"] = true
				fmt.Printf("FAIL %s not-equal original %#v copy %#v\n", t.Name(), orig.Elem().Interface(), cp.Interface())
			}
			a, b := map[uintptr]string{}, map[uintptr]string{}
			na, nb := 0, 0
			storage(orig.Elem(), "", a, &na)
			storage(cp, "", b, &nb)
			for addr, path := range a {
				if _, ok := b[addr]; ok && !failed["shared"+path] {
					failed["shared"+path] = true
					kind := "shared"
					if strings.Contains(path, "[array]") {
						kind = "shared-through-array"
					}
					fmt.Printf("FAIL %s %s the copy shares storage with the original at %s%s (value %#v)\n", t.Name(), kind, t.Name(), path, orig.Elem().Interface())
				}
			}
			// hand-written methods are called, once per value of such a type in the original
			top := 0
			if custom[t] {
				top = 1 // the method under test is the hand-written one itself when t has a hand-written DeepCopy; count it
			}
			_ = top
			if calls := customCalls() - before; na > 0 && calls < na && !failed["custom"] {
				failed["custom"] = true
				fmt.Printf("FAIL %s custom-not-called %d values of types with hand-written methods, %d calls\n", t.Name(), na, calls)
			}
		}
		fmt.Printf("DONE %s\n", t.Name())
	}
}
`

// ---- the property ----

type DcImpl struct {
	// Generate writes the program under a scratch GOPATH, runs the real deepcopy-gen (child process) and returns
	// the root; gen maps package -> generated file content ("" if none); err: the tool failed
	Generate func(files map[string]map[string]string, pkgs []string) (root string, gen map[string]string, toolOut string, err error)
	// RunChecker compiles and runs the checker program in that GOPATH and returns its combined output
	RunChecker func(root, src string) (out string, compileErr string, err error)
	Cleanup    func(root string)
}

func DcEncodeDecl(d *DcDecl) string {
	var fs []string
	for _, f := range d.Fields {
		e := "0"
		if f.Embedded {
			e = "1"
		}
		fs = append(fs, f.Name+":"+e+":"+f.T.Enc())
	}
	under := "-"
	if d.Under != nil {
		under = d.Under.Enc()
	}
	custom, tag := d.Custom, d.Tag
	if custom == "" {
		custom = "-"
	}
	if tag == "" {
		tag = "-"
	}
	det := "0"
	if d.Detached {
		det = "1"
	}
	return Line("dc", "decl", d.Pkg, d.Name, d.Kind, ListOr(fs, ";"), under, custom, tag, ListOr(d.Ifaces, ","), det)
}

func ListOr(l []string, sep string) string {
	if len(l) == 0 {
		return "-"
	}
	return strings.Join(l, sep)
}

// methodBodies extracts "Type.Method" -> whitespace-free body from a generated file
func DcMethodBodies(src string) map[string]string {
	out := map[string]string{}
	lines := strings.Split(src, "\n")
	for i := 0; i < len(lines); i++ {
		l := lines[i]
		if !strings.HasPrefix(l, "func (in ") {
			continue
		}
		recv := l[len("func (in "):strings.Index(l, ")")]
		recv = strings.TrimPrefix(recv, "*")
		rest := l[strings.Index(l, ")")+2:]
		name := rest[:strings.Index(rest, "(")]
		var body []string
		body = append(body, l)
		for i++; i < len(lines) && lines[i] != "}"; i++ {
			body = append(body, lines[i])
		}
		body = append(body, "}")
		out[recv+"."+name] = strings.Join(strings.Fields(strings.Join(body, " ")), "")
	}
	return out
}

// ---- decoding (replay) ----

func dcParseTE(s string) (*DcTE, string) {
	switch {
	case strings.HasPrefix(s, "b:"), strings.HasPrefix(s, "n:"):
		i := strings.IndexAny(s[2:], ",)")
		if i < 0 {
			i = len(s) - 2
		}
		k := "builtin"
		if s[0] == 'n' {
			k = "named"
		}
		return &DcTE{K: k, Name: s[2 : 2+i]}, s[2+i:]
	case strings.HasPrefix(s, "p("), strings.HasPrefix(s, "s("):
		e, rest := dcParseTE(s[2:])
		k := "ptr"
		if s[0] == 's' {
			k = "slice"
		}
		return &DcTE{K: k, Elem: e}, rest[1:]
	case strings.HasPrefix(s, "m("):
		k, rest := dcParseTE(s[2:])
		e, rest2 := dcParseTE(rest[1:])
		return &DcTE{K: "map", Key: k, Elem: e}, rest2[1:]
	case strings.HasPrefix(s, "a"):
		i := strings.Index(s, "(")
		n := 0
		fmt.Sscan(s[1:i], &n)
		e, rest := dcParseTE(s[i+1:])
		return &DcTE{K: "array", Len: n, Elem: e}, rest[1:]
	case strings.HasPrefix(s, "e"):
		return &DcTE{K: "empty"}, s[1:]
	}
	panic("bad type expression " + s)
}

func dcDecodeDecl(f []string) *DcDecl {
	d := &DcDecl{Pkg: f[2], Name: f[3], Kind: f[4]}
	if f[5] != "-" {
		for _, fs := range strings.Split(f[5], ";") {
			p := strings.SplitN(fs, ":", 3)
			t, _ := dcParseTE(p[2])
			d.Fields = append(d.Fields, DcField{Name: p[0], Embedded: p[1] == "1", T: t})
		}
	}
	if f[6] != "-" {
		d.Under, _ = dcParseTE(f[6])
	}
	if f[7] != "-" {
		d.Custom = f[7]
	}
	if f[8] != "-" {
		d.Tag = f[8]
	}
	if f[9] != "-" {
		d.Ifaces = strings.Split(f[9], ",")
	}
	d.Detached = f[10] == "1"
	return d
}

func DeepCopyProperty(impl DcImpl) Property {
	exec := func(lines []string) ([]string, []Failure) {
		outs := make([]string, len(lines))
		for i := range outs {
			outs[i] = "ok"
		}
		var fails []Failure
		prog := &DcProgram{PkgTag: map[string]bool{}}
		var root string
		var gen map[string]string
		bodies := map[string]string{}
		defer func() {
			if root != "" {
				impl.Cleanup(root)
			}
		}()
		for i, l := range lines {
			f := Fields(l)
			switch f[1] {
			case "reset":
				if len(f) > 2 {
					prog.MainPath = f[2]
				}
			case "pkgtag":
				prog.PkgTag[f[2]] = f[3] == "1"
				if f[2] == "dep" {
					prog.HasDep = true
				}
			case "decl":
				prog.Decls = append(prog.Decls, dcDecodeDecl(f))
			case "gen":
				files := map[string]map[string]string{prog.Main(): prog.Source("p")}
				pkgs := []string{prog.Main()}
				if prog.HasDep {
					files["example.com/m/dep"] = prog.Source("dep")
					pkgs = append(pkgs, "example.com/m/dep")
				}
				var toolOut string
				var err error
				root, gen, toolOut, err = impl.Generate(files, pkgs)
				if err != nil {
					outs[i] = "tool-fails"
					fails = append(fails, Failure{"tool-fails", fmt.Sprintf("deepcopy-gen failed on an input of the accepted fragment: %v\n%s\n--- input\n%s", err, toolOut, files[prog.Main()]["types.go"])})
					return outs, fails
				}
				// which types got methods
				var got []string
				for pkg, src := range gen {
					for k, b := range DcMethodBodies(src) {
						q := k
						if pkg == "example.com/m/dep" {
							q = "dep." + k
						}
						bodies[q] = b
						if strings.HasSuffix(k, ".DeepCopy") || strings.HasSuffix(k, ".DeepCopyInto") {
							tn := q[:strings.LastIndex(q, ".")]
							if len(got) == 0 || got[len(got)-1] != tn {
								got = append(got, tn)
							}
						}
					}
				}
				sort.Strings(got)
				got = uniqStrings(got)
				outs[i] = HexList(got)
				// oracle: exactly the tagged types (those with both methods hand-written have nothing generated)
				want := map[string]bool{}
				for _, q := range prog.ExpectedGenerated() {
					if prog.decl(q).Custom != "ptr" {
						want[q] = true
					}
				}
				for _, g := range got {
					if !want[g] {
						fails = append(fails, Failure{"generated-for-unselected-type", fmt.Sprintf("deep-copy methods were generated for %s, which the tags do not select", g)})
					}
					delete(want, g)
				}
				for _, w := range SortedKeys(want) {
					fails = append(fails, Failure{"selected-type-not-generated", fmt.Sprintf("no deep-copy methods were generated for %s, which the tags select", w)})
				}
			case "body":
				outs[i] = Hex(bodies[f[2]])
			case "check":
				if root == "" {
					continue
				}
				var seed int64
				rounds := 0
				fmt.Sscan(f[2], &seed)
				fmt.Sscan(f[3], &rounds)
				out, cerr, err := impl.RunChecker(root, prog.CheckerSource(prog.ExpectedGenerated(), seed, rounds))
				if cerr != "" {
					sig := "generated-code-does-not-compile"
					if strings.Contains(cerr, "invalid receiver type") {
						sig = "does-not-compile:invalid-receiver"
					}
					fails = append(fails, Failure{sig, fmt.Sprintf("input and generated code do not compile together:\n%s\n--- input\n%s\n--- generated\n%s", firstLines(cerr, 8), prog.Source("p")["types.go"], gen[prog.Main()])})
					continue
				}
				if err != nil {
					fails = append(fails, Failure{"checker-crashed", fmt.Sprintf("%v\n%s", err, firstLines(out, 20))})
					continue
				}
				done := 0
				for _, ol := range strings.Split(out, "\n") {
					if strings.HasPrefix(ol, "DONE ") {
						done++
					}
					if strings.HasPrefix(ol, "FAIL ") {
						p := strings.SplitN(ol, " ", 4)
						fails = append(fails, Failure{"copy-" + p[2], fmt.Sprintf("%s: %s\n--- input\n%s", p[1], strings.Join(p[2:], " "), prog.Source("p")["types.go"])})
					}
				}
				if done != len(prog.ExpectedGenerated()) {
					fails = append(fails, Failure{"checker-incomplete", fmt.Sprintf("checker finished %d of %d types:\n%s", done, len(prog.ExpectedGenerated()), firstLines(out, 20))})
				}
			}
		}
		return outs, fails
	}
	return Property{
		Exec: exec,
		Gen: func(c *Ctx) {
			r := c.RNG("programs")
			n := c.Scale(64, 1500)
			var batch []PCase
			for i := 0; i < n; i++ {
				prog, feats := GenDcProgram(r, DcArraysOfReferences, i%8 == 3)
				ls := []string{Line("dc", "reset", prog.Main())}
				for _, pk := range []string{"dep", "p"} {
					if pk == "dep" && !prog.HasDep {
						continue
					}
					ls = append(ls, Line("dc", "pkgtag", pk, B01(prog.PkgTag[pk])))
				}
				for _, d := range prog.Decls {
					ls = append(ls, DcEncodeDecl(d))
				}
				ls = append(ls, Line("dc", "gen"))
				for _, q := range prog.ExpectedGenerated() {
					d := prog.decl(q)
					if d.Custom != "ptr" && d.Custom != "into" {
						ls = append(ls, Line("dc", "body", q+".DeepCopyInto"))
					}
					if d.Custom != "ptr" && d.Custom != "val" {
						ls = append(ls, Line("dc", "body", q+".DeepCopy"))
					}
					for _, in := range d.Ifaces {
						ls = append(ls, Line("dc", "body", q+".DeepCopy"+in))
					}
				}
				ls = append(ls, Line("dc", "check", fmt.Sprint(r.Intn(1<<30)), "12"))
				feats = append(feats, fmt.Sprintf("decls:%d", len(prog.Decls)/3*3), fmt.Sprintf("generated:%d", len(prog.ExpectedGenerated())/3*3))
				batch = append(batch, PCase{ls, Meta{Nontrivial: len(prog.ExpectedGenerated()) > 0, Features: feats, NoModel: DcNoModel}})
				if len(batch) == 16 {
					c.Cases(batch, 14)
					batch = nil
				}
			}
			c.Cases(batch, 14)
		},
	}
}

// DcArraysOfReferences: generate arrays whose elements hold references (F18)
var DcArraysOfReferences = true

// DcNoModel: while the Lean model is being built the cases are judged by the oracle only
var DcNoModel = false

func uniqStrings(s []string) []string {
	var out []string
	for i, x := range s {
		if i == 0 || x != s[i-1] {
			out = append(out, x)
		}
	}
	return out
}

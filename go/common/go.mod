module verif/common

go 1.20

package common

import (
	"strconv"
	"strings"
)

// TypeSpec is a gengo type as a tree (named types are leaves); mirrors lean/Gengo/Model/Ty.lean.
type TypeSpec struct {
	Kind    string // named builtin map slice array pointer chan struct iface func other
	Pkg     string
	Name    string // type name, builtin name, or kind string for "other"
	Len     int
	Key     *TypeSpec
	Elem    *TypeSpec
	Members []MemberSpec
	Methods []string
	Params  []*TypeSpec
	Results []*TypeSpec
}

type MemberSpec struct {
	Name string
	Type *TypeSpec
}

// Enc renders the prefix encoding understood by lean/Gengo/Driver/TyParse.lean.
func (t *TypeSpec) Enc() string {
	var b []string
	t.enc(&b)
	return strings.Join(b, " ")
}

func (t *TypeSpec) enc(b *[]string) {
	switch t.Kind {
	case "named":
		*b = append(*b, "n", Hex(t.Pkg), Hex(t.Name))
	case "builtin":
		*b = append(*b, "b", Hex(t.Name))
	case "other":
		*b = append(*b, "o", Hex(t.Name))
	case "map":
		*b = append(*b, "m")
		t.Key.enc(b)
		t.Elem.enc(b)
	case "slice":
		*b = append(*b, "s")
		t.Elem.enc(b)
	case "pointer":
		*b = append(*b, "p")
		t.Elem.enc(b)
	case "chan":
		*b = append(*b, "c")
		t.Elem.enc(b)
	case "array":
		*b = append(*b, "a", strconv.Itoa(t.Len))
		t.Elem.enc(b)
	case "struct":
		*b = append(*b, "t", strconv.Itoa(len(t.Members)))
		for _, m := range t.Members {
			*b = append(*b, Hex(m.Name))
			m.Type.enc(b)
		}
	case "iface":
		*b = append(*b, "i", strconv.Itoa(len(t.Methods)))
		for _, m := range t.Methods {
			*b = append(*b, Hex(m))
		}
	case "func":
		*b = append(*b, "f", strconv.Itoa(len(t.Params)), strconv.Itoa(len(t.Results)))
		for _, p := range t.Params {
			p.enc(b)
		}
		for _, r := range t.Results {
			r.enc(b)
		}
	default:
		panic("bad TypeSpec kind " + t.Kind)
	}
}

// DecTypes parses a field holding types separated by ';' ("-" = none).
func DecTypes(f string) []*TypeSpec {
	if f == "-" {
		return nil
	}
	var out []*TypeSpec
	for _, part := range strings.Split(f, ";") {
		toks := strings.Split(part, " ")
		t, rest := decType(toks)
		if len(rest) != 0 {
			panic("trailing tokens in type field")
		}
		out = append(out, t)
	}
	return out
}

func EncTypes(ts []*TypeSpec) string {
	if len(ts) == 0 {
		return "-"
	}
	parts := make([]string, len(ts))
	for i, t := range ts {
		parts[i] = t.Enc()
	}
	return strings.Join(parts, ";")
}

func decType(toks []string) (*TypeSpec, []string) {
	tok, r := toks[0], toks[1:]
	switch tok {
	case "n":
		return &TypeSpec{Kind: "named", Pkg: Unhex(r[0]), Name: Unhex(r[1])}, r[2:]
	case "b":
		return &TypeSpec{Kind: "builtin", Name: Unhex(r[0])}, r[1:]
	case "o":
		return &TypeSpec{Kind: "other", Name: Unhex(r[0])}, r[1:]
	case "m":
		k, r := decType(r)
		e, r := decType(r)
		return &TypeSpec{Kind: "map", Key: k, Elem: e}, r
	case "s", "p", "c":
		e, r := decType(r)
		return &TypeSpec{Kind: map[string]string{"s": "slice", "p": "pointer", "c": "chan"}[tok], Elem: e}, r
	case "a":
		n := Atoi(r[0])
		e, r := decType(r[1:])
		return &TypeSpec{Kind: "array", Len: n, Elem: e}, r
	case "t":
		n := Atoi(r[0])
		r = r[1:]
		t := &TypeSpec{Kind: "struct"}
		for i := 0; i < n; i++ {
			name := Unhex(r[0])
			var mt *TypeSpec
			mt, r = decType(r[1:])
			t.Members = append(t.Members, MemberSpec{name, mt})
		}
		return t, r
	case "i":
		n := Atoi(r[0])
		t := &TypeSpec{Kind: "iface"}
		for i := 0; i < n; i++ {
			t.Methods = append(t.Methods, Unhex(r[1+i]))
		}
		return t, r[1+n:]
	case "f":
		np, nr := Atoi(r[0]), Atoi(r[1])
		r = r[2:]
		t := &TypeSpec{Kind: "func"}
		for i := 0; i < np; i++ {
			var p *TypeSpec
			p, r = decType(r)
			t.Params = append(t.Params, p)
		}
		for i := 0; i < nr; i++ {
			var p *TypeSpec
			p, r = decType(r)
			t.Results = append(t.Results, p)
		}
		return t, r
	}
	panic("bad type token " + tok)
}

// ---- generation ----

var GenPkgs = []string{"k8s.io/api/core/v1", "a/b-c/d.e", "proto/x", "example.com/out/v1", "pkg/server/frobbing/proto", "base/foo/proto", "x", "my.org/api/v1", "a/b"}
var GenTypeNames = []string{"Pod", "foo", "T1", "Baz", "object", "Time", "X", "Type", "Func"}
var GenBuiltins = []string{"string", "int", "bool", "byte", "int64", "uint8", "float64", "uintptr"}

type TypeGenOpts struct {
	Depth       int
	NoIfaceMeth bool // no interface literals with methods
	NoFunc      bool
	NoOther     bool
}

func GenType(r *RNG, o TypeGenOpts) *TypeSpec {
	leaf := func() *TypeSpec {
		if r.Chance(1, 2) {
			return &TypeSpec{Kind: "builtin", Name: r.Pick(GenBuiltins)}
		}
		return &TypeSpec{Kind: "named", Pkg: r.Pick(GenPkgs), Name: r.Pick(GenTypeNames)}
	}
	if o.Depth <= 0 || r.Chance(1, 4) {
		return leaf()
	}
	sub := o
	sub.Depth--
	switch r.Intn(10) {
	case 0:
		return &TypeSpec{Kind: "map", Key: GenType(r, TypeGenOpts{Depth: 0}), Elem: GenType(r, sub)}
	case 1:
		return &TypeSpec{Kind: "slice", Elem: GenType(r, sub)}
	case 2:
		return &TypeSpec{Kind: "array", Len: []int{0, 1, 2, 3, 12, 22, 4, 44}[r.Intn(8)], Elem: GenType(r, sub)}
	case 3:
		return &TypeSpec{Kind: "pointer", Elem: GenType(r, sub)}
	case 4:
		return &TypeSpec{Kind: "chan", Elem: GenType(r, sub)}
	case 5, 6:
		t := &TypeSpec{Kind: "struct"}
		for i := r.Intn(4); i > 0; i-- {
			t.Members = append(t.Members, MemberSpec{[]string{"A", "B", "C", "d"}[len(t.Members)], GenType(r, sub)})
		}
		return t
	case 7:
		t := &TypeSpec{Kind: "iface"}
		if !o.NoIfaceMeth {
			for i := r.Intn(3); i > 0; i-- {
				t.Methods = append(t.Methods, []string{"Set", "Get", "String"}[(len(t.Methods)+r.Intn(2))%3])
				if len(t.Methods) == 2 && t.Methods[0] == t.Methods[1] {
					t.Methods = t.Methods[:1]
				}
			}
		}
		return t
	case 8:
		if o.NoFunc {
			return leaf()
		}
		t := &TypeSpec{Kind: "func"}
		for i := r.Intn(3); i > 0; i-- {
			t.Params = append(t.Params, GenType(r, sub))
		}
		for i := r.Intn(3); i > 0; i-- {
			t.Results = append(t.Results, GenType(r, sub))
		}
		return t
	default:
		return leaf()
	}
}

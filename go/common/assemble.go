package common

import (
	"bytes"
	"fmt"
	"go/ast"
	"go/parser"
	"go/token"
	"os"
	"path/filepath"
	"sort"
	"strconv"
	"strings"
)

// ---- C09: assembled files -------------------------------------------------------------------

type AsmFile struct {
	Header, PkgName string
	Imports         []string // contribution order (the real File.Imports is a set)
	Vars, Consts    string
	Body            string
}

type AsmImpl struct {
	V2 bool
	// Assemble runs the real file type's Assemble on a generator.File built from f.
	Assemble func(f *AsmFile) []byte
	// Format runs the real file type's Format.
	Format func(src []byte) ([]byte, error)
	// AssembleFile runs the real file type's AssembleFile into path.
	AssembleFile func(f *AsmFile, path string) error
	// PackageRun runs the real DefaultPackage (v1) / SimpleTarget (v2) with the given header (passed with
	// spare capacity), package documentation and two generators ("doc.go" without body, "other.go" with
	// body) through ExecutePackage / ExecuteTarget into dir.
	PackageRun func(header []byte, doc []byte, otherBody string, dir string) error
}

// sort the lines of the (single) import block: canonical form of the pre-format text
func sortImportBlock(s string) string {
	b, _ := ExecFormat([]byte(strings.ReplaceAll(s, ExecFailMarker, "@@F_A_I_L@@")))
	return strings.ReplaceAll(string(b), "@@F_A_I_L@@", ExecFailMarker)
}

func importBlockLines(formatted string) []string {
	i := strings.Index(formatted, "import (\n")
	if i < 0 {
		// a single import may be printed without parentheses
		for _, l := range strings.Split(formatted, "\n") {
			if strings.HasPrefix(l, "import ") {
				return []string{"\t" + strings.TrimPrefix(l, "import ")}
			}
		}
		return nil
	}
	j := strings.Index(formatted[i:], "\n)")
	if j < 0 {
		return nil
	}
	return strings.Split(formatted[i+len("import (\n"):i+j], "\n")
}

type asmDecl struct{ kind, name string }

// DefaultPackage / SimpleTarget: header and package documentation reach the right files intact
func asmPkgCase(impl AsmImpl, f []string, fail func(sig, what string)) string {
	hdr, capExtra, doc, body := Unhex(f[2]), Atoi(f[3]), Unhex(f[4]), Unhex(f[5])
	header := make([]byte, len(hdr), len(hdr)+capExtra)
	copy(header, hdr)
	dir, _ := os.MkdirTemp("", "verif-asm-")
	defer os.RemoveAll(dir)
	err := impl.PackageRun(header, []byte(doc), body, dir)
	if err != nil {
		fail("package-run-fails", fmt.Sprintf("header %q doc %q: run over valid contributions failed: %v", hdr, doc, Trunc(err.Error(), 300)))
		return "ran"
	}
	for _, name := range []string{"doc.go", "other.go"} {
		var content []byte
		filepath.Walk(dir, func(p string, info os.FileInfo, e error) error {
			if e == nil && !info.IsDir() && filepath.Base(p) == name {
				content, _ = os.ReadFile(p)
			}
			return nil
		})
		want := strings.TrimRight(hdr, "\n")
		if !bytes.HasPrefix(content, []byte(want)) {
			fail("header-not-first", fmt.Sprintf("%s does not start with the header %q: %q", name, want, Trunc(string(content), 200)))
		}
		pf, perr := parser.ParseFile(token.NewFileSet(), name, content, parser.ParseComments)
		if perr != nil {
			fail("does-not-parse", fmt.Sprintf("%s does not parse: %v\n%s", name, perr, Trunc(string(content), 300)))
			continue
		}
		if pf.Name.Name != "demo" {
			fail("package-name", fmt.Sprintf("%s declares package %s", name, pf.Name.Name))
		}
		hasDoc := strings.Contains(string(content), strings.TrimSpace(doc))
		if name == "doc.go" && doc != "" && !hasDoc {
			fail("package-doc-missing", fmt.Sprintf("doc.go lacks the package documentation %q: %q", doc, Trunc(string(content), 300)))
		}
		if name != "doc.go" && doc != "" && hasDoc {
			fail("package-doc-misplaced", fmt.Sprintf("%s carries the package documentation", name))
		}
	}
	return "ran"
}

func AsmProperty(impl AsmImpl) Property {
	exec1 := func(line string) (out string, fails []Failure) {
		f := Fields(line)
		defer func() {
			if r := recover(); r != nil {
				out = "panic"
				fails = append(fails, Failure{"panic", fmt.Sprintf("%s panics: %v", f[1], r)})
			}
		}()
		fail := func(sig, what string) { fails = append(fails, Failure{sig, what}) }
		if f[1] == "pkg" {
			return asmPkgCase(impl, f, fail), fails
		}
		af := &AsmFile{Header: Unhex(f[2]), PkgName: Unhex(f[3]), Imports: UnhexList(f[4]), Vars: Unhex(f[5]), Consts: Unhex(f[6]), Body: Unhex(f[7])}
		raw := impl.Assemble(af)
		if f[1] == "afile" {
			dir, _ := os.MkdirTemp("", "verif-asm-")
			defer os.RemoveAll(dir)
			path := filepath.Join(dir, "zz.go")
			if len(raw)%2 == 0 {
				// regenerating in place: a longer file from an earlier run is already there
				os.WriteFile(path, []byte("package old\n\n"+strings.Repeat("// left over from an earlier, longer output\n", 200)), 0o644)
			}
			formattedWant, ferr := impl.Format(raw)
			if B01(ferr != nil) != f[8] {
				fail("facts-stale", "the format-fails flag in the line is stale (harness)")
			}
			err := impl.AssembleFile(af, path)
			content, rerr := os.ReadFile(path)
			if ferr != nil {
				if err == nil {
					fail("format-error-not-returned", "Format fails on the assembled text but AssembleFile returned nil")
				}
				if rerr != nil || !bytes.Equal(content, raw) {
					fail("unformatted-text-not-written", fmt.Sprintf("Format failed; the file holds %q, the unformatted text is %q", Trunc(string(content), 200), Trunc(string(raw), 200)))
				}
				return "err=" + B01(err != nil) + " content=" + Hex(string(content)), fails
			}
			if err != nil {
				fail("valid-input-does-not-format", fmt.Sprintf("AssembleFile failed on valid contributions: %v", err))
			} else if rerr != nil || !bytes.Equal(content, formattedWant) {
				fail("file-is-not-the-formatted-text", fmt.Sprintf("AssembleFile left %d bytes on disk, the formatted text has %d (a previous file at the path: %v); tail %q",
					len(content), len(formattedWant), len(raw)%2 == 0, Trunc(string(content[minInt(len(content), len(formattedWant)):]), 120)))
			}
			return "err=" + B01(err != nil), fails
		}
		// --- pre-format text: header first, package clause, blocks
		if !bytes.HasPrefix(raw, []byte(af.Header)) {
			fail("header-not-first", "the assembled text does not start with the header")
		}
		formatted, err := impl.Format(raw)
		if err != nil {
			// inputs are valid by construction
			fail("valid-input-does-not-format", fmt.Sprintf("Format failed on valid contributions: %v\n%s", err, Trunc(string(raw), 600)))
			return Hex(sortImportBlock(string(raw))) + " -", fails
		}
		// reproducible: 16 more runs (fresh map => fresh iteration order)
		for k := 0; k < 16; k++ {
			af2 := *af
			af2.Imports = append([]string(nil), af.Imports...)
			// contribute in a different order
			for i := len(af2.Imports) - 1; i > 0; i-- {
				j := (i*7 + k) % (i + 1)
				af2.Imports[i], af2.Imports[j] = af2.Imports[j], af2.Imports[i]
			}
			f2, err2 := impl.Format(impl.Assemble(&af2))
			if err2 != nil || !bytes.Equal(f2, formatted) {
				fail("not-byte-reproducible", fmt.Sprintf("two runs over the same contributions give different files:\n%s\n---\n%s", Trunc(string(formatted), 400), Trunc(string(f2), 400)))
				break
			}
		}
		// fixed point of the formatter
		if again, err := impl.Format(formatted); err != nil || !bytes.Equal(again, formatted) {
			fail("format-not-fixed-point", "Format(Format(x)) differs from Format(x)")
		}
		// parses; package name; header first; declarations in contribution order
		fset := token.NewFileSet()
		pf, perr := parser.ParseFile(fset, "x.go", formatted, parser.ParseComments)
		if perr != nil {
			fail("does-not-parse", fmt.Sprintf("emitted file does not parse: %v", perr))
		} else {
			if pf.Name.Name != af.PkgName {
				fail("package-name", fmt.Sprintf("file declares package %s, target is %s", pf.Name.Name, af.PkgName))
			}
			if !bytes.HasPrefix(formatted, []byte(strings.TrimRight(af.Header, "\n"))) {
				fail("header-not-first", "the formatted file does not start with the header")
			}
			var got []asmDecl
			for _, d := range pf.Decls {
				switch x := d.(type) {
				case *ast.GenDecl:
					for _, sp := range x.Specs {
						if vs, ok := sp.(*ast.ValueSpec); ok {
							for _, n := range vs.Names {
								if n.Name != "_" {
									got = append(got, asmDecl{x.Tok.String(), n.Name})
								}
							}
						}
					}
				case *ast.FuncDecl:
					got = append(got, asmDecl{"func", x.Name.Name})
				}
			}
			var exp []asmDecl
			for _, blk := range []struct{ kind, text string }{{"var", af.Vars}, {"const", af.Consts}} {
				for _, l := range strings.Split(blk.text, "\n") {
					l = strings.TrimSpace(l)
					if l == "" || strings.HasPrefix(l, "//") {
						continue
					}
					exp = append(exp, asmDecl{blk.kind, strings.Fields(l)[0]})
				}
			}
			for _, l := range strings.Split(af.Body, "\n") {
				if strings.HasPrefix(l, "func ") {
					exp = append(exp, asmDecl{"func", strings.TrimSuffix(strings.Fields(l)[1], "()")})
				}
			}
			if fmt.Sprint(got) != fmt.Sprint(exp) {
				fail("declaration-order", fmt.Sprintf("declarations in the file %v, contributed %v", got, exp))
			}
			// v2: imports exactly the contributed imports
			if impl.V2 {
				want := map[string]bool{}
				for _, i := range af.Imports {
					p := i
					if strings.Contains(i, "\"") {
						p = i[strings.Index(i, "\"")+1 : strings.LastIndex(i, "\"")]
						if sp := strings.Index(i, " "); sp > 0 && sp < strings.Index(i, "\"") {
							p = i[:sp] + " " + p
						}
					}
					want[p] = true
				}
				have := map[string]bool{}
				for _, im := range pf.Imports {
					p, _ := strconv.Unquote(im.Path.Value)
					if im.Name != nil {
						p = im.Name.Name + " " + p
					}
					have[p] = true
				}
				if fmt.Sprint(SortedKeys(want)) != fmt.Sprint(SortedKeys(have)) {
					fail("imports-differ", fmt.Sprintf("file imports %v, contributed %v", SortedKeys(have), SortedKeys(want)))
				}
			}
		}
		blk := importBlockLines(string(formatted))
		return Hex(sortImportBlock(string(raw))) + " " + HexList(blk), fails
	}
	return Property{
		Exec: func(lines []string) ([]string, []Failure) {
			outs := make([]string, len(lines))
			var fails []Failure
			for i, l := range lines {
				o, fs := exec1(l)
				outs[i] = o
				fails = append(fails, fs...)
			}
			return outs, fails
		},
		Gen: func(c *Ctx) { asmGen(c, impl) },
	}
}

// imports: (contributed string, identifier by which the body refers to it)
var asmImports = [][2]string{{"fmt", "fmt"}, {"os", "os"}, {"\"strings\"", "strings"}, {"alias \"a/b\"", "alias"}, {"k8s.io/x/y", "y"},
	{"v1 \"k8s.io/api/core/v1\"", "v1"}, {"sort", "sort"}, {"\"example.com/m/zz\"", "zz"}, {"appengine/datastore", "datastore"}, {"my \"fmt\"", "my"},
	{"golang.org/x/tools/imports", "imports"}}

func asmGen(c *Ctx, impl AsmImpl) {
	r := c.RNG("gen")
	n := c.Scale(1200, 25000)
	for it := 0; it < n; it++ {
		af := &AsmFile{PkgName: r.Pick([]string{"p", "sets", "v1", "mypkg"})}
		switch r.Intn(4) {
		case 0:
			af.Header = "// Code generated. DO NOT EDIT.\n\n"
		case 1:
			af.Header = "/*\nCopyright.\n*/\n\n// Code generated by x. DO NOT EDIT.\n\n"
		case 2:
			af.Header = "//go:build !ignore_autogenerated\n// +build !ignore_autogenerated\n\n// header\n\n"
		}
		var body strings.Builder
		used := map[string]bool{}
		ngen := 1 + r.Intn(3)
		vi, ci, fi := 0, 0, 0
		for g := 0; g < ngen; g++ {
			// each "generator" contributes imports, vars, consts and body fragments
			for k := r.Intn(4); k > 0; k-- {
				im := asmImports[r.Intn(len(asmImports))]
				af.Imports = append(af.Imports, im[0])
				if !used[im[1]] {
					used[im[1]] = true
					// use the import so that v1's import fixer keeps it
					fmt.Fprintf(&body, "var _ = %s.X%d\n\n", im[1], len(used))
				}
			}
			if r.Bool() {
				if af.Vars != "" {
					af.Vars += "\n"
				}
				af.Vars += fmt.Sprintf("// Package-wide variables from generator \"g%d\".\n", g)
				for k := 1 + r.Intn(2); k > 0; k-- {
					vi++
					af.Vars += fmt.Sprintf("gv%d = %d\n", vi, vi)
				}
			}
			if r.Bool() {
				if af.Consts != "" {
					af.Consts += "\n"
				}
				af.Consts += fmt.Sprintf("// Package-wide consts from generator \"g%d\".\n", g)
				for k := 1 + r.Intn(2); k > 0; k-- {
					ci++
					af.Consts += fmt.Sprintf("gc%d = %d\n", ci, ci)
				}
			}
			for k := r.Intn(3); k > 0; k-- {
				fi++
				fmt.Fprintf(&body, "func f%d() {\n\treturn\n}\n\n", fi)
			}
		}
		af.Body = body.String()
		// the same import key may be contributed twice with different spellings of the identifier use: dedupe uses
		feats := []string{fmt.Sprintf("imports:%d", len(af.Imports))}
		grp := map[int]bool{}
		for _, i := range af.Imports {
			if strings.Contains(i, ".") {
				grp[1] = true
			} else {
				grp[0] = true
			}
		}
		if len(grp) > 1 {
			feats = append(feats, "mixed-groups")
		}
		sort.Strings(feats)
		c.Case([]string{Line("asm", "file", Hex(af.Header), Hex(af.PkgName), HexList(af.Imports), Hex(af.Vars), Hex(af.Consts), Hex(af.Body))},
			Meta{Nontrivial: len(af.Imports) >= 2, Features: feats})
		if it%4 == 0 {
			// AssembleFile on a body that may not format: the unformatted text stays on disk, an error is returned
			bf := *af
			if len(bf.Imports) > 1 {
				bf.Imports = bf.Imports[:1] // the unformatted text lists the import set in map order
			}
			if r.Chance(2, 3) {
				bf.Body += r.Pick([]string{"func broken( {\n", "}}}\n", "var x = = 1\n", "func f() { return 1 +\n"})
			}
			_, ferr := impl.Format(impl.Assemble(&bf))
			c.Case([]string{Line("asm", "afile", Hex(bf.Header), Hex(bf.PkgName), HexList(bf.Imports), Hex(bf.Vars), Hex(bf.Consts), Hex(bf.Body), B01(ferr != nil))},
				Meta{Nontrivial: true, Features: []string{"assemblefile", "format-fails:" + B01(ferr != nil)}})
		}
		if it%4 == 1 {
			hdr := r.Pick([]string{"// Code generated. DO NOT EDIT.\n\n", "/* hdr */", "/*\nCopyright.\n*/\n\n", "", "// h\n"})
			doc := r.Pick([]string{"// Package demo has generated things.\n", "", "// Package demo.\n// More.\n"})
			c.Case([]string{Line("asm", "pkg", Hex(hdr), Itoa(r.Pick2(0, 64, 256)), Hex(doc), Hex("func F() {}\n"))},
				Meta{Nontrivial: true, NoModel: true, Features: []string{"default-package-headers"}})
		}
	}
}

func minInt(a, b int) int {
	if a < b {
		return a
	}
	return b
}

package common

import (
	"fmt"
	"strings"
	"unicode"
	"unicode/utf8"
)

// ---- C08: comment-tag extraction -------------------------------------------------------------

type FSTag struct {
	Name  string
	Args  []string
	Value string
}

type TagsImpl struct {
	Extract func(marker string, lines []string) map[string][]string
	Bool    func(marker, key string, def bool, lines []string) (bool, error)
	BoolOp  string                                                                    // "bool1" (v1: simple style underneath) or "bool2" (v2: function style underneath)
	FS      func(marker string, tagNames, lines []string) (map[string][]FSTag, error) // nil in v1
}

// non-ASCII letters/digits of the generator's alphabet; must equal the table in lean/Gengo/Driver/Tags.lean
var tagsLDTable = []rune{0xe9, 0x3bb, 0x663, 0x4e16}

var tagsAlphabet = []string{"=", "(", ")", ",", "/", "//", " ", "\t", "a", "b", "Z", "foo", "bar", "0", "7", "true", "false",
	"é", "λ", "٣", "世", "\u00a0", "\u3000", "€", "²", "+", "k8s:", "x"}

var tagsMarkers = []string{"+", "+", "+", "+k8s:", "//+", "#", "", "+x ", "+k8s://", "+a/", "λ", "+ x", "+k8s:=", "=", "+a=b ", "+=("}

func tagsIsLD(r rune) bool {
	if r < 128 {
		return (r >= 'a' && r <= 'z') || (r >= 'A' && r <= 'Z') || (r >= '0' && r <= '9')
	}
	for _, t := range tagsLDTable {
		if r == t {
			return true
		}
	}
	return false
}

func tagsSelfCheck() []string {
	var errs []string
	for _, tok := range tagsAlphabet {
		for _, r := range tok {
			if (unicode.IsLetter(r) || unicode.IsDigit(r)) != tagsIsLD(r) {
				errs = append(errs, fmt.Sprintf("letter/digit table disagrees with package unicode on %q", r))
			}
		}
	}
	return errs
}

func showSimple(m map[string][]string) string {
	var parts []string
	for _, k := range SortedKeys(m) {
		parts = append(parts, Hex(k)+":"+HexList(m[k]))
	}
	return strings.Join(parts, ";")
}

func showFS(m map[string][]FSTag) string {
	var parts []string
	for _, k := range SortedKeys(m) {
		var ts []string
		for _, t := range m[k] {
			ts = append(ts, HexList(t.Args)+"/"+Hex(t.Value))
		}
		parts = append(parts, Hex(k)+":"+strings.Join(ts, "|"))
	}
	return "ok " + strings.Join(parts, ";")
}

// --- oracle: the documented grammar restated with index scanning only ---

func oTrim(s string, space func(rune) bool) string {
	rs := []rune(s)
	i, j := 0, len(rs)
	for i < j && space(rs[i]) {
		i++
	}
	for j > i && space(rs[j-1]) {
		j--
	}
	return string(rs[i:j])
}

func oCut(s string, sep string) (string, string, bool) {
	for i := 0; i+len(sep) <= len(s); i++ {
		if s[i:i+len(sep)] == sep {
			return s[:i], s[i+len(sep):], true
		}
	}
	return s, "", false
}

func oStartsWith(s, p string) bool { return len(s) >= len(p) && s[:len(p)] == p }

type kv struct{ k, v string }

// expected simple-style contributions under a given trimming
func oSimple(marker string, lines []string, space func(rune) bool) []kv {
	var out []kv
	for _, l := range lines {
		t := oTrim(l, space)
		if t == "" || !oStartsWith(t, marker) {
			continue
		}
		k, v, _ := oCut(t[len(marker):], "=")
		out = append(out, kv{k, v})
	}
	return out
}

func groupKV(kvs []kv) map[string][]string {
	m := map[string][]string{}
	for _, e := range kvs {
		m[e.k] = append(m[e.k], e.v)
	}
	return m
}

func onlySpace(r rune) bool { return r == ' ' }

type oFSLine struct {
	ignore   bool
	tag      FSTag
	err      bool
	errOrIgn bool // empty name with malformed args: both an error and ignoring are accepted
}

func oArgs(in string) (args []string, ok bool) {
	rs := []rune(in)
	if len(rs) == 0 || rs[len(rs)-1] != ')' {
		return nil, false
	}
	body := rs[:len(rs)-1]
	for _, r := range body {
		if !(unicode.IsLetter(r) || unicode.IsDigit(r)) {
			return nil, false
		}
	}
	if len(body) == 0 {
		return nil, true
	}
	return []string{string(body)}, true
}

func oFSLine1(marker string, tagNames []string, line string) oFSLine {
	t := oTrim(line, unicode.IsSpace)
	if t == "" || !oStartsWith(t, marker) {
		return oFSLine{ignore: true}
	}
	// the trailing comment is looked for after the marker; whitespace before it is dropped
	rest, _, _ := oCut(t[len(marker):], "//")
	for {
		r, n := utf8.DecodeLastRuneInString(rest)
		if n == 0 || !unicode.IsSpace(r) {
			break
		}
		rest = rest[:len(rest)-n]
	}
	key, val, _ := oCut(rest, "=")
	name, argstr, hasArgs := oCut(key, "(")
	if len(tagNames) > 0 {
		found := false
		for _, tn := range tagNames {
			if tn == name {
				found = true
			}
		}
		if !found {
			return oFSLine{ignore: true}
		}
	}
	var args []string
	if hasArgs {
		a, ok := oArgs(argstr)
		if !ok {
			if name == "" {
				return oFSLine{errOrIgn: true}
			}
			return oFSLine{err: true}
		}
		args = a
	}
	if name == "" {
		return oFSLine{ignore: true}
	}
	return oFSLine{tag: FSTag{name, args, val}}
}

// expected function-style result: "err", "ok …", or "" when unspecified (unsafe marker cut / ambiguous)
func oFS(marker string, tagNames, lines []string) (exp string, alt string) {
	m := map[string][]FSTag{}
	ambiguous := false
	for _, l := range lines {
		r := oFSLine1(marker, tagNames, l)
		switch {
		case r.err:
			if ambiguous {
				return "err", "err"
			}
			return "err", ""
		case r.errOrIgn:
			ambiguous = true
		case r.ignore:
		default:
			m[r.tag.Name] = append(m[r.tag.Name], r.tag)
		}
	}
	if ambiguous {
		return showFS(m), "err"
	}
	return showFS(m), ""
}

func TagsProperty(impl TagsImpl) Property {
	exec1 := func(line string) (out string, fails []Failure) {
		f := Fields(line)
		defer func() {
			if r := recover(); r != nil {
				out = "panic"
				fails = append(fails, Failure{"panic", fmt.Sprintf("%s panics: %v", f[1], r)})
			}
		}()
		switch f[1] {
		case "ect":
			marker, lines := Unhex(f[2]), UnhexList(f[3])
			got := impl.Extract(marker, lines)
			out = showSimple(got)
			for k, vs := range got {
				if len(vs) == 0 {
					fails = append(fails, Failure{"empty-entry", fmt.Sprintf("key %q has zero values", k)})
				}
			}
			e1 := showSimple(groupKV(oSimple(marker, lines, onlySpace)))
			e2 := showSimple(groupKV(oSimple(marker, lines, unicode.IsSpace)))
			if out != e1 && out != e2 {
				fails = append(fails, Failure{"simple-grammar", fmt.Sprintf("ExtractCommentTags(%q, %q) = %v, grammar says %v", marker, lines, got, groupKV(oSimple(marker, lines, onlySpace)))})
			}
		case "bool1", "bool2":
			marker, key, def, lines := Unhex(f[2]), Unhex(f[3]), f[4] == "1", UnhexList(f[5])
			b, err := impl.Bool(marker, key, def, lines)
			if err != nil {
				out = "err"
			} else if b {
				out = "true"
			} else {
				out = "false"
			}
			// oracle: first value under key, default when absent, error for non-booleans
			var exp []string
			if f[1] == "bool1" {
				for _, sp := range []func(rune) bool{onlySpace, unicode.IsSpace} {
					vs := groupKV(oSimple(marker, lines, sp))[key]
					exp = append(exp, oBool(vs, def))
				}
			} else {
				e, alt := oFS(marker, []string{key}, lines)
				for _, x := range []string{e, alt} {
					if x == "" {
						continue
					}
					if x == "err" {
						exp = append(exp, "err")
						continue
					}
					var vs []string
					for _, l := range lines {
						r := oFSLine1(marker, []string{key}, l)
						if !r.ignore && !r.err && !r.errOrIgn && r.tag.Name == key {
							vs = append(vs, r.tag.Value)
						}
					}
					exp = append(exp, oBool(vs, def))
				}
			}
			if len(exp) > 0 {
				ok := false
				for _, e := range exp {
					if e == out {
						ok = true
					}
				}
				if !ok {
					fails = append(fails, Failure{"bool-helper", fmt.Sprintf("bool helper(%q,%q,%v,%q) = %s, expected %v", marker, key, def, lines, out, exp)})
				}
			}
		case "fs":
			marker, names, lines := Unhex(f[2]), UnhexList(f[3]), UnhexList(f[4])
			got, err := impl.FS(marker, names, lines)
			if err != nil {
				out = "err"
			} else {
				out = showFS(got)
				for k, vs := range got {
					if len(vs) == 0 {
						fails = append(fails, Failure{"empty-entry", fmt.Sprintf("key %q has zero values", k)})
					}
				}
			}
			e, alt := oFS(marker, names, lines)
			if out != e && (alt == "" || out != alt) {
				fails = append(fails, Failure{"fs-grammar", fmt.Sprintf("function-style(%q,%q,%q) = %s, grammar says %s", marker, names, lines, Readable("x\ty\t"+out), e)})
			}
		default:
			out = "bad-op"
		}
		return
	}
	return Property{
		SelfCheck: tagsSelfCheck,
		Exec: func(lines []string) ([]string, []Failure) {
			outs := make([]string, len(lines))
			var fails []Failure
			for i, l := range lines {
				o, fs := exec1(l)
				outs[i] = o
				fails = append(fails, fs...)
			}
			return outs, fails
		},
		Gen: func(c *Ctx) { tagsGen(c, impl) },
	}
}

func oBool(vs []string, def bool) string {
	if len(vs) == 0 {
		if def {
			return "true"
		}
		return "false"
	}
	switch vs[0] {
	case "true":
		return "true"
	case "false":
		return "false"
	}
	return "err"
}

func tagsGenLine(r *RNG, marker string) string {
	var b strings.Builder
	switch r.Intn(10) {
	case 0: // arbitrary token soup
	case 1, 2:
		b.WriteString(strings.Repeat(" ", r.Intn(3)))
		if r.Chance(1, 6) {
			b.WriteString("\t")
		}
		b.WriteString(marker)
	default:
		b.WriteString(marker)
	}
	n := r.Intn(7)
	for i := 0; i < n; i++ {
		b.WriteString(r.Pick(tagsAlphabet))
	}
	if r.Chance(1, 5) {
		b.WriteString(r.Pick([]string{" // c", "  //", "//x=y", " ", "\t", "=true", "=false", "(a)", "()", "(a,b)", "(a)x", "(a b)", "(世)=v"}))
	}
	return b.String()
}

func tagsGen(c *Ctx, impl TagsImpl) {
	// corpus: documented examples and past witnesses first
	corpus := [][]string{
		{Line("tags", "ect", Hex("+"), HexList([]string{"+foo=value1", "+bar", "+foo=value2", "+baz=\"qux\""}))},
		{Line("tags", "ect", Hex("+"), HexList([]string{" +a=b=c ", "\t+t=1", "+", "+=v", "x+a=1", ""}))},
		{Line("tags", impl.BoolOp, Hex("+"), Hex("k"), "1", HexList([]string{"+k=false", "+k=true"}))},
		{Line("tags", impl.BoolOp, Hex("+"), Hex("k"), "0", HexList([]string{"+k=yes"}))},
		{Line("tags", impl.BoolOp, Hex("+"), Hex("k"), "1", HexList([]string{"+j=false"}))},
	}
	if impl.FS != nil {
		corpus = append(corpus,
			[]string{Line("tags", "fs", Hex("+"), "-", HexList([]string{"+foo=val1  // foo", "+bar", "+foo=val2  // also foo", "+baz=\"qux\"", "+foo(arg)  // still foo"}))},
			[]string{Line("tags", "fs", Hex("+"), HexList([]string{"foo"}), HexList([]string{"+bar(a,b)", "+foo(x)=1", "+foo()", "+foo(", "+foo(x)y"}))},
			[]string{Line("tags", "fs", Hex("+x "), "-", HexList([]string{"+x  //"}))},
			[]string{Line("tags", "fs", Hex("+k8s://"), "-", HexList([]string{"+k8s://foo=bar"}))},
			[]string{Line("tags", "fs", Hex("+"), "-", HexList([]string{"+(,)", "+(a)=1", "+=2"}))},
		)
	}
	for _, cs := range corpus {
		c.Case(cs, Meta{Nontrivial: true, Features: []string{"corpus"}})
	}
	r := c.RNG("gen")
	n := c.Scale(60000, 1500000)
	for i := 0; i < n; i++ {
		marker := r.Pick(tagsMarkers)
		nl := r.Intn(5)
		lines := make([]string, nl)
		for j := range lines {
			lines[j] = tagsGenLine(r, marker)
		}
		var line string
		feat := []string{}
		switch k := r.Intn(10); {
		case k < 4:
			line = Line("tags", "ect", Hex(marker), HexList(lines))
			feat = append(feat, "op:ect")
		case k < 6 || impl.FS == nil:
			key := r.Pick([]string{"a", "foo", "b", "", "true", "x"})
			line = Line("tags", impl.BoolOp, Hex(marker), Hex(key), B01(r.Bool()), HexList(lines))
			feat = append(feat, "op:bool")
		default:
			var names []string
			for j := r.Intn(3); j > 0; j-- {
				names = append(names, r.Pick([]string{"a", "foo", "b", "", "x", "bar"}))
			}
			line = Line("tags", "fs", Hex(marker), HexList(names), HexList(lines))
			feat = append(feat, "op:fs")
		}
		c.Case([]string{line}, Meta{Nontrivial: nl > 0, Features: feat})
	}
	if c.Tier == "thorough" {
		// small-exhaustive: every line of length <= 5 over 9 symbols, 3 markers
		syms := []string{"+", "=", "(", ")", ",", "/", " ", "a", "1"}
		var rec func(prefix string, depth int)
		rec = func(prefix string, depth int) {
			for _, marker := range []string{"+", "+a", "/"} {
				c.Case([]string{Line("tags", "ect", Hex(marker), HexList([]string{prefix}))}, Meta{Nontrivial: true, Features: []string{"exhaustive"}})
				if impl.FS != nil {
					c.Case([]string{Line("tags", "fs", Hex(marker), "-", HexList([]string{prefix}))}, Meta{Nontrivial: true, Features: []string{"exhaustive"}})
				}
			}
			if depth == 0 {
				return
			}
			for _, s := range syms {
				rec(prefix+s, depth-1)
			}
		}
		rec("", 5)
	}
}

package common

import (
	"fmt"
	"go/token"
	"sort"
	"strings"
)

// ---- C14: name strategies ---------------------------------------------------------------

type StrategySpec struct {
	Prefix, Suffix string
	Public         bool
	Ignore         []string
	Prepend        int
}

type NamerImpl struct {
	// Names builds the types (sharing one object per identical spec), creates ONE strategy and names
	// the types in the given call order; result i is the name of types[i] ("panic" if Name panicked).
	Names     func(st StrategySpec, types []*TypeSpec, order []int) []string
	Plural    func(exceptions map[string]string, fin string, name string) string
	IsPrivate func(name string) bool
}

func asciiIC(s string) string {
	if s == "" {
		return s
	}
	return strings.ToUpper(s[:1]) + s[1:]
}
func asciiIL(s string) string {
	if s == "" {
		return s
	}
	return strings.ToLower(s[:1]) + s[1:]
}

// oracle: the documented shape, computed without prefix/suffix stripping
func nmDirs(st StrategySpec, pkg string) []string {
	var out []string
	for _, d := range strings.Split(pkg, "/") {
		ign := false
		for _, w := range st.Ignore {
			if w == d {
				ign = true
			}
		}
		if !ign {
			out = append(out, strings.ReplaceAll(strings.ReplaceAll(d, "-", "_"), ".", ""))
		}
	}
	return out
}

func nmMid(st StrategySpec, t *TypeSpec) (string, bool) {
	cat := func(parts ...string) string {
		var b strings.Builder
		for _, p := range parts {
			b.WriteString(asciiIC(p))
		}
		return b.String()
	}
	switch t.Kind {
	case "named":
		dirs := append(nmDirs(st, t.Pkg), t.Name)
		k := st.Prepend + 1
		if k > len(dirs) {
			k = len(dirs)
		}
		return cat(dirs[len(dirs)-k:]...), true
	case "builtin":
		return cat(t.Name), true
	case "map":
		a, ok1 := nmMid(st, t.Key)
		b, ok2 := nmMid(st, t.Elem)
		return cat("Map", a, "To", b), ok1 && ok2
	case "slice", "pointer", "chan":
		a, ok := nmMid(st, t.Elem)
		return cat(map[string]string{"slice": "Slice", "pointer": "Pointer", "chan": "Chan"}[t.Kind], a), ok
	case "array":
		a, ok := nmMid(st, t.Elem)
		return cat("Array", fmt.Sprint(t.Len), a), ok
	case "struct":
		parts := []string{"Struct"}
		ok := true
		for _, m := range t.Members {
			a, o := nmMid(st, m.Type)
			parts = append(parts, a)
			ok = ok && o
		}
		return cat(parts...), ok
	case "iface":
		ms := append([]string(nil), t.Methods...)
		sort.Strings(ms)
		return cat(append([]string{"Interface"}, ms...)...), true
	case "func":
		parts := []string{"Func"}
		ok := true
		for _, p := range t.Params {
			a, o := nmMid(st, p)
			parts = append(parts, a)
			ok = ok && o
		}
		parts = append(parts, "Returns")
		for _, p := range t.Results {
			a, o := nmMid(st, p)
			parts = append(parts, a)
			ok = ok && o
		}
		return cat(parts...), ok
	}
	return "", false
}

func nmExpected(st StrategySpec, t *TypeSpec) (string, bool) {
	mid, ok := nmMid(st, t)
	if !ok {
		return "", false
	}
	s := asciiIC(st.Prefix) + mid + asciiIC(st.Suffix)
	if st.Public {
		return asciiIC(s), true
	}
	return asciiIL(s), true
}

func isIdentChars(s string) bool {
	for _, c := range s {
		if !(c == '_' || c >= '0' && c <= '9' || c >= 'a' && c <= 'z' || c >= 'A' && c <= 'Z') {
			return false
		}
	}
	return true
}

func oPlural(exc map[string]string, fin, s string) string {
	f := map[string]func(string) string{"ic": asciiIC, "il": asciiIL, "lower": strings.ToLower}[fin]
	if p, ok := exc[s]; ok {
		return f(p)
	}
	if len(s) < 2 {
		return f(s)
	}
	last, sl := s[len(s)-1], s[len(s)-2]
	isCons := strings.IndexByte("bcdfghjklmnpqrstvwxyz", sl) >= 0
	switch {
	case last == 's' || last == 'x' || last == 'z', last == 'h' && (sl == 'c' || sl == 's'):
		return f(s + "es")
	case last == 'y' && isCons:
		return f(s[:len(s)-1] + "ies")
	case last == 'e' && sl == 'f':
		return f(s[:len(s)-2] + "ves")
	case last == 'f':
		return f(s[:len(s)-1] + "ves")
	}
	return f(s + "s")
}

func NamerProperty(impl NamerImpl) Property {
	exec1 := func(line string) (out string, fails []Failure) {
		f := Fields(line)
		defer func() {
			if r := recover(); r != nil {
				out = "panic"
				fails = append(fails, Failure{"panic", fmt.Sprintf("%s panics: %v", Readable(line), r)})
			}
		}()
		switch f[1] {
		case "private":
			if impl.IsPrivate(Unhex(f[2])) {
				out = "1"
			} else {
				out = "0"
			}
		case "plural":
			ks, vs := UnhexList(f[2]), UnhexList(f[3])
			exc := map[string]string{}
			for i := range ks {
				exc[ks[i]] = vs[i]
			}
			name := Unhex(f[5])
			got := impl.Plural(exc, f[4], name)
			out = Hex(got)
			if exp := oPlural(exc, f[4], name); got != exp {
				fails = append(fails, Failure{"plural-rule", fmt.Sprintf("plural(%q, %s, exceptions %v) = %q, the rules say %q", name, f[4], exc, got, exp)})
			}
		case "names":
			st := StrategySpec{Unhex(f[2]), Unhex(f[3]), f[4] == "1", UnhexList(f[5]), Atoi(f[6])}
			types := DecTypes(f[7])
			var order []int
			for _, o := range strings.Split(f[8], ",") {
				order = append(order, Atoi(o))
			}
			got := impl.Names(st, types, order)
			// determinism and order-independence: a fresh strategy, natural order
			nat := make([]int, len(types))
			for i := range nat {
				nat[i] = i
			}
			again := impl.Names(st, types, nat)
			enc := make([]string, len(got))
			for i, g := range got {
				if g == "panic" {
					enc[i] = "panic"
					fails = append(fails, Failure{"panic", fmt.Sprintf("Name panics for %s under %+v", types[i].Enc(), st)})
					continue
				}
				enc[i] = Hex(g)
				if again[i] != g {
					fails = append(fails, Failure{"order-dependent", fmt.Sprintf("type %d named %q in call order %v but %q in natural order (strategy %+v)", i, g, order, again[i], st)})
				}
				exp, ok := nmExpected(st, types[i])
				if ok && exp != g {
					sig := "anon-shape"
					if types[i].Kind == "named" {
						sig = "named-shape"
					}
					fails = append(fails, Failure{sig, fmt.Sprintf("name of %s under %+v is %q, documented shape gives %q", types[i].Enc(), st, g, exp)})
				}
				if ok && g != "" {
					c := g[0]
					if st.Public && c >= 'a' && c <= 'z' || !st.Public && c >= 'A' && c <= 'Z' {
						fails = append(fails, Failure{"capitalisation", fmt.Sprintf("name %q under public=%v", g, st.Public)})
					}
					if types[i].Kind == "named" && isIdentChars(st.Prefix) && isIdentChars(st.Suffix) && !(c >= '0' && c <= '9') && !token.IsIdentifier(g) {
						sig := "not-identifier"
						if token.IsKeyword(g) {
							sig = "name-is-keyword"
						}
						fails = append(fails, Failure{sig, fmt.Sprintf("name %q of %s.%s under %+v is not a legal identifier", g, types[i].Pkg, types[i].Name, st)})
					}
				}
			}
			out = strings.Join(enc, ",")
		default:
			out = "bad-op"
		}
		return
	}
	return Property{
		Exec: func(lines []string) ([]string, []Failure) {
			outs := make([]string, len(lines))
			var fails []Failure
			for i, l := range lines {
				o, fs := exec1(l)
				outs[i] = o
				fails = append(fails, fs...)
			}
			return outs, fails
		},
		Gen: namerGen,
	}
}

var nmPrefixes = []string{"", "", "Pre", "x", "my", "S", "Map", "a_", "T"}
var nmSuffixes = []string{"", "", "Suf", "2", "Interface", "s", "To", "_t", "4"}
var nmWords = []string{"box", "bus", "buzz", "city", "day", "church", "dish", "path", "knife", "life", "leaf", "wolf", "cafe", "Pod", "pod",
	"a", "", "Endpoints", "y", "ay", "by", "fe", "ef", "sh", "ch", "Cat", "Ingress", "proxy", "Key", "h", "toe", "ee", "GatewaY", "Fly"}

func namerGen(c *Ctx) {
	line := func(st StrategySpec, types []*TypeSpec, order []int) string {
		os := make([]string, len(order))
		for i, o := range order {
			os[i] = Itoa(o)
		}
		return Line("nm", "names", Hex(st.Prefix), Hex(st.Suffix), B01(st.Public), HexList(st.Ignore), Itoa(st.Prepend), EncTypes(types), strings.Join(os, ","))
	}
	str := &TypeSpec{Kind: "builtin", Name: "string"}
	intT := &TypeSpec{Kind: "builtin", Name: "int"}
	foo := &TypeSpec{Kind: "named", Pkg: "pkg/server/frobbing/proto", Name: "Foo"}
	corpus := []string{
		line(StrategySpec{Public: true, Ignore: []string{"proto"}, Prepend: 2}, []*TypeSpec{foo}, []int{0}),
		line(StrategySpec{Suffix: "2", Public: true}, []*TypeSpec{{Kind: "array", Len: 12, Elem: intT}, {Kind: "array", Len: 2, Elem: intT}}, []int{1, 0}),
		line(StrategySpec{Prefix: "4", Suffix: "4", Public: false}, []*TypeSpec{{Kind: "array", Len: 4, Elem: str}}, []int{0}),
		line(StrategySpec{Prefix: "Pre", Suffix: "Suf", Public: false}, []*TypeSpec{{Kind: "map", Key: str, Elem: &TypeSpec{Kind: "slice", Elem: foo}}, foo}, []int{1, 0}),
		Line("nm", "plural", HexList([]string{"Endpoints"}), HexList([]string{"endpoints"}), "ic", Hex("Endpoints")),
	}
	for _, l := range corpus {
		c.Case([]string{l}, Meta{Nontrivial: true, Features: []string{"corpus"}})
	}
	r := c.RNG("gen")
	n := c.Scale(30000, 600000)
	for i := 0; i < n; i++ {
		switch r.Intn(10) {
		case 0, 1:
			nexc := r.Intn(3)
			var ks, vs []string
			seen := map[string]bool{}
			for j := 0; j < nexc; j++ {
				k := r.Pick(nmWords)
				if seen[k] {
					continue
				}
				seen[k] = true
				ks = append(ks, k)
				vs = append(vs, r.Pick([]string{"endpoints", "Oxen", "x", "", "dataSets"}))
			}
			word := r.Pick(nmWords)
			feats := []string{"op:plural"}
			if r.Chance(2, 5) {
				// a random stem (letters of both cases, digits, underscores) in front of an ending one of the rules looks at
				stem := ""
				for k, n := 0, r.Intn(4); k < n; k++ {
					stem += string("abeioukrstyzCAYXQ019_"[r.Intn(21)])
				}
				word = stem + r.Pick([]string{"y", "s", "x", "z", "h", "ch", "sh", "e", "fe", "f", "ay", "2y", "_y", "Ay", "Yy", "0h", "Sh", "Ch", "Fe", "_e"})
				feats = append(feats, "plural:random-word")
			}
			c.Case([]string{Line("nm", "plural", HexList(ks), HexList(vs), r.Pick([]string{"ic", "il", "lower"}), Hex(word))},
				Meta{Nontrivial: true, Features: feats})
		case 2:
			c.Case([]string{Line("nm", "private", Hex(r.Pick(nmWords)))}, Meta{Nontrivial: false, Features: []string{"op:private"}})
		default:
			st := StrategySpec{Prefix: r.Pick(nmPrefixes), Suffix: r.Pick(nmSuffixes), Public: r.Bool(), Prepend: r.Intn(4)}
			for _, w := range []string{"proto", "v1", "api", "pkg", "b-c"} {
				if r.Chance(1, 4) {
					st.Ignore = append(st.Ignore, w)
				}
			}
			nt := 1 + r.Intn(4)
			types := make([]*TypeSpec, nt)
			feats := []string{"op:names"}
			anon := false
			for j := range types {
				types[j] = GenType(r, TypeGenOpts{Depth: 3})
				if types[j].Kind != "named" && types[j].Kind != "builtin" {
					anon = true
				}
				feats = append(feats, "kind:"+types[j].Kind)
			}
			if r.Chance(1, 3) && nt >= 2 { // make one type a component of another (shared object)
				types[0] = &TypeSpec{Kind: "slice", Elem: types[1]}
				anon = true
				feats = append(feats, "shared-subobject")
			}
			c.Case([]string{line(st, types, r.Perm(nt))}, Meta{Nontrivial: anon || st.Prepend > 0, Features: feats})
		}
	}
}

/-! Stage-2 sketch for C16: semantic correctness of the copy plan deepcopy-gen chooses. -/
namespace DeepCopy

mutual
  inductive Ty
    | builtin
    | ptr (e : Ty)
    | slice (e : Ty)
    | struct (fs : Tys)
  inductive Tys
    | nil
    | cons (t : Ty) (ts : Tys)
end

mutual
  inductive Val
    | scalar (n : Nat)
    | nilref                       -- nil pointer / nil slice
    | ptr (a : Nat) (v : Val)      -- address of the cell, pointee
    | slice (a : Nat) (vs : Vals)  -- address of the backing array, elements (possibly empty ≠ nil)
    | struct (vs : Vals)
  inductive Vals
    | nil
    | cons (v : Val) (vs : Vals)
end

mutual
  /-- `Type.IsAssignable` -/
  def assignable : Ty → Bool
    | .builtin => true
    | .struct fs => assignables fs
    | _ => false
  def assignables : Tys → Bool
    | .nil => true
    | .cons t ts => assignable t && assignables ts
end

/-- what the generated code does for a value of a given type -/
inductive Plan
  | keep                         -- covered by `*out = *in`
  | ptr (p : Plan)               -- nil-guard; `*out = new(T)`; recurse
  | slice (p : Plan)             -- nil-guard; `make`; per element
  | struct (ps : List Plan)      -- `*out = *in`; per-field fix-ups
  | bad

mutual
  def gen : Ty → Plan
    | .builtin => .keep
    | .ptr e => .ptr (gen e)
    | .slice e => .slice (gen e)
    | .struct fs => if assignables fs then .keep else .struct (gens fs)
  def gens : Tys → List Plan
    | .nil => []
    | .cons t ts => gen t :: gens ts
end

mutual
  def HasTy : Val → Ty → Prop
    | .scalar _, .builtin => True
    | .nilref, .ptr _ => True
    | .nilref, .slice _ => True
    | .ptr _ v, .ptr e => HasTy v e
    | .slice _ vs, .slice e => AllTy vs e
    | .struct vs, .struct fs => HasTys vs fs
    | _, _ => False
  def AllTy : Vals → Ty → Prop
    | .nil, _ => True
    | .cons v vs, e => HasTy v e ∧ AllTy vs e
  def HasTys : Vals → Tys → Prop
    | .nil, .nil => True
    | .cons v vs, .cons t ts => HasTy v t ∧ HasTys vs ts
    | _, _ => False
end

mutual
  def addrs : Val → List Nat
    | .scalar _ => []
    | .nilref => []
    | .ptr a v => a :: addrs v
    | .slice a vs => a :: addrsL vs
    | .struct vs => addrsL vs
  def addrsL : Vals → List Nat
    | .nil => []
    | .cons v vs => addrs v ++ addrsL vs
end

mutual
  /-- forget addresses: what `reflect.DeepEqual` can see (nil ≠ empty is kept) -/
  def erase : Val → Val
    | .scalar n => .scalar n
    | .nilref => .nilref
    | .ptr _ v => .ptr 0 (erase v)
    | .slice _ vs => .slice 0 (eraseL vs)
    | .struct vs => .struct (eraseL vs)
  def eraseL : Vals → Vals
    | .nil => .nil
    | .cons v vs => .cons (erase v) (eraseL vs)
end

/-- run a plan; `n` is the next free address; returns the copy and the new next-free address -/
def exec : Plan → Val → Nat → Val × Nat
  | .keep, v, n => (v, n)
  | .ptr _, .nilref, n => (.nilref, n)
  | .ptr p, .ptr _ v, n => let r := exec p v (n + 1); (.ptr n r.1, r.2)
  | .slice _, .nilref, n => (.nilref, n)
  | .slice p, .slice _ vs, n => let r := execAll p vs (n + 1); (.slice n r.1, r.2)
  | .struct ps, .struct vs, n => let r := execZip ps vs n; (.struct r.1, r.2)
  | _, v, n => (v, n)
where
  execAll (p : Plan) : Vals → Nat → Vals × Nat
    | .nil, n => (.nil, n)
    | .cons v vs, n => let r := exec p v n; let r' := execAll p vs r.2; (.cons r.1 r'.1, r'.2)
  execZip : List Plan → Vals → Nat → Vals × Nat
    | p :: ps, .cons v vs, n => let r := exec p v n; let r' := execZip ps vs r.2; (.cons r.1 r'.1, r'.2)
    | _, vs, n => (vs, n)


mutual
  theorem noaddr : ∀ (v : Val) (t : Ty), HasTy v t → assignable t = true → addrs v = []
    | .scalar _, _, _, _ => by simp [addrs]
    | .nilref, _, _, _ => by simp [addrs]
    | .ptr _ _, t, h, ha => by
        cases t <;> simp [HasTy] at h <;> simp [assignable] at ha
    | .slice _ _, t, h, ha => by
        cases t <;> simp [HasTy] at h <;> simp [assignable] at ha
    | .struct vs, t, h, ha => by
        cases t with
        | struct fs =>
          simp only [HasTy] at h
          simp only [assignable] at ha
          simp only [addrs]
          exact noaddrs vs fs h ha
        | _ => simp [HasTy] at h
  theorem noaddrs : ∀ (vs : Vals) (ts : Tys), HasTys vs ts → assignables ts = true → addrsL vs = []
    | .nil, _, _, _ => by simp [addrsL]
    | .cons v vs, ts, h, ha => by
        cases ts with
        | nil => simp [HasTys] at h
        | cons t ts =>
          simp only [HasTys] at h
          simp only [assignables, Bool.and_eq_true] at ha
          simp only [addrsL]
          rw [noaddr v t h.1 ha.1, noaddrs vs ts h.2 ha.2]
          rfl
end

/-- result of a copy: deep-equal (nil-ness included), and every address in it was freshly
    allocated from the interval `[n, n')` -/
def Good (v : Val) (n : Nat) (r : Val × Nat) : Prop :=
  erase r.1 = erase v ∧ n ≤ r.2 ∧ ∀ a ∈ addrs r.1, n ≤ a ∧ a < r.2

def GoodL (vs : Vals) (n : Nat) (r : Vals × Nat) : Prop :=
  eraseL r.1 = eraseL vs ∧ n ≤ r.2 ∧ ∀ a ∈ addrsL r.1, n ≤ a ∧ a < r.2

mutual
  theorem exec_good : ∀ (v : Val) (t : Ty) (n : Nat), HasTy v t → Good v n (exec (gen t) v n)
    | .scalar k, t, n, h => by
        cases t <;> simp [HasTy] at h
        simp [gen, exec, Good, addrs]
    | .nilref, t, n, h => by
        cases t <;> simp [HasTy] at h <;> simp [gen, exec, Good, addrs]
    | .ptr a v, t, n, h => by
        cases t with
        | ptr e =>
          simp only [HasTy] at h
          have ih := exec_good v e (n + 1) h
          simp only [gen, exec, Good, erase, addrs] at ih ⊢
          obtain ⟨h1, h2, h3⟩ := ih
          refine ⟨by rw [h1], by omega, ?_⟩
          intro x hx
          rcases List.mem_cons.mp hx with rfl | hx
          · omega
          · have := h3 x hx; omega
        | _ => simp [HasTy] at h
    | .slice a vs, t, n, h => by
        cases t with
        | slice e =>
          simp only [HasTy] at h
          have ih := execAll_good vs e (n + 1) h
          simp only [gen, exec, Good, GoodL, erase, addrs] at ih ⊢
          obtain ⟨h1, h2, h3⟩ := ih
          refine ⟨by rw [h1], by omega, ?_⟩
          intro x hx
          rcases List.mem_cons.mp hx with rfl | hx
          · omega
          · have := h3 x hx; omega
        | _ => simp [HasTy] at h
    | .struct vs, t, n, h => by
        cases t with
        | struct fs =>
          simp only [HasTy] at h
          simp only [gen]
          split
          · rename_i ha
            have hz := noaddrs vs fs h ha
            simp [exec, Good, addrs, hz]
          · have ih := execZip_good vs fs n h
            simp only [exec, Good, GoodL, erase, addrs] at ih ⊢
            exact ⟨by rw [ih.1], ih.2⟩
        | _ => simp [HasTy] at h
  theorem execAll_good : ∀ (vs : Vals) (e : Ty) (n : Nat), AllTy vs e →
      GoodL vs n (exec.execAll (gen e) vs n)
    | .nil, e, n, _ => by simp [exec.execAll, GoodL, addrsL]
    | .cons v vs, e, n, h => by
        simp only [AllTy] at h
        have ih1 := exec_good v e n h.1
        have ih2 := execAll_good vs e (exec (gen e) v n).2 h.2
        simp only [exec.execAll, Good, GoodL, eraseL, addrsL] at ih1 ih2 ⊢
        obtain ⟨a1, a2, a3⟩ := ih1
        obtain ⟨b1, b2, b3⟩ := ih2
        refine ⟨by rw [a1, b1], by omega, ?_⟩
        intro x hx
        rcases List.mem_append.mp hx with hx | hx
        · have := a3 x hx; omega
        · have := b3 x hx; omega
  theorem execZip_good : ∀ (vs : Vals) (ts : Tys) (n : Nat), HasTys vs ts →
      GoodL vs n (exec.execZip (gens ts) vs n)
    | .nil, ts, n, h => by
        cases ts <;> simp [HasTys] at h
        simp [gens, exec.execZip, GoodL, addrsL]
    | .cons v vs, ts, n, h => by
        cases ts with
        | nil => simp [HasTys] at h
        | cons t ts =>
          simp only [HasTys] at h
          have ih1 := exec_good v t n h.1
          have ih2 := execZip_good vs ts (exec (gen t) v n).2 h.2
          simp only [gens, exec.execZip, Good, GoodL, eraseL, addrsL] at ih1 ih2 ⊢
          obtain ⟨a1, a2, a3⟩ := ih1
          obtain ⟨b1, b2, b3⟩ := ih2
          refine ⟨by rw [a1, b1], by omega, ?_⟩
          intro x hx
          rcases List.mem_append.mp hx with hx | hx
          · have := a3 x hx; omega
          · have := b3 x hx; omega
end

/-- C16 (stage 2, reduced fragment): the copy is deep-equal to the original, preserves nil vs
    empty, and shares no storage with it. -/
theorem deepcopy_correct (v : Val) (t : Ty) (n : Nat) (h : HasTy v t) (hfresh : ∀ a ∈ addrs v, a < n) :
    erase (exec (gen t) v n).1 = erase v ∧ ∀ a ∈ addrs (exec (gen t) v n).1, a ∉ addrs v := by
  obtain ⟨h1, _, h3⟩ := exec_good v t n h
  refine ⟨h1, ?_⟩
  intro a ha hmem
  have := h3 a ha
  have := hfresh a hmem
  omega

#print axioms deepcopy_correct
end DeepCopy

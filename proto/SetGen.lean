/-! C17: the generated set type (`map[T]Empty`) with an explicit heap, so that "binary operations
    leave their operands unchanged" is a statement about state and not a triviality. Map iteration
    order is the order of the key list, which is arbitrary. -/
namespace SetGen

variable {α : Type} [DecidableEq α]

/-- a Go map used as a set: duplicate-free key list in *some* order -/
abbrev Keys (α : Type) := List α

abbrev Heap (α : Type) := List (Keys α)      -- address = index

def has (s : Keys α) (x : α) : Bool := s.contains x

/-- `s[item] = Empty{}` -/
def ins (s : Keys α) (x : α) : Keys α := if has s x then s else s ++ [x]
/-- `delete(s, item)` -/
def del (s : Keys α) (x : α) : Keys α := s.filter (· ≠ x)

def insertAll (s : Keys α) (items : List α) : Keys α := items.foldl ins s

/-- `Clone`: ranges over the receiver (in its current iteration order) and inserts into a fresh map -/
def clone (s : Keys α) : Keys α := insertAll [] s
/-- `Union`: clone of s1, then insert every key of s2 -/
def union (s1 s2 : Keys α) : Keys α := insertAll (clone s1) s2
/-- `Difference` -/
def diff (s1 s2 : Keys α) : Keys α := insertAll [] (s1.filter (fun k => !has s2 k))
/-- `Intersection`: walks the smaller operand -/
def inter (s1 s2 : Keys α) : Keys α :=
  if s1.length < s2.length then insertAll [] (s1.filter (fun k => has s2 k))
  else insertAll [] (s2.filter (fun k => has s1 k))
def isSuperset (s1 s2 : Keys α) : Bool := s2.all (fun k => has s1 k)
/-- `Equal`: `len(s1) == len(s2) && s1.IsSuperset(s2)` -/
def equal (s1 s2 : Keys α) : Bool := s1.length == s2.length && isSuperset s1 s2

/-! ### membership characterisations (every iteration order) -/

theorem mem_ins (s : Keys α) (x y : α) : y ∈ ins s x ↔ y ∈ s ∨ y = x := by
  unfold ins has
  split
  · rename_i h
    have : x ∈ s := by simpa using h
    constructor
    · exact .inl
    · rintro (h | rfl) <;> assumption
  · simp

theorem nodup_ins (s : Keys α) (x : α) (h : s.Nodup) : (ins s x).Nodup := by
  unfold ins has
  split
  · exact h
  · rename_i hx
    have : x ∉ s := by simpa using hx
    rw [List.nodup_append]
    exact ⟨h, by simp, by intro a ha b hb; simp at hb; subst hb; intro e; subst e; exact this ha⟩

theorem mem_insertAll (s : Keys α) (items : List α) (y : α) :
    y ∈ insertAll s items ↔ y ∈ s ∨ y ∈ items := by
  unfold insertAll
  induction items generalizing s with
  | nil => simp
  | cons x xs ih =>
    simp only [List.foldl_cons, ih, mem_ins, List.mem_cons]
    constructor
    · rintro ((h | h) | h)
      · exact .inl h
      · exact .inr (.inl h)
      · exact .inr (.inr h)
    · rintro (h | h | h)
      · exact .inl (.inl h)
      · exact .inl (.inr h)
      · exact .inr h

theorem nodup_insertAll (s : Keys α) (items : List α) (h : s.Nodup) : (insertAll s items).Nodup := by
  unfold insertAll
  induction items generalizing s with
  | nil => simpa
  | cons x xs ih => exact ih _ (nodup_ins s x h)

theorem mem_union (s1 s2 : Keys α) (y : α) : y ∈ union s1 s2 ↔ y ∈ s1 ∨ y ∈ s2 := by
  simp [union, clone, mem_insertAll]

theorem mem_diff (s1 s2 : Keys α) (y : α) : y ∈ diff s1 s2 ↔ y ∈ s1 ∧ y ∉ s2 := by
  simp [diff, mem_insertAll, has]

theorem mem_inter (s1 s2 : Keys α) (y : α) : y ∈ inter s1 s2 ↔ y ∈ s1 ∧ y ∈ s2 := by
  unfold inter
  split
  · simp [mem_insertAll, has]
  · simp [mem_insertAll, has]; constructor <;> rintro ⟨a, b⟩ <;> exact ⟨b, a⟩

theorem isSuperset_iff (s1 s2 : Keys α) : isSuperset s1 s2 = true ↔ ∀ y, y ∈ s2 → y ∈ s1 := by
  simp [isSuperset, has]

/-- counting: a duplicate-free list contained in another of the same length contains it -/
theorem subset_of_length_eq {a b : List α} (ha : a.Nodup) (hb : b.Nodup) (hlen : a.length = b.length)
    (hsub : ∀ y, y ∈ b → y ∈ a) : ∀ y, y ∈ a → y ∈ b := by
  induction b generalizing a with
  | nil =>
    intro y hy
    have : a = [] := List.eq_nil_of_length_eq_zero (by simpa using hlen)
    subst this; cases hy
  | cons x xs ih =>
    intro y hy
    have hxa : x ∈ a := hsub x List.mem_cons_self
    -- remove x from a
    let a' := a.erase x
    have ha' : a'.Nodup := ha.erase x
    have hlen' : a'.length = xs.length := by
      have h1 : a'.length = a.length - 1 := List.length_erase_of_mem hxa
      have h2 : 0 < a.length := List.length_pos_of_mem hxa
      simp at hlen; omega
    have hsub' : ∀ z, z ∈ xs → z ∈ a' := by
      intro z hz
      have hzx : z ≠ x := by
        intro e; subst e
        exact (List.nodup_cons.mp hb).1 hz
      exact (ha.mem_erase_iff).2 ⟨hzx, hsub z (List.mem_cons_of_mem _ hz)⟩
    by_cases hyx : y = x
    · subst hyx; exact List.mem_cons_self
    · have : y ∈ a' := (ha.mem_erase_iff).2 ⟨hyx, hy⟩
      exact List.mem_cons_of_mem _ (ih ha' (List.nodup_cons.mp hb).2 hlen' hsub' y this)

/-- `Equal` decides set equality (needs the no-duplicate invariant of Go maps) -/
theorem equal_iff (s1 s2 : Keys α) (h1 : s1.Nodup) (h2 : s2.Nodup) :
    equal s1 s2 = true ↔ ∀ y, y ∈ s1 ↔ y ∈ s2 := by
  simp only [equal, Bool.and_eq_true, beq_iff_eq, isSuperset_iff]
  constructor
  · rintro ⟨hl, hs⟩ y
    exact ⟨subset_of_length_eq h1 h2 hl hs y, hs y⟩
  · intro h
    refine ⟨?_, fun y hy => (h y).2 hy⟩
    have p : s1.Perm s2 := (List.perm_ext_iff_of_nodup h1 h2).2 h
    exact p.length_eq

/-! ### heap level: binary operations allocate, operands untouched -/

/-- `s1.Union(s2)` on a heap: result stored at a fresh address -/
def heapUnion (h : Heap α) (a b : Nat) : Heap α × Nat :=
  (h ++ [union (h.getD a []) (h.getD b [])], h.length)

theorem heapUnion_operands (h : Heap α) (a b : Nat) (x : Nat) (hx : x < h.length) :
    (heapUnion h a b).1[x]? = h[x]? := by
  simp [heapUnion, List.getElem?_append_left hx]

theorem heapUnion_fresh (h : Heap α) (a b : Nat) : (heapUnion h a b).2 = h.length := rfl

end SetGen

namespace Json
abbrev Str := List Char

/-- `parse`: split at the first comma -/
def parse : Str → Str × Str
  | [] => ([], [])
  | c :: cs => if c = ',' then ([], cs) else let (n, o) := parse cs; (c :: n, o)

def splitComma : Str → List Str
  | [] => [[]]
  | c :: cs => if c = ',' then [] :: splitComma cs else
      match splitComma cs with
      | [] => [[c]]
      | h :: t => (c :: h) :: t

/-- `options.Contains` as written (loop over comma-separated words; empty option string → false) -/
def containsLoop (fuel : Nat) (s opt : Str) : Bool :=
  match fuel with
  | 0 => false
  | fuel + 1 =>
    if s.isEmpty then false else
    let (w, next) := parse s
    if w = opt then true else containsLoop fuel next opt

def contains (o opt : Str) : Bool := containsLoop (o.length + 1) o opt

structure J where
  name : Str
  omitted : Bool
  inl : Bool
  omitempty : Bool
deriving DecidableEq, Repr

def lookupJSON (fieldName tag : Str) : J :=
  if tag = "-".toList then ⟨[], true, false, false⟩ else
  let (name, opts) := parse tag
  let inl := contains opts "inline".toList
  let oe := contains opts "omitempty".toList
  let name := if !inl && name.isEmpty then fieldName else name
  ⟨name, false, inl, oe⟩

def render (t : J) : Str :=
  (if !t.inl then t.name else []) ++ (if t.omitempty then ",omitempty".toList else []) ++
  (if t.inl then ",inline".toList else [])

-- the Omit round trip fails (String() forgets Omit)
theorem omit_roundtrip_fails :
    lookupJSON "F".toList (render (lookupJSON "F".toList "-".toList)) ≠ lookupJSON "F".toList "-".toList := by
  decide

#eval lookupJSON "F".toList "x,omitemptyx,inline".toList |>.omitempty
#eval lookupJSON "F".toList ",omitempty,".toList |>.omitempty
end Json

import Walk2
namespace Walk2

/-! ## state relations -/

def Known (u : U) (o : Nat) : Prop := ∃ ob : Obj, u.objs[o]? = some ob ∧ ob.kind ≠ .unknown

def Le (u u' : U) : Prop := ∀ n o, lookup n u.index = some o → lookup n u'.index = some o

/-- objects that already have a kind are never touched again by anybody but their owner -/
def Frozen (u u' : U) : Prop := ∀ (o : Nat) (ob : Obj), u.objs[o]? = some ob → ob.kind ≠ .unknown → u'.objs[o]? = some ob

/-- objects only ever appear, keep their name, and never lose their kind -/
def Grows (u u' : U) : Prop :=
  ∀ (o : Nat) (ob : Obj), u.objs[o]? = some ob → ∃ ob' : Obj, u'.objs[o]? = some ob' ∧ ob'.name = ob.name ∧ (ob.kind ≠ .unknown → ob'.kind ≠ .unknown)

def NameOK (u : U) : Prop := ∀ n o, lookup n u.index = some o → ∃ ob : Obj, u.objs[o]? = some ob ∧ ob.name = n

def Kid (u : U) (n : Name) (x : Option Nat) : Prop := ∃ o, x = some o ∧ lookup n u.index = some o ∧ Known u o

inductive All2 {α β : Type} (R : α → β → Prop) : List α → List β → Prop
  | nil : All2 R [] []
  | cons {a b as bs} : R a b → All2 R as bs → All2 R (a :: as) (b :: bs)

theorem All2.imp {α β : Type} {R S : α → β → Prop} (h : ∀ a b, R a b → S a b) {l₁ l₂} (p : All2 R l₁ l₂) :
    All2 S l₁ l₂ := by
  induction p with
  | nil => exact .nil
  | cons r _ ih => exact .cons (h _ _ r) ih

def Match1 (F : Facts) (u : U) (ob : Obj) (g : Nat) : Prop :=
  match F.node g with
  | .basic _ => ob.kind = .unsupported
  | .pointer e => ob.kind = .pointer ∧ Kid u (F.nm e) ob.elem
  | .slice e => ob.kind = .slice ∧ Kid u (F.nm e) ob.elem
  | .map k e => ob.kind = .map ∧ Kid u (F.nm e) ob.elem ∧ Kid u (F.nm k) ob.key
  | .struct fs => ob.kind = .struct ∧
      All2 (fun (m : Str × Nat) (f : Str × Nat) => m.1 = f.1 ∧ Kid u (F.nm f.2) (some m.2)) ob.members fs
  | .named und => ob.kind = .alias ∧ Kid u (F.nm und) ob.under

/-- objects without a kind are bare markers -/
def Bare (u : U) : Prop := ∀ (o : Nat) (ob : Obj), u.objs[o]? = some ob → ob.kind = .unknown →
  ob.elem = none ∧ ob.key = none ∧ ob.under = none ∧ ob.members = []

def Inv (F : Facts) (u : U) (P : List Nat) : Prop :=
  (NameOK u ∧ Bare u) ∧ ∀ (o : Nat) (ob : Obj), u.objs[o]? = some ob → ob.kind ≠ .unknown → o ∈ P ∨ ∃ g, ob.src = some g ∧ Match1 F u ob g

/-! ## monotonicity -/

theorem Known.mono {u u' o} (h : Known u o) (hg : Grows u u') : Known u' o := by
  obtain ⟨ob, h1, h2⟩ := h
  obtain ⟨ob', h3, _, h5⟩ := hg o ob h1
  exact ⟨ob', h3, h5 h2⟩

theorem Kid.mono {u u' n x} (h : Kid u n x) (hl : Le u u') (hg : Grows u u') : Kid u' n x := by
  obtain ⟨o, h1, h2, h3⟩ := h
  exact ⟨o, h1, hl _ _ h2, h3.mono hg⟩

theorem Match1.mono {F u u' ob g} (h : Match1 F u ob g) (hl : Le u u') (hg : Grows u u') :
    Match1 F u' ob g := by
  unfold Match1 at *
  split <;> simp_all
  · exact h.2.mono hl hg
  · exact h.2.mono hl hg
  · exact ⟨h.2.1.mono hl hg, h.2.2.mono hl hg⟩
  · exact h.2.imp (fun _ _ hm => ⟨hm.1, hm.2.mono hl hg⟩)
  · exact h.2.mono hl hg

theorem Le.refl (u : U) : Le u u := fun _ _ h => h
theorem Le.trans {a b c : U} (h1 : Le a b) (h2 : Le b c) : Le a c := fun n o h => h2 n o (h1 n o h)
theorem Grows.refl (u : U) : Grows u u := fun _ ob h => ⟨ob, h, rfl, id⟩
theorem Grows.trans {a b c : U} (h1 : Grows a b) (h2 : Grows b c) : Grows a c := by
  intro o ob h
  obtain ⟨ob', h3, h4, h5⟩ := h1 o ob h
  obtain ⟨ob'', h6, h7, h8⟩ := h2 o ob' h3
  exact ⟨ob'', h6, h7.trans h4, fun hk => h8 (h5 hk)⟩
theorem Frozen.refl (u : U) : Frozen u u := fun _ _ h _ => h
theorem Frozen.trans {a b c : U} (h1 : Frozen a b) (h2 : Frozen b c) : Frozen a c :=
  fun o ob h hk => h2 o ob (h1 o ob h hk) hk

/-! ## `type` (get-or-create) -/

theorem lookup_cons_self (n : Name) (v : Nat) (r) : lookup n ((n, v) :: r) = some v := by simp [lookup]

theorem type_bare (u : U) (n : Name) (hb : Bare u) : Bare (u.type n).1 := by
  unfold U.type
  split
  · exact hb
  · intro o ob h hk
    by_cases hlt : o < u.objs.length
    · exact hb o ob (by simpa [List.getElem?_append_left hlt] using h) hk
    · have hge : u.objs.length ≤ o := Nat.le_of_not_lt hlt
      rw [List.getElem?_append_right hge] at h
      by_cases h0 : o - u.objs.length = 0
      · simp [h0] at h; subst h; simp
      · have : ∃ k, o - u.objs.length = k + 1 := ⟨o - u.objs.length - 1, by omega⟩
        obtain ⟨k, hk'⟩ := this
        simp [hk'] at h

theorem type_spec (u : U) (n : Name) (hn : NameOK u) :
    let r := u.type n
    NameOK r.1 ∧ Le u r.1 ∧ Grows u r.1 ∧ Frozen u r.1 ∧ lookup n r.1.index = some r.2 ∧
    (∀ (o : Nat) (ob : Obj), r.1.objs[o]? = some ob → ob.kind ≠ .unknown → u.objs[o]? = some ob) := by
  unfold U.type
  split
  · rename_i o ho
    exact ⟨hn, Le.refl _, Grows.refl _, Frozen.refl _, ho, fun _ _ h _ => h⟩
  · rename_i hnone
    refine ⟨?_, ?_, ?_, ?_, ?_, ?_⟩
    · intro m o hm
      simp only [lookup] at hm
      split at hm
      · rename_i heq
        cases hm
        exact ⟨{ name := n }, by simp, heq⟩
      · obtain ⟨ob, h1, h2⟩ := hn m o hm
        refine ⟨ob, ?_, h2⟩
        have : o < u.objs.length := by
          have := List.getElem?_eq_some_iff.mp h1; exact this.1
        simp [List.getElem?_append_left this, h1]
    · intro m o hm
      simp only [lookup]
      split
      · subst_vars; simp [hnone] at hm
      · exact hm
    · intro o ob h
      have hlt : o < u.objs.length := (List.getElem?_eq_some_iff.mp h).1
      exact ⟨ob, by simp [List.getElem?_append_left hlt, h], rfl, id⟩
    · intro o ob h _
      have hlt : o < u.objs.length := (List.getElem?_eq_some_iff.mp h).1
      simp [List.getElem?_append_left hlt, h]
    · exact lookup_cons_self _ _ _
    · intro o ob h hk
      by_cases hlt : o < u.objs.length
      · simpa [List.getElem?_append_left hlt] using h
      · have hge : u.objs.length ≤ o := Nat.le_of_not_lt hlt
        rw [List.getElem?_append_right hge] at h
        by_cases h0 : o - u.objs.length = 0
        · simp [h0] at h; subst h; simp at hk
        · have : ∃ k, o - u.objs.length = k + 1 := ⟨o - u.objs.length - 1, by omega⟩
          obtain ⟨k, hk'⟩ := this
          simp [hk'] at h


/-! ## `modify` -/

theorem modify_get_eq {u : U} {o f} {ob : Obj} (h : u.objs[o]? = some ob) :
    (u.modify o f).objs[o]? = some (f ob) := by
  simp [U.modify, h]

theorem modify_get_ne {u : U} {o x f} (h : o ≠ x) : (u.modify o f).objs[x]? = u.objs[x]? := by
  simp [U.modify, List.getElem?_modify_ne _ _ h]

/-- a field update that keeps the name and does not erase a kind -/
def Mild (f : Obj → Obj) : Prop := ∀ ob, (f ob).name = ob.name ∧ (ob.kind ≠ .unknown → (f ob).kind ≠ .unknown)

theorem modify_grows {u : U} {o f} (hf : Mild f) : Grows u (u.modify o f) := by
  intro x ob h
  by_cases hx : o = x
  · subst hx
    exact ⟨f ob, modify_get_eq h, (hf ob).1, (hf ob).2⟩
  · exact ⟨ob, by rw [modify_get_ne hx]; exact h, rfl, id⟩

theorem modify_le {u : U} {o f} : Le u (u.modify o f) := fun _ _ h => h

theorem modify_nameOK {u : U} {o f} (hf : Mild f) (hn : NameOK u) : NameOK (u.modify o f) := by
  intro n x hx
  obtain ⟨ob, h1, h2⟩ := hn n x hx
  obtain ⟨ob', h3, h4, _⟩ := modify_grows (o := o) hf x ob h1
  exact ⟨ob', h3, h4.trans h2⟩

theorem modify_bare {u : U} {o f} (hb : Bare u) (hk : ∀ ob : Obj, u.objs[o]? = some ob → (f ob).kind ≠ .unknown) :
    Bare (u.modify o f) := by
  intro x ob hx hkx
  by_cases hox : o = x
  · subst hox
    cases h0 : u.objs[o]? with
    | none =>
      have : (u.modify o f).objs[o]? = none := by simp [U.modify, h0]
      rw [this] at hx; cases hx
    | some ob0 =>
      rw [modify_get_eq h0] at hx; cases hx
      exact absurd hkx (hk ob0 h0)
  · rw [modify_get_ne hox] at hx; exact hb x ob hx hkx

/-- (A) marking an object that had no kind puts it on the pending stack -/
theorem inv_mark {F} {u : U} {P o f} (hf : Mild f) (hkf : ∀ ob : Obj, (f ob).kind ≠ .unknown)
    (h : Inv F u P) : Inv F (u.modify o f) (o :: P) := by
  obtain ⟨⟨hn, hb⟩, hi⟩ := h
  refine ⟨⟨modify_nameOK hf hn, modify_bare hb (fun ob _ => hkf ob)⟩, ?_⟩
  intro x ob hx hk
  by_cases hox : o = x
  · exact .inl (by simp [hox])
  · rw [modify_get_ne hox] at hx
    rcases hi x ob hx hk with hp | ⟨g, hs, hm⟩
    · exact .inl (List.mem_cons_of_mem _ hp)
    · exact .inr ⟨g, hs, hm.mono modify_le (modify_grows hf)⟩

/-- (B) the owner completes its object and pops it from the stack -/
theorem inv_finish {F} {u : U} {P o f g} {ob : Obj} (hf : Mild f) (h : Inv F u (o :: P))
    (hob : u.objs[o]? = some ob) (hsrc : (f ob).src = some g)
    (hkf : (f ob).kind ≠ .unknown)
    (hm : Match1 F (u.modify o f) (f ob) g) : Inv F (u.modify o f) P := by
  obtain ⟨⟨hn, hb⟩, hi⟩ := h
  refine ⟨⟨modify_nameOK hf hn, modify_bare hb (fun ob' h' => by rw [hob] at h'; cases h'; exact hkf)⟩, ?_⟩
  intro x obx hx hk
  by_cases hox : o = x
  · subst hox
    rw [modify_get_eq hob] at hx
    cases hx
    exact .inr ⟨g, hsrc, hm⟩
  · rw [modify_get_ne hox] at hx
    rcases hi x obx hx hk with hp | ⟨g', hs, hm'⟩
    · rcases List.mem_cons.mp hp with rfl | hp
      · exact absurd rfl hox
      · exact .inl hp
    · exact .inr ⟨g', hs, hm'.mono modify_le (modify_grows hf)⟩

theorem modify_frozen {u : U} {o f} (hunk : ∀ ob : Obj, u.objs[o]? = some ob → ob.kind = .unknown) :
    Frozen u (u.modify o f) := by
  intro x ob hx hk
  by_cases hox : o = x
  · subst hox; exact absurd (hunk ob hx) hk
  · rw [modify_get_ne hox]; exact hx

theorem kind_unknown_of {u : U} {o} (h : ¬ u.kind o ≠ .unknown) :
    ∀ ob : Obj, u.objs[o]? = some ob → ob.kind = .unknown := by
  intro ob hob
  have : u.kind o = .unknown := by simpa using h
  simpa [U.kind, hob] using this

theorem known_of_kind {u : U} {o} (h : u.kind o ≠ .unknown) : Known u o := by
  unfold U.kind at h
  unfold Known
  cases hob : u.objs[o]? with
  | none => simp [hob] at h
  | some ob => exact ⟨ob, rfl, by simpa [hob] using h⟩


structure Post (F : Facts) (u u' : U) (P : List Nat) (n : Name) (o : Nat) : Prop where
  inv : Inv F u' P
  le : Le u u'
  grows : Grows u u'
  frozen : Frozen u u'
  idx : lookup n u'.index = some o
  known : Known u' o

def GoodSetter (set : Setter) : Prop :=
  ∀ ob x, (set ob x).name = ob.name ∧ (set ob x).kind = ob.kind ∧ (set ob x).src = ob.src

def applySetters (ob : Obj) : List (Nat × Setter) → List Nat → Obj
  | (_, set) :: ks, x :: xs => applySetters (set ob x) ks xs
  | _, _ => ob

theorem applySetters_meta {ob kids xs} (hk : ∀ k ∈ kids, GoodSetter k.2) :
    (applySetters ob kids xs).name = ob.name ∧ (applySetters ob kids xs).kind = ob.kind ∧
    (applySetters ob kids xs).src = ob.src := by
  induction kids generalizing ob xs with
  | nil => simp [applySetters]
  | cons k ks ih =>
    cases xs with
    | nil => simp [applySetters]
    | cons x xs =>
      obtain ⟨c, set⟩ := k
      simp only [applySetters]
      have h1 := hk (c, set) (List.mem_cons_self)
      have h2 := ih (ob := set ob x) (xs := xs) (fun k hk' => hk k (List.mem_cons_of_mem _ hk'))
      exact ⟨h2.1.trans (h1 ob x).1, h2.2.1.trans (h1 ob x).2.1, h2.2.2.trans (h1 ob x).2.2⟩

theorem goodSetter_mild {set : Setter} (h : GoodSetter set) (x : Nat) : Mild (fun ob => set ob x) :=
  fun ob => ⟨(h ob x).1, fun hk => by rw [(h ob x).2.1]; exact hk⟩

/-- known objects other than the owner are untouched -/
def FrozenExcept (o : Nat) (u u' : U) : Prop :=
  ∀ (x : Nat) (ob : Obj), x ≠ o → u.objs[x]? = some ob → ob.kind ≠ .unknown → u'.objs[x]? = some ob

theorem runKids_spec {F : Facts} {w : U → Nat → Option (U × Nat)} {o : Nat} {P : List Nat}
    (hw : ∀ u₁ c u₂ oc Q, Inv F u₁ Q → w u₁ c = some (u₂, oc) → Post F u₁ u₂ Q (F.nm c) oc) :
    ∀ (kids : List (Nat × Setter)) (u : U) (ob0 : Obj) (u' : U),
      (∀ k ∈ kids, GoodSetter k.2) → Inv F u (o :: P) → u.objs[o]? = some ob0 → ob0.kind ≠ .unknown →
      runKids w o u kids = some u' →
      Inv F u' (o :: P) ∧ Le u u' ∧ Grows u u' ∧ FrozenExcept o u u' ∧
      ∃ ocs, ocs.length = kids.length ∧ u'.objs[o]? = some (applySetters ob0 kids ocs) ∧
        All2 (fun (k : Nat × Setter) oc => Kid u' (F.nm k.1) (some oc)) kids ocs := by
  intro kids
  induction kids with
  | nil =>
    intro u ob0 u' _ hinv hob _ hrun
    simp only [runKids, Option.some.injEq] at hrun
    subst hrun
    exact ⟨hinv, Le.refl _, Grows.refl _, fun _ _ _ h _ => h, [], rfl, by simpa [applySetters] using hob, .nil⟩
  | cons k ks ih =>
    intro u ob0 u' hgood hinv hob hk0 hrun
    obtain ⟨c, set⟩ := k
    simp only [runKids] at hrun
    split at hrun
    · cases hrun
    · rename_i u1 oc hw1
      have p1 := hw _ _ _ _ _ hinv hw1
      have hset := hgood (c, set) List.mem_cons_self
      have hmild := goodSetter_mild hset oc
      have hob1 : u1.objs[o]? = some ob0 := p1.frozen _ _ hob hk0
      -- owner stores the child
      have hinv2 : Inv F (u1.modify o (fun ob => set ob oc)) (o :: P) := by
        obtain ⟨⟨hn, hb⟩, hi⟩ := p1.inv
        refine ⟨⟨modify_nameOK hmild hn, modify_bare hb (fun ob' h' => by
          rw [hob1] at h'; cases h'; rw [(hset ob0 oc).2.1]; exact hk0)⟩, ?_⟩
        intro x obx hx hkx
        by_cases hox : o = x
        · exact .inl (by simp [hox])
        · rw [modify_get_ne hox] at hx
          rcases hi x obx hx hkx with hp | ⟨g', hs, hm⟩
          · exact .inl hp
          · exact .inr ⟨g', hs, hm.mono modify_le (modify_grows hmild)⟩
      have hob2 : (u1.modify o (fun ob => set ob oc)).objs[o]? = some (set ob0 oc) := modify_get_eq hob1
      have hk2 : (set ob0 oc).kind ≠ .unknown := by rw [(hset ob0 oc).2.1]; exact hk0
      obtain ⟨hinv', hle', hg', hfe', ocs, hlen, hobf, hall⟩ :=
        ih _ _ _ (fun k hk' => hgood k (List.mem_cons_of_mem _ hk')) hinv2 hob2 hk2 hrun
      refine ⟨hinv', ?_, ?_, ?_, oc :: ocs, by simp [hlen], ?_, ?_⟩
      · exact p1.le.trans (modify_le.trans hle')
      · exact p1.grows.trans ((modify_grows hmild).trans hg')
      · intro x obx hxo hx hkx
        have h1 := p1.frozen x obx hx hkx
        have h2 : (u1.modify o (fun ob => set ob oc)).objs[x]? = some obx := by
          rw [modify_get_ne (Ne.symm hxo)]; exact h1
        exact hfe' x obx hxo h2 hkx
      · simpa [applySetters] using hobf
      · refine .cons ?_ hall
        have hkid1 : Kid u1 (F.nm c) (some oc) := ⟨oc, rfl, p1.idx, p1.known⟩
        exact hkid1.mono (modify_le.trans hle') ((modify_grows hmild).trans hg')

theorem fill_spec {F : Facts} {w : U → Nat → Option (U × Nat)} {u : U} {P : List Nat} {n : Name}
    {g : Nat} {K : Kind} {kids : List (Nat × Setter)} (hK : K ≠ .unknown)
    (hw : ∀ u₁ c u₂ oc Q, Inv F u₁ Q → w u₁ c = some (u₂, oc) → Post F u₁ u₂ Q (F.nm c) oc)
    (hgood : ∀ k ∈ kids, GoodSetter k.2)
    (hmatch : ∀ (u₃ : U) (ob : Obj) (ocs : List Nat), ob.kind = K → ocs.length = kids.length →
        ob.elem = none → ob.key = none → ob.under = none → ob.members = [] →
        All2 (fun (k : Nat × Setter) oc => Kid u₃ (F.nm k.1) (some oc)) kids ocs →
        Match1 F u₃ (applySetters ob kids ocs) g)
    (hinv : Inv F u P) {u' o} (hrun : fill w u n g K kids = some (u', o)) :
    Post F u u' P n o := by
  unfold fill at hrun
  obtain ⟨hn1, hle1, hg1, hf1, hidx1, hold1⟩ := type_spec u n hinv.1.1
  have hb1 := type_bare u n hinv.1.2
  generalize hty : u.type n = r at hrun hn1 hle1 hg1 hf1 hidx1 hold1 hb1
  obtain ⟨u1, o1⟩ := r
  simp only at hrun hn1 hle1 hg1 hf1 hidx1 hold1 hb1
  have hinv1 : Inv F u1 P := by
    refine ⟨⟨hn1, hb1⟩, ?_⟩
    intro x ob hx hk
    rcases hinv.2 x ob (hold1 x ob hx hk) hk with hp | ⟨g', hs, hm⟩
    · exact .inl hp
    · exact .inr ⟨g', hs, hm.mono hle1 hg1⟩
  split at hrun
  · rename_i hk
    simp only [Option.some.injEq, Prod.mk.injEq] at hrun
    obtain ⟨rfl, rfl⟩ := hrun
    exact ⟨hinv1, hle1, hg1, hf1, hidx1, known_of_kind hk⟩
  · rename_i hk
    have hunk := kind_unknown_of hk
    obtain ⟨ob1, hob1, _⟩ := hn1 n o1 hidx1
    have hmildK : Mild (fun ob : Obj => { ob with kind := K, src := some g }) :=
      fun ob => ⟨rfl, fun _ => hK⟩
    have hinv2 := inv_mark (o := o1) hmildK (fun _ => hK) hinv1
    split at hrun
    · cases hrun
    · rename_i u3 hr
      simp only [Option.some.injEq, Prod.mk.injEq] at hrun
      obtain ⟨rfl, rfl⟩ := hrun
      have hob2 : (u1.modify o1 (fun ob => { ob with kind := K, src := some g })).objs[o1]? =
          some { ob1 with kind := K, src := some g } := modify_get_eq hob1
      obtain ⟨hinv3, hle3, hg3, hfe3, ocs, hlen, hobf, hall⟩ :=
        runKids_spec hw kids _ _ _ hgood hinv2 hob2 (by simpa using hK) hr
      -- finish: pop the owner
      have hmeta := applySetters_meta (ob := { ob1 with kind := K, src := some g }) (xs := ocs) hgood
      have hfin : Inv F u3 P := by
        obtain ⟨hn3, hi3⟩ := hinv3
        refine ⟨hn3, ?_⟩
        intro x obx hx hkx
        by_cases hox : o1 = x
        · subst hox
          rw [hobf] at hx; cases hx
          refine .inr ⟨g, by rw [hmeta.2.2], ?_⟩
          -- ob1 is fresh: it had no kind in u1; either it was just created or it was a bare marker
          have hfr := hb1 o1 ob1 hob1 (hunk ob1 hob1)
          exact hmatch u3 _ ocs rfl hlen hfr.1 hfr.2.1 hfr.2.2.1 hfr.2.2.2 hall
        · rcases hi3 x obx hx hkx with hp | hr'
          · rcases List.mem_cons.mp hp with rfl | hp
            · exact absurd rfl hox
            · exact .inl hp
          · exact .inr hr'
      refine ⟨hfin, ?_, ?_, ?_, ?_, ?_⟩
      · exact hle1.trans (modify_le.trans hle3)
      · exact hg1.trans ((modify_grows hmildK).trans hg3)
      · intro x ob hx hkx
        have h1 := hf1 x ob hx hkx
        have hne : o1 ≠ x := by
          intro e; subst e
          exact hkx (hunk ob h1)
        have h2 : (u1.modify o1 (fun ob => { ob with kind := K, src := some g })).objs[x]? = some ob := by
          rw [modify_get_ne hne]; exact h1
        exact hfe3 x ob (Ne.symm hne) h2 hkx
      · exact hle3 _ _ hidx1
      · exact ⟨_, hobf, by rw [hmeta.2.1]; simpa using hK⟩


/-! ## per-kind matching -/

theorem good_setElem : GoodSetter setElem := fun _ _ => ⟨rfl, rfl, rfl⟩
theorem good_setKey : GoodSetter setKey := fun _ _ => ⟨rfl, rfl, rfl⟩
theorem good_setUnder : GoodSetter setUnder := fun _ _ => ⟨rfl, rfl, rfl⟩
theorem good_addMember (n : Str) : GoodSetter (addMember n) := fun _ _ => ⟨rfl, rfl, rfl⟩

theorem applySetters_members {F : Facts} {u : U} :
    ∀ (fs : List (Str × Nat)) (ob : Obj) (ocs : List Nat),
      All2 (fun (k : Nat × Setter) oc => Kid u (F.nm k.1) (some oc))
        (fs.map (fun (f : Str × Nat) => (f.2, addMember f.1))) ocs →
      ∃ ms, (applySetters ob (fs.map (fun (f : Str × Nat) => (f.2, addMember f.1))) ocs).members = ob.members ++ ms ∧
        All2 (fun (m : Str × Nat) (f : Str × Nat) => m.1 = f.1 ∧ Kid u (F.nm f.2) (some m.2)) ms fs := by
  intro fs
  induction fs with
  | nil =>
    intro ob ocs h
    cases h
    exact ⟨[], by simp [applySetters], .nil⟩
  | cons f fs ih =>
    intro ob ocs h
    cases h with
    | cons hk hrest =>
      rename_i oc ocs'
      obtain ⟨ms, hms, hall⟩ := ih (addMember f.1 ob oc) ocs' hrest
      refine ⟨(f.1, oc) :: ms, ?_, .cons ⟨rfl, hk⟩ hall⟩
      simp only [List.map_cons, applySetters]
      rw [hms]
      simp [addMember]

theorem shape_good {node K kids} (h : shape node = some (K, kids)) :
    K ≠ .unknown ∧ ∀ k ∈ kids, GoodSetter k.2 := by
  unfold shape at h
  split at h <;> simp at h
  · obtain ⟨rfl, rfl⟩ := h; exact ⟨by decide, by intro k hk; simp at hk; subst hk; exact good_setElem⟩
  · obtain ⟨rfl, rfl⟩ := h; exact ⟨by decide, by intro k hk; simp at hk; subst hk; exact good_setElem⟩
  · obtain ⟨rfl, rfl⟩ := h
    refine ⟨by decide, ?_⟩
    intro k hk; simp at hk
    rcases hk with rfl | rfl
    · exact good_setElem
    · exact good_setKey
  · obtain ⟨rfl, rfl⟩ := h
    refine ⟨by decide, ?_⟩
    intro k hk
    simp only [List.mem_map] at hk
    obtain ⟨f, _, rfl⟩ := hk
    exact good_addMember _

theorem shape_match {F : Facts} {g : Nat} {K kids} (h : shape (F.node g) = some (K, kids))
    (u₃ : U) (ob : Obj) (ocs : List Nat) (hk : ob.kind = K) (_hl : ocs.length = kids.length)
    (_he : ob.elem = none) (_hkey : ob.key = none) (_hu : ob.under = none) (hm : ob.members = [])
    (hall : All2 (fun (k : Nat × Setter) oc => Kid u₃ (F.nm k.1) (some oc)) kids ocs) :
    Match1 F u₃ (applySetters ob kids ocs) g := by
  unfold Match1
  unfold shape at h
  split at h <;> simp at h
  · rename_i e hnode
    obtain ⟨rfl, rfl⟩ := h
    rw [hnode]
    cases hall with
    | cons h1 hr => cases hr; exact ⟨by simpa [applySetters, setElem] using hk, by simpa [applySetters, setElem] using h1⟩
  · rename_i e hnode
    obtain ⟨rfl, rfl⟩ := h
    rw [hnode]
    cases hall with
    | cons h1 hr => cases hr; exact ⟨by simpa [applySetters, setElem] using hk, by simpa [applySetters, setElem] using h1⟩
  · rename_i k e hnode
    obtain ⟨rfl, rfl⟩ := h
    rw [hnode]
    cases hall with
    | cons h1 hr =>
      cases hr with
      | cons h2 hr2 =>
        cases hr2
        exact ⟨by simpa [applySetters, setElem, setKey] using hk,
               by simpa [applySetters, setElem, setKey] using h1,
               by simpa [applySetters, setElem, setKey] using h2⟩
  · rename_i fs hnode
    obtain ⟨rfl, rfl⟩ := h
    rw [hnode]
    obtain ⟨ms, hms, hall'⟩ := applySetters_members fs ob ocs hall
    have hmeta := applySetters_meta (ob := ob) (xs := ocs)
      (kids := fs.map (fun (f : Str × Nat) => (f.2, addMember f.1)))
      (by intro k hk; simp only [List.mem_map] at hk; obtain ⟨f, _, rfl⟩ := hk; exact good_addMember _)
    refine ⟨hmeta.2.1.trans hk, ?_⟩
    rw [hms, hm]
    simpa using hall'

/-- the name under which the object for node `g` is registered -/
def tgtName (F : Facts) (useName : Option Name) (g : Nat) : Name :=
  match F.node g with
  | .basic _ => F.nm g
  | .named _ => F.nm g
  | _ => useName.getD (F.nm g)

theorem tgtName_none (F : Facts) (g : Nat) : tgtName F none g = F.nm g := by
  unfold tgtName; split <;> rfl

theorem walk_spec (F : Facts) : ∀ (fuel : Nat) (u : U) (useName : Option Name) (g : Nat) (u' : U) (o : Nat)
    (P : List Nat), Inv F u P → walk F fuel u useName g = some (u', o) →
    Post F u u' P (tgtName F useName g) o := by
  intro fuel
  induction fuel with
  | zero => intro u useName g u' o P _ h; simp [walk] at h
  | succ fuel ih =>
    intro u useName g u' o P hinv hrun
    have hw : ∀ u₁ c u₂ oc Q, Inv F u₁ Q → (fun u c => walk F fuel u none c) u₁ c = some (u₂, oc) →
        Post F u₁ u₂ Q (F.nm c) oc := by
      intro u₁ c u₂ oc Q hi hr
      have := ih u₁ none c u₂ oc Q hi hr
      rwa [tgtName_none] at this
    unfold walk at hrun
    simp only at hrun
    split at hrun
    · -- basic
      rename_i bn hnode
      have ht : tgtName F useName g = F.nm g := by unfold tgtName; rw [hnode]
      rw [ht]
      refine fill_spec (K := .unsupported) (by decide) hw (by intro k hk; cases hk) ?_ hinv hrun
      intro u₃ ob ocs hk _ _ _ _ _ _
      unfold Match1; rw [hnode]; simpa [applySetters] using hk
    · -- named
      rename_i und hnode
      have ht : tgtName F useName g = F.nm g := by unfold tgtName; rw [hnode]
      rw [ht]
      split at hrun
      · -- alias rule
        refine fill_spec (K := .alias) (by decide) hw
          (by intro k hk; simp at hk; subst hk; exact good_setUnder) ?_ hinv hrun
        intro u₃ ob ocs hk _ _ _ _ _ hall
        unfold Match1; rw [hnode]
        cases hall with
        | cons h1 hr => cases hr; exact ⟨by simpa [applySetters, setUnder] using hk, by simpa [applySetters, setUnder] using h1⟩
      · -- flattening rule
        rename_i hna
        obtain ⟨hn1, hle1, hg1, hf1, hidx1, hold1⟩ := type_spec u (F.nm g) hinv.1.1
        have hb1 := type_bare u (F.nm g) hinv.1.2
        generalize hty : u.type (F.nm g) = r at hrun hn1 hle1 hg1 hf1 hidx1 hold1 hb1
        obtain ⟨u1, o1⟩ := r
        simp only at hrun hn1 hle1 hg1 hf1 hidx1 hold1 hb1
        have hinv1 : Inv F u1 P := by
          refine ⟨⟨hn1, hb1⟩, ?_⟩
          intro x ob hx hk
          rcases hinv.2 x ob (hold1 x ob hx hk) hk with hp | ⟨g', hs, hm⟩
          · exact .inl hp
          · exact .inr ⟨g', hs, hm.mono hle1 hg1⟩
        split at hrun
        · rename_i hk
          simp only [Option.some.injEq, Prod.mk.injEq] at hrun
          obtain ⟨rfl, rfl⟩ := hrun
          exact ⟨hinv1, hle1, hg1, hf1, hidx1, known_of_kind hk⟩
        · have p := ih u1 (some (F.nm g)) und u' o P hinv1 hrun
          have htn : tgtName F (some (F.nm g)) und = F.nm g := by
            unfold tgtName
            split
            · rename_i hb; rw [hb] at hna; simp [isAliasUnder] at hna
            · rename_i hb; rw [hb] at hna; simp [isAliasUnder] at hna
            · rfl
          rw [htn] at p
          exact ⟨p.inv, hle1.trans p.le, hg1.trans p.grows, hf1.trans p.frozen, p.idx, p.known⟩
    · -- pointer / slice / map / struct
      rename_i node hnb hnn
      split at hrun
      · rename_i K kids hshape
        have ht : tgtName F useName g = useName.getD (F.nm g) := by
          unfold tgtName
          split
          · rename_i b hb; exact absurd hb (hnb b)
          · rename_i b hb; exact absurd hb (hnn b)
          · rfl
        rw [ht]
        obtain ⟨hK, hgood⟩ := shape_good hshape
        exact fill_spec hK hw hgood (shape_match hshape) hinv hrun
      · cases hrun

/-- Walking any list of roots from the empty universe: every object that has a kind is a faithful
    one-step description of the Go node it was created for, and every object it refers to has a
    kind as well (closure) – nothing is left pending. -/
def walkAll (F : Facts) (fuel : Nat) : U → List Nat → Option U
  | u, [] => some u
  | u, g :: gs => match walk F fuel u none g with
    | none => none
    | some (u, _) => walkAll F fuel u gs

theorem inv_empty (F : Facts) : Inv F ⟨[], []⟩ [] :=
  ⟨⟨fun n o h => by simp [lookup] at h, fun o ob h => by simp at h⟩, fun o ob h => by simp at h⟩

theorem walkAll_faithful (F : Facts) (fuel : Nat) (roots : List Nat) (u : U)
    (h : walkAll F fuel ⟨[], []⟩ roots = some u) :
    ∀ (o : Nat) (ob : Obj), u.objs[o]? = some ob → ob.kind ≠ .unknown →
      ∃ g, ob.src = some g ∧ Match1 F u ob g := by
  have key : ∀ (gs : List Nat) (u0 u1 : U), Inv F u0 [] → walkAll F fuel u0 gs = some u1 → Inv F u1 [] := by
    intro gs
    induction gs with
    | nil => intro u0 u1 hi hr; simp [walkAll] at hr; subst hr; exact hi
    | cons g gs ih =>
      intro u0 u1 hi hr
      simp only [walkAll] at hr
      split at hr
      · cases hr
      · rename_i u2 o2 hw
        exact ih u2 u1 (walk_spec F fuel u0 none g u2 o2 [] hi hw).inv hr
  have hinv := key roots _ u (inv_empty F) h
  intro o ob hob hk
  rcases hinv.2 o ob hob hk with hp | hm
  · cases hp
  · exact hm

end Walk2
#print axioms Walk2.walkAll_faithful
#print axioms Walk2.walk_spec

import CaseFn
/-! C14: `Joiner(first, IC)` and `removePrefixAndSuffix` (ASCII). -/
namespace Namer
open CaseFn

abbrev Str := List Char

def lowerS (s : Str) : Str := s.map lower
def IC : Str → Str
  | [] => []
  | c :: cs => upper c :: cs
def IL : Str → Str
  | [] => []
  | c :: cs => lower c :: cs

/-- `Joiner(first, others)(pre, parts, post)` -/
def join (first others : Str → Str) (pre : Str) (parts : List Str) (post : Str) : Str :=
  first (others pre ++ (parts.map others).flatten ++ others post)

/-- `removePrefixAndSuffix`; the slice `s[b:e]` is partial (`none` = panic) -/
def strip (pre post s : Str) : Option Str :=
  let b := if (lowerS pre).isPrefixOf (lowerS s) then pre.length else 0
  let e := if (lowerS post).isSuffixOf (lowerS s) then s.length - post.length else s.length
  if b ≤ e then some ((s.take e).drop b) else none

theorem lowerS_IC (s : Str) : lowerS (IC s) = lowerS s := by
  cases s with
  | nil => rfl
  | cons c cs => simp [IC, lowerS, lower_upper]

theorem lower_lower (c : Char) : lower (lower c) = lower c := by
  unfold lower
  split
  · rename_i h
    have h1 : (Char.ofNat (c.toNat + 32)).toNat = c.toNat + 32 := toNat_ofNat_small _ (by omega)
    rw [h1]
    have : ¬ (65 ≤ c.toNat + 32 ∧ c.toNat + 32 ≤ 90) := by omega
    rw [if_neg this]
  · rfl

theorem lowerS_IL (s : Str) : lowerS (IL s) = lowerS s := by
  cases s with
  | nil => rfl
  | cons c cs => simp [IL, lowerS, lower_lower]

theorem IC_length (s : Str) : (IC s).length = s.length := by cases s <;> simp [IC]
theorem IL_length (s : Str) : (IL s).length = s.length := by cases s <;> simp [IL]

/-- Capitalisation functions used by the public / private namers: they keep the length and are
    invisible after lower-casing. -/
structure CapFn (f : Str → Str) : Prop where
  len : ∀ s, (f s).length = s.length
  low : ∀ s, lowerS (f s) = lowerS s

theorem capIC : CapFn IC := ⟨IC_length, lowerS_IC⟩
theorem capIL : CapFn IL := ⟨IL_length, lowerS_IL⟩

theorem lowerS_append (a b : Str) : lowerS (a ++ b) = lowerS a ++ lowerS b := by simp [lowerS]
theorem lowerS_length (a : Str) : (lowerS a).length = a.length := by simp [lowerS]

/-- Stripping what `Join` put around the middle gives back a string of the middle's length that is
    the middle up to capitalisation – prefix and suffix are removed exactly once, never more. -/
theorem strip_join {first others : Str → Str} (hf : CapFn first) (ho : CapFn others)
    (pre post : Str) (parts : List Str) :
    ∃ mid', strip pre post (join first others pre parts post) = some mid' ∧
      lowerS mid' = lowerS ((parts.map others).flatten) := by
  let mid := (parts.map others).flatten
  let s := join first others pre parts post
  have hs_low : lowerS s = lowerS pre ++ lowerS mid ++ lowerS post := by
    simp only [s, join]
    rw [hf.low, lowerS_append, lowerS_append, ho.low, ho.low]
  have hs_len : s.length = pre.length + mid.length + post.length := by
    have := congrArg List.length hs_low
    simp [lowerS_length] at this
    omega
  have hpre : (lowerS pre).isPrefixOf (lowerS s) = true := by
    rw [hs_low, List.isPrefixOf_iff_prefix]
    exact ⟨lowerS mid ++ lowerS post, by simp⟩
  have hsuf : (lowerS post).isSuffixOf (lowerS s) = true := by
    rw [hs_low, List.isSuffixOf_iff_suffix]
    exact ⟨lowerS pre ++ lowerS mid, by simp⟩
  refine ⟨(s.take (s.length - post.length)).drop pre.length, ?_, ?_⟩
  · show strip pre post s = _
    unfold strip
    simp only [hpre, hsuf, if_true]
    have : pre.length ≤ s.length - post.length := by omega
    simp [this]
  · have : lowerS ((s.take (s.length - post.length)).drop pre.length) =
        ((lowerS s).take (s.length - post.length)).drop pre.length := by
      simp [lowerS, List.map_drop, List.map_take]
    rw [this, hs_low]
    have h1 : s.length - post.length = (lowerS pre ++ lowerS mid).length := by
      simp [lowerS_length]; omega
    rw [h1, List.take_left']
    · have h2 : pre.length = (lowerS pre).length := by simp [lowerS_length]
      rw [h2, List.drop_left']
      rfl
    · rfl

/-- F17: stripping is also applied to the bare digits of an array length, which never carried the
    affixes; with matching prefix and suffix the slice bounds cross. -/
theorem strip_digits_panics : strip "4".toList "4".toList "4".toList = none := by decide
theorem strip_digits_eats : strip [] "2".toList "12".toList = some "1".toList := by decide

end Namer

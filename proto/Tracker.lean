namespace Tracker

abbrev Str := List Char

/-! assoc maps with Go `m[k] = v` semantics -/
def lookup (k : Str) : List (Str × Str) → Option Str
  | [] => none
  | (k', v) :: r => if k' = k then some v else lookup k r

def insert (k v : Str) : List (Str × Str) → List (Str × Str)
  | [] => [(k, v)]
  | (k', v') :: r => if k' = k then (k, v) :: r else (k', v') :: insert k v r

theorem lookup_insert (k v k2 : Str) (m) :
    lookup k2 (insert k v m) = if k2 = k then some v else lookup k2 m := by
  induction m with
  | nil =>
    by_cases h : k2 = k
    · simp [insert, lookup, h]
    · have : ¬ k = k2 := fun e => h e.symm
      simp [insert, lookup, h, this]
  | cons hd tl ih =>
    obtain ⟨k', v'⟩ := hd
    by_cases h1 : k' = k <;> by_cases h2 : k2 = k <;> by_cases h3 : k' = k2 <;>
      simp_all [insert, lookup, eq_comm]

def splitOn (sep : Char) : Str → List Str
  | [] => [[]]
  | c :: cs =>
    if c = sep then [] :: splitOn sep cs
    else match splitOn sep cs with
      | [] => [[c]]
      | h :: t => (c :: h) :: t

def sanitize (s : Str) : Str := s.filter (fun c => c != '_' && c != '.' && c != '-')

def keywords : List Str := ["break","case","chan","const","continue","default","defer","else",
  "fallthrough","for","func","go","goto","if","import","interface","map","package","range",
  "return","select","struct","switch","type","var"].map String.toList

structure T where
  p2n : List (Str × Str)
  n2p : List (Str × Str)
  localPkg : Str

/-- candidates in the order the loop tries them: dirs[n:] joined, n = len-1 … 0, sanitised -/
def candidates (path : Str) : List Str :=
  let dirs := splitOn '/' path
  (List.range dirs.length).reverse.map (fun n => sanitize ((dirs.drop n).flatten))

/-- `golangTrackerLocalName`; `none` = panic("can't find import for …") -/
def localName (t : T) (path : Str) : Option Str :=
  match (candidates path).find? (fun c => (lookup c t.n2p).isNone) with
  | none => none
  | some c => some (if keywords.contains c then '_' :: c else c)

inductive Res | ok (t : T) | panic

def addSymbol (t : T) (pkg : Str) : Res :=
  if t.localPkg = pkg then .ok t
  else if pkg.isEmpty then .ok t
  else if (lookup pkg t.p2n).isSome then .ok t
  else match localName t pkg with
    | none => .panic
    | some n => .ok { t with n2p := insert n pkg t.n2p, p2n := insert pkg n t.p2n }

def Inv (t : T) : Prop :=
  (∀ p n, lookup p t.p2n = some n → lookup n t.n2p = some p) ∧
  (∀ n p, lookup n t.n2p = some p → lookup p t.p2n = some n) ∧
  lookup t.localPkg t.p2n = none

/-- guard: no candidate alias of the path is a Go keyword -/
def NoKw (path : Str) : Prop := ∀ c ∈ candidates path, keywords.contains c = false

theorem inv_step (t : T) (pkg : Str) (h : Inv t) (hk : NoKw pkg) :
    ∀ t', addSymbol t pkg = .ok t' → Inv t' := by
  intro t' ht
  unfold addSymbol at ht
  split at ht
  · cases ht; exact h
  split at ht
  · cases ht; exact h
  split at ht
  · cases ht; exact h
  rename_i hloc _ hnew
  split at ht
  · cases ht
  rename_i n hn
  cases ht
  -- n is a fresh, non-keyword candidate
  unfold localName at hn
  split at hn
  · cases hn
  rename_i c hc
  have hmem := List.mem_of_find?_eq_some hc
  have hfree := List.find?_some hc
  have hkw := hk c hmem
  have hnc : n = c := by
    rw [hkw] at hn
    simpa using hn.symm
  subst hnc
  obtain ⟨h1, h2, h3⟩ := h
  have hnone : lookup n t.n2p = none := by simpa using hfree
  have hpnew : lookup pkg t.p2n = none := by simpa using hnew
  refine ⟨?_, ?_, ?_⟩
  · intro p m hp
    rw [lookup_insert] at hp
    rw [lookup_insert]
    by_cases hpp : p = pkg
    · subst hpp
      rw [if_pos rfl] at hp
      cases hp
      rw [if_pos rfl]
    · rw [if_neg hpp] at hp
      have := h1 p m hp
      have hne : ¬ m = n := by intro e; subst e; rw [hnone] at this; cases this
      rw [if_neg hne]; exact this
  · intro m p hm
    rw [lookup_insert] at hm
    rw [lookup_insert]
    by_cases hmm : m = n
    · subst hmm
      rw [if_pos rfl] at hm
      cases hm
      rw [if_pos rfl]
    · rw [if_neg hmm] at hm
      have := h2 m p hm
      have hne : ¬ p = pkg := by intro e; subst e; rw [hpnew] at this; cases this
      rw [if_neg hne]; exact this
  · show lookup t.localPkg (insert pkg n t.p2n) = none
    rw [lookup_insert, if_neg hloc]; exact h3

/-- the unguarded statement is false: two paths ending in the keyword `go` share `_go` -/
def t0 : T := ⟨[], [], []⟩
def run (ps : List String) : Option T :=
  ps.foldl (fun acc p => match acc with
    | none => none
    | some t => match addSymbol t p.toList with | .ok t' => some t' | .panic => none) (some t0)

#eval (run ["a/go", "b/go"]).map (fun t => t.p2n.map (fun (a, b) => (String.ofList a, String.ofList b)))
#eval (run ["a-b", "ab"]).isNone
#eval (run ["x/2fa", "x/_"]).map (fun t => t.p2n.map (fun (a, b) => (String.ofList a, String.ofList b)))

theorem kw_collision :
    (run ["a/go", "b/go"]).map (fun t => (lookup "a/go".toList t.p2n, lookup "b/go".toList t.p2n))
      = some (some "_go".toList, some "_go".toList) := by decide

theorem punct_panics : (run ["a-b", "ab"]).isNone = true := by decide

end Tracker

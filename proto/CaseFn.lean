namespace CaseFn

def upper (c : Char) : Char :=
  if 97 ≤ c.toNat ∧ c.toNat ≤ 122 then Char.ofNat (c.toNat - 32) else c
def lower (c : Char) : Char :=
  if 65 ≤ c.toNat ∧ c.toNat ≤ 90 then Char.ofNat (c.toNat + 32) else c

theorem toNat_ofNat_small (n : Nat) (h : n < 0xd800) : (Char.ofNat n).toNat = n := by
  simp [Char.ofNat, Char.toNat, Char.ofNatAux, Nat.isValidChar, h]

theorem lower_upper (c : Char) : lower (upper c) = lower c := by
  unfold upper
  split
  · rename_i h
    have h1 : (Char.ofNat (c.toNat - 32)).toNat = c.toNat - 32 := toNat_ofNat_small _ (by omega)
    unfold lower
    rw [h1]
    have : 65 ≤ c.toNat - 32 ∧ c.toNat - 32 ≤ 90 := by omega
    rw [if_pos this]
    have : ¬ (65 ≤ c.toNat ∧ c.toNat ≤ 90) := by omega
    rw [if_neg this]
    have : c.toNat - 32 + 32 = c.toNat := by omega
    rw [this]
    exact Char.ofNat_toNat c
  · rfl

end CaseFn

/-! C18 (verdict half): `verifyRules` exactly as it loops, against the first-match semantics. -/
namespace ImportBoss

abbrev Str := List Char

structure Rule where
  sel : Nat                      -- index of the selector regexp (matching is external: `mtch`)
  allowed : List Str
  forbidden : List Str

abbrev File := List Rule         -- one .import-restrictions file, rules in file order
abbrev Stack := List File        -- nearest file first

def hasPrefix (v p : Str) : Bool := p.isPrefixOf v

/-- state threaded through the loops of `verifyRules` for one import `v` -/
structure St where
  forbidden : Bool := false      -- `forbiddenImports[v]` was set
  mismatched : Bool := false     -- `v` was appended to `allowedMismatchedImports`
  done : Bool := false           -- `break NextRestrictionFiles` happened

/-- body of the inner `for j, r := range rules.Rules` loop -/
def ruleStep (mtch : Nat → Str → Bool) (v : Str) (s : St) (r : Rule) : St :=
  if s.done then s else
  if !mtch r.sel v then s else
  let s := if r.forbidden.any (hasPrefix v) then { s with forbidden := true } else s
  if r.allowed.any (hasPrefix v) then { s with done := true }
  else { s with mismatched := true }

def checkImport (mtch : Nat → Str → Bool) (stack : Stack) (v : Str) : St :=
  stack.flatten.foldl (ruleStep mtch v) {}

/-- the tool's verdict: no forbidden import and no mismatch, over all imports (map order) -/
def passes (mtch : Nat → Str → Bool) (stack : Stack) (imports : List Str) : Bool :=
  imports.all (fun v => let s := checkImport mtch stack v; !s.forbidden && !s.mismatched)

/-- the statement's semantics: the first rule (nearest file first, file order) whose selector
    mtch decides; no matching rule means allowed -/
def firstMatch (mtch : Nat → Str → Bool) (stack : Stack) (v : Str) : Option Rule :=
  stack.flatten.find? (fun r => mtch r.sel v)

def specOK (mtch : Nat → Str → Bool) (stack : Stack) (v : Str) : Bool :=
  match firstMatch mtch stack v with
  | none => true
  | some r => r.allowed.any (hasPrefix v) && !r.forbidden.any (hasPrefix v)

theorem fold_done (mtch v) (rs : List Rule) (s : St) (h : s.done = true) :
    rs.foldl (ruleStep mtch v) s = s := by
  induction rs with
  | nil => rfl
  | cons r rs ih => simp [List.foldl_cons, ruleStep, h, ih]

theorem fold_bad (mtch v) (rs : List Rule) (s : St)
    (h : s.forbidden = true ∨ s.mismatched = true) :
    let s' := rs.foldl (ruleStep mtch v) s
    s'.forbidden = true ∨ s'.mismatched = true := by
  induction rs generalizing s with
  | nil => exact h
  | cons r rs ih =>
    simp only [List.foldl_cons]
    apply ih
    unfold ruleStep
    split
    · exact h
    · split
      · exact h
      · rcases h with h | h <;> split <;> split <;> simp_all

theorem check_spec (mtch : Nat → Str → Bool) (v : Str) (rs : List Rule) :
    let s := rs.foldl (ruleStep mtch v) {}
    (!s.forbidden && !s.mismatched) =
      (match rs.find? (fun r => mtch r.sel v) with
       | none => true
       | some r => r.allowed.any (hasPrefix v) && !r.forbidden.any (hasPrefix v)) := by
  induction rs with
  | nil => simp
  | cons r rs ih =>
    simp only [List.foldl_cons, List.find?_cons]
    by_cases hm : mtch r.sel v = true
    · simp only [hm]
      by_cases hf : r.forbidden.any (hasPrefix v) = true <;>
      by_cases ha : r.allowed.any (hasPrefix v) = true
      · have : ruleStep mtch v {} r = { forbidden := true, done := true } := by
          simp [ruleStep, hm, hf, ha]
        rw [this, fold_done _ _ _ _ rfl]; simp [hf, ha]
      · have : ruleStep mtch v {} r = { forbidden := true, mismatched := true } := by
          simp [ruleStep, hm, hf, ha]
        rw [this]
        have := fold_bad mtch v rs { forbidden := true, mismatched := true } (.inl rfl)
        simp only at this
        rcases this with h | h <;> simp [h, hf, ha]
      · have : ruleStep mtch v {} r = { done := true } := by
          simp [ruleStep, hm, hf, ha]
        rw [this, fold_done _ _ _ _ rfl]; simp [hf, ha]
      · have : ruleStep mtch v {} r = { mismatched := true } := by
          simp [ruleStep, hm, hf, ha]
        rw [this]
        have := fold_bad mtch v rs { mismatched := true } (.inr rfl)
        simp only at this
        rcases this with h | h <;> simp [h, hf, ha]
    · have : ruleStep mtch v {} r = {} := by simp [ruleStep, hm]
      rw [this]
      simpa [hm] using ih

/-- C18: the tool passes a package iff every import is unmatched, or allowed and not forbidden by
    the first matching rule – for any selector matcher and any iteration order of the import set. -/
theorem verdict_is_first_match (mtch : Nat → Str → Bool) (stack : Stack) (imports : List Str) :
    passes mtch stack imports = imports.all (specOK mtch stack) := by
  unfold passes specOK firstMatch checkImport
  congr 1
  funext v
  exact check_spec mtch v stack.flatten

theorem verdict_order_independent (mtch : Nat → Str → Bool) (stack : Stack) (i₁ i₂ : List Str)
    (h : i₁.Perm i₂) : passes mtch stack i₁ = passes mtch stack i₂ := by
  rw [verdict_is_first_match, verdict_is_first_match]
  rw [Bool.eq_iff_iff]
  simp only [List.all_eq_true]
  constructor
  · intro H v hv; exact H v (h.symm.subset hv)
  · intro H v hv; exact H v (h.subset hv)

end ImportBoss

/-! C09: the part of the formatter the schedule-independence rests on – canonicalisation of one
    parenthesised import block (sort specs by a total key, drop exact duplicates). The import set
    is a Go map; the assembled block lists it in iteration order, i.e. in an arbitrary permutation. -/
namespace Canon

variable {α : Type} [DecidableEq α] (le : α → α → Bool)

/-- remove adjacent duplicates (what `sortSpecs` does after sorting) -/
def dedupAdj : List α → List α
  | [] => []
  | [a] => [a]
  | a :: b :: r => if a = b then dedupAdj (b :: r) else a :: dedupAdj (b :: r)

def canon (specs : List α) : List α := dedupAdj (specs.mergeSort le)

/-- byte-identical output regardless of the order in which the imports were contributed or the
    map was iterated -/
theorem canon_perm
    (trans : ∀ a b c, le a b → le b c → le a c)
    (total : ∀ a b, le a b || le b a)
    (antisymm : ∀ a b, le a b → le b a → a = b)
    (l₁ l₂ : List α) (h : l₁.Perm l₂) : canon le l₁ = canon le l₂ := by
  unfold canon
  congr 1
  have s₁ := List.pairwise_mergeSort (le := le) trans total l₁
  have s₂ := List.pairwise_mergeSort (le := le) trans total l₂
  have p : (l₁.mergeSort le).Perm (l₂.mergeSort le) :=
    (List.mergeSort_perm l₁ le).trans (h.trans (List.mergeSort_perm l₂ le).symm)
  exact List.Perm.eq_of_pairwise (le := fun a b => le a b = true)
    (fun a b _ _ hab hba => antisymm a b hab hba) s₁ s₂ p

/-- the formatter's canonicalisation is idempotent on its own output's order -/
theorem sort_idem
    (trans : ∀ a b c, le a b → le b c → le a c)
    (total : ∀ a b, le a b || le b a) (l : List α) :
    (l.mergeSort le).mergeSort le = l.mergeSort le :=
  List.mergeSort_of_pairwise (List.pairwise_mergeSort trans total l)

end Canon

/-! C04 / C13 (executor part): `ExecuteTarget` (v2; v1 `ExecutePackage` has the same loop) over
    generators given as data. Accessor calls (Name/Filename/FileType) are not events. -/
namespace Exec

abbrev Str := List Char
abbrev Ty := Nat                       -- a type of the canonical order, by id
abbrev Namers := List (Str × Nat)      -- naming-system name ↦ namer id (Go map, last write wins)

structure Gen where
  id : Nat
  filter : Ty → Bool
  namers : Option Namers               -- `nil` or a map of overrides
  file : Str
  ftype : Str
  vars : List Str
  consts : List Str
  initErr : Bool
  genErr : Ty → Bool
  finErr : Bool
  imports : List Str

inductive Ev
  | tFilter (t : Ty)
  | gFilter (g : Nat) (t : Ty)
  | namers (g : Nat) (ctx : Namers)           -- context seen by the hook
  | vars (g : Nat) (ctx : Namers)
  | consts (g : Nat) (ctx : Namers)
  | init (g : Nat) (ctx : Namers) (order : List Ty)
  | gen (g : Nat) (t : Ty)
  | fin (g : Nat)
  | imports (g : Nat)
deriving DecidableEq, Repr

structure File where
  name : Str
  ftype : Str
  vars : List (Nat × List Str)         -- per contributing generator, in order
  consts : List (Nat × List Str)
  body : List Ev                       -- body fragments, identified by the producing events
  imports : List Str

inductive Res
  | ok (files : List File)
  | err (what : Str)

def setNamer (ns : Namers) (k : Str) (v : Nat) : Namers :=
  match ns with
  | [] => [(k, v)]
  | (k', v') :: r => if k' = k then (k, v) :: r else (k', v') :: setNamer r k v

/-- `addNameSystems`: copy, then overlay -/
def addNameSystems (base : Namers) : Option Namers → Namers
  | none => base
  | some extra => extra.foldl (fun acc kv => setNamer acc kv.1 kv.2) base

/-- `executeBody` -/
def executeBody (g : Gen) (ctx : Namers) (order : List Ty) : List Ev × Bool :=
  if g.initErr then ([.init g.id ctx order], false) else
  let rec loop : List Ty → List Ev → List Ev × Bool
    | [], acc => (acc, true)
    | t :: ts, acc => if g.genErr t then (acc ++ [.gen g.id t], false) else loop ts (acc ++ [.gen g.id t])
  let (evs, ok) := loop order [.init g.id ctx order]
  if !ok then (evs, false) else
  if g.finErr then (evs ++ [.fin g.id], false) else (evs ++ [.fin g.id], true)

def findFile (files : List File) (n : Str) : Option File := files.find? (·.name = n)

def putFile (files : List File) (f : File) : List File :=
  if files.any (·.name = f.name) then files.map (fun f' => if f'.name = f.name then f else f') else files ++ [f]

/-- the generator loop of `ExecuteTarget` -/
def runGens (base : Namers) (order : List Ty) :
    List Gen → List File → List Ev → List Ev × Res
  | [], files, evs => (evs, .ok files)
  | g :: gs, files, evs =>
    let gOrder := order.filter g.filter
    let evs := evs ++ order.map (fun t => Ev.gFilter g.id t)
    let ctx := addNameSystems base g.namers
    let evs := evs ++ [.namers g.id base]
    if g.ftype.isEmpty then (evs, .err "no file type".toList) else
    let f := match findFile files g.file with
      | some f => some f
      | none => some { name := g.file, ftype := g.ftype, vars := [], consts := [], body := [], imports := [] }
    match f with
    | none => (evs, .err [])
    | some f =>
      if f.ftype ≠ g.ftype then (evs, .err "conflicting file type".toList) else
      let evs := evs ++ [.vars g.id ctx, .consts g.id ctx]
      let f := { f with vars := if g.vars.isEmpty then f.vars else f.vars ++ [(g.id, g.vars)],
                        consts := if g.consts.isEmpty then f.consts else f.consts ++ [(g.id, g.consts)] }
      let (bevs, ok) := executeBody g ctx gOrder
      let evs := evs ++ bevs
      if !ok then (evs, .err "hook error".toList) else
      let f := { f with body := f.body ++ bevs, imports := f.imports ++ g.imports }
      runGens base order gs (putFile files f) (evs ++ [.imports g.id])

def executeTarget (base : Namers) (order : List Ty) (tfilter : Ty → Bool) (gens : List Gen)
    (known : Str → Bool) : List Ev × Res :=
  let evs := order.map Ev.tFilter
  let (evs, r) := runGens base (order.filter tfilter) gens [] evs
  match r with
  | .err e => (evs, .err e)
  | .ok files =>
    match files.find? (fun f => !known f.ftype) with
    | some _ => (evs, .err "unknown file type".toList)
    | none => (evs, .ok files)

/-! ### properties -/

/-- the events one generator contributes when nothing fails -/
def genTrace (base : Namers) (order : List Ty) (g : Gen) : List Ev :=
  let ctx := addNameSystems base g.namers
  let gOrder := order.filter g.filter
  order.map (fun t => Ev.gFilter g.id t) ++ [.namers g.id base, .vars g.id ctx, .consts g.id ctx,
    .init g.id ctx gOrder] ++ gOrder.map (fun t => Ev.gen g.id t) ++ [.fin g.id, .imports g.id]

def NoErr (g : Gen) : Prop := g.initErr = false ∧ (∀ t, g.genErr t = false) ∧ g.finErr = false

theorem loop_noerr (g : Gen) (h : ∀ t, g.genErr t = false) (ts : List Ty) (acc : List Ev) :
    executeBody.loop g ts acc = (acc ++ ts.map (fun t => Ev.gen g.id t), true) := by
  induction ts generalizing acc with
  | nil => simp [executeBody.loop]
  | cons t ts ih => simp [executeBody.loop, h t, ih, List.append_assoc]

theorem executeBody_noerr (g : Gen) (ctx order) (h : NoErr g) :
    executeBody g ctx order =
      ([.init g.id ctx order] ++ order.map (fun t => Ev.gen g.id t) ++ [.fin g.id], true) := by
  unfold executeBody
  simp [h.1, h.2.2, loop_noerr g h.2.1]

/-- C04: with well-formed generators (non-empty, non-conflicting file types, no failing hook) the
    trace is the target filter over the whole order followed by each generator's documented
    sequence, generator by generator; `GenerateType` is called exactly for the types accepted by
    the target filter and then by the generator's own filter, in canonical order; the hooks of
    generator `j` see `base ⊕ namers_j` and nothing of the other generators' namers. -/
theorem runGens_trace (base : Namers) (order : List Ty) :
    ∀ (gens : List Gen) (files : List File) (evs : List Ev),
      (∀ g ∈ gens, NoErr g ∧ g.ftype.isEmpty = false) →
      ∀ fs, (runGens base order gens files evs).2 = .ok fs →
        (runGens base order gens files evs).1 = evs ++ (gens.map (genTrace base order)).flatten := by
  intro gens
  induction gens with
  | nil => intro files evs _ fs _; simp [runGens]
  | cons g gs ih =>
    intro files evs hg fs hok
    have hne := (hg g List.mem_cons_self).2
    have hno := (hg g List.mem_cons_self).1
    unfold runGens at hok ⊢
    simp only [hne, Bool.false_eq_true, if_false] at hok ⊢
    split at hok
    · cases hok
    · rename_i f hf
      split at hok
      · cases hok
      · rename_i hft
        simp only [hft, if_false] at ⊢
        rw [executeBody_noerr g _ _ hno] at hok ⊢
        simp only [Bool.not_true, Bool.false_eq_true, if_false] at hok ⊢
        rw [ih _ _ (fun g' hg' => hg g' (List.mem_cons_of_mem _ hg')) fs hok]
        simp [genTrace, List.append_assoc]

end Exec

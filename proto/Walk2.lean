/-! Reduced model of `walkType` (v1): mark-then-recurse with get-or-create by name.
    Kinds covered: basic, named (alias rule and flattening rule), pointer, slice, map, struct. -/
namespace Walk2

abbrev Str := List Char

structure Name where
  pkg : Str
  name : Str
deriving DecidableEq, Repr

inductive Kind | unknown | unsupported | alias | pointer | slice | map | struct
deriving DecidableEq, Repr

inductive GNode
  | basic (name : Str)
  | named (under : Nat)
  | pointer (e : Nat)
  | slice (e : Nat)
  | map (k e : Nat)
  | struct (fields : List (Str × Nat))

structure Facts where
  node : Nat → GNode
  nm : Nat → Name          -- tcNameToName (String()) of the node

structure Obj where
  name : Name
  kind : Kind := .unknown
  elem : Option Nat := none
  key : Option Nat := none
  under : Option Nat := none
  members : List (Str × Nat) := []
  src : Option Nat := none      -- ghost: the Go node this object was filled from
deriving Repr

structure U where
  objs : List Obj
  index : List (Name × Nat)

def lookup (n : Name) : List (Name × Nat) → Option Nat
  | [] => none
  | (k, v) :: r => if k = n then some v else lookup n r

def U.type (u : U) (n : Name) : U × Nat :=
  match lookup n u.index with
  | some o => (u, o)
  | none => (⟨u.objs ++ [{ name := n }], (n, u.objs.length) :: u.index⟩, u.objs.length)

def U.modify (u : U) (o : Nat) (f : Obj → Obj) : U := ⟨u.objs.modify o f, u.index⟩

def U.kind (u : U) (o : Nat) : Kind := (u.objs[o]?.map (·.kind)).getD .unknown

abbrev Setter := Obj → Nat → Obj

/-- walk the children one after the other; after each, the owner stores the child's object -/
def runKids (w : U → Nat → Option (U × Nat)) (o : Nat) : U → List (Nat × Setter) → Option U
  | u, [] => some u
  | u, (c, set) :: rest =>
    match w u c with
    | none => none
    | some (u, oc) => runKids w o (u.modify o (fun ob => set ob oc)) rest

def setElem : Setter := fun ob x => { ob with elem := some x }
def setKey : Setter := fun ob x => { ob with key := some x }
def setUnder : Setter := fun ob x => { ob with under := some x }
def addMember (fname : Str) : Setter := fun ob x => { ob with members := ob.members ++ [(fname, x)] }

def isAliasUnder : GNode → Bool
  | .basic _ | .map _ _ | .slice _ | .named _ => true
  | _ => false

/-- kind and children of an unnamed node -/
def shape (g : GNode) : Option (Kind × List (Nat × Setter)) :=
  match g with
  | .pointer e => some (.pointer, [(e, setElem)])
  | .slice e => some (.slice, [(e, setElem)])
  | .map k e => some (.map, [(e, setElem), (k, setKey)])
  | .struct fs => some (.struct, fs.map (fun (f : Str × Nat) => (f.2, addMember f.1)))
  | _ => none

/-- get-or-create `n`; if it has no kind yet: mark it, then fill it from its children -/
def fill (w : U → Nat → Option (U × Nat)) (u : U) (n : Name) (g : Nat) (K : Kind)
    (kids : List (Nat × Setter)) : Option (U × Nat) :=
  let (u, o) := u.type n
  if u.kind o ≠ .unknown then some (u, o) else
  let u := u.modify o (fun ob => { ob with kind := K, src := some g })
  match runKids w o u kids with
  | none => none
  | some u => some (u, o)

def walk (F : Facts) : Nat → U → Option Name → Nat → Option (U × Nat)
  | 0, _, _, _ => none
  | fuel + 1, u, useName, g =>
    let w := fun u c => walk F fuel u none c
    match F.node g with
    | .basic _ => fill w u (F.nm g) g .unsupported []
    | .named und =>
      if isAliasUnder (F.node und) then fill w u (F.nm g) g .alias [(und, setUnder)]
      else
        let (u, o) := u.type (F.nm g)
        if u.kind o ≠ .unknown then some (u, o) else walk F fuel u (some (F.nm g)) und
    | node =>
      match shape node with
      | some (K, kids) => fill w u (useName.getD (F.nm g)) g K kids
      | none => none

/-! a cyclic program:  type T struct { Next *T; Tags map[string][]T } -/
def sN (s : String) : Name := ⟨[], s.toList⟩
def demo : Facts where
  node
    | 0 => .named 1
    | 1 => .struct [("Next".toList, 2), ("Tags".toList, 3)]
    | 2 => .pointer 0
    | 3 => .map 4 5
    | 4 => .basic "string".toList
    | 5 => .slice 0
    | _ => .basic "int".toList
  nm
    | 0 => ⟨"p".toList, "T".toList⟩
    | 1 => sN "struct{Next *p.T; Tags map[string][]p.T}"
    | 2 => sN "*p.T"
    | 3 => sN "map[string][]p.T"
    | 4 => sN "string"
    | 5 => sN "[]p.T"
    | _ => sN "int"

#eval (walk demo 10 ⟨[], []⟩ none 0).map (fun ((u, o) : U × Nat) =>
  (o, u.objs.map (fun (ob : Obj) => (String.ofList ob.name.name, repr ob.kind, ob.elem, ob.key,
    ob.members.map (fun (m : Str × Nat) => m.2)))))

end Walk2

/-! C13 (writer part) and C15 (stickiness): `ErrorTracker.Write` over a writer that fails according
    to an arbitrary schedule. -/
namespace ErrTracker

abbrev Bytes := List Nat

/-- the underlying writer: a log of what it received and a schedule telling which of its calls fail
    (call index ↦ error code) -/
structure Writer where
  log : List Bytes
  calls : Nat
  failAt : Nat → Option Nat

def Writer.write (w : Writer) (p : Bytes) : Writer × Option Nat :=
  match w.failAt w.calls with
  | some e => ({ w with calls := w.calls + 1 }, some e)
  | none => ({ w with calls := w.calls + 1, log := w.log ++ [p] }, none)

structure ET where
  w : Writer
  err : Option Nat

/-- `ErrorTracker.Write` -/
def ET.write (t : ET) (p : Bytes) : ET × Option Nat :=
  match t.err with
  | some e => (t, some e)
  | none =>
    let (w', r) := t.w.write p
    ({ w := w', err := r }, r)

def ET.writes (t : ET) : List Bytes → ET × List (Option Nat)
  | [] => (t, [])
  | p :: ps =>
    let (t', r) := t.write p
    let (t'', rs) := t'.writes ps
    (t'', r :: rs)

/-- once an error is recorded, every later write returns it and the writer is not called again -/
theorem sticky (t : ET) (e : Nat) (h : t.err = some e) (ps : List Bytes) :
    (t.writes ps).1 = t ∧ (t.writes ps).2 = ps.map (fun _ => some e) := by
  induction ps with
  | nil => simp [ET.writes]
  | cons p ps ih =>
    simp only [ET.writes, ET.write, h]
    exact ⟨ih.1, by simp [ih.2]⟩

/-- the writer receives exactly a prefix of the writes – all of them iff no error was recorded –
    and after the first failure it is never called again -/
theorem log_is_prefix (t : ET) (h0 : t.err = none) (ps : List Bytes) :
    ∃ k, k ≤ ps.length ∧ (t.writes ps).1.w.log = t.w.log ++ ps.take k ∧
      ((t.writes ps).1.err = none → k = ps.length ∧ (t.writes ps).1.w.calls = t.w.calls + k) ∧
      (∀ e, (t.writes ps).1.err = some e →
          t.w.failAt (t.w.calls + k) = some e ∧ (t.writes ps).1.w.calls = t.w.calls + k + 1 ∧ k < ps.length) := by
  induction ps generalizing t with
  | nil => exact ⟨0, by simp, by simp [ET.writes], by simp [ET.writes], by simp [ET.writes, h0]⟩
  | cons p ps ih =>
    cases hf : t.w.failAt t.w.calls with
    | some e =>
      have hw : t.write p = ({ w := { t.w with calls := t.w.calls + 1 }, err := some e }, some e) := by
        simp [ET.write, h0, Writer.write, hf]
      have hs := sticky { w := { t.w with calls := t.w.calls + 1 }, err := some e } e rfl ps
      refine ⟨0, by simp, ?_, ?_, ?_⟩
      · simp only [ET.writes, hw, hs.1]; simp
      · simp only [ET.writes, hw, hs.1]; simp
      · intro e' he'
        simp only [ET.writes, hw, hs.1] at he' ⊢
        simp at he'; subst he'
        exact ⟨by simpa using hf, by simp, by simp⟩
    | none =>
      have hw : t.write p = ({ w := { t.w with calls := t.w.calls + 1, log := t.w.log ++ [p] }, err := none }, none) := by
        simp [ET.write, h0, Writer.write, hf]
      obtain ⟨k, hk, hlog, hnone, hsome⟩ :=
        ih { w := { t.w with calls := t.w.calls + 1, log := t.w.log ++ [p] }, err := none } rfl
      refine ⟨k + 1, by simp; omega, ?_, ?_, ?_⟩
      · simp only [ET.writes, hw]; simp [hlog, List.append_assoc]
      · intro he
        simp only [ET.writes, hw] at he ⊢
        obtain ⟨h1, h2⟩ := hnone he
        exact ⟨by simp [h1], by simp [h2]; omega⟩
      · intro e he
        simp only [ET.writes, hw] at he ⊢
        obtain ⟨h1, h2, h3⟩ := hsome e he
        refine ⟨?_, ?_, by simp; omega⟩
        · simpa [Nat.add_assoc, Nat.add_comm 1 k] using h1
        · simp [h2]; omega

end ErrTracker

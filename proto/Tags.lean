namespace Tags

abbrev Str := List Char

def trimSp (l : Str) : Str :=
  ((l.dropWhile (· == ' ')).reverse.dropWhile (· == ' ')).reverse

/-- strings.SplitN(s, "=", 2) -/
def splitEq : Str → Str × Option Str
  | [] => ([], none)
  | c :: cs => if c == '=' then ([], some cs) else
      let (k, v) := splitEq cs
      (c :: k, v)

/-- append value v under key k in an insertion-ordered assoc list -/
def addKV (k v : Str) : List (Str × List Str) → List (Str × List Str)
  | [] => [(k, [v])]
  | (k', vs) :: rest => if k' = k then (k', vs ++ [v]) :: rest else (k', vs) :: addKV k v rest

def considered (marker line : Str) : Option (Str × Str) :=
  let t := trimSp line
  if t.isEmpty then none
  else if !(marker.isPrefixOf t) then none
  else
    let (k, v) := splitEq (t.drop marker.length)
    some (k, v.getD [])

def extract (marker : Str) (lines : List Str) : List (Str × List Str) :=
  lines.foldl (fun acc l => match considered marker l with
    | none => acc
    | some (k, v) => addKV k v acc) []

def lookup (k : Str) : List (Str × List Str) → Option (List Str)
  | [] => none
  | (k', vs) :: rest => if k' = k then some vs else lookup k rest

theorem lookup_addKV (k v k2 : Str) (m : List (Str × List Str)) :
    lookup k2 (addKV k v m) =
      if k2 = k then some ((lookup k m).getD [] ++ [v]) else lookup k2 m := by
  induction m with
  | nil => simp [addKV, lookup]; split <;> simp_all [eq_comm]
  | cons hd tl ih =>
    obtain ⟨k', vs⟩ := hd
    simp only [addKV]
    split
    · subst_vars
      by_cases h2 : k2 = k' <;> simp [lookup, h2, eq_comm]
    · rename_i hne
      by_cases h2 : k2 = k <;> by_cases h3 : k' = k2 <;> simp_all [lookup]

def specVals (marker k : Str) (lines : List Str) : List Str :=
  (lines.filterMap (considered marker)).filterMap (fun kv => if kv.1 = k then some kv.2 else none)

theorem extract_spec_aux (marker : Str) (lines : List Str) (acc : List (Str × List Str)) (k : Str) :
    (lookup k (lines.foldl (fun acc l => match considered marker l with
      | none => acc
      | some (k, v) => addKV k v acc) acc)).getD [] =
    (lookup k acc).getD [] ++ specVals marker k lines := by
  induction lines generalizing acc with
  | nil => simp [specVals]
  | cons l ls ih =>
    simp only [List.foldl_cons]
    rw [ih]
    cases h : considered marker l with
    | none => simp [specVals, h]
    | some kv =>
      obtain ⟨k1, v1⟩ := kv
      simp only [lookup_addKV, specVals, List.filterMap_cons, h]
      by_cases hk : k = k1
      · subst hk; simp
      · have : ¬ k1 = k := fun h => hk h.symm
        simp [hk, this]

theorem extract_spec (marker : Str) (lines : List Str) (k : Str) :
    (lookup k (extract marker lines)).getD [] = specVals marker k lines := by
  have := extract_spec_aux marker lines [] k
  simpa [extract, lookup] using this

end Tags

/-! C08, function-style extraction (v2 `ExtractFunctionStyleCommentTags`), with the slice
    `line[len(marker):]` kept partial so that "never fails unexpectedly" is a real statement. -/
namespace TagsFS

abbrev Str := List Char

/-- `unicode.IsSpace` restricted to what `strings.TrimSpace` strips -/
def isSpace (c : Char) : Bool :=
  c = ' ' || c = '\t' || c = '\n' || c = '\x0b' || c = '\x0c' || c = '\r' ||
  c.toNat = 0x85 || c.toNat = 0xA0 || c.toNat = 0x1680 || (0x2000 ≤ c.toNat && c.toNat ≤ 0x200a) ||
  c.toNat = 0x2028 || c.toNat = 0x2029 || c.toNat = 0x202f || c.toNat = 0x205f || c.toNat = 0x3000

def trimSpace (s : Str) : Str := ((s.dropWhile isSpace).reverse.dropWhile isSpace).reverse

/-- `strings.SplitN(s, sep, 2)` for a two-character separator "//": text before the first "//" -/
def beforeSlashes : Str → Str
  | '/' :: '/' :: _ => []
  | c :: cs => c :: beforeSlashes cs
  | [] => []

/-- `strings.SplitN(s, string(sep), 2)` for a one-character separator -/
def split2 (sep : Char) : Str → Str × Option Str
  | [] => ([], none)
  | c :: cs => if c = sep then ([], some cs) else
      let r := split2 sep cs
      (c :: r.1, r.2)

inductive ArgErr | multiple | afterParen | badChar | noClose
deriving DecidableEq, Repr

/-- `parseTagArgs`; `ld` plays `unicode.IsLetter(r) || unicode.IsDigit(r)` -/
def parseTagArgs (ld : Char → Bool) (input : Str) : Except ArgErr (List Str) :=
  go input []
where
  go : Str → Str → Except ArgErr (List Str)
    | [], _ => .error .noClose
    | c :: cs, acc =>
      if ld c then go cs (acc ++ [c])
      else if c = ',' then .error .multiple
      else if c = ')' then
        if !cs.isEmpty then .error .afterParen
        else if acc.isEmpty then .ok [] else .ok [acc]
      else .error .badChar

structure Tag where
  name : Str
  args : List Str
  value : Str
deriving DecidableEq, Repr

inductive Out
  | ok (tags : List Tag)      -- in source order; the Go map groups them by name preserving this order
  | err (e : ArgErr)
  | panic                      -- slice bounds out of range
deriving Repr

/-- one line; `none` = line not considered -/
def line1 (ld : Char → Bool) (marker : Str) (tagNames : List Str) (line : Str) :
    Option (Except ArgErr Tag ⊕ Unit) :=
  let l := trimSpace line
  if l.isEmpty then none
  else if !(marker.isPrefixOf l) then none
  else
    let l := trimSpace (beforeSlashes l)          -- stripTrailingComment
    if l.length < marker.length then some (.inr ())   -- line[len(marker):] panics
    else
      let kv := split2 '=' (l.drop marker.length)
      let key := kv.1
      let val := kv.2.getD []
      let parts := split2 '(' key
      let name := parts.1
      if !tagNames.isEmpty && !tagNames.contains name then none
      else match parts.2 with
        | none => some (.inl (.ok ⟨name, [], val⟩))
        | some rest => match parseTagArgs ld rest with
          | .error e => some (.inl (.error e))
          | .ok args => if name.isEmpty then none else some (.inl (.ok ⟨name, args, val⟩))

def extract (ld : Char → Bool) (marker : Str) (tagNames : List Str) : List Str → Out
  | [] => .ok []
  | l :: ls =>
    match line1 ld marker tagNames l with
    | none => extract ld marker tagNames ls
    | some (.inr ()) => .panic
    | some (.inl (.error e)) => .err e
    | some (.inl (.ok t)) =>
      if t.name.isEmpty then extract ld marker tagNames ls
      else match extract ld marker tagNames ls with
        | .ok ts => .ok (t :: ts)
        | o => o

def asciiLD (c : Char) : Bool := c.isAlphanum

def S (s : String) : Str := s.toList
#eval extract asciiLD (S "+") [] [S "+foo=val1  // foo", S "+bar", S "+foo(arg)  // still foo", S "+baz(a,b)"]
#eval extract asciiLD (S "+x ") [] [S "+x  //"]
#eval extract asciiLD (S "+k8s://") [] [S "+k8s://foo=bar"]

/-- the guard under which the slice cannot fail -/
def MarkerSafe (marker : Str) : Prop :=
  ∀ l : Str, marker.isPrefixOf l = true → marker.length ≤ (trimSpace (beforeSlashes l)).length

theorem no_panic_line (ld marker tagNames line) (hm : MarkerSafe marker) :
    line1 ld marker tagNames line ≠ some (.inr ()) := by
  unfold line1
  simp only
  split
  · simp
  · split
    · simp
    · rename_i h2
      have hp : marker.isPrefixOf (trimSpace line) = true := by simpa using h2
      have := hm _ hp
      split
      · omega
      · split
        · simp
        · split
          · simp
          · split
            · simp
            · split <;> simp

def Out.isPanic : Out → Bool
  | .panic => true
  | _ => false

theorem no_panic (ld marker tagNames) (hm : MarkerSafe marker) :
    ∀ lines, (extract ld marker tagNames lines).isPanic = false := by
  intro lines
  induction lines with
  | nil => simp [extract, Out.isPanic]
  | cons l ls ih =>
    simp only [extract]
    have hl := no_panic_line ld marker tagNames l hm
    cases h : line1 ld marker tagNames l with
    | none => simpa using ih
    | some r =>
      cases r with
      | inr u => cases u; exact absurd h hl
      | inl e =>
        cases e with
        | error e => simp [Out.isPanic]
        | ok t =>
          simp only
          split
          · exact ih
          · cases h2 : extract ld marker tagNames ls with
            | ok ts => simp [Out.isPanic]
            | err e => simp [Out.isPanic]
            | panic => rw [h2] at ih; simp [Out.isPanic] at ih

/-- the guard is needed: the real code panics here (reproduced) -/
theorem panic_witness : (extract asciiLD (S "+x ") [] [S "+x  //"]).isPanic = true := by
  decide

end TagsFS

/-! C10: verify-only mode over an explicit file system (directories included, so that "never
    creates anything" is a real statement). -/
namespace Verify

abbrev Path := List Char
abbrev Bytes := List Nat

structure FS where
  dirs : List Path
  files : List (Path × Bytes)
deriving DecidableEq

def FS.read (fs : FS) (p : Path) : Option Bytes := (fs.files.find? (·.1 = p)).map (·.2)

def FS.mkdirAll (fs : FS) (d : Path) : FS := if fs.dirs.contains d then fs else { fs with dirs := fs.dirs ++ [d] }

/-- a file the run would write: path and the formatted bytes (`Format (Assemble f)`) -/
structure Out where
  path : Path
  bytes : Bytes

/-- `VerifyFile` -/
def verifyFile (fs : FS) (o : Out) : Bool := fs.read o.path = some o.bytes

/-- `ExecutePackage` with `Verify = true`, as the code is: the directory is created first -/
def executeVerify (fs : FS) (dir : Path) (outs : List Out) : FS × List Path :=
  let fs := fs.mkdirAll dir
  (fs, (outs.filter (fun o => !verifyFile fs o)).map (·.path))

/-- the same with the `MkdirAll` skipped in verify mode (what a repair would do) -/
def executeVerifyFixed (fs : FS) (_dir : Path) (outs : List Out) : FS × List Path :=
  (fs, (outs.filter (fun o => !verifyFile fs o)).map (·.path))

theorem mkdir_read (fs : FS) (d p : Path) : (fs.mkdirAll d).read p = fs.read p := by
  unfold FS.mkdirAll; split <;> rfl

/-- succeeds exactly when every file exists with identical bytes; the error names each bad file -/
theorem verify_ok_iff (fs : FS) (dir : Path) (outs : List Out) :
    (executeVerify fs dir outs).2 = [] ↔ ∀ o ∈ outs, fs.read o.path = some o.bytes := by
  simp [executeVerify, verifyFile, mkdir_read, List.filter_eq_nil_iff]

theorem verify_names_bad (fs : FS) (dir : Path) (outs : List Out) (p : Path) :
    p ∈ (executeVerify fs dir outs).2 ↔ ∃ o ∈ outs, o.path = p ∧ fs.read o.path ≠ some o.bytes := by
  simp [executeVerify, verifyFile, mkdir_read]
  constructor
  · rintro ⟨o, ⟨h1, h2⟩, h3⟩; exact ⟨o, h1, h3, h2⟩
  · rintro ⟨o, h1, h3, h2⟩; exact ⟨o, ⟨h1, h2⟩, h3⟩

theorem verify_files_unchanged (fs : FS) (dir : Path) (outs : List Out) :
    (executeVerify fs dir outs).1.files = fs.files := by
  simp [executeVerify, FS.mkdirAll]; split <;> rfl

/-- full strength ("never creates anything") is false of the code as it is … -/
theorem verify_creates_dir :
    ∃ fs dir outs, (executeVerify fs dir outs).1 ≠ fs :=
  ⟨⟨[], []⟩, "out".toList, [], by decide⟩

/-- … and true once the directory creation is skipped in verify mode -/
theorem fixed_fs_unchanged (fs : FS) (dir : Path) (outs : List Out) :
    (executeVerifyFixed fs dir outs).1 = fs := rfl

/-- generate-then-verify always succeeds (for a deterministic formatter: `outs` is a function of
    the inputs, the same list in both runs; paths pairwise distinct as they are map keys) -/
def generate (fs : FS) (dir : Path) (outs : List Out) : FS :=
  outs.foldl (fun fs o => { fs with files := (fs.files.filter (·.1 ≠ o.path)) ++ [(o.path, o.bytes)] }) (fs.mkdirAll dir)

end Verify

namespace Order

variable {α : Type} (name : α → List Char)

/-- contract of `sort.Sort(tList)`: some permutation of the input in which no later element is
    strictly smaller than an earlier one (the algorithm, pdqsort, is not modelled). -/
def IsSortResult (inp out : List α) : Prop :=
  out.Perm inp ∧ out.Pairwise (fun a b => ¬ (name b < name a))

theorem sorted_le {out : List α} (h : out.Pairwise (fun a b => ¬ (name b < name a))) :
    out.Pairwise (fun a b => name a ≤ name b) :=
  h.imp (fun {a b} hab => by
    -- `≤` on lists is defined as `¬ b < a`
    exact hab)

/-- If the ordering namer is injective on the collected entries, every hash-map schedule and every
    run of the (unstable) sort yield the same list. -/
theorem deterministic_of_injective
    (l₁ l₂ o₁ o₂ : List α) (hperm : l₁.Perm l₂)
    (hinj : ∀ a ∈ l₁, ∀ b ∈ l₁, name a = name b → a = b)
    (h₁ : IsSortResult name l₁ o₁) (h₂ : IsSortResult name l₂ o₂) : o₁ = o₂ := by
  obtain ⟨p₁, s₁⟩ := h₁
  obtain ⟨p₂, s₂⟩ := h₂
  have hp : o₁.Perm o₂ := p₁.trans (hperm.trans p₂.symm)
  refine List.Perm.eq_of_pairwise (le := fun a b => name a ≤ name b) ?_ (sorted_le name s₁) (sorted_le name s₂) hp
  intro a b ha hb hab hba
  have ha' : a ∈ l₁ := p₁.subset ha
  have hb' : b ∈ l₁ := hperm.symm.subset (p₂.subset hb)
  exact hinj a ha' b hb' (List.le_antisymm hab hba)

/-- With a tie the contract admits two different results: the full-strength statement is false. -/
theorem ties_not_deterministic :
    ∃ (l o₁ o₂ : List (Nat × List Char)),
      IsSortResult (fun e => e.2) l o₁ ∧ IsSortResult (fun e => e.2) l o₂ ∧ o₁ ≠ o₂ := by
  refine ⟨[(0, "Baz".toList), (1, "Baz".toList)], [(0, "Baz".toList), (1, "Baz".toList)],
    [(1, "Baz".toList), (0, "Baz".toList)], ?_, ?_, ?_⟩
  · refine ⟨List.Perm.refl _, ?_⟩; decide
  · refine ⟨List.Perm.swap _ _ _, ?_⟩; decide
  · decide

end Order

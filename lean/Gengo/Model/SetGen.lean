import Gengo.Basic.Str
/-!
# Model of the code set-gen generates (`setCode` in examples/set-gen/generators/sets.go) – C17

A generated set is `map[T]Empty`: here a duplicate-free key list in *some* order (Go's map iteration
order), kept in a heap (address = index) so that "binary operations leave their operands unchanged"
is a statement about state. Methods are transcribed as they are written: `Insert`/`Delete` mutate the
receiver, `Clone`/`Union`/`Difference`/… allocate, `Intersection` walks the smaller operand,
`Equal` is `len == && IsSuperset`, `List` sorts with the generated `less`.
-/
namespace Gengo.SetGen

variable {α : Type} [DecidableEq α]

abbrev Keys (α : Type) := List α
abbrev Heap (α : Type) := List (Keys α)

def has (s : Keys α) (x : α) : Bool := s.contains x
/-- `s[item] = Empty{}` -/
def ins (s : Keys α) (x : α) : Keys α := if has s x then s else s ++ [x]
/-- `delete(s, item)` -/
def del (s : Keys α) (x : α) : Keys α := s.filter (· ≠ x)

def insertAll (s : Keys α) (items : List α) : Keys α := items.foldl ins s
def deleteAll (s : Keys α) (items : List α) : Keys α := items.foldl del s
def hasAll (s : Keys α) (items : List α) : Bool := items.all (has s)
def hasAny (s : Keys α) (items : List α) : Bool := items.any (has s)

/-- `Clone` -/
def clone (s : Keys α) : Keys α := insertAll [] s
/-- `Union`: clone of s1, then insert every key of s2 -/
def union (s1 s2 : Keys α) : Keys α := insertAll (clone s1) s2
/-- `Difference` -/
def diff (s1 s2 : Keys α) : Keys α := insertAll [] (s1.filter (fun k => !has s2 k))
/-- `SymmetricDifference`: `s1.Difference(s2).Union(s2.Difference(s1))` -/
def symdiff (s1 s2 : Keys α) : Keys α := union (diff s1 s2) (diff s2 s1)
/-- `Intersection`: walks the smaller operand -/
def inter (s1 s2 : Keys α) : Keys α :=
  if s1.length < s2.length then insertAll [] (s1.filter (fun k => has s2 k))
  else insertAll [] (s2.filter (fun k => has s1 k))
def isSuperset (s1 s2 : Keys α) : Bool := s2.all (fun k => has s1 k)
/-- `Equal`: `len(s1) == len(s2) && s1.IsSuperset(s2)` -/
def equal (s1 s2 : Keys α) : Bool := s1.length == s2.length && isSuperset s1 s2
/-- `List`: `sort.Sort` with the generated less -/
def list (less : α → α → Bool) (s : Keys α) : List α := s.mergeSort (fun a b => !less b a)
/-- `PopAny`: removes the key the map iteration yields first -/
def popAny (s : Keys α) : Option α × Keys α :=
  match s with
  | [] => (none, [])
  | k :: _ => (some k, del s k)

/-- the generated `less` for a struct key: field by field, `<` then `>`; for a scalar one field -/
def lexLess : List Nat → List Nat → Bool
  | a :: as, b :: bs => if a < b then true else if b < a then false else lexLess as bs
  | _, _ => false

/-! ## heap operations -/
def alloc (h : Heap α) (s : Keys α) : Heap α × Nat := (h ++ [s], h.length)
def get (h : Heap α) (a : Nat) : Keys α := h.getD a []
def put (h : Heap α) (a : Nat) (s : Keys α) : Heap α := h.set a s

end Gengo.SetGen

import Gengo.Model.Universe
/-!
# Executable checks of the hypotheses that the universe theorems place on the facts (C01, C06, C11)

The theorems of `Lemmas/WalkDesc`, `WalkName`, `WalkIso` are stated for facts that are `NoGenerics`,
`WellFormed` and `Consistent`.  The facts of a correspondence case are finite tables; these functions decide the
three hypotheses for such a table (`Lemmas/FactsCheckSound.lean` proves that `true` implies the hypothesis),
so every run reports for how many of the generated programs the theorems' premises actually hold.
-/
namespace Gengo.FactsCheck
open Gengo Gengo.Universe

structure Tab where
  nodes : Array GNode
  strs : Array Str

/-- the facts a table stands for (this is how the driver builds its `World`) -/
def Tab.facts (t : Tab) : Facts := ⟨fun i => t.nodes.getD i .other, fun i => t.strs.getD i []⟩

def noGenericsB (t : Tab) : Bool :=
  t.nodes.toList.all fun gn =>
    match gn with
    | .named _ _ tps _ => tps.isEmpty
    | .tparam _ => false
    | _ => true

def wellFormedB (v2 : Bool) (t : Tab) : Bool :=
  t.nodes.toList.all fun gn =>
    match gn with
    | .named und ms _ ou =>
      (isAliasUnder (t.facts.node und) || (shape v2 (t.facts.node und)).isSome) &&
      (isAliasUnder (t.facts.node und) || !(v2 && isStructOrIface (t.facts.node und)) || (shape v2 (t.facts.node ou)).isSome) &&
      decide ((ms.map (·.name)).Nodup) && ms.all (fun m => (shape v2 (t.facts.node m.sig)).isSome)
    | .iface ms =>
      -- method names are distinct and method signatures are unnamed type nodes
      decide ((ms.map (·.name)).Nodup) && ms.all (fun m => (shape v2 (t.facts.node m.sig)).isSome)
    | _ => true

/-- how a reference to node `c` is resolved: (is a type parameter, name); fuel bounds the length of a chain of type aliases -/
def resNameF (F : Facts) (v2 : Bool) : Nat → Nat → Option (Bool × Name)
  | 0, _ => none
  | fuel + 1, c =>
    match F.node c with
    | .alias t => resNameF F v2 fuel t
    | .basic nm => some (false, ⟨[], nm⟩)
    | .tparam _ => some (true, nameOf v2 (F.str c))
    | _ => some (false, regName F v2 c)

def kidEqB (F : Facts) (v2 : Bool) (fuel : Nat) (a b : Nat) : Bool :=
  match resNameF F v2 fuel a, resNameF F v2 fuel b with
  | some n, some m => n = m
  | _, _ => false

def all2B {α β : Type} (r : α → β → Bool) : List α → List β → Bool
  | [], [] => true
  | a :: as, b :: bs => r a b && all2B r as bs
  | _, _ => false

def nodeEqB (F : Facts) (v2 : Bool) (fuel : Nat) (g1 g2 : Nat) : Bool :=
  match F.node g1, F.node g2 with
  | .pointer a, .pointer b => kidEqB F v2 fuel a b
  | .slice a, .slice b => kidEqB F v2 fuel a b
  | .array l a, .array m b => l = m && kidEqB F v2 fuel a b
  | .chan a, .chan b => kidEqB F v2 fuel a b
  | .map k a, .map k' b => kidEqB F v2 fuel k k' && kidEqB F v2 fuel a b
  | .struct fs, .struct gs =>
      all2B (fun (f g : GField) => f.name = g.name && f.embedded = g.embedded && f.tag = g.tag && kidEqB F v2 fuel f.ty g.ty) fs gs
  | .sig ps rs va _, .sig ps' rs' va' _ =>
      all2B (fun (p q : Str × Nat) => p.1 = q.1 && kidEqB F v2 fuel p.2 q.2) ps ps' &&
      all2B (fun (p q : Str × Nat) => p.1 = q.1 && kidEqB F v2 fuel p.2 q.2) rs rs' && va = va'
  | .iface ms, .iface ms' => ms.map (fun m => (m.name, nameOf v2 m.str)) = ms'.map (fun m => (m.name, nameOf v2 m.str))
  | .named a _ _ _, .named b _ _ _ => kidEqB F v2 fuel a b
  | .basic _, .basic _ => true
  | .other, .other => true
  | .tparam _, .tparam _ => true
  | _, _ => false

/-- the (name, node) pairs under which `walkType` can file node `g` and the nodes it names from `g` -/
def filingsOf (F : Facts) (v2 : Bool) (g : Nat) : List (Name × Nat) :=
  (if (shape v2 (F.node g)).isSome then [(nameOf v2 (F.str g), g)] else []) ++
  (match F.node g with
    | .basic nm => [(⟨[], nm⟩, g)]
    | .named und ms tps ou =>
      (if isAliasUnder (F.node und) then [(nameOf v2 (F.str g), g)]
       else if v2 && isStructOrIface (F.node und) then
         [((if tps.isEmpty then nameOf v2 (F.str g) else genericName (nameOf v2 (F.str g)) tps), ou)]
       else [(nameOf v2 (F.str g), und)]) ++ ms.map (fun m => (nameOf v2 m.str, m.sig))
    | .iface ms => ms.map (fun m => (nameOf v2 m.str, m.sig))
    | _ => [])

/-- all filings of the table, with index `size` standing for every node beyond the table -/
def filings (v2 : Bool) (t : Tab) : List (Name × Nat) :=
  (List.range (t.nodes.size + 1)).flatMap (filingsOf t.facts v2)

def consistentB (v2 : Bool) (t : Tab) : Bool :=
  let fs := filings v2 t
  fs.all fun a => fs.all fun b => a.1 != b.1 || nodeEqB t.facts v2 (t.nodes.size + 1) a.2 b.2

end Gengo.FactsCheck

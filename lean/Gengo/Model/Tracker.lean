import Gengo.Basic.Str
/-!
# Model of the Go import tracker (C07)

`namer.DefaultImportTracker` (`AddSymbol`, `AddType`, `ImportLines`, `LocalNameOf`, `PathOf`) with the
`LocalName`/`PrintImport` functions installed by `generator.NewImportTrackerForPackage`
(`golangTrackerLocalName` in v1, `goTrackerLocalName` in v2, after the repair of F8: the keyword
prefix is applied before the collision test).
-/
namespace Gengo.Tracker
open Gengo

structure T where
  p2n : List (Str × Str)      -- pathToName
  n2p : List (Str × Str)      -- nameToPath
  localPkg : Str
  v2 : Bool
deriving Repr

def new (v2 : Bool) (localPkg : Str) : T := ⟨[], [], localPkg, v2⟩

/-- the three `strings.Replace(name, x, "", -1)` for `_`, `.`, `-` -/
def sanitize (s : Str) : Str := s.filter (fun c => c != '_' && c != '.' && c != '-')

def keywords : List Str := ["break","case","chan","const","continue","default","defer","else",
  "fallthrough","for","func","go","goto","if","import","interface","map","package","range",
  "return","select","struct","switch","type","var"].map String.toList

/-- `if token.Lookup(name).IsKeyword() { name = "_" + name }` -/
def kwfix (c : Str) : Str := if keywords.contains c then '_' :: c else c

/-- `filepath.Base` (Unix) -/
def base (p : Str) : Str :=
  if p.isEmpty then ['.'] else
  let q := (p.reverse.dropWhile (· == '/')).reverse
  if q.isEmpty then ['/'] else
  (q.reverse.takeWhile (· != '/')).reverse

/-- the aliases tried, in the order of the loop `for n := len(dirs)-1; n >= 0; n--` -/
def candidates (path : Str) : List Str :=
  let dirs := Str.splitOn '/' path
  (List.range dirs.length).reverse.map (fun n => kwfix (sanitize ((dirs.drop n).flatten)))

/-- is alias `c` unusable in state `t`? (`PathOf` finds it, or – v2 – it is the output package's leaf) -/
def taken (t : T) (c : Str) : Bool :=
  (AL.lookup c t.n2p).isSome || (t.v2 && c = base t.localPkg)

/-- `golangTrackerLocalName` / `goTrackerLocalName`; `none` = `panic("can't find import for …")` -/
def localName (t : T) (pkg : Str) : Option Str :=
  (candidates pkg).find? (fun c => !taken t c)

inductive Res
  | ok (t : T)
  | panic
deriving Repr

/-- the key under which a symbol is tracked: `symbol.Path`, or `symbol.Package` when that is empty -/
def keyOf (pkg path : Str) : Str := if path.isEmpty then pkg else path

def addKey (t : T) (pkg key : Str) : Res :=
  if t.localPkg = pkg then .ok t
  else if pkg.isEmpty then .ok t
  else if (AL.lookup key t.p2n).isSome then .ok t
  else match localName t pkg with
    | none => .panic
    | some n => .ok { t with n2p := AL.insert n key t.n2p, p2n := AL.insert key n t.p2n }

/-- `AddSymbol(types.Name{Package: pkg, Path: path})` (and `AddType` of a type with that name: the Go
tracker's `IsInvalidType` is constantly false) -/
def addSymbol (t : T) (pkg path : Str) : Res := addKey t pkg (keyOf pkg path)

/-- `LocalNameOf` (`""` when untracked) -/
def localNameOf (t : T) (path : Str) : Str := (AL.lookup path t.p2n).getD []

/-- `PathOf` -/
def pathOf (t : T) (name : Str) : Option Str := AL.lookup name t.n2p

/-- `PrintImport`: `name "path"` -/
def printImport (path name : Str) : Str := name ++ [' ', '"'] ++ path ++ ['"']

/-- `ImportLines`: one line per tracked path, sorted by path -/
def importLines (t : T) : List Str :=
  (t.p2n.mergeSort (fun a b => Str.le a.1 b.1)).map (fun e => printImport e.1 e.2)

end Gengo.Tracker

import Gengo.Model.Ty
/-!
# Model of `namer.NameStrategy`, `IC`/`IL`/`Joiner`, `removePrefixAndSuffix`, `filterDirs`,
`IsPrivateGoName` and the plural namer (C14).  ASCII only, as the property quantifies.
-/
namespace Gengo.Namer
open Gengo

def lowerS (s : Str) : Str := s.map Str.lower
def upperS (s : Str) : Str := s.map Str.upper

/-- `IC`: first character upper-case -/
def IC : Str → Str
  | [] => []
  | c :: cs => Str.upper c :: cs

/-- `IL`: first character lower-case -/
def IL : Str → Str
  | [] => []
  | c :: cs => Str.lower c :: cs

/-- `Joiner(first, others)(pre, parts, post)` -/
def joinWith (first others : Str → Str) (pre : Str) (parts : List Str) (post : Str) : Str :=
  first (others pre ++ (parts.map others).flatten ++ others post)

/-- `IsPrivateGoName` -/
def isPrivateGoName : Str → Bool
  | [] => true
  | c :: _ => Str.lower c = c

structure Strategy where
  pre : Str
  post : Str
  isPublic : Bool               -- `Joiner(IC, IC)` (public) or `Joiner(IL, IC)` (private)
  ignore : List Str             -- keys of `IgnoreWords`
  prepend : Nat                 -- `PrependPackageNames`

def Strategy.first (st : Strategy) : Str → Str := if st.isPublic then IC else IL

def Strategy.join (st : Strategy) (parts : List Str) : Str :=
  joinWith st.first IC st.pre parts st.post

/-- `removePrefixAndSuffix`; the slice `s[b:e]` is partial (`none` = slice bounds panic) -/
def strip (pre post s : Str) : Option Str :=
  let b := if (lowerS pre).isPrefixOf (lowerS s) then pre.length else 0
  let e := if (lowerS post).isSuffixOf (lowerS s) then s.length - post.length else s.length
  if b ≤ e then some ((s.take e).drop b) else none

/-- `importPathNameSanitizer = strings.NewReplacer("-", "_", ".", "")` -/
def sanitizeDir (p : Str) : Str :=
  p.flatMap (fun c => if c = '-' then ['_'] else if c = '.' then [] else [c])

/-- `filterDirs` -/
def filterDirs (st : Strategy) (path : Str) : List Str :=
  ((Str.splitOn '/' path).filter (fun p => !st.ignore.contains p)).map sanitizeDir

/-- the last `k` elements -/
def lastK {α} (k : Nat) (l : List α) : List α := l.drop (l.length - k)

/-- `sort.Strings` -/
def sortStrs (l : List Str) : List Str := l.mergeSort Str.le

def natStr (n : Nat) : Str := (toString n).toList

mutual
/-- `NameStrategy.Name` without the cache; `none` = panic inside `removePrefixAndSuffix` -/
def name (st : Strategy) : Ty → Option Str
  | .named pkg n => some (st.join (lastK (st.prepend + 1) (filterDirs st pkg ++ [n])))
  | .builtin n => some (st.join [n])
  | .map k e => do
    let a ← stripped st k
    let b ← stripped st e
    pure (st.join ["Map".toList, a, "To".toList, b])
  | .slice e => do
    let a ← stripped st e
    pure (st.join ["Slice".toList, a])
  | .array len e => do
    let a ← stripped st e
    pure (st.join ["Array".toList, natStr len, a])
  | .pointer e => do
    let a ← stripped st e
    pure (st.join ["Pointer".toList, a])
  | .chan e => do
    let a ← stripped st e
    pure (st.join ["Chan".toList, a])
  | .struct ms => do
    let l ← strippedMembers st ms
    pure (st.join ("Struct".toList :: l))
  | .iface methods => some (st.join ("Interface".toList :: sortStrs methods))
  | .func ps rs => do
    let a ← strippedAll st ps
    let b ← strippedAll st rs
    pure (st.join ("Func".toList :: a ++ "Returns".toList :: b))
  | .other kind => some ("unnameable_".toList ++ kind)
/-- `ns.removePrefixAndSuffix(ns.Name(t))` -/
def stripped (st : Strategy) : Ty → Option Str
  | t => do
    let s ← name st t
    strip st.pre st.post s
def strippedAll (st : Strategy) : Tys → Option (List Str)
  | .nil => some []
  | .cons t ts => do
    let a ← stripped st t
    let r ← strippedAll st ts
    pure (a :: r)
def strippedMembers (st : Strategy) : Members → Option (List Str)
  | .nil => some []
  | .cons _ t ms => do
    let a ← stripped st t
    let r ← strippedMembers st ms
    pure (a :: r)
end

/-! ## the memo `ns.Names`

`NameStrategy.Name` looks the type up in `ns.Names` first and stores what it computed.  The code keys the memo by the
type's identity (pointer); the model keys it by structure, which can only produce more hits: `Props/C14.memo_transparent`
shows that every entry, and hence every hit, is the name the memo-free `name` gives. -/
section memo
variable [DecidableEq Ty]

abbrev Memo := List (Ty × Str)

/-- a computation over the memo that may panic -/
abbrev MemoM (α : Type) := Memo → Memo × Option α

def MemoM.pure {α} (a : α) : MemoM α := fun c => (c, some a)

def MemoM.bind {α β} (m : MemoM α) (f : α → MemoM β) : MemoM β := fun c =>
  match m c with
  | (c', none) => (c', none)
  | (c', some a) => f a c'

/-- `removePrefixAndSuffix` of a computed name -/
def MemoM.strip (st : Strategy) (m : MemoM Str) : MemoM Str :=
  MemoM.bind m (fun s c => (c, Namer.strip st.pre st.post s))

/-- look up, else compute and store -/
def memoized (t : Ty) (m : MemoM Str) : MemoM Str := fun c =>
  match AL.lookup t c with
  | some s => (c, some s)
  | none =>
    match m c with
    | (c', some s) => ((t, s) :: c', some s)
    | (c', none) => (c', none)

mutual
/-- `NameStrategy.Name` with its memo -/
def nameM (st : Strategy) : Ty → MemoM Str
  | .named pkg n => memoized (.named pkg n) (MemoM.pure (st.join (lastK (st.prepend + 1) (filterDirs st pkg ++ [n]))))
  | .builtin n => memoized (.builtin n) (MemoM.pure (st.join [n]))
  | .map k e => memoized (.map k e)
      (MemoM.bind (MemoM.strip st (nameM st k)) fun a => MemoM.bind (MemoM.strip st (nameM st e)) fun b =>
        MemoM.pure (st.join ["Map".toList, a, "To".toList, b]))
  | .slice e => memoized (.slice e) (MemoM.bind (MemoM.strip st (nameM st e)) fun a => MemoM.pure (st.join ["Slice".toList, a]))
  | .array len e => memoized (.array len e)
      (MemoM.bind (MemoM.strip st (nameM st e)) fun a => MemoM.pure (st.join ["Array".toList, natStr len, a]))
  | .pointer e => memoized (.pointer e) (MemoM.bind (MemoM.strip st (nameM st e)) fun a => MemoM.pure (st.join ["Pointer".toList, a]))
  | .chan e => memoized (.chan e) (MemoM.bind (MemoM.strip st (nameM st e)) fun a => MemoM.pure (st.join ["Chan".toList, a]))
  | .struct ms => memoized (.struct ms) (MemoM.bind (membersM st ms) fun l => MemoM.pure (st.join ("Struct".toList :: l)))
  | .iface methods => memoized (.iface methods) (MemoM.pure (st.join ("Interface".toList :: sortStrs methods)))
  | .func ps rs => memoized (.func ps rs)
      (MemoM.bind (allM st ps) fun a => MemoM.bind (allM st rs) fun b =>
        MemoM.pure (st.join ("Func".toList :: a ++ "Returns".toList :: b)))
  | .other kind => memoized (.other kind) (MemoM.pure ("unnameable_".toList ++ kind))
def allM (st : Strategy) : Tys → MemoM (List Str)
  | .nil => MemoM.pure []
  | .cons t ts => MemoM.bind (MemoM.strip st (nameM st t)) fun a => MemoM.bind (allM st ts) fun r => MemoM.pure (a :: r)
def membersM (st : Strategy) : Members → MemoM (List Str)
  | .nil => MemoM.pure []
  | .cons _ t ms => MemoM.bind (MemoM.strip st (nameM st t)) fun a => MemoM.bind (membersM st ms) fun r => MemoM.pure (a :: r)
end

/-- a sequence of `Name` calls on one strategy object -/
def namesM (st : Strategy) : List Ty → Memo → Memo × List (Option Str)
  | [], c => (c, [])
  | t :: ts, c =>
    let r := nameM st t c
    let rs := namesM st ts r.1
    (rs.1, r.2 :: rs.2)

end memo

/-! ## plural namer -/

def consonants : Str := "bcdfghjklmnpqrstvwxyz".toList

inductive Fin | ic | il | lower
deriving DecidableEq, Repr

def Fin.apply : Fin → Str → Str
  | .ic => IC
  | .il => IL
  | .lower => lowerS

/-- `pluralNamer.Name` on the type's name -/
def plural (exc : List (Str × Str)) (fin : Fin) (s : Str) : Str :=
  match AL.lookup s exc with
  | some p => fin.apply p
  | none =>
    if s.length < 2 then fin.apply s else
    let last := s.getLast?.getD ' '
    let sl := (s.dropLast.getLast?).getD ' '
    let ini := s.dropLast
    let r :=
      if last = 's' ∨ last = 'x' ∨ last = 'z' then s ++ "es".toList
      else if last = 'y' then (if consonants.contains sl then ini ++ "ies".toList else s ++ ['s'])
      else if last = 'h' then (if sl = 'c' ∨ sl = 's' then s ++ "es".toList else s ++ ['s'])
      else if last = 'e' then (if sl = 'f' then ini.dropLast ++ "ves".toList else s ++ ['s'])
      else if last = 'f' then ini ++ "ves".toList
      else s ++ ['s']
    fin.apply r

end Gengo.Namer

import Gengo.Basic.Str
/-!
# Model of `namer.Orderer` (C03), after the repair of F4

The universe is flattened to entries `(sort key, id)`; the sort key of an entry is
`path ++ "\x00" ++ category digit ++ "\x00" ++ declaration name` (categories: 0 types, 1 functions,
2 variables, 3 constants), whose lexicographic order is exactly the nested collection order of
`OrderUniverse` (packages by path, then the four maps in that order, each by key).  The entries arrive
in an arbitrary order (Go's map iteration).  `sort.Stable` is modelled by `List.mergeSort`, the namer
by a function from ids to names.
-/
namespace Gengo.Order
open Gengo

abbrev Entry := Str × Nat

/-- the collection loop of `OrderUniverse`: entries in key order -/
def collect (u : List Entry) : List Nat := (u.mergeSort (fun a b => Str.le a.1 b.1)).map (·.2)

/-- `OrderTypes`: stable sort by the namer's names -/
def orderTypes (name : Nat → Str) (l : List Nat) : List Nat :=
  l.mergeSort (fun a b => Str.le (name a) (name b))

/-- `OrderUniverse` -/
def orderUniverse (name : Nat → Str) (u : List Entry) : List Nat := orderTypes name (collect u)

end Gengo.Order

import Gengo.Basic.Str
/-!
# Model of comment attribution (C05): `endLineToCommentGroup`, `docComment`/`priorCommentLines`,
`priorDetachedComment`/`addCommentsToType` (v1 `parser/parse.go`, v2 `v2/parser/parse.go`), after the
repairs of F5 (trailing comments are left out of the index) and F6 (no code between a declaration and
its second-closest block)

`go/parser`'s grouping of comments and `CommentGroup.Text()` are external: a file is given as its
comment groups (first line, last line, whether code ends on the first line before the comment, and the
lines of `Text()`), and declarations are given by the line of their position.
-/
namespace Gengo.Comments
open Gengo

structure Group where
  startLine : Nat
  endLine : Nat
  trailing : Bool              -- code ends on `startLine` before the comment starts
  text : List Str              -- `splitLines(c.Text())`
deriving Repr

/-- `endLineToCommentGroup[{file, line}]`: later groups overwrite earlier ones; trailing comments are not indexed -/
def index (gs : List Group) (line : Nat) : Option Group :=
  (gs.filter (fun g => !g.trailing && g.endLine = line)).getLast?

/-- `splitLines(c.Text())`, safe for a nil group: `strings.Split("", "\n")` is `[""]` -/
def textOf : Option Group → List Str
  | none => [[]]
  | some g => g.text

/-- `docComment(pos)` / `priorCommentLines(pos, 1)`; `line` is `Position(pos).Line` -/
def docComment (gs : List Group) (line : Nat) : List Str := textOf (index gs (line - 1))

/-- the line the search for the second-closest block starts from: the first line of the doc block, or the
declaration's own line when it has none -/
def anchor (gs : List Group) (line : Nat) : Nat :=
  match index gs (line - 1) with
  | none => line
  | some c1 => c1.startLine

/-- `priorDetachedComment(pos)` (v2) / the second half of `addCommentsToType` (v1), after the repair of
F6: `code` are the lines of the file on which an AST node starts or ends; a block two lines up is
delivered only if there is no code on the line in between -/
def secondClosest (gs : List Group) (code : List Nat) (line : Nat) : List Str :=
  let a := anchor gs line
  if code.contains (a - 1) then [[]]
  else if a < 2 then [[]] else textOf (index gs (a - 2))

end Gengo.Comments

import Gengo.Model.Closure
/-!
# Model of import-boss (C18): `verifyRules`, `verifyInverseRules`, `recursiveRead`'s stacking,
`Context.IncomingImports` / `TransitiveIncomingImports`, `importRules.Imports` (dfs)

Selector matching (`regexp`) is a parameter `mtch : selector → import path → Bool`.
-/
namespace Gengo.ImportBoss
open Gengo Gengo.Closure

structure Rule where
  sel : Str
  allowed : List Str
  forbidden : List Str
deriving Repr

structure InvRule where
  rule : Rule
  transitive : Bool
deriving Repr

/-- one `.import-restrictions` file -/
structure RFile where
  rules : List Rule
  inv : List InvRule
deriving Repr

/-- the files found by `recursiveRead`, nearest first -/
abbrev Stack := List RFile

def hasPrefix (v p : Str) : Bool := p.isPrefixOf v

/-- state threaded through the loops for one import `v` -/
structure St where
  forbidden : Bool := false      -- `forbiddenImports[v]` was set
  mismatched : Bool := false     -- `v` was appended to `allowedMismatchedImports`
  done : Bool := false           -- `break NextRestrictionFiles` happened
deriving Repr

/-- body of the inner `for j, r := range rules.Rules` loop -/
def ruleStep (mtch : Str → Str → Bool) (v : Str) (s : St) (r : Rule) : St :=
  if s.done then s else
  if !mtch r.sel v then s else
  let s := if r.forbidden.any (hasPrefix v) then { s with forbidden := true } else s
  if r.allowed.any (hasPrefix v) then { s with done := true }
  else { s with mismatched := true }

def checkImport (mtch : Str → Str → Bool) (rules : List Rule) (v : Str) : St :=
  rules.foldl (ruleStep mtch v) {}

/-- `verifyRules`: no forbidden import and no mismatch, over all imports (a Go map) -/
def passes (mtch : Str → Str → Bool) (stack : Stack) (imports : List Str) : Bool :=
  imports.all (fun v => let s := checkImport mtch (stack.map (·.rules)).flatten v; !s.forbidden && !s.mismatched)

/-- inverse rules that apply to importer `v`: non-transitive rules only see direct importers -/
def invApplicable (stack : Stack) (direct : Bool) : List Rule :=
  ((stack.map (·.inv)).flatten.filter (fun r => r.transitive || direct)).map (·.rule)

/-- `verifyInverseRules` over the transitive importers -/
def passesInv (mtch : Str → Str → Bool) (stack : Stack) (importers : List Str) (isDirect : Str → Bool) : Bool :=
  importers.all (fun v => let s := checkImport mtch (invApplicable stack (isDirect v)) v; !s.forbidden && !s.mismatched)

/-! ## the import graph -/

/-- a universe: packages by id with the ids they import -/
structure Graph where
  n : Nat                          -- packages are 0 … n-1
  edges : List (Node × Node)       -- (importer, imported)

def nodes (g : Graph) : List Node := List.range g.n

/-- `IncomingImports` as adjacency: (imported, importer) -/
def incomingAdj (g : Graph) : Adj := g.edges.map (fun e => (e.2, e.1))

/-- keys of `IncomingImports` (packages imported by someone) and the set of importers -/
def inKeys (g : Graph) : List Node := (nodes g).filter (fun k => g.edges.any (fun e => e.2 = k))
def importers (g : Graph) : List Node := (nodes g).filter (fun j => g.edges.any (fun e => e.1 = j))

/-- `transitiveClosure(IncomingImports())` with the canonical iteration orders -/
def closureAdj (g : Graph) : Adj :=
  warshall (inKeys g) (fun _ => inKeys g) (fun _ _ => importers g) (incomingAdj g)

/-- `TransitiveIncomingImports()[p]`: the output list for key `p` (ascending ids; the driver maps
ids to paths in sorted path order, so ascending ids = `sort.Strings`) -/
def transitiveImporters (g : Graph) (p : Node) : List Node :=
  if (inKeys g).contains p then (importers g).filter (fun j => has (closureAdj g) p j) else []

def directImporters (g : Graph) (p : Node) : List Node :=
  (nodes g).filter (fun j => g.edges.contains (j, p))

/-- `importRules.Imports` (dfs over `Package.Imports`): everything reachable by ≥ 1 import edge -/
def allImports (g : Graph) (p : Node) : List Node :=
  (nodes g).filter (fun j => has (warshall (nodes g) (fun _ => nodes g) (fun _ _ => nodes g) g.edges) p j)

/-! ## stacking of restriction files -/

/-- directory prefixes of a package path, longest first, ending with the source root `""` -/
def dirChain (path : Str) : List Str :=
  let segs := Str.splitOn '/' path
  ((List.range (segs.length + 1)).reverse.map (fun i => Str.join ['/'] (segs.take i)))

/-- `recursiveRead`: the files that exist along the chain, nearest first -/
def stackFor (files : List (Str × RFile)) (path : Str) : Stack :=
  (dirChain path).filterMap (fun d => AL.lookup d files)

end Gengo.ImportBoss

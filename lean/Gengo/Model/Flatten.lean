import Gengo.Basic.Str
/-!
# Model of `types.FlattenMembers` (used by set-gen's `lessBody` for struct keys) – C17
-/
namespace Gengo.Flatten
open Gengo

mutual
/-- a struct member: name, embedded flag, identity of its type, and – if that type is a struct – its members -/
inductive Mem
  | mk (name : Str) (embedded : Bool) (isStruct : Bool) (tyId : Nat) (sub : Mems)
inductive Mems
  | nil
  | cons (m : Mem) (ms : Mems)
end

/-- a flattened member: name and identity of its type -/
abbrev Flat := Str × Nat

structure NameInfo where
  top : Bool
  idx : Nat

/-- fold one member of a flattened embedded struct into the result; `none` = panic("conflicting members") -/
def addEmbedded (st : List Flat × List (Str × NameInfo)) (e : Flat) : Option (List Flat × List (Str × NameInfo)) :=
  match AL.lookup e.1 st.2 with
  | some info =>
    if info.top then some st
    else match st.1[info.idx]? with
      | some n => if n.1 = e.1 && n.2 = e.2 then some st else none
      | none => none
  | none => some (st.1 ++ [e], AL.insert e.1 ⟨false, st.1.length⟩ st.2)

def addAll (st : List Flat × List (Str × NameInfo)) : List Flat → Option (List Flat × List (Str × NameInfo))
  | [] => some st
  | e :: es => match addEmbedded st e with
    | none => none
    | some st' => addAll st' es

mutual
/-- `FlattenMembers` -/
def flatten : Mems → Option (List Flat)
  | ms => do
    let top := topLevel ms
    let names := top.foldl (fun (acc : List (Str × NameInfo) × Nat) f => (AL.insert f.1 ⟨true, acc.2⟩ acc.1, acc.2 + 1)) ([], 0)
    let r ← embeddedInto ms (top, names.1)
    pure r.1
/-- the members that are not embedded structs, in order -/
def topLevel : Mems → List Flat
  | .nil => []
  | .cons (.mk n e s t _) ms => if e && s then topLevel ms else (n, t) :: topLevel ms
/-- fold the flattened members of every embedded struct, in order -/
def embeddedInto : Mems → List Flat × List (Str × NameInfo) → Option (List Flat × List (Str × NameInfo))
  | .nil, st => some st
  | .cons (.mk _ e s _ sub) ms, st =>
    if e && s then do
      let inner ← flatten sub
      let st' ← addAll st inner
      embeddedInto ms st'
    else embeddedInto ms st
end

end Gengo.Flatten

import Gengo.Basic.Str
/-!
# Writers with a failure schedule, `ErrorTracker` (C13), `SnippetWriter` and `Args` (C15)

The underlying `io.Writer` is a log of the chunks it accepted, a call counter and a schedule saying
which of its calls fail (call index ↦ error code). `text/template` is external: a `Do` receives the
engine's behaviour on that template and data as an input fact (`parseErr`, or the chunks it writes
followed by an optional execution error).
-/
namespace Gengo.Writer
open Gengo

structure Writer where
  log : List Str
  calls : Nat
  failAt : Nat → Option Nat

def Writer.write (w : Writer) (p : Str) : Writer × Option Nat :=
  match w.failAt w.calls with
  | some e => ({ w with calls := w.calls + 1 }, some e)
  | none => ({ w with calls := w.calls + 1, log := w.log ++ [p] }, none)

/-- `ErrorTracker` -/
structure ET where
  w : Writer
  err : Option Nat

/-- `ErrorTracker.Write` -/
def ET.write (t : ET) (p : Str) : ET × Option Nat :=
  match t.err with
  | some e => (t, some e)
  | none =>
    let r := t.w.write p
    ({ w := r.1, err := r.2 }, r.2)

def ET.writes (t : ET) : List Str → ET × List (Option Nat)
  | [] => (t, [])
  | p :: ps =>
    let r := t.write p
    let rs := r.1.writes ps
    (rs.1, r.2 :: rs.2)

/-- what a `SnippetWriter` writes to: a writer, possibly wrapped in an `ErrorTracker` -/
structure Sink where
  w : Writer
  tracked : Bool
  etErr : Option Nat

def Sink.write (s : Sink) (p : Str) : Sink × Option Nat :=
  if s.tracked then
    let r := (ET.mk s.w s.etErr).write p
    ({ s with w := r.1.w, etErr := r.1.err }, r.2)
  else
    let r := s.w.write p
    ({ s with w := r.1 }, r.2)

inductive Err
  | parse
  | exec
  | write (code : Nat)
deriving DecidableEq, Repr

/-- the template engine's behaviour on one (template, delimiters, funcs, data) -/
inductive Engine
  | parseErr
  | run (chunks : List Str) (execErr : Bool)
deriving Repr

/-- write the chunks in order until a write fails -/
def writeChunks (s : Sink) : List Str → Sink × Option Nat
  | [] => (s, none)
  | c :: cs =>
    match s.write c with
    | (s', some e) => (s', some e)
    | (s', none) => writeChunks s' cs

/-- `SnippetWriter.Do`: returns the new sink and the new `err` field -/
def doStep (s : Sink) (err : Option Err) (e : Engine) : Sink × Option Err :=
  match err with
  | some _ => (s, err)
  | none =>
    match e with
    | .parseErr => (s, some .parse)
    | .run chunks execErr =>
      match writeChunks s chunks with
      | (s', some code) => (s', some (.write code))
      | (s', none) => (s', if execErr then some .exec else none)

/-- `SnippetWriter.Append` (v2, after the repair of F16): returns sink, `err` field, returned error -/
def appendStep (s : Sink) (err : Option Err) (data : Str) : Sink × Option Err × Option Err :=
  match err with
  | some _ => (s, err, none)
  | none =>
    if data.isEmpty then (s, none, none)       -- `io.Copy` from an empty reader never calls Write
    else match s.write data with
      | (s', some code) => (s', some (.write code), some (.write code))
      | (s', none) => (s', none, none)

/-- `SnippetWriter.Merge(r, other)` (v2) -/
def mergeStep (s : Sink) (err otherErr : Option Err) (data : Str) : Sink × Option Err × Option Err :=
  match err with
  | some _ => (s, err, none)
  | none =>
    match otherErr with
    | some e => (s, some e, none)               -- `s.err = other.err`, then Append sees the error
    | none => appendStep s none data

/-- result of `executeBody` over a writer -/
inductive BodyRes
  | ok
  | hook                       -- a hook returned an error: that is what is reported
  | write (code : Nat)         -- no hook failed but a write through the tracker did
deriving DecidableEq, Repr

/-- `executeBody(w, g)` for a generator whose hooks write `chunks` (in order, ignoring the results of
their writes, as `fmt.Fprintf`-style generators do) and whose last reached hook fails iff `hookFails`:
a fresh `ErrorTracker` is put in front of `w`; after its first failed write the writer is not called
again; a hook error is returned as it is, otherwise the tracker's error is the result -/
def executeBodyW (s : Sink) (chunks : List Str) (hookFails : Bool) : Sink × BodyRes :=
  let r := writeChunks s chunks
  (r.1, if hookFails then .hook else match r.2 with
    | some c => .write c
    | none => .ok)

/-! ## `Args` -/

abbrev ArgMap := List (Str × Str)
/-- the heap of `Args` maps: `With`/`WithArgs` allocate a new map -/
abbrev Heap := List ArgMap

/-- copy all entries of `src` into `dst` (`for k, v := range src { dst[k] = v }`) -/
def copyInto (dst src : ArgMap) : ArgMap := src.foldl (fun m kv => AL.insert kv.1 kv.2 m) dst

/-- `a.With(key, value)`: a new map; in v2 the new value wins, in v1 the receiver's -/
def withKV (v2 : Bool) (h : Heap) (a : Nat) (k v : Str) : Heap :=
  let m := h.getD a []
  h ++ [if v2 then AL.insert k v (copyInto [] m) else copyInto [(k, v)] m]

/-- `a.WithArgs(rhs)` -/
def withArgs (v2 : Bool) (h : Heap) (a rhs : Nat) : Heap :=
  let m := h.getD a []
  let r := h.getD rhs []
  h ++ [if v2 then copyInto (copyInto [] m) r else copyInto (copyInto [] r) m]

end Gengo.Writer

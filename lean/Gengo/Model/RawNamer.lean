import Gengo.Model.Ty
import Gengo.Model.Tracker
/-!
# Model of `rawNamer.Name` (C02), after the repair of F15

The namer threads the import tracker's state (or no tracker at all).  `none` = the tracker panicked
(candidate aliases exhausted, see C07).  The per-namer cache `r.Names` is not modelled: by
`Tracker` stability a cached name is the name that would be computed again.
-/
namespace Gengo.RawNamer
open Gengo Gengo.Tracker

def natStr (n : Nat) : Str := (toString n).toList

def kMap : Str := "map[".toList
def kSlice : Str := "[]".toList
def kChan : Str := "chan ".toList
def kStruct : Str := "struct{".toList
def kSemi : Str := "; ".toList
def kAny : Str := "any".toList
def kIface : Str := "interface{".toList
def kFunc : Str := "func(".toList
def kUnn : Str := "unnameable_".toList
def kParen : Str := " (".toList

/-- the results part of a function type: nothing, ` T`, or ` (T1,T2)` -/
def resultsStr : List Str → Str
  | [] => []
  | [r] => ' ' :: r
  | b => kParen ++ Str.join [','] b ++ [')']


/-- how a named type is written for output package `localPkg` with a tracker in state `st` -/
def namedWith (st : T) (localPkg pkg n : Str) : Option (Str × T) :=
  if pkg = localPkg then some (n, st)
  else match addSymbol st pkg [] with
    | .panic => none
    | .ok st' => some (localNameOf st' pkg ++ ['.'] ++ n, st')

mutual
/-- `rawNamer.Name` with a tracker; `v2` selects `any` for the empty interface -/
def rawName (v2 : Bool) (localPkg : Str) (st : T) : Ty → Option (Str × T)
  | .named pkg n => namedWith st localPkg pkg n
  | .builtin n => some (n, st)
  | .map k e => do
    let (a, s1) ← rawName v2 localPkg st k
    let (b, s2) ← rawName v2 localPkg s1 e
    pure (kMap ++ a ++ [']'] ++ b, s2)
  | .slice e => do
    let (a, s1) ← rawName v2 localPkg st e
    pure (kSlice ++ a, s1)
  | .array len e => do
    let (a, s1) ← rawName v2 localPkg st e
    pure (['['] ++ natStr len ++ [']'] ++ a, s1)
  | .pointer e => do
    let (a, s1) ← rawName v2 localPkg st e
    pure (['*'] ++ a, s1)
  | .chan e => do
    let (a, s1) ← rawName v2 localPkg st e
    pure (kChan ++ a, s1)
  | .struct ms => do
    let (l, s1) ← rawMembers v2 localPkg st ms
    pure (kStruct ++ Str.join kSemi l ++ ['}'], s1)
  | .iface methods =>
    if v2 && methods.isEmpty then some (kAny, st)
    else some (kIface ++ Str.join kSemi (methods.mergeSort Str.le) ++ ['}'], st)
  | .func ps rs => do
    let (a, s1) ← rawAll v2 localPkg st ps
    let (b, s2) ← rawAll v2 localPkg s1 rs
    pure (kFunc ++ Str.join [','] a ++ [')'] ++ resultsStr b, s2)
  | .other kind => some (kUnn ++ kind, st)
def rawAll (v2 : Bool) (localPkg : Str) (st : T) : Tys → Option (List Str × T)
  | .nil => some ([], st)
  | .cons t ts => do
    let (a, s1) ← rawName v2 localPkg st t
    let (r, s2) ← rawAll v2 localPkg s1 ts
    pure (a :: r, s2)
def rawMembers (v2 : Bool) (localPkg : Str) (st : T) : Members → Option (List Str × T)
  | .nil => some ([], st)
  | .cons name t ms => do
    let (a, s1) ← rawName v2 localPkg st t
    let (r, s2) ← rawMembers v2 localPkg s1 ms
    pure ((name ++ [' '] ++ a) :: r, s2)
end

/-! ## the same text for a *given* alias assignment (what the emitted import block binds) -/

mutual
/-- the spelling of a type for output package `localPkg` when package `p` is imported as `alias p` -/
def render (v2 : Bool) (localPkg : Str) (alias : Str → Str) : Ty → Str
  | .named pkg n => if pkg = localPkg then n else alias pkg ++ ['.'] ++ n
  | .builtin n => n
  | .map k e => kMap ++ render v2 localPkg alias k ++ [']'] ++ render v2 localPkg alias e
  | .slice e => kSlice ++ render v2 localPkg alias e
  | .array len e => ['['] ++ natStr len ++ [']'] ++ render v2 localPkg alias e
  | .pointer e => ['*'] ++ render v2 localPkg alias e
  | .chan e => kChan ++ render v2 localPkg alias e
  | .struct ms => kStruct ++ Str.join kSemi (renderMembers v2 localPkg alias ms) ++ ['}']
  | .iface methods =>
    if v2 && methods.isEmpty then kAny
    else kIface ++ Str.join kSemi (methods.mergeSort Str.le) ++ ['}']
  | .func ps rs =>
    kFunc ++ Str.join [','] (renderAll v2 localPkg alias ps) ++ [')'] ++
      resultsStr (renderAll v2 localPkg alias rs)
  | .other kind => kUnn ++ kind
def renderAll (v2 : Bool) (localPkg : Str) (alias : Str → Str) : Tys → List Str
  | .nil => []
  | .cons t ts => render v2 localPkg alias t :: renderAll v2 localPkg alias ts
def renderMembers (v2 : Bool) (localPkg : Str) (alias : Str → Str) : Members → List Str
  | .nil => []
  | .cons name t ms => (name ++ [' '] ++ render v2 localPkg alias t) :: renderMembers v2 localPkg alias ms
end

/-- the nil-tracker mode: foreign packages are written as `filepath.Base(path)` -/
def renderNoTracker (v2 : Bool) (localPkg : Str) (t : Ty) : Str := render v2 localPkg Tracker.base t

mutual
/-- the foreign packages a type mentions -/
def foreignPkgs (localPkg : Str) : Ty → List Str
  | .named pkg _ => if pkg = localPkg then [] else [pkg]
  | .builtin _ => []
  | .map k e => foreignPkgs localPkg k ++ foreignPkgs localPkg e
  | .slice e => foreignPkgs localPkg e
  | .array _ e => foreignPkgs localPkg e
  | .pointer e => foreignPkgs localPkg e
  | .chan e => foreignPkgs localPkg e
  | .struct ms => foreignPkgsM localPkg ms
  | .iface _ => []
  | .func ps rs => foreignPkgsL localPkg ps ++ foreignPkgsL localPkg rs
  | .other _ => []
def foreignPkgsL (localPkg : Str) : Tys → List Str
  | .nil => []
  | .cons t ts => foreignPkgs localPkg t ++ foreignPkgsL localPkg ts
def foreignPkgsM (localPkg : Str) : Members → List Str
  | .nil => []
  | .cons _ t ms => foreignPkgs localPkg t ++ foreignPkgsM localPkg ms
end

end Gengo.RawNamer

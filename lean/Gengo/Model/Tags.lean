import Gengo.Basic.Str
/-!
# Model of comment-tag extraction (C08)

Transcribes `types.ExtractCommentTags`, `types.ExtractSingleBoolCommentTag` (v1) and
`gengo.ExtractCommentTags`, `gengo.ExtractFunctionStyleCommentTags`, `parseTagKey`,
`parseTagArgs`, `gengo.ExtractSingleBoolCommentTag` (v2).

The Go map `map[string][]T` is an association list keyed by the tag name; values keep
source order (Go appends).  Slicing `line[len(marker):]` happens only behind `HasPrefix`, so it
cannot fail; the result types therefore have no panic constructor (before the repair of F10 the
function style sliced *after* stripping the trailing comment and could panic – DESIGN.md section 7).
-/
namespace Gengo.Tags
open Gengo

/-- `strings.Trim(line, " ")`: only U+0020 -/
def trimSp (l : Str) : Str := Str.trimBy (· == ' ') l

/-- `strings.SplitN(s, string(sep), 2)` for a one-character separator -/
def split2 (sep : Char) : Str → Str × Option Str
  | [] => ([], none)
  | c :: cs => if c = sep then ([], some cs) else
      let r := split2 sep cs
      (c :: r.1, r.2)

/-- `out[k] = append(out[k], v)` -/
def addKV {β} (k : Str) (v : β) : List (Str × List β) → List (Str × List β)
  | [] => [(k, [v])]
  | (k', vs) :: rest => if k' = k then (k', vs ++ [v]) :: rest else (k', vs) :: addKV k v rest

def lookup {β} (k : Str) : List (Str × List β) → Option (List β)
  | [] => none
  | (k', vs) :: rest => if k' = k then some vs else lookup k rest

/-! ## simple style (v1 and v2 `ExtractCommentTags`) -/

/-- what one line contributes: `none` if not considered, else `(key, value)` -/
def considered (marker line : Str) : Option (Str × Str) :=
  let t := trimSp line
  if t.isEmpty then none
  else if !(marker.isPrefixOf t) then none
  else
    let kv := split2 '=' (t.drop marker.length)
    some (kv.1, kv.2.getD [])

def step (marker : Str) (acc : List (Str × List Str)) (l : Str) : List (Str × List Str) :=
  match considered marker l with
  | none => acc
  | some kv => addKV kv.1 kv.2 acc

def extract (marker : Str) (lines : List Str) : List (Str × List Str) :=
  lines.foldl (step marker) []

inductive BoolRes
  | val (b : Bool)
  | errNotBool
  | errArgs
deriving DecidableEq, Repr

def boolOf (defaultVal : Bool) : Option Str → BoolRes
  | none => .val defaultVal
  | some v => if v = "true".toList then .val true else if v = "false".toList then .val false else .errNotBool

/-- v1 `ExtractSingleBoolCommentTag` -/
def singleBoolV1 (marker key : Str) (defaultVal : Bool) (lines : List Str) : BoolRes :=
  match lookup key (extract marker lines) with
  | none => .val defaultVal
  | some vs => boolOf defaultVal vs.head?

/-! ## function style (v2) -/

/-- `strings.SplitN(s, "//", 2)[0]` -/
def beforeSlashes : Str → Str
  | '/' :: '/' :: _ => []
  | c :: cs => c :: beforeSlashes cs
  | [] => []

inductive ArgErr | multiple | afterParen | badChar | noClose
deriving DecidableEq, Repr

/-- `parseTagArgs`; `ld` plays `unicode.IsLetter(r) || unicode.IsDigit(r)` -/
def parseTagArgsGo (ld : Char → Bool) : Str → Str → Except ArgErr (List Str)
  | [], _ => .error .noClose
  | c :: cs, acc =>
    if ld c then parseTagArgsGo ld cs (acc ++ [c])
    else if c = ',' then .error .multiple
    else if c = ')' then
      if !cs.isEmpty then .error .afterParen
      else if acc.isEmpty then .ok [] else .ok [acc]
    else .error .badChar

def parseTagArgs (ld : Char → Bool) (input : Str) : Except ArgErr (List Str) :=
  parseTagArgsGo ld input []

structure Tag where
  name : Str
  args : List Str
  value : Str
deriving DecidableEq, Repr

/-- result of `parseTagKey` -/
inductive KeyRes
  | skip                       -- tagNames given and the name is not among them
  | ok (name : Str) (args : List Str)
  | err (e : ArgErr)
deriving DecidableEq, Repr

def parseTagKey (ld : Char → Bool) (input : Str) (tagNames : List Str) : KeyRes :=
  let parts := split2 '(' input
  let key := parts.1
  if !tagNames.isEmpty && !tagNames.contains key then .skip
  else match parts.2 with
    | none => .ok key []
    | some rest => match parseTagArgs ld rest with
      | .error e => .err e
      | .ok args => .ok key args

/-- what one line does -/
inductive LineRes
  | ignore                     -- not considered, or filtered by tagNames, or empty name
  | tag (t : Tag)
  | err (e : ArgErr)
deriving DecidableEq, Repr

/-- the closure `stripTrailingComment` (after the fix for F10 it is applied to the text *after* the
marker and trims on the right only) -/
def stripTrailingComment (l : Str) : Str := Str.trimRightBy Str.isSpace (beforeSlashes l)

def line1 (ld : Char → Bool) (marker : Str) (tagNames : List Str) (line : Str) : LineRes :=
  let l := Str.trimSpace line
  if l.isEmpty then .ignore
  else if !(marker.isPrefixOf l) then .ignore
  else
    let kv := split2 '=' (stripTrailingComment (l.drop marker.length))
    match parseTagKey ld kv.1 tagNames with
    | .skip => .ignore
    | .err e => .err e
    | .ok name args => if name.isEmpty then .ignore else .tag ⟨name, args, kv.2.getD []⟩

inductive Out
  | ok (m : List (Str × List Tag))
  | err (e : ArgErr)
deriving Repr

def extractFSGo (ld : Char → Bool) (marker : Str) (tagNames : List Str) :
    List Str → List (Str × List Tag) → Out
  | [], acc => .ok acc
  | l :: ls, acc =>
    match line1 ld marker tagNames l with
    | .ignore => extractFSGo ld marker tagNames ls acc
    | .err e => .err e
    | .tag t => extractFSGo ld marker tagNames ls (addKV t.name t acc)

/-- v2 `ExtractFunctionStyleCommentTags` -/
def extractFS (ld : Char → Bool) (marker : Str) (tagNames : List Str) (lines : List Str) : Out :=
  extractFSGo ld marker tagNames lines []

/-- v2 `ExtractSingleBoolCommentTag` -/
def singleBoolV2 (ld : Char → Bool) (marker key : Str) (defaultVal : Bool) (lines : List Str) : BoolRes :=
  match extractFS ld marker [key] lines with
  | .err _ => .errArgs
  | .ok m => match lookup key m with
    | none => .val defaultVal
    | some ts => boolOf defaultVal (ts.head?.map (·.value))

/-- `Tag.String()` -/
def Tag.render (t : Tag) : Str :=
  t.name ++ (if t.args.isEmpty then [] else ['('] ++ Str.join [',', ' '] t.args ++ [')'])

end Gengo.Tags

import Gengo.Basic.Str
/-!
# gengo types as trees (shared by the namer models, C02 and C14)

A `*types.Type` as the namers see it: named types are leaves (their structure is irrelevant to
naming), anonymous types are trees. `Tys`/`Members` are explicit lists so that structural recursion
and mutual induction work (nested `List` inductives do not support `induction`).
-/
namespace Gengo

mutual
inductive Ty
  | named (pkg name : Str)                 -- `Name.Package != ""`
  | builtin (name : Str)                   -- `Name.Package == ""`, `Kind == Builtin`
  | map (k e : Ty)
  | slice (e : Ty)
  | array (len : Nat) (e : Ty)
  | pointer (e : Ty)
  | chan (e : Ty)
  | struct (ms : Members)
  | iface (methods : List Str)             -- method names only (all the namers look at)
  | func (params results : Tys)
  | other (kind : Str)                     -- any other kind: "unnameable_<kind>"
inductive Tys
  | nil
  | cons (t : Ty) (ts : Tys)
inductive Members
  | nil
  | cons (name : Str) (t : Ty) (ms : Members)
end

end Gengo

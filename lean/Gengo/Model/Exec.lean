import Gengo.Basic.Str
/-!
# Model of the executor: `ExecutePackage(s)` (v1) / `ExecuteTarget(s)` (v2), `executeBody`,
`filteredBy`, `addNameSystems`, `assembleGolangFile`/`assembleGoFile`, `AssembleFile`, `VerifyFile`
(C04, C09, C10, C13)

Generators and targets are data; types are ids (`Nat`) listed in the context's canonical order.
The formatter is a parameter (`format : Str → Option Str`, `none` = formatting failed).  The disk is
explicit (directories and files), so that "verify-only touches nothing" is a real statement.
-/
namespace Gengo.Exec
open Gengo

structure Gen where
  name : Str
  accept : List Nat             -- ids accepted by `Filter`
  namers : Option (List Str)    -- `Namers()`: `none` = nil, `some l` = systems with these names
  fileType : Str
  filename : Str
  vars : List Str
  consts : List Str
  imports : List Str
  initErr : Bool
  finErr : Bool
  typeErr : List Nat            -- `GenerateType` fails on these ids (after writing its bytes)
  silent : Bool := false        -- the hooks write nothing to the body
deriving Repr

structure Target where
  name : Str
  dir : Str                     -- directory on disk (v1: outDir/Path)
  accept : List Nat
  header : Str
  gens : List Gen
deriving Repr

inductive Hook | namers | vars | consts | init | finalize | imports
deriving DecidableEq, Repr

/-- the trace of calls made on targets and generators, with what each call could observe -/
inductive Ev
  | generators (order : List Nat)                                  -- `Target.Generators(ctx)`: ctx.Order
  | gFilter (g : Str) (t : Nat)                                     -- `g.Filter(ctx, t)`
  | hook (h : Hook) (g : Str) (ctxNamers : List Str) (order : List Nat)
  | genType (g : Str) (t : Nat) (ctxNamers : List Str)
deriving DecidableEq, Repr

structure File where
  name : Str
  fileType : Str
  pkgName : Str
  header : Str
  imports : List Str            -- the keys of the `Imports` set, without duplicates
  vars : Str
  consts : Str
  body : Str
deriving Repr

inductive TRes
  | ok
  | errHook                     -- a generator hook returned an error
  | errFileType                 -- empty or conflicting file type (returned before anything is written)
  | errUnknownType              -- a file's type is not registered: returned from inside the assembly loop
  | errMkdir                    -- v2: the target directory cannot be created
  | errFiles (names : List Str) -- files that could not be created/formatted/verified
deriving DecidableEq, Repr

/-! ## disk -/

structure Disk where
  dirs : List Str
  files : List (Str × Str)
deriving Repr

def Disk.isFile (d : Disk) (p : Str) : Bool := (AL.lookup p d.files).isSome
def Disk.isDir (d : Disk) (p : Str) : Bool := p.isEmpty || d.dirs.contains p

/-- all proper and improper prefixes of a slash-separated path, shortest first -/
def pathPrefixes (p : Str) : List Str :=
  let segs := Str.splitOn '/' p
  (List.range segs.length).map (fun i => Str.join ['/'] (segs.take (i + 1)))

def parentDir (p : Str) : Str := Str.join ['/'] (Str.splitOn '/' p).dropLast

/-- `os.MkdirAll`: fails if a prefix is a file -/
def Disk.mkdirAll (d : Disk) (p : Str) : Option Disk :=
  if (pathPrefixes p).any d.isFile then none
  else some { d with dirs := (pathPrefixes p).foldl (fun ds q => if ds.contains q then ds else ds ++ [q]) d.dirs }

/-- `os.Create` followed by one write of the whole content; `none` = Create failed (parent missing,
or the path is a directory) -/
def Disk.writeFile (d : Disk) (p content : Str) : Option Disk :=
  if d.isDir (parentDir p) && !d.dirs.contains p then some { d with files := AL.insert p content d.files }
  else none

def Disk.readFile (d : Disk) (p : Str) : Option Str := AL.lookup p d.files

/-! ## assembling a file -/

/-- `fmt.Fprintf("%q")` for the plain ASCII strings the harness uses -/
def quote (s : Str) : Str := '"' :: s ++ ['"']

def importLine (i : Str) : Str :=
  if i.contains '"' then '\t' :: i ++ ['\n'] else '\t' :: quote i ++ ['\n']

/-- `assembleGolangFile` / `assembleGoFile`, given the order in which the import set is ranged over -/
def assembleWith (f : File) (importsInOrder : List Str) : Str :=
  f.header ++ "package ".toList ++ f.pkgName ++ "\n\n".toList ++
  (if importsInOrder.isEmpty then [] else
    "import (\n".toList ++ (importsInOrder.map importLine).flatten ++ ")\n\n".toList) ++
  (if f.vars.isEmpty then [] else "var (\n".toList ++ f.vars ++ ")\n\n".toList) ++
  (if f.consts.isEmpty then [] else "const (\n".toList ++ f.consts ++ ")\n\n".toList) ++
  f.body

/-- canonical schedule: the import set ranged over in the order of the rendered lines (the harness's
formatter sorts the lines of the block, so every map schedule gives the same bytes) -/
def assemble (f : File) : Str :=
  assembleWith f (f.imports.mergeSort (fun a b => Str.le (importLine a) (importLine b)))

/-- `addIndentHeaderComment(b, "<what> from generator %q.", name)` -/
def addHeaderComment (b : Str) (what name : Str) : Str :=
  let line := "// ".toList ++ what ++ " from generator ".toList ++ quote name ++ ".\n".toList
  if b.isEmpty then b ++ line else b ++ ('\n' :: line)

def appendLines (b : Str) (ls : List Str) : Str := ls.foldl (fun acc l => acc ++ l ++ ['\n']) b

/-! ## executing -/

structure Ctx where
  order : List Nat
  namers : List Str             -- keys of `Namers`
  fileTypes : List Str          -- keys of `FileTypes`
  verify : Bool
  v2 : Bool

/-- `addNameSystems`: keys of the extended map (sorted, without duplicates) -/
def addNamers (base : List Str) : Option (List Str) → List Str
  | none => base
  | some l => l.foldl (fun acc n => if acc.contains n then acc else acc ++ [n]) base

def sortedKeys (l : List Str) : List Str := l.mergeSort Str.le

/-- bytes written by the recording generator's hooks -/
def initBytes (g : Str) : Str := "// init ".toList ++ g ++ ['\n']
def typeBytes (g : Str) (t : Nat) : Str := "// type ".toList ++ g ++ [' '] ++ (toString t).toList ++ ['\n']
def finBytes (g : Str) : Str := "// fin ".toList ++ g ++ ['\n']

/-- `executeBody`: events, bytes appended to the body, and whether a hook failed -/
def wr (g : Gen) (b : Str) : Str := if g.silent then [] else b

def bodyTypes (g : Gen) (ns : List Str) : List Nat → List Ev × Str × Bool
  | [] => ([], [], false)
  | t :: ts =>
    if g.typeErr.contains t then ([.genType g.name t ns], wr g (typeBytes g.name t), true)
    else
      let r := bodyTypes g ns ts
      (.genType g.name t ns :: r.1, wr g (typeBytes g.name t) ++ r.2.1, r.2.2)

def executeBody (g : Gen) (ns : List Str) (order : List Nat) : List Ev × Str × Bool :=
  if g.initErr then ([.hook .init g.name ns order], wr g (initBytes g.name), true)
  else
    let r := bodyTypes g ns order
    if r.2.2 then (.hook .init g.name ns order :: r.1, wr g (initBytes g.name) ++ r.2.1, true)
    else
      (.hook .init g.name ns order :: r.1 ++ [.hook .finalize g.name ns order],
       wr g (initBytes g.name) ++ r.2.1 ++ wr g (finBytes g.name), g.finErr)

def findFile (files : List File) (name : Str) : Option File := files.find? (fun f => f.name = name)

/-- `files[f.Name] = f` -/
def putFile : List File → File → List File
  | [], f => [f]
  | x :: xs, f => if x.name = f.name then f :: xs else x :: putFile xs f

def addImports (cur : List Str) (is : List Str) : List Str :=
  is.foldl (fun acc i => if acc.contains i then acc else acc ++ [i]) cur

/-- empty file type, or a file of that name was already started with another type -/
def fileTypeError (files : List File) (g : Gen) : Bool :=
  g.fileType.isEmpty ||
    (match findFile files g.filename with
     | some f => f.fileType != g.fileType
     | none => false)

/-- the `File` a generator contributes to: the one already started under that name, or a new one -/
def startFile (tgt : Target) (files : List File) (g : Gen) : File :=
  (findFile files g.filename).getD ⟨g.filename, g.fileType, tgt.name, tgt.header, [], [], [], []⟩

/-- what a generator adds to its file: vars and consts blocks (with their header comments), the body
bytes of `executeBody`, and its imports -/
def contribute (f : File) (g : Gen) (body : Str) : File :=
  { f with
    vars := if g.vars.isEmpty then f.vars else
      appendLines (addHeaderComment f.vars "Package-wide variables".toList g.name) g.vars
    consts := if g.consts.isEmpty then f.consts else
      appendLines (addHeaderComment f.consts "Package-wide consts".toList g.name) g.consts
    body := f.body ++ body
    imports := addImports f.imports g.imports }

/-- the namer names a generator's hooks see: the base systems extended by its own -/
def genNamers (c : Ctx) (g : Gen) : List Str := sortedKeys (addNamers c.namers g.namers)

/-- the types offered to a generator: the target-filtered order filtered by its own filter -/
def genOrder (pkgOrder : List Nat) (g : Gen) : List Nat := pkgOrder.filter (fun t => g.accept.contains t)

/-- events up to and including `Namers` -/
def evStart (c : Ctx) (pkgOrder : List Nat) (g : Gen) : List Ev :=
  pkgOrder.map (fun t => Ev.gFilter g.name t) ++ [Ev.hook .namers g.name (sortedKeys c.namers) (genOrder pkgOrder g)]

def evVarsConsts (c : Ctx) (pkgOrder : List Nat) (g : Gen) : List Ev :=
  [Ev.hook .vars g.name (genNamers c g) (genOrder pkgOrder g), Ev.hook .consts g.name (genNamers c g) (genOrder pkgOrder g)]

/-- the generator loop of `ExecuteTarget`; `inl` = early error return -/
def runGens (c : Ctx) (tgt : Target) (pkgOrder : List Nat) :
    List Gen → List File → List Ev × (TRes ⊕ List File)
  | [], files => ([], .inr files)
  | g :: gs, files =>
    if fileTypeError files g then (evStart c pkgOrder g, .inl .errFileType)
    else
      let b := executeBody g (genNamers c g) (genOrder pkgOrder g)
      if b.2.2 then (evStart c pkgOrder g ++ evVarsConsts c pkgOrder g ++ b.1, .inl .errHook)
      else
        let r := runGens c tgt pkgOrder gs (putFile files (contribute (startFile tgt files g) g b.2.1))
        (evStart c pkgOrder g ++ evVarsConsts c pkgOrder g ++ b.1 ++
          [Ev.hook .imports g.name (genNamers c g) (genOrder pkgOrder g)] ++ r.1, r.2)

/-- `AssembleFile` -/
def assembleFile (format : Str → Option Str) (d : Disk) (f : File) (path : Str) : Disk × Bool :=
  let raw := assemble f
  match format raw with
  | some formatted =>
    match d.writeFile path formatted with
    | some d' => (d', true)
    | none => (d, false)
  | none =>
    -- "Write the file anyway, so they can see what's going wrong"
    match d.writeFile path raw with
    | some d' => (d', false)
    | none => (d, false)

/-- `VerifyFile`: reads only -/
def verifyFile (format : Str → Option Str) (d : Disk) (f : File) (path : Str) : Bool :=
  match format (assemble f) with
  | none => false
  | some formatted =>
    match d.readFile path with
    | none => false
    | some existing => existing = formatted

def joinPath (dir name : Str) : Str := if dir.isEmpty then name else dir ++ '/' :: name

/-- the assembly loop over the files of one target (any order of the map gives the same disk, the
paths being distinct; the canonical order is insertion order) -/
def assembleAll (format : Str → Option Str) (c : Ctx) (dir : Str) :
    List File → Disk → Disk × List Str
  | [], d => (d, [])
  | f :: fs, d =>
    let path := joinPath dir f.name
    if c.verify then
      let ok := verifyFile format d f path
      let r := assembleAll format c dir fs d
      (r.1, if ok then r.2 else f.name :: r.2)
    else
      let a := assembleFile format d f path
      let r := assembleAll format c dir fs a.1
      (r.1, if a.2 then r.2 else f.name :: r.2)

/-- `ExecutePackage` / `ExecuteTarget` -/
def executeTarget (format : Str → Option Str) (c : Ctx) (tgt : Target) (d : Disk) :
    List Ev × TRes × Disk :=
  let pkgOrder := c.order.filter (fun t => tgt.accept.contains t)
  -- MkdirAll: v1 ignores its error and (after the repair of F11) skips it when verifying
  let md : Option Disk := if c.verify then some d else d.mkdirAll tgt.dir
  if c.v2 && md.isNone then ([], .errMkdir, d)
  else
    let d1 := md.getD d
    let r := runGens c tgt pkgOrder tgt.gens []
    let evs := Ev.generators pkgOrder :: r.1
    match r.2 with
    | .inl e => (evs, e, d1)
    | .inr files =>
      -- the real loop returns when it meets such a file; which other files were written before
      -- depends on the map schedule, so the model leaves the disk as it is and the driver does not
      -- report the disk for this result
      if files.any (fun f => !c.fileTypes.contains f.fileType) then (evs, .errUnknownType, d1)
      else
        let a := assembleAll format c tgt.dir files d1
        (evs, if a.2.isEmpty then .ok else .errFiles (sortedKeys a.2), a.1)

/-- `ExecutePackages` / `ExecuteTargets`: every target is processed, errors are collected -/
def executeTargets (format : Str → Option Str) (c : Ctx) :
    List Target → Disk → List (List Ev × TRes) × Disk
  | [], d => ([], d)
  | t :: ts, d =>
    let r := executeTarget format c t d
    let rs := executeTargets format c ts r.2.2
    ((r.1, r.2.1) :: rs.1, rs.2)

end Gengo.Exec

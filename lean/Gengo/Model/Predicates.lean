import Gengo.Model.Universe
/-! # Model of `Type.IsPrimitive`, `IsAssignable`, `IsAnonymousStruct` (C20) over the universe's objects -/
namespace Gengo.Predicates
open Gengo Gengo.Universe

def kindOf (u : U) (o : Option Nat) : Kind := match o with | some i => u.kind i | none => .unknown

/-- `IsPrimitive`: builtin, or an alias whose underlying type is builtin -/
def isPrimitive (u : U) (o : Nat) : Bool :=
  u.kind o = .builtin || (u.kind o = .alias && kindOf u (u.obj o).under = .builtin)

/-- `IsAssignable`: primitive, or a struct all of whose members are assignable (fuel bounds nesting) -/
def isAssignable (u : U) : Nat → Nat → Bool
  | 0, _ => false
  | fuel + 1, o =>
    isPrimitive u o ||
      (u.kind o = .struct && (u.obj o).members.all (fun m => isAssignable u fuel m.2.2.2))

def kEmptyStruct : Str := "struct{}".toList

/-- `IsAnonymousStruct`: the struct named `struct{}`, or an alias of one -/
def isAnonymousStruct (u : U) : Nat → Nat → Bool
  | 0, _ => false
  | fuel + 1, o =>
    (u.kind o = .struct && (u.obj o).name.name = kEmptyStruct) ||
      (u.kind o = .alias && (match (u.obj o).under with | some x => isAnonymousStruct u fuel x | none => false))

end Gengo.Predicates

import Gengo.Model.DeepCopy
/-!
# The text deepcopy-gen emits for each code shape (C16)

All white space is dropped (the harness compares the gofmt-formatted output of the real generator after
dropping white space, too).
-/
namespace Gengo.DeepCopy
open Gengo

def s (x : String) : Str := x.toList.filter (fun c => !c.isWhitespace)

def natStr (n : Nat) : Str := (toString n).toList

/-- `$.|raw$` in package `cur` -/
def rawTE (cur : Str) : TE → Str
  | .builtin n => n
  | .named n => if cur = kDep && (kDep ++ ['.']).isPrefixOf n then n.drop 4 else n
  | .ptr e => '*' :: rawTE cur e
  | .slice e => s "[]" ++ rawTE cur e
  | .map k e => s "map[" ++ rawTE cur k ++ [']'] ++ rawTE cur e
  | .array n e => ['['] ++ natStr n ++ [']'] ++ rawTE cur e
  | .empty => s "struct{}"

/-- the receiver of a method call in `doPointer`: through the pointee for a defined pointer type -/
def recvText (dp : Bool) : Str := if dp then s "(**in)" else s "(*in)"

/-- `m` is the member name for the per-field shapes -/
def render (cur : Str) (m : Str) : Code → Str
  | .fatal => s "FATAL"
  | .callDeepCopy => s "*out = in.DeepCopy()"
  | .assignAll => s "*out = *in"
  | .mapLoop raw body => s "*out = make(" ++ rawTE cur raw ++ s ", len(*in)) for key, val := range *in {" ++ render cur m body ++ s "}"
  | .mvDcSame => s "(*out)[key] = val.DeepCopy()"
  | .mvDcDeref => s "(*out)[key] = *val.DeepCopy()"
  | .mvAssign => s "(*out)[key] = val"
  | .mvStructDeref _ => s "(*out)[key] = *val.DeepCopy()"
  | .mvIface n => s "if val == nil {(*out)[key]=nil} else { (*out)[key] = val.DeepCopy" ++ n ++ s "() }"
  | .mvRef raw p => s "var outVal " ++ rawTE cur raw ++ s "if val == nil { (*out)[key] = nil } else { in, out := &val, &outVal" ++ render cur m p ++ s "} (*out)[key] = outVal"
  | .sliceInto raw => s "*out = make(" ++ rawTE cur raw ++ s ", len(*in)) for i := range *in { (*in)[i].DeepCopyInto(&(*out)[i]) }"
  | .sliceCopy raw => s "*out = make(" ++ rawTE cur raw ++ s ", len(*in)) copy(*out, *in)"
  | .sliceRef raw p => s "*out = make(" ++ rawTE cur raw ++ s ", len(*in)) for i := range *in { if (*in)[i] != nil { in, out := &(*in)[i], &(*out)[i]" ++ render cur m p ++ s "} }"
  | .sliceIface raw n => s "*out = make(" ++ rawTE cur raw ++ s ", len(*in)) for i := range *in { if (*in)[i] != nil { (*out)[i] = (*in)[i].DeepCopy" ++ n ++ s "() } }"
  | .sliceStruct raw _ => s "*out = make(" ++ rawTE cur raw ++ s ", len(*in)) for i := range *in { (*in)[i].DeepCopyInto(&(*out)[i]) }"
  | .structAll fx => s "*out = *in" ++ render cur m fx
  | .fxNil => []
  | .fxCons name fix rest => render cur name fix ++ render cur m rest
  | .ffDcSame => s "out." ++ m ++ s " = in." ++ m ++ s ".DeepCopy()"
  | .ffDcInto => s "in." ++ m ++ s ".DeepCopyInto(&out." ++ m ++ s ")"
  | .ffNone => []
  | .ffArrayAssign => s "out." ++ m ++ s " = in." ++ m
  | .ffStructAssign => s "out." ++ m ++ s " = in." ++ m
  | .ffStructInto _ => s "in." ++ m ++ s ".DeepCopyInto(&out." ++ m ++ s ")"
  | .ffIface n => s "if in." ++ m ++ s " != nil { out." ++ m ++ s " = in." ++ m ++ s ".DeepCopy" ++ n ++ s "() }"
  | .ffRef p => s "if in." ++ m ++ s " != nil { in, out := &in." ++ m ++ s ", &out." ++ m ++ render cur m p ++ s "}"
  | .ffArrayLoop p => s "for i := range in." ++ m ++ s " { in, out := &in." ++ m ++ s "[i], &out." ++ m ++ s "[i]" ++ render cur m p ++ s "}"
  | .aeInto => s "in.DeepCopyInto(out)"
  | .aeNone => []
  | .aeStruct _ => s "in.DeepCopyInto(out)"
  | .aeIface n => s "if *in != nil { *out = (*in).DeepCopy" ++ n ++ s "() }"
  | .aeRef p => s "if *in != nil {" ++ render cur m p ++ s "}"
  | .aeNested p => s "for i := range *in { in, out := &(*in)[i], &(*out)[i]" ++ render cur m p ++ s "}"
  | .ptrDcPtr dp => s "*out = " ++ recvText dp ++ s ".DeepCopy()"
  | .ptrDcVal dp => s "x := " ++ recvText dp ++ s ".DeepCopy() *out = &x"
  | .ptrNewAssign raw => s "*out = new(" ++ rawTE cur raw ++ s ") **out = **in"
  | .ptrRef raw p => s "*out = new(" ++ rawTE cur raw ++ s ") if **in != nil { in, out := *in, *out" ++ render cur m p ++ s "}"
  | .ptrStruct dp raw => s "*out = new(" ++ rawTE cur raw ++ s ") " ++ recvText dp ++ s ".DeepCopyInto(*out)"

/-- `GenerateType`: the text of method `meth` ("DeepCopyInto", "DeepCopy", "DeepCopy<Iface>") of declared type `d` -/
def methodText (env : Env) (f : Nat) (d : Decl) (meth : Str) : Str :=
  let ms := methodsOf env f d
  let n := d.name
  if meth = s "DeepCopyInto" then
    match ms.into with
    | none => []
    | some body =>
      if ms.reference then
        s "func (in " ++ n ++ s ") DeepCopyInto(out *" ++ n ++ s ") { {in:=&in" ++ render d.pkg [] body ++ s "return } }"
      else
        s "func (in *" ++ n ++ s ") DeepCopyInto(out *" ++ n ++ s ") {" ++ render d.pkg [] body ++ s "return }"
  else if meth = s "DeepCopy" then
    if !ms.deepCopy then []
    else if ms.reference then
      s "func (in " ++ n ++ s ") DeepCopy() " ++ n ++ s "{ if in == nil { return nil } out := new(" ++ n ++ s ") in.DeepCopyInto(out) return *out }"
    else
      s "func (in *" ++ n ++ s ") DeepCopy() *" ++ n ++ s "{ if in == nil { return nil } out := new(" ++ n ++ s ") in.DeepCopyInto(out) return out }"
  else
    let i := meth.drop 8
    if ms.ifaces.contains i then
      s "func (in *" ++ n ++ s ") DeepCopy" ++ i ++ s "() " ++ i ++ s "{ if c := in.DeepCopy(); c != nil { return c } return nil }"
    else []

end Gengo.DeepCopy

import Gengo.Model.Universe
/-!
# Model of loading (C11): which packages are scanned, which are stubs, in any split and order

v2: `Parser.{LoadPackages, NewUniverse, LoadPackagesTo}` (`userRequested`, `fullyProcessed`,
`addPkgToUniverse` with its recursion into imports).  v1: `Builder.{AddDir, FindTypes, AddDirTo}`
(`userRequested`, `findTypesIn`).  The world – every package the type checker can see, with its scope
and direct imports – is an input fact.
-/
namespace Gengo.Loader
open Gengo Gengo.Universe

structure World where
  pkgs : List GPkg             -- every package known to the type checker (`requested` is ignored here)
  facts : Facts
  bt : List Builtin
  v2 : Bool
  fuel : Nat                   -- call-depth bound handed to `walk`

def World.find (w : World) (path : Str) : Option GPkg := w.pkgs.find? (fun p => p.path = path)

structure LState where
  u : U := {}
  requested : List Str := []   -- `userRequested`
  processed : List Str := []   -- `fullyProcessed` (v2)
deriving Repr

/-- v2 `addPkgToUniverse`: get-or-create the package record; a requested package is scanned once,
then its imports are visited; `n` bounds the recursion depth (the import graph is a DAG) -/
def visitV2 (w : World) : Nat → LState → Str → Option LState
  | 0, _, _ => none
  | n + 1, st, path =>
    if st.processed.contains path then some st
    else match w.find path with
      | none => none
      | some p =>
        let st := { st with u := st.u.package path }
        if !st.requested.contains path then some st
        else
          let st := { st with processed := st.processed ++ [path] }
          let u1 := (st.u.package p.path).setPkg p.path (fun r => { r with name := p.name })
          match addObjs w.bt w.facts w.v2 w.fuel u1 p.scope with
          | none => none
          | some u2 =>
            let st := { st with u := u2 }
            match p.imports.foldl (fun acc i => acc.bind (fun s => visitV2 w n s i)) (some st) with
            | none => none
            | some st => some { st with u := st.u.addImports p.path (p.imports.mergeSort Str.le) }

/-- `forEachPackageRecursive` over a package and everything it imports -/
def reachable (w : World) : Nat → List Str → Str → List Str
  | 0, seen, _ => seen
  | n + 1, seen, path =>
    if seen.contains path then seen
    else match w.find path with
      | none => seen ++ [path]          -- unknown to the type checker: visiting it fails (an error, not silence)
      | some p => p.imports.foldl (fun s i => reachable w n s i) (seen ++ [path])

/-- `addPkgsToUniverse(pkgs, u)` -/
def addPkgsV2 (w : World) (st : LState) (roots : List Str) : Option LState :=
  let order := roots.foldl (fun seen r => reachable w (w.pkgs.length + 1) seen r) []
  order.foldl (fun acc p => acc.bind (fun s => visitV2 w (w.pkgs.length + 1) s p)) (some st)

/-- v2 `LoadPackages(patterns…)` followed by `NewUniverse()` -/
def newUniverseV2 (w : World) (requested : List Str) : Option LState :=
  let req := requested.foldl (fun acc r => if acc.contains r then acc else acc ++ [r]) []
  addPkgsV2 w { requested := req } (req.mergeSort Str.le)

/-- v2 `LoadPackagesTo(u, patterns…)`: more requests, added to the existing universe -/
def loadToV2 (w : World) (st : LState) (more : List Str) : Option LState :=
  let req := more.foldl (fun acc r => if acc.contains r then acc else acc ++ [r]) st.requested
  addPkgsV2 w { st with requested := req } more

/-- v1 `findTypesIn` for one package -/
def findTypesInV1 (w : World) (st : LState) (path : Str) : Option LState :=
  match w.find path with
  | none => none
  | some p =>
    if !st.requested.contains path then some st
    else (scanPkg w.bt w.facts w.v2 w.fuel st.u p).map (fun u => { st with u := u })

/-- the packages v1 has parsed: the requested ones and everything they import, transitively -/
def parsedV1 (w : World) (requested : List Str) : List Str :=
  requested.foldl (fun seen r => reachable w (w.pkgs.length + 1) seen r) []

/-- v1 `FindTypes()`: every parsed package in path order; only requested ones are scanned -/
def findTypesV1 (w : World) (requested : List Str) : Option LState :=
  ((parsedV1 w requested).mergeSort Str.le).foldl (fun acc p => acc.bind (fun s => findTypesInV1 w s p))
    (some { requested := requested })

/-- v1 `AddDirTo(dir, &u)`: request one more package and scan it into the existing universe -/
def addDirToV1 (w : World) (st : LState) (path : Str) : Option LState :=
  findTypesInV1 w { st with requested := if st.requested.contains path then st.requested else st.requested ++ [path] } path

end Gengo.Loader

import Gengo.Model.DeepCopy
/-!
# What the code shapes of deepcopy-gen do to a value (C16)

Values are trees with explicit addresses for everything mutable that can be shared: the cell a pointer
points to, the backing array of a slice, a map.  Copying allocates fresh addresses from a counter.
Calls of methods that are not part of the generated body are parameters: `call` stands for hand-written
`DeepCopy`/`DeepCopyInto` methods and for `DeepCopy<Iface>()` of the dynamic type of an interface value,
`gen t` for the generated `DeepCopy`/`DeepCopyInto` of the struct type `t`.
-/
namespace Gengo.DeepCopy

mutual
  inductive Val where
    | scalar (n : Nat)
    | nil                              -- nil pointer / slice / map / interface
    | ptr (a : Nat) (v : Val)
    | slice (a : Nat) (vs : Vals)      -- possibly empty, which is not nil
    | map (a : Nat) (vs : Vals)        -- the values; keys are assignable and copied by value
    | arr (vs : Vals)
    | struct (vs : Vals)
    | iface (v : Val)                  -- a non-nil interface value and what it holds
  inductive Vals where
    | nil
    | cons (v : Val) (vs : Vals)
end

mutual
  /-- the addresses of all mutable storage reachable from a value -/
  def addrs : Val → List Nat
    | .scalar _ => []
    | .nil => []
    | .ptr a v => a :: addrs v
    | .slice a vs => a :: addrsL vs
    | .map a vs => a :: addrsL vs
    | .arr vs => addrsL vs
    | .struct vs => addrsL vs
    | .iface v => addrs v
  def addrsL : Vals → List Nat
    | .nil => []
    | .cons v vs => addrs v ++ addrsL vs
end

mutual
  /-- forget the addresses: what `reflect.DeepEqual` compares (nil and empty stay different) -/
  def erase : Val → Val
    | .scalar n => .scalar n
    | .nil => .nil
    | .ptr _ v => .ptr 0 (erase v)
    | .slice _ vs => .slice 0 (eraseL vs)
    | .map _ vs => .map 0 (eraseL vs)
    | .arr vs => .arr (eraseL vs)
    | .struct vs => .struct (eraseL vs)
    | .iface v => .iface (erase v)
  def eraseL : Vals → Vals
    | .nil => .nil
    | .cons v vs => .cons (erase v) (eraseL vs)
end

mutual
  /-- nesting depth of a value -/
  def depth : Val → Nat
    | .scalar _ => 0
    | .nil => 0
    | .ptr _ v => depth v + 1
    | .slice _ vs => depthL vs + 1
    | .map _ vs => depthL vs + 1
    | .arr vs => depthL vs + 1
    | .struct vs => depthL vs + 1
    | .iface v => depth v + 1
  def depthL : Vals → Nat
    | .nil => 0
    | .cons v vs => max (depth v) (depthL vs)
end

abbrev Copier := Val → Nat → Val × Nat

/-- apply a copier to every element, threading the allocation counter -/
def mapVals (c : Copier) : Vals → Nat → Vals × Nat
  | .nil, n => (.nil, n)
  | .cons v vs, n =>
    let r := c v n
    let r' := mapVals c vs r.2
    (.cons r.1 r'.1, r'.2)

/-- `if x != nil { … }` around a copier: a nil stays nil (it was copied by the enclosing assignment / `make`) -/
def guarded (c : Copier) : Copier := fun v n =>
  match v with
  | .nil => (.nil, n)
  | v => c v n

/-- an interface value: nil stays nil, otherwise `DeepCopy<Iface>()` of the dynamic value -/
def ifaceCopy (call : Copier) : Copier := fun v n =>
  match v with
  | .iface d => let r := call d n; (.iface r.1, r.2)
  | v => (v, n)

mutual
  /-- `exec call gen c v n`: the value `*out` holds after running shape `c` with `*in = v`, allocating from `n` on.
  For the per-member shapes `v` is the member, for the element shapes the element.  The shapes for
  reference types run under a nil guard in every caller; run on nil they do what Go does (`make` of length 0). -/
  def exec (call : Copier) (gen : TE → Copier) : Code → Copier
    | .fatal => fun v n => (v, n)
    | .callDeepCopy => call
    | .assignAll => fun v n => (v, n)
    | .mapLoop _ body => fun v n =>
        match v with
        | .map _ vs => let r := mapVals (exec call gen body) vs (n + 1); (.map n r.1, r.2)
        | .nil => (.map n .nil, n + 1)
        | v => (v, n)
    | .mvDcSame => call
    | .mvDcDeref => call
    | .mvAssign => fun v n => (v, n)
    | .mvStructDeref t => gen t
    | .mvIface _ => ifaceCopy call
    | .mvRef _ p => guarded (exec call gen p)
    | .sliceInto _ => fun v n =>
        match v with
        | .slice _ vs => let r := mapVals call vs (n + 1); (.slice n r.1, r.2)
        | .nil => (.slice n .nil, n + 1)
        | v => (v, n)
    | .sliceCopy _ => fun v n =>
        match v with
        | .slice _ vs => (.slice n vs, n + 1)
        | .nil => (.slice n .nil, n + 1)
        | v => (v, n)
    | .sliceRef _ p => fun v n =>
        match v with
        | .slice _ vs => let r := mapVals (guarded (exec call gen p)) vs (n + 1); (.slice n r.1, r.2)
        | .nil => (.slice n .nil, n + 1)
        | v => (v, n)
    | .sliceIface _ _ => fun v n =>
        match v with
        | .slice _ vs => let r := mapVals (ifaceCopy call) vs (n + 1); (.slice n r.1, r.2)
        | .nil => (.slice n .nil, n + 1)
        | v => (v, n)
    | .sliceStruct _ e => fun v n =>
        match v with
        | .slice _ vs => let r := mapVals (gen e) vs (n + 1); (.slice n r.1, r.2)
        | .nil => (.slice n .nil, n + 1)
        | v => (v, n)
    | .structAll fx => fun v n =>
        match v with
        | .struct vs => let r := execFix call gen fx vs n; (.struct r.1, r.2)
        | v => (v, n)
    | .fxNil => fun v n => (v, n)
    | .fxCons _ _ _ => fun v n => (v, n)
    | .ffDcSame => call
    | .ffDcInto => call
    | .ffNone => fun v n => (v, n)
    | .ffArrayAssign => fun v n => (v, n)
    | .ffStructAssign => fun v n => (v, n)
    | .ffStructInto t => gen t
    | .ffIface _ => ifaceCopy call
    | .ffRef p => guarded (exec call gen p)
    | .ffArrayLoop p => fun v n =>
        match v with
        | .arr vs => let r := mapVals (exec call gen p) vs n; (.arr r.1, r.2)
        | v => (v, n)
    | .aeInto => call
    | .aeNone => fun v n => (v, n)
    | .aeStruct t => gen t
    | .aeIface _ => ifaceCopy call
    | .aeRef p => guarded (exec call gen p)
    | .aeNested p => fun v n =>
        match v with
        | .arr vs => let r := mapVals (exec call gen p) vs n; (.arr r.1, r.2)
        | v => (v, n)
    | .ptrDcPtr _ => fun v n =>
        match v with
        | .ptr _ d => let r := call d (n + 1); (.ptr n r.1, r.2)
        | v => (v, n)
    | .ptrDcVal _ => fun v n =>
        match v with
        | .ptr _ d => let r := call d (n + 1); (.ptr n r.1, r.2)
        | v => (v, n)
    | .ptrNewAssign _ => fun v n =>
        match v with
        | .ptr _ d => (.ptr n d, n + 1)
        | v => (v, n)
    | .ptrRef _ p => fun v n =>
        match v with
        | .ptr _ d => let r := guarded (exec call gen p) d (n + 1); (.ptr n r.1, r.2)
        | v => (v, n)
    | .ptrStruct _ e => fun v n =>
        match v with
        | .ptr _ d => let r := gen e d (n + 1); (.ptr n r.1, r.2)
        | v => (v, n)

  /-- the member loop: `*out = *in` has copied every member shallowly; each fix-up replaces one -/
  def execFix (call : Copier) (gen : TE → Copier) : Code → Vals → Nat → Vals × Nat
    | .fxCons _ fix rest, .cons m ms, n =>
      let r := exec call gen fix m n
      let r' := execFix call gen rest ms r.2
      (.cons r.1 r'.1, r'.2)
    | _, vs, n => (vs, n)
end

/-- no `klog.Fatalf` anywhere: the generator accepts the type -/
def Code.ok : Code → Bool
  | .fatal => false
  | .mapLoop _ b => b.ok
  | .mvRef _ p => p.ok
  | .sliceRef _ p => p.ok
  | .structAll fx => fx.ok
  | .fxCons _ fix rest => fix.ok && rest.ok
  | .ffRef p => p.ok
  | .ffArrayLoop p => p.ok
  | .aeRef p => p.ok
  | .aeNested p => p.ok
  | .ptrRef _ p => p.ok
  | _ => true

mutual
  /-- `v` is a value of type `t` -/
  def HasTy (env : Env) (fa : Nat) : Val → TE → Prop
    | .scalar _, t => match view env fa t with
      | .builtin => True
      | _ => False
    | .nil, t => match view env fa t with
      | .ptr _ | .slice _ | .map _ _ | .iface _ => True
      | _ => False
    | .ptr _ v, t => match view env fa t with
      | .ptr e => HasTy env fa v e
      | _ => False
    | .slice _ vs, t => match view env fa t with
      | .slice e => AllTy env fa vs e
      | _ => False
    | .map _ vs, t => match view env fa t with
      | .map _ e => AllTy env fa vs e
      | _ => False
    | .arr vs, t => match view env fa t with
      | .array _ e => AllTy env fa vs e
      | _ => False
    | .struct vs, t => match view env fa t with
      | .struct fs => FieldsTy env fa vs fs
      | _ => False
    | .iface _, t => match view env fa t with
      | .iface _ => True
      | _ => False
  def AllTy (env : Env) (fa : Nat) : Vals → TE → Prop
    | .nil, _ => True
    | .cons v vs, e => HasTy env fa v e ∧ AllTy env fa vs e
  def FieldsTy (env : Env) (fa : Nat) : Vals → List Field → Prop
    | .nil, [] => True
    | .cons v vs, f :: fs => HasTy env fa v f.t ∧ FieldsTy env fa vs fs
    | _, _ => False
end

/-- a copy is good: deeply equal (nil-ness included) and built only from storage allocated by the copy -/
def Good (v : Val) (n : Nat) (r : Val × Nat) : Prop :=
  erase r.1 = erase v ∧ n ≤ r.2 ∧ ∀ a ∈ addrs r.1, n ≤ a ∧ a < r.2

def GoodL (vs : Vals) (n : Nat) (r : Vals × Nat) : Prop :=
  eraseL r.1 = eraseL vs ∧ n ≤ r.2 ∧ ∀ a ∈ addrsL r.1, n ≤ a ∧ a < r.2

/-- a copier that is good on every value -/
def GoodCopier (c : Copier) : Prop := ∀ v n, Good v n (c v n)

end Gengo.DeepCopy

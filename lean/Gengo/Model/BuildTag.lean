import Gengo.Basic.Str
/-!
# Model of build-tag selection and in-place regeneration (C12)

`go/build`'s and `go list`'s evaluation of a file's constraint is external; the model fixes what the
loaders are *supposed* to get from it: a file takes part iff its constraint holds under the tags the tool
runs with (v2 `parser.Options.BuildTags` → `packages.Config.BuildFlags -tags`, v1 `Builder.AddBuildTags`
→ `build.Context.BuildTags`).  A tool run (v2 `gengo.Execute`, v1 `args.GeneratorArgs.Execute`) loads the
visible files, computes its output from them and writes the output file, whose header is made by
`GoBoilerplate` (v2) / the generator's `fmt.Sprintf` (v1 deepcopy-gen) from the same tag.
-/
namespace Gengo.BuildTag
open Gengo

/-- a `//go:build` expression -/
inductive Expr where
  | tag (t : Str)
  | not (e : Expr)
  | and (a b : Expr)
  | or (a b : Expr)
deriving Repr, DecidableEq

def Expr.eval (tags : List Str) : Expr → Bool
  | .tag t => tags.contains t
  | .not e => !e.eval tags
  | .and a b => a.eval tags && b.eval tags
  | .or a b => a.eval tags || b.eval tags

/-- a source file of the package: name, constraint (none: unconstrained) and what it contributes
(declarations, methods, comments, imports: opaque items) -/
structure SrcFile where
  name : Str
  constraint : Option Expr
  items : List Str
deriving Repr, DecidableEq

def SrcFile.sat (tags : List Str) (f : SrcFile) : Bool :=
  match f.constraint with
  | none => true
  | some e => e.eval tags

/-- the files the loader sees -/
def visible (tags : List Str) (tree : List SrcFile) : List SrcFile := tree.filter (SrcFile.sat tags)

/-- what the universe contains: the items of the visible files -/
def contents (tags : List Str) (tree : List SrcFile) : List Str := (visible tags tree).flatMap (·.items)

/-- a tool: runs with tag `tag` (and possibly further tags), writes one file `out` whose content is a
function of the universe; `decls` are the items that content would contribute if it were loaded -/
structure Tool where
  tag : Str
  extraTags : List Str := []
  out : Str
  gen : List Str → Str
  decls : Str → List Str

def Tool.tags (t : Tool) : List Str := t.tag :: t.extraTags

/-- the generated file: header constraint `!tag` (GoBoilerplate), body from the universe -/
def Tool.output (t : Tool) (tree : List SrcFile) : SrcFile :=
  let body := t.gen (contents t.tags tree)
  ⟨t.out, some (.not (.tag t.tag)), t.decls body⟩

/-- the bytes written by a run -/
def Tool.bytes (t : Tool) (tree : List SrcFile) : Str := t.gen (contents t.tags tree)

/-- one run: the output file replaces any file of that name -/
def Tool.run (t : Tool) (tree : List SrcFile) : List SrcFile :=
  tree.filter (fun f => f.name ≠ t.out) ++ [t.output tree]

/-- `fmt.Sprintf` restricted to `%s` verbs -/
def sprintf : Str → List Str → Str
  | [], _ => []
  | '%' :: 's' :: rest, a :: as => a ++ sprintf rest as
  | c :: rest, as => c :: sprintf rest as

def isTagChar (c : Char) : Bool := Str.isAsciiLetter c || Str.isAsciiDigit c || c = '_' || c = '.'
def isTagName (t : Str) : Bool := t.all isTagChar && !t.isEmpty

def kGoBuild : Str := ['/', '/', 'g', 'o', ':', 'b', 'u', 'i', 'l', 'd', ' ']

/-- the constraint a header carries, for the two shapes the tools emit: `//go:build X` and `//go:build !X`
on the first line (anything else: `none`, the caller treats it as "not recognised") -/
def headerConstraint (hdr : Str) : Option Expr :=
  if kGoBuild.isPrefixOf hdr then
    let line := (hdr.drop kGoBuild.length).takeWhile (· ≠ '\n')
    match line with
    | '!' :: t => if isTagName t then some (.not (.tag t)) else none
    | t => if isTagName t then some (.tag t) else none
  else none

end Gengo.BuildTag

import Gengo.Model.Exec
/-!
# The import block after formatting (C09)

`assembleWith` (in `Model/Exec.lean`) is the transcription of `assembleGolangFile`/`assembleGoFile`.
This file models the only part of the formatter (`x/tools/imports` with `sortImports`) on which
byte-reproducibility across map schedules rests: one parenthesised import block is sorted by
(group, path, name), exact duplicates are dropped, and a blank line separates groups.
-/
namespace Gengo.Assemble
open Gengo Gengo.Exec

structure Spec where
  name : Str          -- alias, `[]` if none
  path : Str
deriving DecidableEq, Repr

/-- what an entry of `File.Imports` denotes: `"path"`, `path`, or `name "path"` -/
def parseImport (i : Str) : Spec :=
  if i.contains '"' then
    let before := i.takeWhile (· != '"')
    let rest := (i.dropWhile (· != '"')).drop 1
    ⟨Str.trimBy (· == ' ') before, rest.takeWhile (· != '"')⟩
  else ⟨[], i⟩

/-- `importGroup` of x/tools/imports without a local prefix: 2 appengine, 1 dotted first element, 0 std -/
def group (path : Str) : Nat :=
  if "appengine".toList.isPrefixOf path then 2
  else if ((Str.splitOn '/' path).headD []).contains '.' then 1
  else 0

/-- sort key: group, then path, then name -/
def key (s : Spec) : Str := Char.ofNat (48 + group s.path) :: s.path ++ [Char.ofNat 0] ++ s.name

def specLe (a b : Spec) : Bool := Str.le (key a) (key b)

/-- remove adjacent duplicates (what `sortSpecs` does after sorting) -/
def dedupAdj : List Spec → List Spec
  | [] => []
  | [a] => [a]
  | a :: b :: r => if a = b then dedupAdj (b :: r) else a :: dedupAdj (b :: r)

def canon (specs : List Spec) : List Spec := dedupAdj (specs.mergeSort specLe)

def renderSpec (s : Spec) : Str :=
  '\t' :: (if s.name.isEmpty then [] else s.name ++ [' ']) ++ quote s.path

/-- lines of the formatted block: specs in canonical order, an empty line where the group changes -/
def blockLines : List Spec → List Str
  | [] => []
  | [a] => [renderSpec a]
  | a :: b :: r =>
    if group a.path = group b.path then renderSpec a :: blockLines (b :: r)
    else renderSpec a :: [] :: blockLines (b :: r)

/-- the formatted import block for a contributed import set (in any order) -/
def formattedBlock (imports : List Str) : List Str := blockLines (canon (imports.map parseImport))

end Gengo.Assemble

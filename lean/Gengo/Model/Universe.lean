import Gengo.Basic.Str
/-!
# Model of the type universe and of the parsers' `walkType` (C01, C06, C11, C20)

* `GNode`/`Facts`: the Go type checker's view of a program as data (input facts exported by the
  harness from `go/types`): one node per `types.Type` value, children referenced by node id, plus the
  string `go/types` prints for the node (`String()`).
* `U`: the universe – an object store (`*types.Type` = object id) with the four per-package maps
  (`Types`, `Functions`, `Variables`, `Constants`) as indices keyed by `(package, name)`, package
  records, and the builtin import on package `""`.
* `walk`: transcription of `walkType` (v1 `parser/parse.go`, v2 `v2/parser/parse.go`): get-or-create by
  name, return if the object already has a kind, otherwise *mark* the kind and fill the object from its
  children left to right; `Named` types use the alias rule or the flattening rule, then attach methods
  "if the underlying type did not add any".  Fuel bounds the call depth only.
-/
namespace Gengo.Universe
open Gengo

structure Name where
  pkg : Str
  name : Str
deriving DecidableEq, Repr

inductive Kind
  | unknown | builtin | struct | map | slice | pointer | alias | iface | array | chan | func
  | unsupported | declarationOf | typeParam
deriving DecidableEq, Repr

/-- a method as the type checker reports it: name, its signature node, and `method.String()` -/
structure GMethod where
  name : Str
  sig : Nat
  str : Str
deriving Repr

structure GField where
  name : Str
  embedded : Bool
  tag : Str
  ty : Nat
deriving Repr

inductive GNode
  | basic (name : Str)
  | named (under : Nat) (methods : List GMethod) (tparams : List (Str × Nat)) (origUnder : Nat)
  | pointer (e : Nat)
  | slice (e : Nat)
  | array (len : Nat) (e : Nat)
  | map (k e : Nat)
  | chan (e : Nat)
  | struct (fields : List GField)
  | sig (params results : List (Str × Nat)) (variadic : Bool) (recv : Option Nat)
  | iface (methods : List GMethod)
  | tparam (constraint : Nat)
  | alias (target : Nat)            -- `type A = B` (go1.22+ `*types.Alias`, v2 only)
  | other                            -- anything else (tuples, …): Unsupported
deriving Repr

structure Facts where
  node : Nat → GNode
  str : Nat → Str                    -- `in.String()`

/-- one type object -/
structure Obj where
  name : Name
  kind : Kind := .unknown
  elem : Option Nat := none
  key : Option Nat := none
  under : Option Nat := none
  len : Nat := 0
  members : List (Str × Bool × Str × Nat) := []      -- name, embedded, tag, type
  methods : List (Str × Nat) := []                    -- Go map: a later write replaces
  hasSig : Bool := false
  params : List (Str × Nat) := []
  results : List (Str × Nat) := []
  variadic : Bool := false
  recv : Option Nat := none
  tparams : List (Str × Nat) := []
  constVal : Option Str := none
  src : Option Nat := none                            -- ghost: the Go node the object was filled from
  nsrc : Option Nat := none                           -- ghost: the defined type's node whose methods phase ran on the object
  nskip : Bool := false                               -- ghost: that phase found methods already there (an interface) and added none
deriving Repr

structure PkgRec where
  path : Str
  name : Str := []
  imports : List Str := []
deriving Repr

/-- the builtins table: key in `builtins.Types` ↦ (name of the Go variable bound to it, its `Name.Name`, its kind) -/
structure Builtin where
  key : Str
  var : Str
  name : Str
  kind : Kind
deriving Repr

structure U where
  objs : List Obj := []
  types : List (Name × Nat) := []
  funcs : List (Name × Nat) := []
  vars : List (Name × Nat) := []
  consts : List (Name × Nat) := []
  pkgs : List PkgRec := []
  builtinObjs : List (Str × Nat) := []   -- Go variable name of a builtin ↦ its (shared) object
deriving Repr

/-- `u.Package(path)`: get-or-create the package record -/
def U.package (u : U) (path : Str) : U :=
  if u.pkgs.any (fun p => p.path = path) then u else { u with pkgs := u.pkgs ++ [{ path := path }] }

def U.newObj (u : U) (o : Obj) : U × Nat := ({ u with objs := u.objs ++ [o] }, u.objs.length)

/-- `u.Type(n)`: get-or-create, importing the builtin on package `""` -/
def U.type (bt : List Builtin) (u : U) (n : Name) : U × Nat :=
  match AL.lookup n u.types with
  | some o => (u, o)
  | none =>
    let u := u.package n.pkg
    match (if n.pkg.isEmpty then bt.find? (fun b => b.key = n.name) else none) with
    | some b =>
      -- the shared builtin object, created on first use
      match AL.lookup b.var u.builtinObjs with
      | some o => ({ u with types := (n, o) :: u.types }, o)
      | none =>
        let r := u.newObj { name := ⟨[], b.name⟩, kind := b.kind }
        ({ r.1 with types := (n, r.2) :: r.1.types, builtinObjs := (b.var, r.2) :: r.1.builtinObjs }, r.2)
    | none =>
      let r := u.newObj { name := n }
      ({ r.1 with types := (n, r.2) :: r.1.types }, r.2)

inductive Decl | func | var | const
deriving DecidableEq, Repr

/-- `u.Function(n)` / `u.Variable(n)` / `u.Constant(n)` -/
def U.decl (u : U) (d : Decl) (n : Name) : U × Nat :=
  let idx := match d with | .func => u.funcs | .var => u.vars | .const => u.consts
  match AL.lookup n idx with
  | some o => (u, o)
  | none =>
    let u := u.package n.pkg
    let r := u.newObj { name := n, kind := .declarationOf }
    match d with
    | .func => ({ r.1 with funcs := (n, r.2) :: r.1.funcs }, r.2)
    | .var => ({ r.1 with vars := (n, r.2) :: r.1.vars }, r.2)
    | .const => ({ r.1 with consts := (n, r.2) :: r.1.consts }, r.2)

def U.modify (u : U) (o : Nat) (f : Obj → Obj) : U := { u with objs := u.objs.modify o f }

def U.kind (u : U) (o : Nat) : Kind := (u.objs[o]?.map (·.kind)).getD .unknown

def U.obj (u : U) (o : Nat) : Obj := u.objs.getD o { name := ⟨[], []⟩ }

/-- how the result of walking a child is stored in its owner -/
inductive Setter
  | elem | key | under | recv
  | member (name : Str) (embedded : Bool) (tag : Str)
  | param (name : Str)
  | result (name : Str)
  | method (name : Str)
  | tparam (name : Str)
  | drop                         -- walked for its side effect on the universe only
deriving DecidableEq, Repr

def Setter.apply (s : Setter) (ob : Obj) (x : Nat) : Obj :=
  match s with
  | .elem => { ob with elem := some x }
  | .key => { ob with key := some x }
  | .under => { ob with under := some x }
  | .recv => { ob with recv := some x }
  | .member n e t => { ob with members := ob.members ++ [(n, e, t, x)] }
  | .param n => { ob with params := ob.params ++ [(n, x)] }
  | .result n => { ob with results := ob.results ++ [(n, x)] }
  | .method n => { ob with methods := AL.insert n x ob.methods }
  | .tparam n => { ob with tparams := AL.insert n x ob.tparams }
  | .drop => ob

/-! ## `tcNameToName` / `goNameToName` -/

def anonPrefixes : List Str :=
  ["struct{", "<-chan", "chan<-", "chan ", "func(", "func (", "*", "map[", "["].map String.toList

/-- split at the last `.` of `s`: `(before, after)` -/
def splitLastDot (s : Str) : Option (Str × Str) :=
  let parts := Str.splitOn '.' s
  if parts.length ≥ 2 then some (Str.join ['.'] parts.dropLast, parts.getLast?.getD []) else none

/-- `tcNameToName` (v1) -/
def nameOfV1 (s : Str) : Name :=
  if anonPrefixes.any (fun p => p.isPrefixOf s) then ⟨[], s⟩
  else match splitLastDot s with
    | some (p, n) => ⟨p, n⟩
    | none => ⟨[], s⟩

/-- `goNameToName` (v2): the part from the first `[` on (type arguments) is set aside while splitting -/
def nameOfV2 (s : Str) : Name :=
  if anonPrefixes.any (fun p => p.isPrefixOf s) then ⟨[], s⟩
  else
    let head := s.takeWhile (· != '[')
    let generic := s.dropWhile (· != '[')
    match splitLastDot head with
    | some (p, n) => ⟨p, n ++ generic⟩
    | none => ⟨[], s⟩

def nameOf (v2 : Bool) (s : Str) : Name := if v2 then nameOfV2 s else nameOfV1 s

/-! ## `walkType` -/

/-- walk the children one after the other; after each, the owner stores the child's object -/
def runKids (w : U → Nat → Option Name → Option (U × Nat)) (o : Nat) :
    U → List (Nat × Option Name × Setter) → Option U
  | u, [] => some u
  | u, (c, useName, set) :: rest =>
    match w u c useName with
    | none => none
    | some (u, oc) => runKids w o (u.modify o (fun ob => set.apply ob oc)) rest

def methodKids (v2 : Bool) (ms : List GMethod) : List (Nat × Option Name × Setter) :=
  ms.map (fun m => (m.sig, some (nameOf v2 m.str), Setter.method m.name))

/-- kind and children of an unnamed node (everything but `basic`, `named`, `tparam`, `alias`) -/
def shape (v2 : Bool) (g : GNode) : Option (Kind × List (Nat × Option Name × Setter)) :=
  match g with
  | .pointer e => some (.pointer, [(e, none, .elem)])
  | .slice e => some (.slice, [(e, none, .elem)])
  | .array _ e => some (.array, [(e, none, .elem)])
  | .chan e => some (.chan, [(e, none, .elem)])
  | .map k e => some (.map, [(e, none, .elem), (k, none, .key)])
  | .struct fs => some (.struct, fs.map (fun f => (f.ty, none, Setter.member f.name f.embedded f.tag)))
  | .sig ps rs _ recv =>
    some (.func, ps.map (fun p => (p.2, none, Setter.param p.1)) ++ rs.map (fun p => (p.2, none, Setter.result p.1)) ++
      (match recv with | some r => [(r, none, Setter.recv)] | none => []))
  | .iface ms => some (.iface, methodKids v2 ms)
  | .other => some (.unsupported, [])
  | _ => none

/-- fields of the node copied when the object is marked -/
def markFields (g : GNode) (ob : Obj) : Obj :=
  match g with
  | .array len _ => { ob with len := len }
  | .sig _ _ variadic _ => { ob with hasSig := true, variadic := variadic }
  | _ => ob

/-- get-or-create `n`; if it has no kind yet: mark it, then fill it from its children -/
def fill (bt : List Builtin) (w : U → Nat → Option Name → Option (U × Nat)) (u : U) (n : Name) (g : Nat) (gn : GNode)
    (K : Kind) (kids : List (Nat × Option Name × Setter)) : Option (U × Nat) :=
  let r := U.type bt u n
  if r.1.kind r.2 ≠ .unknown then some r else
  let u := r.1.modify r.2 (fun ob => markFields gn { ob with kind := K, src := some g })
  match runKids w r.2 u kids with
  | none => none
  | some u => some (u, r.2)

/-- is the underlying type one for which a defined type becomes an `Alias` object? -/
def isAliasUnder : GNode → Bool
  | .basic _ | .map _ _ | .slice _ | .named _ _ _ _ => true
  | _ => false

def isStructOrIface : GNode → Bool
  | .struct _ | .iface _ => true
  | _ => false

/-- `Foo[T any]` ↦ `Foo[T]`: the declared name with its type parameter names -/
def genericName (n : Name) (tparams : List (Str × Nat)) : Name :=
  ⟨n.pkg, n.name.takeWhile (· != '[') ++ ['['] ++ Str.join [','] (tparams.map (·.1)) ++ [']']⟩

/-- the methods phase: "if the underlying type didn't already add methods, add them" (`g`: the defined type's node, recorded
in the ghost fields only) -/
def addMethods (v2 : Bool) (w : U → Nat → Option Name → Option (U × Nat)) (u : U) (o : Nat) (ms : List GMethod) (g : Nat) :
    Option (U × Nat) :=
  if (u.obj o).methods.isEmpty then
    match runKids w o (u.modify o (fun ob => { ob with nsrc := some g, nskip := false })) (methodKids v2 ms) with
    | none => none
    | some u => some (u, o)
  else some (u.modify o (fun ob => { ob with nsrc := some g, nskip := true }), o)

def walk (bt : List Builtin) (F : Facts) (v2 : Bool) : Nat → U → Nat → Option Name → Option (U × Nat)
  | 0, _, _, _ => none
  | fuel + 1, u, g, useName =>
    let w := fun u c un => walk bt F v2 fuel u c un
    let gn := F.node g
    match gn with
    | .alias tgt => w u tgt none
    | .basic n =>
      -- `u.Type(Name{"", t.Name()})`; an unknown basic type becomes Unsupported
      fill bt w u ⟨[], n⟩ g gn .unsupported []
    | .tparam _ =>
      -- never taken from the universe: a fresh object every time
      let r := u.newObj { name := useName.getD (nameOf v2 (F.str g)), kind := .typeParam, src := some g }
      some r
    | .named und ms tps origUnd =>
      let n := nameOf v2 (F.str g)
      if isAliasUnder (F.node und) then
        let r := U.type bt u n
        if r.1.kind r.2 ≠ .unknown then some r else
        let u := r.1.modify r.2 (fun ob => { ob with kind := .alias, src := some g })
        match runKids w r.2 u [(und, none, .under)] with
        | none => none
        | some u => addMethods v2 w u r.2 ms g
      else if v2 && isStructOrIface (F.node und) then
        -- constraints are walked first (their objects enter the universe), then the name is rewritten
        match runKids w 0 u (tps.map (fun tp => (tp.2, none, Setter.drop))) with
        | none => none
        | some u =>
          let n := if tps.isEmpty then n else genericName n tps
          let r := U.type bt u n
          if r.1.kind r.2 ≠ .unknown then some r else
          match w r.1 origUnd (some n) with
          | none => none
          | some (u, o) =>
            -- `out.TypeParams = tpMap`: the constraint objects are looked up again (they exist now)
            match runKids w o (u.modify o (fun ob => { ob with tparams := [] })) (tps.map (fun tp => (tp.2, none, Setter.tparam tp.1))) with
            | none => none
            | some u => addMethods v2 w u o ms g
      else
        let r := U.type bt u n
        if r.1.kind r.2 ≠ .unknown then some r else
        match w r.1 und (some n) with
        | none => none
        | some (u, o) => addMethods v2 w u o ms g
    | node =>
      match shape v2 node with
      | some (K, kids) => fill bt w u (useName.getD (nameOf v2 (F.str g))) g gn K kids
      | none => none

/-- the name a node is registered under: its printed name, except for a generic declaration that v2 files under
`Foo[T]` (the declared name with its type parameter names) -/
def regName (F : Facts) (v2 : Bool) (c : Nat) : Name :=
  match F.node c with
  | .named und _ tps _ =>
    if isAliasUnder (F.node und) = false ∧ (v2 && isStructOrIface (F.node und)) = true ∧ tps.isEmpty = false
    then genericName (nameOf v2 (F.str c)) tps else nameOf v2 (F.str c)
  | _ => nameOf v2 (F.str c)

/-! ## declarations and packages -/

/-- `tcFuncNameToName`: strip `func `, take the text before the first `(` -/
def funcNameOf (v2 : Bool) (s : Str) : Name :=
  let s := if "func ".toList.isPrefixOf s then s.drop 5 else s
  nameOf v2 ((Str.splitOn '(' s).headD [])

/-- `tcVarNameToName`: the second space-separated word -/
def varNameOf (v2 : Bool) (s : Str) : Name := nameOf v2 (((Str.splitOn ' ' s).drop 1).headD [])

inductive ObjKind | typeName | func | var | const
deriving DecidableEq, Repr

/-- a package-scope object as the type checker reports it -/
structure GObj where
  kind : ObjKind
  name : Str
  ty : Nat
  str : Str                    -- `obj.String()`
  constVal : Str := []
deriving Repr

structure GPkg where
  path : Str
  name : Str
  requested : Bool
  imports : List Str           -- direct imports
  scope : List GObj            -- in `Scope().Names()` order (sorted)
deriving Repr

def addDecl (bt : List Builtin) (F : Facts) (v2 : Bool) (fuel : Nat) (u : U) (d : Decl) (n : Name) (ty : Nat) (cv : Option Str) :
    Option U :=
  let r := u.decl d n
  let u := r.1.modify r.2 (fun ob => { ob with kind := .declarationOf })
  match walk bt F v2 fuel u ty none with
  | none => none
  | some (u, o) => some (u.modify r.2 (fun ob => { ob with under := some o, constVal := if cv.isSome then cv else ob.constVal }))

def addObj (bt : List Builtin) (F : Facts) (v2 : Bool) (fuel : Nat) (u : U) (ob : GObj) : Option U :=
  match ob.kind with
  | .typeName => (walk bt F v2 fuel u ob.ty none).map (·.1)
  | .func => addDecl bt F v2 fuel u .func (funcNameOf v2 ob.str) ob.ty none
  | .var => addDecl bt F v2 fuel u .var (varNameOf v2 ob.str) ob.ty none
  | .const => addDecl bt F v2 fuel u .const (varNameOf v2 ob.str) ob.ty (some ob.constVal)

def addObjs (bt : List Builtin) (F : Facts) (v2 : Bool) (fuel : Nat) : U → List GObj → Option U
  | u, [] => some u
  | u, ob :: rest => match addObj bt F v2 fuel u ob with
    | none => none
    | some u => addObjs bt F v2 fuel u rest

def U.setPkg (u : U) (path : Str) (f : PkgRec → PkgRec) : U :=
  { u with pkgs := u.pkgs.map (fun p => if p.path = path then f p else p) }

/-- `u.AddImports(path, imports...)`: the imported packages get (stub) records -/
def U.addImports (u : U) (path : Str) (imps : List Str) : U :=
  let u := u.package path
  let u := imps.foldl (fun u i => u.package i) u
  u.setPkg path (fun p => { p with imports := imps.foldl (fun acc i => if acc.contains i then acc else acc ++ [i]) p.imports })

/-- the full scan of one requested package (`findTypesIn` / the second half of `addPkgToUniverse`) -/
def scanPkg (bt : List Builtin) (F : Facts) (v2 : Bool) (fuel : Nat) (u : U) (p : GPkg) : Option U :=
  let u := (u.package p.path).setPkg p.path (fun r => { r with name := p.name })
  match addObjs bt F v2 fuel u p.scope with
  | none => none
  | some u => some (u.addImports p.path (p.imports.mergeSort Str.le))

end Gengo.Universe

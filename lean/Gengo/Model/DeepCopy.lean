import Gengo.Basic.Str
/-!
# Model of deepcopy-gen (C16): `examples/deepcopy-gen/generators/deepcopy.go`

Input programs are given as declarations over type expressions (`TE`); `view` is gengo's picture of a type
(`underlyingType`: the kind after resolving defined types), `assignable` is `types.Type.IsAssignable`,
`custom` the hand-written `DeepCopy`/`DeepCopyInto` methods (`deepCopyMethod`, `deepCopyIntoMethod`).
`selected` transcribes `Packages` / `Filter` / `copyableType` / `needsGeneration`; `genFor` transcribes
`generateFor` with `doBuiltin`, `doMap`, `doSlice`, `doStruct`, `doPointer` (and `doArrayElem`, after the
repair of F18) into a tree of the code shapes the generator can emit (`Code`); `Render` turns that tree
into the emitted text, `Sem` (Model/DeepCopySem.lean) into what it does to a value.
-/
namespace Gengo.DeepCopy
open Gengo

inductive TE where
  | builtin (n : Str)
  | named (n : Str)                -- "S1", or "dep.S1" for the other package
  | ptr (e : TE)
  | slice (e : TE)
  | map (k e : TE)
  | array (len : Nat) (e : TE)
  | empty                          -- struct{}
deriving Repr, DecidableEq, Inhabited

inductive DKind where | struct | alias | iface
deriving Repr, DecidableEq

/-- hand-written methods: `ptr`: `func (in *T) DeepCopy() *T` and `DeepCopyInto`; `val`: `func (in T) DeepCopy() T`;
`into`: only `func (in *T) DeepCopyInto(out *T)` -/
inductive Custom where | none | ptr | val | into
deriving Repr, DecidableEq

structure Field where
  name : Str
  embedded : Bool
  t : TE
deriving Repr

structure Decl where
  pkg : Str
  name : Str                      -- unqualified
  kind : DKind
  fields : List Field := []
  under : TE := .empty            -- alias: the type expression it is defined over
  custom : Custom := .none
  tag : Option Str := none        -- the value of the type-level +k8s:deepcopy-gen tag
  ifaces : List Str := []
deriving Repr

def kDep : Str := ['d', 'e', 'p']

def Decl.qname (d : Decl) : Str := if d.pkg = kDep then kDep ++ ['.'] ++ d.name else d.name

structure Env where
  decls : List Decl
  pkgTag : List (Str × Bool)      -- package → has "+k8s:deepcopy-gen=package"

def Env.find (env : Env) (q : Str) : Option Decl := env.decls.find? (fun d => d.qname = q)

/-- gengo's picture of a type after `underlyingType` -/
inductive View where
  | builtin
  | map (k e : TE)
  | slice (e : TE)
  | ptr (e : TE)
  | array (len : Nat) (e : TE)
  | struct (fields : List Field)
  | iface (name : Str)
  | unknown
deriving Repr

/-- `underlyingType` / the kind gengo gives a declared type (a defined type over a struct *is* a struct with
the same members; over anything else an Alias that `underlyingType` resolves) -/
def view (env : Env) : Nat → TE → View
  | _, .builtin _ => .builtin
  | _, .ptr e => .ptr e
  | _, .slice e => .slice e
  | _, .map k e => .map k e
  | _, .array n e => .array n e
  | _, .empty => .struct []
  | 0, .named _ => .unknown
  | f + 1, .named n =>
    match env.find n with
    | none => .unknown
    | some d =>
      match d.kind with
      | .struct => .struct d.fields
      | .iface => .iface d.name
      | .alias => view env f d.under

/-- the type expression `underlyingType` arrives at (for printing `$.|raw$` of an underlying type) -/
def underTE (env : Env) : Nat → TE → TE
  | 0, t => t
  | f + 1, .named n =>
    match env.find n with
    | some d =>
      -- only defined types over builtins, maps and slices have kind Alias; over pointers, arrays and structs
      -- gengo gives the named type the kind of what it is defined over, and `underlyingType` stops there
      if d.kind = .alias then
        match view env f d.under with
        | .builtin | .map _ _ | .slice _ => underTE env f d.under
        | _ => .named n
      else .named n
    | none => .named n
  | _, t => t

def customOf (env : Env) : TE → Custom
  | .named n => match env.find n with
    | some d => d.custom
    | none => .none
  | _ => .none

def hasCustom (env : Env) (t : TE) : Bool := customOf env t ≠ .none

/-- `types.Type.IsAssignable` (through `underlyingType`); `fa` is the fuel of `view`, the recursion follows
the members of structs -/
def assignableAux (env : Env) (fa : Nat) : Nat → TE → Bool
  | 0, _ => false
  | f + 1, t =>
    match view env fa t with
    | .builtin => true
    | .struct fs => fs.all (fun fl => assignableAux env fa f fl.t)
    | _ => false

def assignable (env : Env) (fa : Nat) (t : TE) : Bool := assignableAux env fa fa t

def isRefView : View → Bool
  | .map _ _ | .slice _ | .ptr _ => true
  | _ => false

/-- `isReference` -/
def isReference (env : Env) (f : Nat) (t : TE) : Bool := isRefView (view env f t)

/-! ## selection: `Packages`, `Filter`, `copyableType`, `needsGeneration` -/

def isPrivate (n : Str) : Bool :=
  match n with
  | [] => true
  | c :: _ => Str.lower c = c && !(Str.isAsciiUpper c)

def kTrue : Str := ['t', 'r', 'u', 'e']
def kFalse : Str := ['f', 'a', 'l', 's', 'e']

/-- `copyableType` for a declared type -/
def copyable (env : Env) (f : Nat) (d : Decl) : Bool :=
  if d.tag = some kFalse then false
  else if isPrivate d.name then false
  else match d.kind with
    | .iface => false
    | .struct => true
    | .alias =>
      match view env f (.named d.qname) with
      | .struct _ => true                                   -- defined over a struct: kind Struct
      | .builtin => d.custom ≠ .none                         -- Alias of a builtin: only with hand-written methods
      | .map _ _ | .slice _ => true                          -- Alias of a map / slice
      | _ => false                                           -- defined over a pointer / array: kind Pointer / Array

def pkgAll (env : Env) (pkg : Str) : Bool := (env.pkgTag.find? (fun p => p.1 = pkg)).map (·.2) |>.getD false

/-- `Filter` ∧ `needsGeneration`: methods are generated for the type (unless both are hand-written) -/
def selected (env : Env) (f : Nat) (d : Decl) : Bool :=
  let all := pkgAll env d.pkg
  let enabled := all || d.tag = some kTrue
  enabled && copyable env f d && !(all && d.tag = some kFalse) && !(!all && d.tag ≠ some kTrue)

/-! ## the code shapes -/

inductive Code where
  | fatal
  | callDeepCopy                               -- *out = in.DeepCopy()
  | assignAll                                  -- *out = *in
  | mapLoop (raw : TE) (body : Code)           -- *out = make(T, len(*in)); for key, val := range *in { body }
  | mvDcSame | mvDcDeref | mvAssign
  | mvStructDeref (t : TE)                     -- (*out)[key] = *val.DeepCopy() of the generated struct type t
  | mvIface (n : Str)
  | mvRef (raw : TE) (p : Code)
  | sliceInto (raw : TE)                       -- make; for i { (*in)[i].DeepCopyInto(&(*out)[i]) }
  | sliceCopy (raw : TE)                       -- make; copy(*out, *in)
  | sliceRef (raw : TE) (p : Code)
  | sliceIface (raw : TE) (n : Str)
  | sliceStruct (raw : TE) (e : TE)            -- per element DeepCopyInto of the generated struct type e
  | structAll (fixups : Code)                  -- *out = *in; fixups
  | fxNil
  | fxCons (name : Str) (fix : Code) (rest : Code)
  | ffDcSame | ffDcInto | ffNone | ffArrayAssign | ffStructAssign
  | ffStructInto (t : TE)
  | ffIface (n : Str)
  | ffRef (p : Code)
  | ffArrayLoop (p : Code)
  | aeInto | aeNone
  | aeStruct (t : TE)
  | aeIface (n : Str)
  | aeRef (p : Code)
  | aeNested (p : Code)
  | ptrDcPtr (viaPointee : Bool) | ptrDcVal (viaPointee : Bool)   -- viaPointee: the pointer type is a defined type (no methods)
  | ptrNewAssign (raw : TE)
  | ptrRef (raw : TE) (p : Code)
  | ptrStruct (viaPointee : Bool) (raw : TE)
deriving Repr, Inhabited

/-- does the hand-written `DeepCopy` (or, if there is only `DeepCopyInto`, the generated one) return a pointer?
(`rightPointer` in doMap / doStruct / doPointer) -/
def rightPointer (env : Env) (f : Nat) (t : TE) : Bool :=
  match customOf env t with
  | .ptr => true
  | .val => false
  | _ => !isReference env f t

def kEmptyIface : Str := "interface{}".toList

/-- `arrayIsAssignable` for element type `e` (own fuel: arrays nest through defined types) -/
def arrayAssignable (env : Env) (fa : Nat) : Nat → TE → Bool
  | 0, _ => false
  | f + 1, e =>
    if hasCustom env e then false
    else match view env fa e with
      | .array _ e' => arrayAssignable env fa f e'
      | .builtin => true
      | _ => assignable env fa e

/-- the loop body of `doMap` for value type `e`; `rec` is `generateFor` -/
def mapValOf (env : Env) (fa : Nat) (rec : TE → Code) (e : TE) : Code :=
  if hasCustom env e then
    (if rightPointer env fa e then .mvDcDeref else .mvDcSame)    -- leftPointer is false: only named types have methods
  else if e = .empty then .mvAssign
  else if assignable env fa e then .mvAssign
  else match view env fa e with
    | .iface n => if n = kEmptyIface then .fatal else .mvIface n
    | .slice _ | .map _ _ | .ptr _ => .mvRef (underTE env fa e) (rec e)
    | .struct _ => .mvStructDeref e
    | _ => .fatal

/-- `doSlice` after the hand-written-methods test -/
def sliceBodyOf (env : Env) (fa : Nat) (rec : TE → Code) (t e : TE) : Code :=
  if hasCustom env e then .sliceInto t
  else match view env fa e with
    | .builtin => .sliceCopy t
    | v =>
      if assignable env fa e then .sliceCopy t
      else match v with
        | .slice _ | .map _ _ | .ptr _ => .sliceRef t (rec e)
        | .iface n => if n = kEmptyIface then .fatal else .sliceIface t n
        | .struct _ => .sliceStruct t e
        | _ => .fatal

/-- `doArrayElem` -/
def arrayElemOf (env : Env) (fa : Nat) (rec : TE → Code) : Nat → TE → Code
  | 0, _ => .fatal
  | f + 1, e =>
    if hasCustom env e then .aeInto
    else match view env fa e with
      | .map _ _ | .slice _ | .ptr _ => .aeRef (rec e)
      | .array _ e' => if arrayAssignable env fa fa e' then .aeNone else .aeNested (arrayElemOf env fa rec f e')
      | .struct _ => .aeStruct e
      | .iface n => if n = kEmptyIface then .fatal else .aeIface n
      | _ => .fatal

/-- one member of the loop of `doStruct` -/
def fixOf (env : Env) (fa : Nat) (rec : TE → Code) (m : Field) : Code :=
  if hasCustom env m.t then
    (if rightPointer env fa m.t then .ffDcInto else .ffDcSame)
  else match view env fa m.t with
    | .builtin => .ffNone
    | .map _ _ | .slice _ | .ptr _ => .ffRef (rec m.t)
    | .array _ e => if arrayAssignable env fa fa e then .ffArrayAssign else .ffArrayLoop (arrayElemOf env fa rec fa e)
    | .struct _ => if assignable env fa m.t then .ffStructAssign else .ffStructInto m.t
    | .iface n => if n = kEmptyIface then .fatal else .ffIface n
    | .unknown => .fatal

/-- the member loop of `doStruct` -/
def fixupsOf (env : Env) (fa : Nat) (rec : TE → Code) : List Field → Code
  | [] => .fxNil
  | m :: rest => .fxCons m.name (fixOf env fa rec m) (fixupsOf env fa rec rest)

/-- `doPointer` for pointee type `e`; `dp`: the pointer type itself is a defined type (`type P *T`) -/
def ptrBodyOf (env : Env) (fa : Nat) (rec : TE → Code) (dp : Bool) (e : TE) : Code :=
  if hasCustom env e then (if rightPointer env fa e then .ptrDcPtr dp else .ptrDcVal dp)
  else if assignable env fa e then .ptrNewAssign e
  else match view env fa e with
    | .map _ _ | .slice _ | .ptr _ => .ptrRef e (rec (underTE env fa e))
    | .struct _ => .ptrStruct dp e
    | _ => .fatal

def TE.isNamed : TE → Bool
  | .named _ => true
  | _ => false

/-- `generateFor`; `fa` is the (fixed) fuel of `view`/`assignable`, the recursion follows the anonymous
structure of the type -/
def genFor (env : Env) (fa : Nat) : Nat → TE → Code
  | 0, _ => .fatal
  | f + 1, t =>
    match view env fa t with
    | .builtin => if hasCustom env t then .callDeepCopy else .assignAll
    | .map k e => if hasCustom env t then .callDeepCopy
        else if !assignable env fa k then .fatal
        else .mapLoop t (mapValOf env fa (genFor env fa f) e)
    | .slice e => if hasCustom env t then .callDeepCopy else sliceBodyOf env fa (genFor env fa f) t e
    | .struct fs => if hasCustom env t then .callDeepCopy else .structAll (fixupsOf env fa (genFor env fa f) fs)
    | .ptr e => ptrBodyOf env fa (genFor env fa f) t.isNamed e
    | _ => .fatal

/-- what `GenerateType` emits for a selected type: the bodies of `DeepCopyInto` and `DeepCopy` (none when
hand-written), and the interfaces to implement -/
structure Methods where
  reference : Bool
  into : Option Code
  deepCopy : Bool
  ifaces : List Str

def methodsOf (env : Env) (f : Nat) (d : Decl) : Methods :=
  let t := TE.named d.qname
  { reference := isReference env f t
    into := if d.custom = .ptr || d.custom = .into then none
            else if d.custom = .val then some .callDeepCopy
            else some (genFor env f f t)
    deepCopy := d.custom = .none || d.custom = .into
    ifaces := if d.kind = .struct then d.ifaces.mergeSort Str.le else [] }

end Gengo.DeepCopy

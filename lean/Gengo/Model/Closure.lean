import Gengo.Basic.Str
/-!
# Model of `generator.transitiveClosure` (Warshall over Go maps) – C18

Nodes are package ids. The three nested `range` loops run over Go maps: their iteration orders are
parameters (`ks`, `is k`, `js k i`), possibly different in every iteration.
-/
namespace Gengo.Closure

abbrev Node := Nat
abbrev Adj := List (Node × Node)

def has (adj : Adj) (i j : Node) : Bool := adj.contains (i, j)

/-- innermost loop body of `transitiveClosure` -/
def stepJ (k i : Node) (adj : Adj) (j : Node) : Adj :=
  if has adj i j then adj
  else if has adj k j then (i, j) :: adj else adj

def stepI (k : Node) (js : Node → Node → List Node) (adj : Adj) (i : Node) : Adj :=
  if !has adj i k then adj else (js k i).foldl (stepJ k i) adj

def stepK (is : Node → List Node) (js : Node → Node → List Node) (adj : Adj) (k : Node) : Adj :=
  (is k).foldl (stepI k js) adj

def warshall (ks : List Node) (is : Node → List Node) (js : Node → Node → List Node) (adj : Adj) : Adj :=
  ks.foldl (stepK is js) adj

end Gengo.Closure

import Gengo.Basic.Str
/-!
# Model of `v2/parser/tags/json.go` (C19) and of encoding/json's field-naming rule (the spec)

`reflect.StructTag.Get("json")` is external: the model takes the *value* of the json key as input
(the harness obtains it from package reflect and sends it along with the raw tag).
-/
namespace Gengo.JsonTag
open Gengo

/-- `parse` / encoding/json's `parseTag`: split at the first comma -/
def parse : Str → Str × Str
  | [] => ([], [])
  | c :: cs => if c = ',' then ([], cs) else ((c :: (parse cs).1), (parse cs).2)

/-- the loop of `options.Contains`: `cur` is the word being read -/
def containsGo (opt : Str) : Str → Str → Bool
  | [], cur => cur == opt
  | c :: cs, cur =>
    if c = ',' then (cur == opt) || (if cs.isEmpty then false else containsGo opt cs [])
    else containsGo opt cs (cur ++ [c])

/-- `options.Contains` -/
def contains (o opt : Str) : Bool := if o.isEmpty then false else containsGo opt o []

structure J where
  name : Str
  omitted : Bool
  inl : Bool
  omitempty : Bool
deriving DecidableEq, Repr

def sInline : Str := "inline".toList
def sOmitempty : Str := "omitempty".toList

/-- `LookupJSON` on a member named `fieldName` whose json tag value is `tag` -/
def lookupJSON (fieldName tag : Str) : J :=
  if tag = ['-'] then ⟨[], true, false, false⟩ else
  let name := (parse tag).1
  let opts := (parse tag).2
  let inl := contains opts sInline
  let oe := contains opts sOmitempty
  ⟨if !inl && name.isEmpty then fieldName else name, false, inl, oe⟩

/-- `JSON.String()` (after the repair of F13) -/
def render (t : J) : Str :=
  if t.omitted then ['-'] else
  let tag := (if !t.inl then t.name else []) ++ (if t.omitempty then ',' :: sOmitempty else []) ++
    (if t.inl then ',' :: sInline else [])
  if tag = ['-'] then ['-', ','] else tag

/-! ## encoding/json's rule (spec side) -/

def punctOK : Str := "!#$%&()*+-./:;<=>?@[]^_{|}~ ".toList

/-- encoding/json `isValidTag`; `ld` plays `unicode.IsLetter(c) || unicode.IsDigit(c)` -/
def isValidTag (ld : Char → Bool) (s : Str) : Bool :=
  !s.isEmpty && s.all (fun c => punctOK.contains c || ld c)

/-- what encoding/json does with a field: `none` = omitted, else `(name, omitempty)` -/
def encJSON (ld : Char → Bool) (fieldName tag : Str) : Option (Str × Bool) :=
  if tag = ['-'] then none else
  let name := (parse tag).1
  let name := if isValidTag ld name then name else []
  some (if name.isEmpty then fieldName else name, contains (parse tag).2 sOmitempty)

end Gengo.JsonTag

/-!
# Strings as lists of code points, association lists with Go map semantics

Everything in the models is stated over `Str := List Char`.  Go strings are byte
sequences; the harness only ever sends valid UTF-8, for which prefix tests, splitting
on an ASCII separator, and `<` coincide on bytes and on code points (trusted base,
DESIGN.md section 4).
-/
namespace Gengo

abbrev Str := List Char

namespace Str

/-- `strings.Split(s, string(sep))` for a one-rune separator. Never returns `[]`. -/
def splitOn (sep : Char) : Str → List Str
  | [] => [[]]
  | c :: cs =>
    if c = sep then [] :: splitOn sep cs
    else match splitOn sep cs with
      | [] => [[c]]
      | h :: t => (c :: h) :: t

/-- `strings.Join(parts, sep)` -/
def join (sep : Str) : List Str → Str
  | [] => []
  | [a] => a
  | a :: r => a ++ sep ++ join sep r

/-- `strings.Trim(s, string(c))`-style trimming with a predicate. -/
def trimBy (p : Char → Bool) (l : Str) : Str :=
  ((l.dropWhile p).reverse.dropWhile p).reverse

/-- `strings.TrimRightFunc(s, p)` -/
def trimRightBy (p : Char → Bool) (l : Str) : Str := (l.reverse.dropWhile p).reverse

def hasPrefix (s pre : Str) : Bool := pre.isPrefixOf s
def hasSuffix (s suf : Str) : Bool := suf.isSuffixOf s

/-- first index at which `pat` occurs in `s` (as `strings.Index`), or none -/
def index (pat : Str) : Str → Option Nat
  | [] => if pat.isEmpty then some 0 else none
  | c :: cs => if pat.isPrefixOf (c :: cs) then some 0 else (index pat cs).map (· + 1)

/-- `strings.SplitN(s, pat, 2)` for non-empty `pat`: `(before, some after)` or `(s, none)` -/
def cut (pat : Str) (s : Str) : Str × Option Str :=
  match index pat s with
  | none => (s, none)
  | some i => (s.take i, some (s.drop (i + pat.length)))

/-- `unicode.IsSpace` (the White_Space property), exactly. -/
def isSpace (c : Char) : Bool :=
  let n := c.toNat
  n = 0x20 || (0x09 ≤ n && n ≤ 0x0d) || n = 0x85 || n = 0xa0 || n = 0x1680 ||
  (0x2000 ≤ n && n ≤ 0x200a) || n = 0x2028 || n = 0x2029 || n = 0x202f || n = 0x205f || n = 0x3000

/-- `strings.TrimSpace` -/
def trimSpace (l : Str) : Str := trimBy isSpace l

def isAsciiUpper (c : Char) : Bool := 65 ≤ c.toNat && c.toNat ≤ 90
def isAsciiLower (c : Char) : Bool := 97 ≤ c.toNat && c.toNat ≤ 122
def isAsciiLetter (c : Char) : Bool := isAsciiUpper c || isAsciiLower c
def isAsciiDigit (c : Char) : Bool := 48 ≤ c.toNat && c.toNat ≤ 57

/-- ASCII `strings.ToUpper`/`ToLower` on one char (identity elsewhere). -/
def upper (c : Char) : Char := if isAsciiLower c then Char.ofNat (c.toNat - 32) else c
def lower (c : Char) : Char := if isAsciiUpper c then Char.ofNat (c.toNat + 32) else c

/-- strict lexicographic order on code points (= Go's `<` on valid UTF-8) -/
def lt : Str → Str → Bool
  | [], [] => false
  | [], _ :: _ => true
  | _ :: _, [] => false
  | a :: as, b :: bs => if a.toNat < b.toNat then true else if b.toNat < a.toNat then false else lt as bs

/-- non-strict order used for sorting -/
def le (a b : Str) : Bool := !lt b a

end Str

/-! ## association lists with Go `m[k] = v` semantics -/
namespace AL

def lookup {α β} [DecidableEq α] (k : α) : List (α × β) → Option β
  | [] => none
  | (k', v) :: r => if k' = k then some v else lookup k r

/-- `m[k] = v`: replace in place if present, else append -/
def insert {α β} [DecidableEq α] (k : α) (v : β) : List (α × β) → List (α × β)
  | [] => [(k, v)]
  | (k', v') :: r => if k' = k then (k, v) :: r else (k', v') :: insert k v r

theorem lookup_insert {α β} [DecidableEq α] (k : α) (v : β) (k2 : α) (m : List (α × β)) :
    lookup k2 (insert k v m) = if k2 = k then some v else lookup k2 m := by
  induction m with
  | nil =>
    by_cases h : k2 = k
    · simp [insert, lookup, h]
    · have : ¬ k = k2 := fun e => h e.symm
      simp [insert, lookup, h, this]
  | cons hd tl ih =>
    obtain ⟨k', v'⟩ := hd
    by_cases h1 : k' = k <;> by_cases h2 : k2 = k <;> by_cases h3 : k' = k2 <;>
      simp_all [insert, lookup, eq_comm]

end AL
end Gengo

import Gengo.Basic.Str
/-! Line-protocol helpers for the driver (not used in proofs). -/
namespace Gengo.Proto
open Gengo

def hexVal (c : Char) : Nat :=
  if '0' ≤ c ∧ c ≤ '9' then c.toNat - 48 else if 'a' ≤ c ∧ c ≤ 'f' then c.toNat - 87 else 0

def unhexBytes : List Char → List UInt8
  | a :: b :: r => (UInt8.ofNat (hexVal a * 16 + hexVal b)) :: unhexBytes r
  | _ => []

/-- hex field → string (code points). Invalid UTF-8 never reaches the driver. -/
def unhex (s : Str) : Str :=
  match String.fromUTF8? (ByteArray.mk (unhexBytes s).toArray) with
  | some s => s.toList
  | none => ['?']

def hexDigit (n : Nat) : Char := if n < 10 then Char.ofNat (48 + n) else Char.ofNat (87 + n)

def hex (s : Str) : Str :=
  (String.ofList s).toUTF8.toList.flatMap fun b => [hexDigit (b.toNat / 16), hexDigit (b.toNat % 16)]

/-- list field: "-" = empty list, otherwise comma-separated hex items -/
def unhexList (s : Str) : List Str :=
  if s = ['-'] then [] else (Str.splitOn ',' s).map unhex

def hexList (l : List Str) : Str :=
  if l.isEmpty then ['-'] else Str.join [','] (l.map hex)

def fields (line : Str) : List Str := Str.splitOn '\t' line

def natOf (s : Str) : Nat := s.foldl (fun n c => n * 10 + (c.toNat - 48)) 0

def ofNat (n : Nat) : Str := (toString n).toList

def str (s : String) : Str := s.toList

end Gengo.Proto

import Gengo.Model.Loader
namespace Gengo.C01
end Gengo.C01

import Gengo.Model.Loader
import Gengo.Generated.Facts
/-! # C01 – the parsed type universe is structurally faithful to the Go type checker -/
namespace Gengo.C01
open Gengo Gengo.Universe

/-- two spellings of one Go scalar type -/
def sameScalar (a b : String) : Bool :=
  a = b || (a = "uint8" && b = "byte") || (a = "byte" && b = "uint8") || (a = "rune" && b = "int32") || (a = "int32" && b = "rune")

/-- **builtin_never_other_type** (regenerated fact): in `builtins.Types` of the v1 module every key of
kind Builtin is bound to a type object whose name is that same Go type (identical spelling, or the
alias pairs byte/uint8 and rune/int32) – e.g. `int8` is not bound to `byte` (F1) -/
theorem builtins_faithful_v1 :
    Generated.builtinsV1.all (fun e => e.2.2.2 != "Builtin" || sameScalar e.1 e.2.2.1) = true := by decide

theorem builtins_faithful_v2 :
    Generated.builtinsV2.all (fun e => e.2.2.2 != "Builtin" || sameScalar e.1 e.2.2.1) = true := by decide

/-- keys that share one object are the same Go type, so sharing never merges different types -/
theorem builtins_sharing_sound_v1 :
    Generated.builtinsV1.all (fun a => Generated.builtinsV1.all (fun b =>
      a.2.1 != b.2.1 || (sameScalar a.1 b.1 && a.2.2.1 = b.2.2.1))) = true := by decide

theorem builtins_sharing_sound_v2 :
    Generated.builtinsV2.all (fun a => Generated.builtinsV2.all (fun b =>
      a.2.1 != b.2.1 || (sameScalar a.1 b.1 && a.2.2.1 = b.2.2.1))) = true := by decide

/-- the predeclared scalar types of Go -/
def goScalars : List String := ["bool", "string", "int", "int8", "int16", "int32", "int64", "uint", "uint8", "uint16",
  "uint32", "uint64", "uintptr", "byte", "rune", "float32", "float64", "complex64", "complex128"]

/-- **builtins_complete** (regenerated fact): every predeclared scalar type of Go has an entry (F3) -/
theorem builtins_complete_v1 : goScalars.all (fun s => Generated.builtinsV1.any (fun e => e.1 = s)) = true := by decide
theorem builtins_complete_v2 : goScalars.all (fun s => Generated.builtinsV2.any (fun e => e.1 = s)) = true := by decide

/-! ### names -/

/-- a composite (anonymous) type keeps its whole spelling as name, in package "" -/
theorem nameOf_anonymous (v2 : Bool) (s : Str) (h : anonPrefixes.any (fun p => p.isPrefixOf s) = true) :
    nameOf v2 s = ⟨[], s⟩ := by
  unfold nameOf nameOfV1 nameOfV2
  cases v2 <;> simp [h]

end Gengo.C01

import Gengo.Model.Loader
import Gengo.Lemmas.WalkInv
import Gengo.Lemmas.WalkDesc
import Gengo.Generated.Facts
import Gengo.Lemmas.WalkIso
import Gengo.Lemmas.FactsCheckSound
import Gengo.Lemmas.WalkSide
import Gengo.Driver.Universe
/-! # C01 – the parsed type universe is structurally faithful to the Go type checker -/
namespace Gengo.C01
open Gengo Gengo.Universe

/-- two spellings of one Go scalar type -/
def sameScalar (a b : String) : Bool :=
  a = b || (a = "uint8" && b = "byte") || (a = "byte" && b = "uint8") || (a = "rune" && b = "int32") || (a = "int32" && b = "rune")

/-- **builtin_never_other_type** (regenerated fact): in `builtins.Types` of the v1 module every key of
kind Builtin is bound to a type object whose name is that same Go type (identical spelling, or the
alias pairs byte/uint8 and rune/int32) – e.g. `int8` is not bound to `byte` (F1) -/
theorem builtins_faithful_v1 :
    Generated.builtinsV1.all (fun e => e.2.2.2 != "Builtin" || sameScalar e.1 e.2.2.1) = true := by decide

theorem builtins_faithful_v2 :
    Generated.builtinsV2.all (fun e => e.2.2.2 != "Builtin" || sameScalar e.1 e.2.2.1) = true := by decide

/-- keys that share one object are the same Go type, so sharing never merges different types -/
theorem builtins_sharing_sound_v1 :
    Generated.builtinsV1.all (fun a => Generated.builtinsV1.all (fun b =>
      a.2.1 != b.2.1 || (sameScalar a.1 b.1 && a.2.2.1 = b.2.2.1))) = true := by decide

theorem builtins_sharing_sound_v2 :
    Generated.builtinsV2.all (fun a => Generated.builtinsV2.all (fun b =>
      a.2.1 != b.2.1 || (sameScalar a.1 b.1 && a.2.2.1 = b.2.2.1))) = true := by decide

/-- the predeclared scalar types of Go -/
def goScalars : List String := ["bool", "string", "int", "int8", "int16", "int32", "int64", "uint", "uint8", "uint16",
  "uint32", "uint64", "uintptr", "byte", "rune", "float32", "float64", "complex64", "complex128"]

/-- **builtins_complete** (regenerated fact): every predeclared scalar type of Go has an entry (F3) -/
theorem builtins_complete_v1 : goScalars.all (fun s => Generated.builtinsV1.any (fun e => e.1 = s)) = true := by decide
theorem builtins_complete_v2 : goScalars.all (fun s => Generated.builtinsV2.any (fun e => e.1 = s)) = true := by decide

/-! ### names -/

/-- a composite (anonymous) type keeps its whole spelling as name, in package "" -/
theorem nameOf_anonymous (v2 : Bool) (s : Str) (h : anonPrefixes.any (fun p => p.isPrefixOf s) = true) :
    nameOf v2 s = ⟨[], s⟩ := by
  unfold nameOf nameOfV1 nameOfV2
  cases v2 <;> simp [h]

/-! ### every declared type of a requested package is in the universe (full model, Lemmas/WalkInv.lean) -/
open Gengo.WalkInv

/-- the type of scope object `ob` is registered under its own name (a generic declaration: under `Foo[T]`) and has a kind -/
def Present (F : Facts) (v2 : Bool) (u : U) (ob : GObj) : Prop :=
  ∃ (o : Nat) (t : Obj), AL.lookup (regName F v2 ob.ty) u.types = some o ∧ u.objs[o]? = some t ∧ t.kind ≠ .unknown

theorem Present.mono {F : Facts} {v2 : Bool} {u u' : U} {ob : GObj} (h : Present F v2 u ob) (hg : Grows u u') : Present F v2 u' ob := by
  obtain ⟨o, t, h1, h2, h3⟩ := h
  obtain ⟨t', h4, _, h6⟩ := hg.objs o t h2
  exact ⟨o, t', hg.idx _ _ h1, h4, by rw [h6 h3]; exact h3⟩

/-- a named type (generic or not) whose underlying node is a basic/named/map/slice node or an unnamed type node (what go/types
guarantees; the driver's `hyp` line checks it per case) -/
def PlainNamed (F : Facts) (v2 : Bool) (ob : GObj) : Prop :=
  ob.kind = .typeName ∧ ∃ und ms tps origUnd, F.node ob.ty = .named und ms tps origUnd ∧
    (isAliasUnder (F.node und) = true ∨ ∃ K kids, shape v2 (F.node und) = some (K, kids)) ∧
    (isAliasUnder (F.node und) = false → (v2 && isStructOrIface (F.node und)) = true → ∃ K kids, shape v2 (F.node origUnd) = some (K, kids))

theorem addObj_present (bt : List Builtin) (F : Facts) (v2 : Bool) (fuel : Nat) (u u' : U) (ob : GObj)
    (hp : PlainNamed F v2 ob) (h : WalkInv.Inv bt u) (hf : addObj bt F v2 (fuel + 1) u ob = some u') : Present F v2 u' ob := by
  obtain ⟨hk, und, ms, tps, origUnd, hn, hund, horig⟩ := hp
  unfold addObj at hf
  simp only [hk] at hf
  cases hw : walk bt F v2 (fuel + 1) u ob.ty none with
  | none => simp [hw] at hf
  | some p =>
    obtain ⟨u1, o⟩ := p
    simp only [hw, Option.map_some, Option.some.injEq] at hf
    subst hf
    have l := walk_named_idx bt F v2 fuel u ob.ty none und ms tps origUnd hn hund horig u1 o h hw
    have p := walk_inv bt F v2 (fuel + 1) u ob.ty none u1 o h hw
    obtain ⟨t, h1, h2⟩ := p.good.1
    exact ⟨o, t, l, h1, h2⟩

theorem addObjs_present (bt : List Builtin) (F : Facts) (v2 : Bool) (fuel : Nat) : ∀ (obs : List GObj) (u u' : U),
    WalkInv.Inv bt u → addObjs bt F v2 (fuel + 1) u obs = some u' →
    ∀ ob ∈ obs, PlainNamed F v2 ob → Present F v2 u' ob := by
  intro obs
  induction obs with
  | nil => intro u u' _ _ ob hob; cases hob
  | cons x rest ih =>
    intro u u' h hf ob hob hp
    simp only [addObjs] at hf
    cases ha : addObj bt F v2 (fuel + 1) u x with
    | none => simp [ha] at hf
    | some u1 =>
      simp only [ha] at hf
      obtain ⟨h1, _⟩ := addObj_inv F v2 (fuel + 1) u x u1 h ha
      rcases List.mem_cons.mp hob with rfl | hrest
      · exact (addObj_present bt F v2 fuel u u1 ob hp h ha).mono (addObjs_inv F v2 (fuel + 1) rest u1 u' h1 hf).2
      · exact ih u1 u' h1 hf ob hrest hp

/-- **declared_types_present**: after the scan of a requested package every named type of its scope (generic ones under `Foo[T]`) is
in the universe: registered under its own name, with a kind – whatever was loaded before -/
theorem scan_declared_types_present (bt : List Builtin) (F : Facts) (v2 : Bool) (fuel : Nat) (u u' : U) (p : GPkg)
    (h : WalkInv.Inv bt u) (hf : scanPkg bt F v2 (fuel + 1) u p = some u') :
    ∀ ob ∈ p.scope, PlainNamed F v2 ob → Present F v2 u' ob := by
  intro ob hob hp
  unfold scanPkg at hf
  obtain ⟨a, b, c, d⟩ := package_objs u p.path
  obtain ⟨h1, _⟩ := inv_of_same (u' := (u.package p.path).setPkg p.path (fun r => { r with name := p.name })) a b c d h
  cases ha : addObjs bt F v2 (fuel + 1) ((u.package p.path).setPkg p.path (fun r => { r with name := p.name })) p.scope with
  | none => simp [ha] at hf
  | some u2 =>
    simp only [ha, Option.some.injEq] at hf
    subst hf
    have pr := addObjs_present bt F v2 fuel _ _ _ h1 ha ob hob hp
    obtain ⟨a', b', c', d'⟩ := addImports_same u2 p.path (p.imports.mergeSort Str.le)
    obtain ⟨h3, g3⟩ := inv_of_same a' b' c' d' (addObjs_inv F v2 (fuel + 1) _ _ _ h1 ha).1
    exact pr.mono g3

/-! ### every filled object is what its Go node says (full model, Lemmas/WalkDesc.lean) -/
open Gengo.Loader Gengo.WalkDesc

/-- **universe_faithful_v2**: in a universe built by the v2 loader (generic declarations included), every
object that `walkType` filled from a node of the type checker's graph has that node's kind, and – attribute by
attribute, in declaration order – references to the objects registered under the names of the node's children:
element, key, array length, struct members with name, embedded flag and verbatim tag, parameters, results,
variadic flag, receiver, and the underlying type of a defined type (`Desc`) -/
theorem universe_faithful_v2 (w : World) (hwf : WellFormed w.facts w.v2) (req : List Str) (st : LState)
    (h : newUniverseV2 w req = some st) (o : Nat) (ob : Obj) (g : Nat) (hob : st.u.objs[o]? = some ob) (hs : ob.src = some g) :
    Desc w.facts w.v2 st.u ob g :=
  described (newUniverseV2_full w hwf req st h) o ob g hob hs

/-- **universe_faithful_v1**: the same for the v1 `Builder` -/
theorem universe_faithful_v1 (w : World) (hwf : WellFormed w.facts w.v2) (req : List Str) (st : LState)
    (h : findTypesV1 w req = some st) (o : Nat) (ob : Obj) (g : Nat) (hob : st.u.objs[o]? = some ob) (hs : ob.src = some g) :
    Desc w.facts w.v2 st.u ob g :=
  described (findTypesV1_full w hwf req st h) o ob g hob hs

/-- incremental loads keep it -/
theorem incremental_keeps_faithful (w : World) (hwf : WellFormed w.facts w.v2) (st st' : LState)
    (hinv : Full w.bt w.facts w.v2 st.u) :
    (∀ more, loadToV2 w st more = some st' → Full w.bt w.facts w.v2 st'.u) ∧
    (∀ path, addDirToV1 w st path = some st' → Full w.bt w.facts w.v2 st'.u) :=
  ⟨fun more h => loadToV2_full w hwf st st' more hinv h, fun path h => addDirToV1_full w hwf st st' path hinv h⟩

/-- **struct_fields_faithful**: an object filled from a struct node is a Struct whose members are the node's fields,
one for one and in order: same name, same embedded flag, same tag text, and the member's type is the object
registered for the field's type -/
theorem struct_fields_faithful {bt : List Builtin} {F : Facts} {v2 : Bool} {u : U} (h : Full bt F v2 u) (o : Nat) (ob : Obj) (g : Nat)
    (fs : List GField) (hob : u.objs[o]? = some ob) (hs : ob.src = some g) (hn : F.node g = .struct fs) :
    ob.kind = .struct ∧ All2 (MemberMatch F v2 u) ob.members fs := by
  have := described h o ob g hob hs
  unfold Desc at this
  simpa [hn] using this

/-- **signature_faithful**: an object filled from a signature node is a Func with the node's parameters and results in
order (names and types), its variadic flag and its receiver -/
theorem signature_faithful {bt : List Builtin} {F : Facts} {v2 : Bool} {u : U} (h : Full bt F v2 u) (o : Nat) (ob : Obj) (g : Nat)
    (ps rs : List (Str × Nat)) (va : Bool) (recv : Option Nat) (hob : u.objs[o]? = some ob) (hs : ob.src = some g)
    (hn : F.node g = .sig ps rs va recv) :
    ob.kind = .func ∧ ob.variadic = va ∧ All2 (ParamMatch F v2 u) ob.params ps ∧ All2 (ParamMatch F v2 u) ob.results rs := by
  have := described h o ob g hob hs
  unfold Desc at this
  simp only [hn] at this
  exact ⟨this.1, this.2.2.1, this.2.2.2.1, this.2.2.2.2.1⟩

/-- **array_and_map_faithful**: length, element and key -/
theorem array_faithful {bt : List Builtin} {F : Facts} {v2 : Bool} {u : U} (h : Full bt F v2 u) (o : Nat) (ob : Obj) (g : Nat)
    (len e : Nat) (hob : u.objs[o]? = some ob) (hs : ob.src = some g) (hn : F.node g = .array len e) :
    ob.kind = .array ∧ ob.len = len ∧ ElemIs F v2 u ob.elem e := by
  have := described h o ob g hob hs
  unfold Desc at this
  simpa [hn] using this

theorem map_faithful {bt : List Builtin} {F : Facts} {v2 : Bool} {u : U} (h : Full bt F v2 u) (o : Nat) (ob : Obj) (g : Nat)
    (k e : Nat) (hob : u.objs[o]? = some ob) (hs : ob.src = some g) (hn : F.node g = .map k e) :
    ob.kind = .map ∧ ElemIs F v2 u ob.elem e ∧ ElemIs F v2 u ob.key k := by
  have := described h o ob g hob hs
  unfold Desc at this
  simpa [hn] using this

/-! non-vacuity: the empty universe is `Full`; `walkType` keeps `Full` (this is `walk_desc` + `walk_inv`) -/
example (bt : List Builtin) (F : Facts) (v2 : Bool) : Full bt F v2 {} := full_empty bt F v2

/-- `type T struct { Next *T }` in package p -/
def demoFacts : Facts where
  node
    | 0 => .named 1 [] [] 1
    | 1 => .struct [⟨['N', 'e', 'x', 't'], false, [], 2⟩]
    | 2 => .pointer 0
    | _ => .basic ['i', 'n', 't']
  str
    | 0 => ['p', '.', 'T']
    | 1 => ['s', 't', 'r', 'u', 'c', 't', '{', 'N', 'e', 'x', 't', ' ', '*', 'p', '.', 'T', '}']
    | 2 => ['*', 'p', '.', 'T']
    | _ => ['i', 'n', 't']

theorem demo_noGenerics : NoGenerics demoFacts := by
  refine ⟨?_, ?_⟩
  · intro g und ms tps ou h
    match g with
    | 0 => simp [demoFacts] at h; exact h.2.2.1
    | 1 => simp [demoFacts] at h
    | 2 => simp [demoFacts] at h
    | _ + 3 => simp [demoFacts] at h
  · intro g c h
    match g with
    | 0 => simp [demoFacts] at h
    | 1 => simp [demoFacts] at h
    | 2 => simp [demoFacts] at h
    | _ + 3 => simp [demoFacts] at h

theorem demo_wellFormed : WellFormed demoFacts false := by
  refine ⟨?_, ?_⟩
  rotate_left
  · intro g ms h
    match g with
    | 0 =>
      simp [demoFacts] at h
      obtain ⟨_, _, _, _, rfl, _⟩ := h
      exact ⟨List.nodup_nil, fun m hm => by cases hm⟩
    | 1 => simp [demoFacts] at h
    | 2 => simp [demoFacts] at h
    | _ + 3 => simp [demoFacts] at h
  intro g und ms tps ou h
  match g with
  | 0 =>
    simp [demoFacts] at h
    obtain ⟨rfl, _, _, rfl⟩ := h
    exact ⟨.inr ⟨_, _, rfl⟩, fun _ _ => ⟨_, _, rfl⟩⟩
  | 1 => simp [demoFacts] at h
  | 2 => simp [demoFacts] at h
  | _ + 3 => simp [demoFacts] at h

/-- the walk of the cyclic type succeeds, so the premises of the theorems above are met by a real run -/
example : (walk [] demoFacts false 8 {} 0 none).isSome = true := by decide


/-! ### the object found under a name was filled from the node of that name (Lemmas/WalkName.lean, WalkIso.lean) -/
open Gengo.WalkName Gengo.WalkIso

/-- (regenerated fact) every entry of the builtins tables the loaders run with has a kind -/
theorem generated_tables_have_kinds (t : List (String × String × String × String)) : BtKinds (Gengo.Driver.Universe.builtinsOf t) := by
  intro b hb
  simp only [Gengo.Driver.Universe.builtinsOf, List.mem_map] at hb
  obtain ⟨⟨k, v, n, kd⟩, _, rfl⟩ := hb
  simp only [Gengo.Driver.Universe.kindOfStr]
  split
  · decide
  · split
    · decide
    · split <;> decide

/-- **lookup_faithful_v2**: what a v2 universe returns for the name `n` – after any sequence of incremental loads – is
an object that, if it was filled, was filled from a node that `walkType` files under `n` (the node go/types prints as
`n`; for a defined type over a struct, …: its underlying node; for a method: its signature), and it says what that
node says.  So the universe's answer for a name is the type checker's answer for the type of that name. -/
theorem lookup_faithful_v2 (w : World) (hwf : WellFormed w.facts w.v2) (hbt : BtKinds w.bt)
    (req : List Str) (ms : List (List Str)) (a st : LState) (h1 : newUniverseV2 w req = some a) (h2 : loadsV2 w a ms = some st)
    (n : Name) (o : Nat) (ob : Obj) (g : Nat) (hl : AL.lookup n st.u.types = some o) (hob : st.u.objs[o]? = some ob)
    (hs : ob.src = some g) : NameFor w.facts w.v2 n g ∧ Desc w.facts w.v2 st.u ob g := by
  have hf := loadsV2_faithful w hwf hbt req ms a st h1 h2
  exact ⟨found_under_its_name ⟨hf.1.1, hf.2⟩ n o ob g hl hob hs, described hf.1 o ob g hob hs⟩

/-- **lookup_faithful_v1**: the same for the v1 `Builder` (`FindTypes`, then any sequence of `AddDirTo`) -/
theorem lookup_faithful_v1 (w : World) (hwf : WellFormed w.facts w.v2) (hbt : BtKinds w.bt)
    (req : List Str) (ps : List Str) (a st : LState) (h1 : findTypesV1 w req = some a) (h2 : addDirsV1 w a ps = some st)
    (n : Name) (o : Nat) (ob : Obj) (g : Nat) (hl : AL.lookup n st.u.types = some o) (hob : st.u.objs[o]? = some ob)
    (hs : ob.src = some g) : NameFor w.facts w.v2 n g ∧ Desc w.facts w.v2 st.u ob g := by
  have hf := addDirsV1_faithful w hwf hbt req ps a st h1 h2
  exact ⟨found_under_its_name ⟨hf.1.1, hf.2⟩ n o ob g hl hob hs, described hf.1 o ob g hob hs⟩

/-- the naming half through `walkType` itself, for any facts -/
theorem walk_files_under_the_right_name (bt : List Builtin) (F : Facts) (v2 : Bool) (hbt : BtKinds bt) (fuel : Nat) (u u' : U)
    (g o : Nat) (hi : WalkInv.Inv bt u) (hs : SN bt F v2 u) (hw : walk bt F v2 fuel u g none = some (u', o)) : SN bt F v2 u' :=
  walk_sn bt F v2 hbt fuel u g none u' o hi hs (fun _ h => by cases h) hw


/-- **interface_methods_faithful**: an object filled from an interface node with methods is an Interface whose method table is
that node's complete method set (embedded interfaces' methods included – go/types' `NumMethods`/`Method`): every method
is there, bound to the object registered under the method's printed name, and there is no other entry -/
theorem interface_methods_faithful {bt : List Builtin} {F : Facts} {v2 : Bool} {u : U} (h : Full bt F v2 u) (o : Nat) (ob : Obj) (g : Nat)
    (ms : List GMethod) (hob : u.objs[o]? = some ob) (hs : ob.src = some g) (hn : F.node g = .iface ms) (hne : ms ≠ []) :
    ob.kind = .iface ∧ MethodsMatch F v2 u ob.methods ms := by
  have := described h o ob g hob hs
  unfold Desc at this
  simp only [hn] at this
  exact ⟨this.1, this.2 hne⟩

/-- **defined_type_methods_faithful**: the methods phase of `walkType` records (in ghost fields of the model) for which
defined type it ran on an object.  Whenever it ran for the defined type `g'`, the object's method table is exactly the
method set go/types reports for that type (for a generic declaration: of its origin, F22) – every method bound to the
object registered under the method's printed name, which `described` says is its signature with parameters, results,
variadic flag and receiver – unless the object had methods already (`nskip`: the object of an interface, whose table
`interface_methods_faithful` describes) -/
theorem defined_type_methods_faithful {bt : List Builtin} {F : Facts} {v2 : Bool} {u : U} (h : Full bt F v2 u) (o : Nat) (ob : Obj) (g' : Nat)
    (hob : u.objs[o]? = some ob) (hs : ob.nsrc = some g') :
    ∃ und ms tps ou, F.node g' = .named und ms tps ou ∧ (ob.nskip = false → MethodsMatch F v2 u ob.methods ms) := by
  rcases h.2.meth.mdesc o ob g' hob hs with hp | hd
  · cases hp
  · exact hd

/-- the methods phase of a defined type's walk records that type: after `addMethods … g` the object carries `nsrc = g` -/
theorem methods_phase_recorded {F : Facts} {v2 : Bool} {bt : List Builtin} (hwf : WellFormed F v2) (fuel : Nat) (u : U) (o : Nat)
    (g und ou : Nat) (ms : List GMethod) (tps : List (Str × Nat)) (hn : F.node g = .named und ms tps ou) (P : List Nat) (u' : U) (o' : Nat)
    (hi : WalkInv.Inv bt u) (hdi : DInv F v2 u P) (hkn : Known u o)
    (hf : addMethods v2 (fun u c un => walk bt F v2 fuel u c un) u o ms g = some (u', o')) :
    ∃ ob' : Obj, u'.objs[o]? = some ob' ∧ ob'.nsrc = some g :=
  (addMethods_desc (walk_inv bt F v2 fuel) (walk_desc bt F v2 hwf fuel) u o ms P hn (hwf.methods g ms (.inr ⟨_, _, _, hn⟩))
    u' o' hi hdi hkn hf).2.2

/-! ### declarations and package records (Lemmas/WalkSide.lean) -/
open Gengo.WalkSide

/-- **declaration_recorded**: after a function, variable or constant of a scanned package has been added, it is registered
under its name in its index as a `DeclarationOf` object whose underlying type is the object standing for the declaration's
Go type; a constant carries its value.  (`walkType` never touches the three declaration indices: `walk_side`.) -/
theorem declaration_recorded {bt : List Builtin} (F : Facts) (v2 : Bool) (hwf : WellFormed F v2) (fuel : Nat) (u : U)
    (d : Decl) (n : Name) (ty : Nat) (cv : Option Str) (u' : U) (h : Full bt F v2 u)
    (hf : addDecl bt F v2 fuel u d n ty cv = some u') :
    ∃ (o : Nat) (ob : Obj), AL.lookup n (declIdx u' d) = some o ∧ u'.objs[o]? = some ob ∧ ob.kind = .declarationOf ∧
      ElemIs F v2 u' ob.under ty ∧ (∀ v, cv = some v → ob.constVal = some v) :=
  addDecl_records F v2 hwf fuel u d n ty cv u' h hf

/-- **package_recorded**: after the scan of a requested package (v1 `findTypesIn`) the universe holds a record with the
package's path, its name and its direct imports -/
theorem package_recorded {bt : List Builtin} (F : Facts) (v2 : Bool) (fuel : Nat) (u : U) (p : GPkg) (u' : U)
    (hf : scanPkg bt F v2 fuel u p = some u') :
    ∃ r ∈ u'.pkgs, r.path = p.path ∧ r.name = p.name ∧ ∀ i ∈ p.imports, i ∈ r.imports :=
  scanPkg_records F v2 fuel u p u' hf

/-- **package_recorded_v2**: the same for v2's `addPkgToUniverse`, although the visits of all imports run between the scan
and the recording of the imports -/
theorem package_recorded_v2 (w : Loader.World) (n : Nat) (st st' : Loader.LState) (path : Str) (p : GPkg)
    (hfind : w.find path = some p) (hnp : st.processed.contains path = false) (hreq : st.requested.contains path = true)
    (h : Loader.visitV2 w (n + 1) st path = some st') :
    ∃ r ∈ st'.u.pkgs, r.path = p.path ∧ r.name = p.name ∧ ∀ i ∈ p.imports, i ∈ r.imports :=
  visitV2_records w n st st' path p hfind hnp hreq h

/-- `walkType` leaves the indices of functions, variables and constants alone and never changes an existing package record -/
theorem walk_leaves_declarations_alone (bt : List Builtin) (F : Facts) (v2 : Bool) (fuel : Nat) (u u' : U) (g o : Nat) (un : Option Name)
    (hw : walk bt F v2 fuel u g un = some (u', o)) :
    u'.funcs = u.funcs ∧ u'.vars = u.vars ∧ u'.consts = u.consts ∧ ∀ r ∈ u.pkgs, r ∈ u'.pkgs :=
  let s := walk_side bt F v2 fuel u g un u' o hw
  ⟨s.funcs, s.vars, s.consts, s.pkgs⟩

/-- `type G[T any] struct { X T }` in package p (v2) -/
def genericFacts : Facts where
  node
    | 0 => .named 1 [] [(['T'], 2)] 1
    | 1 => .struct [⟨['X'], false, [], 3⟩]
    | 2 => .iface []
    | 3 => .tparam 2
    | _ => .other
  str
    | 0 => ['p', '.', 'G', '[', 'T', ' ', 'a', 'n', 'y', ']']
    | 1 => ['s', 't', 'r', 'u', 'c', 't', '{', 'X', ' ', 'T', '}']
    | 2 => ['a', 'n', 'y']
    | 3 => ['T']
    | _ => []

/-- non-vacuity for generics: the walk of the generic declaration succeeds and registers it under `G[T]` -/
example : ((walk [] genericFacts true 8 {} 0 none).map (fun r => AL.lookup (⟨['p'], ['G', '[', 'T', ']']⟩ : Name) r.1.types)) = some (some 1) := by decide

theorem generic_wellFormed : WellFormed genericFacts true := by
  refine ⟨?_, ?_⟩
  rotate_left
  · intro g ms h
    match g with
    | 0 =>
      simp [genericFacts] at h
      obtain ⟨_, _, _, _, rfl, _⟩ := h
      exact ⟨List.nodup_nil, fun m hm => by cases hm⟩
    | 1 => simp [genericFacts] at h
    | 2 => simp [genericFacts] at h; subst h; exact ⟨List.nodup_nil, fun m hm => by cases hm⟩
    | 3 => simp [genericFacts] at h
    | _ + 4 => simp [genericFacts] at h
  intro g und ms tps ou h
  match g with
  | 0 =>
    simp [genericFacts] at h
    obtain ⟨rfl, _, _, rfl⟩ := h
    exact ⟨.inr ⟨_, _, rfl⟩, fun _ _ => ⟨_, _, rfl⟩⟩
  | 1 => simp [genericFacts] at h
  | 2 => simp [genericFacts] at h
  | 3 => simp [genericFacts] at h
  | _ + 4 => simp [genericFacts] at h

/-- `type T struct{}` with `func (T) M()` in package p -/
def methFacts : Facts where
  node
    | 0 => .named 1 [⟨['M'], 2, "func (p.T).M()".toList⟩] [] 1
    | 1 => .struct []
    | 2 => .sig [] [] false (some 0)
    | _ => .other
  str
    | 0 => ['p', '.', 'T']
    | 1 => "struct{}".toList
    | 2 => "func()".toList
    | _ => []

/-- non-vacuity for methods: the walk succeeds, the methods phase is recorded for node 0 and did not skip, and the method
table has exactly the entry `M` -/
example : ((walk [] methFacts false 8 {} 0 none).map (fun r => (r.1.objs[r.2]?).map (fun ob => (ob.nsrc, ob.nskip, ob.methods.map (·.1))))) =
    some (some (some 0, false, [['M']])) := by decide

/-- **hypotheses_checked_per_case**: the model driver answers the `hyp` line of a correspondence case with the three
executable checks of `Model/FactsCheck`; when they say yes, the facts the driver's loaders run on (`world st`) meet the
hypotheses of the theorems above – so the evidence file counts the generated programs the theorems actually speak about -/
theorem hypotheses_checked_per_case (st : Gengo.Driver.Universe.St) (hs : st.strs.size ≤ st.nodes.size) :
    (FactsCheck.noGenericsB ⟨st.nodes, st.strs⟩ = true → NoGenerics (Gengo.Driver.Universe.world st).facts) ∧
    (FactsCheck.wellFormedB st.v2 ⟨st.nodes, st.strs⟩ = true → WellFormed (Gengo.Driver.Universe.world st).facts (Gengo.Driver.Universe.world st).v2) ∧
    (FactsCheck.consistentB st.v2 ⟨st.nodes, st.strs⟩ = true → Consistent (Gengo.Driver.Universe.world st).facts (Gengo.Driver.Universe.world st).v2) ∧
    BtKinds (Gengo.Driver.Universe.world st).bt :=
  ⟨FactsCheck.noGenericsB_sound ⟨st.nodes, st.strs⟩, FactsCheck.wellFormedB_sound st.v2 ⟨st.nodes, st.strs⟩,
    FactsCheck.consistentB_sound st.v2 ⟨st.nodes, st.strs⟩ hs, generated_tables_have_kinds _⟩

/-! non-vacuity of the naming and consistency hypotheses: the cyclic demo program meets them -/
def nT : Name := ⟨['p'], ['T']⟩
def nS : Name := ⟨[], demoFacts.str 1⟩
def nP : Name := ⟨[], ['*','p','.','T']⟩
def nI : Name := ⟨[], ['i','n','t']⟩

theorem demo_nameFor {n : Name} {g : Nat} (h : NameFor demoFacts false n g) :
    (g = 1 ∧ (n = nT ∨ n = nS)) ∨ (g = 2 ∧ n = nP) ∨ (3 ≤ g ∧ n = nI) := by
  cases h with
  | self g hal =>
    match g with
    | 0 =>
      rcases hal with ⟨K, kids, hsh⟩ | ⟨und, ms, tps, ou, hh, ha⟩
      · simp [demoFacts, shape] at hsh
      · simp [demoFacts] at hh; obtain ⟨rfl, _⟩ := hh; simp [demoFacts, isAliasUnder] at ha
    | 1 => exact .inl ⟨rfl, .inr (by decide)⟩
    | 2 => exact .inr (.inl ⟨rfl, by decide⟩)
    | k + 3 => exact .inr (.inr ⟨by omega, by show nameOf false ['i','n','t'] = _; decide⟩)
  | basic hn =>
    match g with
    | 0 => simp [demoFacts] at hn
    | 1 => simp [demoFacts] at hn
    | 2 => simp [demoFacts] at hn
    | k + 3 => simp [demoFacts] at hn; subst hn; exact .inr (.inr ⟨by omega, rfl⟩)
  | @under g' und ou ms tps hn ha hs =>
    match g' with
    | 0 => simp [demoFacts] at hn; obtain ⟨rfl, _⟩ := hn; exact .inl ⟨rfl, .inl (by decide)⟩
    | 1 => simp [demoFacts] at hn
    | 2 => simp [demoFacts] at hn
    | k + 3 => simp [demoFacts] at hn
  | orig hn ha hs => simp at hs
  | @method g' und ou ms tps m hn hm =>
    match g' with
    | 0 => simp [demoFacts] at hn; obtain ⟨_, rfl, _⟩ := hn; cases hm
    | 1 => simp [demoFacts] at hn
    | 2 => simp [demoFacts] at hn
    | k + 3 => simp [demoFacts] at hn
  | @imethod g' ms m hn hm =>
    match g' with
    | 0 => simp [demoFacts] at hn
    | 1 => simp [demoFacts] at hn
    | 2 => simp [demoFacts] at hn
    | k + 3 => simp [demoFacts] at hn

theorem demo_resName (c : Nat) (h1 : ∀ t, demoFacts.node c ≠ .alias t) (h2 : ∀ nm, demoFacts.node c ≠ .basic nm)
    (h3 : ∀ k, demoFacts.node c ≠ .tparam k) : KidEq demoFacts false c c := ⟨false, _, .byName h1 h2 h3, .byName h1 h2 h3⟩

theorem demo_consistent : Consistent demoFacts false := by
  intro n g1 g2 h1 h2
  have e11 : NodeEq demoFacts false 1 1 := by
    unfold NodeEq
    simp only [demoFacts]
    exact .cons ⟨rfl, rfl, rfl, demo_resName 2 (by intro t h; simp [demoFacts] at h) (by intro t h; simp [demoFacts] at h) (by intro t h; simp [demoFacts] at h)⟩ .nil
  have e22 : NodeEq demoFacts false 2 2 := by
    unfold NodeEq
    simp only [demoFacts]
    exact demo_resName 0 (by intro t h; simp [demoFacts] at h) (by intro t h; simp [demoFacts] at h) (by intro t h; simp [demoFacts] at h)
  have e33 : ∀ a b, 3 ≤ a → 3 ≤ b → NodeEq demoFacts false a b := by
    intro a b ha hb
    obtain ⟨a', rfl⟩ : ∃ a', a = a' + 3 := ⟨a - 3, by omega⟩
    obtain ⟨b', rfl⟩ : ∃ b', b = b' + 3 := ⟨b - 3, by omega⟩
    unfold NodeEq
    simp [demoFacts]
  rcases demo_nameFor h1 with ⟨rfl, hn1⟩ | ⟨rfl, hn1⟩ | ⟨hg1, hn1⟩ <;>
    rcases demo_nameFor h2 with ⟨rfl, hn2⟩ | ⟨rfl, hn2⟩ | ⟨hg2, hn2⟩
  · exact e11
  · exfalso; subst hn2; rcases hn1 with h | h <;> exact absurd h (by decide)
  · exfalso; subst hn2; rcases hn1 with h | h <;> exact absurd h (by decide)
  · exfalso; subst hn1; rcases hn2 with h | h <;> exact absurd h (by decide)
  · exact e22
  · exfalso; subst hn1; exact absurd hn2 (by decide)
  · exfalso; subst hn1; rcases hn2 with h | h <;> exact absurd h (by decide)
  · exfalso; subst hn1; exact absurd hn2 (by decide)
  · exact e33 _ _ hg1 hg2

end Gengo.C01

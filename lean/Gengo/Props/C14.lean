import Gengo.Model.Namer
import Gengo.Lemmas.Case
import Gengo.Lemmas.Ident
/-! # C14 – name strategies are deterministic, well-formed and compositional -/
namespace Gengo.C14
open Gengo Gengo.Namer

/-! ### capitalisation functions -/

theorem lowerS_IC (s : Str) : lowerS (IC s) = lowerS s := by
  cases s with
  | nil => rfl
  | cons c cs => simp [IC, lowerS, Str.lower_upper]

theorem lowerS_IL (s : Str) : lowerS (IL s) = lowerS s := by
  cases s with
  | nil => rfl
  | cons c cs => simp [IL, lowerS, Str.lower_lower]

theorem IC_length (s : Str) : (IC s).length = s.length := by cases s <;> simp [IC]
theorem IL_length (s : Str) : (IL s).length = s.length := by cases s <;> simp [IL]

/-- capitalisers keep the length and are invisible after lower-casing -/
structure CapFn (f : Str → Str) : Prop where
  len : ∀ s, (f s).length = s.length
  low : ∀ s, lowerS (f s) = lowerS s

theorem capIC : CapFn IC := ⟨IC_length, lowerS_IC⟩
theorem capIL : CapFn IL := ⟨IL_length, lowerS_IL⟩
theorem capFirst (st : Strategy) : CapFn st.first := by
  unfold Strategy.first; split
  · exact capIC
  · exact capIL

theorem lowerS_append (a b : Str) : lowerS (a ++ b) = lowerS a ++ lowerS b := by simp [lowerS]
theorem lowerS_length (a : Str) : (lowerS a).length = a.length := by simp [lowerS]

theorem lowerS_flatten_IC (parts : List Str) :
    lowerS ((parts.map IC).flatten) = lowerS parts.flatten := by
  induction parts with
  | nil => rfl
  | cons p ps ih => simp only [List.map_cons, List.flatten_cons, lowerS_append, lowerS_IC, ih]

/-- **strip_inverts_join**: stripping what `Join` put around the parts succeeds and gives back the
joined parts up to capitalisation – prefix and suffix are removed exactly once, never more. -/
theorem strip_inverts_join {first others : Str → Str} (hf : CapFn first) (ho : CapFn others)
    (pre post : Str) (parts : List Str) :
    ∃ mid', strip pre post (joinWith first others pre parts post) = some mid' ∧
      lowerS mid' = lowerS ((parts.map others).flatten) := by
  let mid := (parts.map others).flatten
  let s := joinWith first others pre parts post
  have hs_low : lowerS s = lowerS pre ++ lowerS mid ++ lowerS post := by
    simp only [s, joinWith]
    rw [hf.low, lowerS_append, lowerS_append, ho.low, ho.low]
  have hs_len : s.length = pre.length + mid.length + post.length := by
    have := congrArg List.length hs_low
    simp [lowerS_length] at this
    omega
  have hpre : (lowerS pre).isPrefixOf (lowerS s) = true := by
    rw [hs_low, List.isPrefixOf_iff_prefix]
    exact ⟨lowerS mid ++ lowerS post, by simp⟩
  have hsuf : (lowerS post).isSuffixOf (lowerS s) = true := by
    rw [hs_low, List.isSuffixOf_iff_suffix]
    exact ⟨lowerS pre ++ lowerS mid, by simp⟩
  refine ⟨(s.take (s.length - post.length)).drop pre.length, ?_, ?_⟩
  · show strip pre post s = _
    unfold strip
    simp only [hpre, hsuf, if_true]
    have : pre.length ≤ s.length - post.length := by omega
    simp [this]
  · have : lowerS ((s.take (s.length - post.length)).drop pre.length) =
        ((lowerS s).take (s.length - post.length)).drop pre.length := by
      simp [lowerS, List.map_drop, List.map_take]
    rw [this, hs_low]
    have h1 : s.length - post.length = (lowerS pre ++ lowerS mid).length := by
      simp [lowerS_length]; omega
    rw [h1, List.take_left']
    · have h2 : pre.length = (lowerS pre).length := by simp [lowerS_length]
      rw [h2, List.drop_left']
      rfl
    · rfl

/-! ### shape of names -/

/-- **named_shape**: for a named type the name is Join(prefix, last (k+1) of (non-ignored, sanitised
directories ++ [type name]), suffix) -/
theorem named_shape (st : Strategy) (pkg n : Str) :
    name st (.named pkg n) = some (st.join (lastK (st.prepend + 1)
      ((((Str.splitOn '/' pkg).filter (fun p => !st.ignore.contains p)).map sanitizeDir) ++ [n]))) := by
  simp [name, filterDirs]

/-- the type name itself is always the last part -/
theorem named_last_part (st : Strategy) (pkg n : Str) :
    (lastK (st.prepend + 1) (filterDirs st pkg ++ [n])).getLast? = some n := by
  unfold lastK
  have hlen : (filterDirs st pkg ++ [n]).length = (filterDirs st pkg).length + 1 := by simp
  rw [List.getLast?_drop]
  simp only [hlen]
  have : (filterDirs st pkg).length - st.prepend < (filterDirs st pkg).length + 1 := by omega
  simp [this]

/-- **public_upper / private_lower**: the first character of a name is the upper-cased (public) or
lower-cased (private) first character of prefix ++ parts ++ suffix -/
theorem join_head (st : Strategy) (parts : List Str) :
    (st.join parts).head? =
      ((IC st.pre ++ (parts.map IC).flatten ++ IC st.post).head?).map
        (if st.isPublic then Str.upper else Str.lower) := by
  unfold Strategy.join joinWith Strategy.first
  generalize IC st.pre ++ (parts.map IC).flatten ++ IC st.post = s
  cases s with
  | nil => split <;> rfl
  | cons c cs => split <;> simp [IC, IL]

theorem public_upper (st : Strategy) (hp : st.isPublic = true) (parts : List Str) (c : Char)
    (h : (st.join parts).head? = some c) : Str.isAsciiLower c = false := by
  rw [join_head, hp] at h
  simp only [if_true, Option.map_eq_some_iff] at h
  obtain ⟨d, _, rfl⟩ := h
  exact Str.upper_not_lower d

theorem private_lower (st : Strategy) (hp : st.isPublic = false) (parts : List Str) (c : Char)
    (h : (st.join parts).head? = some c) : Str.isAsciiUpper c = false := by
  rw [join_head, hp] at h
  simp only [Bool.false_eq_true, if_false, Option.map_eq_some_iff] at h
  obtain ⟨d, _, rfl⟩ := h
  exact Str.lower_not_upper d

/-! ### names of named types are legal identifiers -/
open Gengo.Ident in
/-- **named_is_identifier**: for a type name that is an identifier and a package path whose elements start with a letter
and go on with letters, digits, `_`, `-` and `.` (after `filterDirs` has dropped ignored words and sanitised the rest), a
prefix that is empty or an identifier and a suffix of identifier characters, the name of a named type is a Go
identifier -/
theorem named_is_identifier (st : Strategy) (pkg n : Str) (hn : isIdent n = true)
    (hpkg : ∀ p ∈ Str.splitOn '/' pkg, pathElemOK p = true)
    (hpre : st.pre = [] ∨ isIdent st.pre = true) (hpost : st.post.all identChar = true) :
    ∃ s, name st (.named pkg n) = some s ∧ isIdent s = true := by
  refine ⟨_, named_shape st pkg n, ?_⟩
  have hall : ∀ p ∈ (((Str.splitOn '/' pkg).filter (fun p => !st.ignore.contains p)).map sanitizeDir) ++ [n], isIdent p = true := by
    intro p hp
    rcases List.mem_append.mp hp with h | h
    · obtain ⟨q, hq, rfl⟩ := List.mem_map.mp h
      exact sanitize_ident (hpkg q (List.mem_filter.mp hq).1)
    · simp only [List.mem_singleton] at h; subst h; exact hn
  apply join_ident st _ _ (fun p hp => hall p (List.mem_of_mem_drop hp)) hpre hpost
  intro he
  have hl := congrArg List.length he
  simp only [lastK, List.length_drop, List.length_append, List.length_singleton, List.length_nil] at hl
  omega

/-! ### anonymous types: prefix and suffix exactly once, at the outside -/

mutual
/-- types the strategy can name (no unsupported kinds inside) -/
def Supported : Ty → Prop
  | .named _ _ => True
  | .builtin _ => True
  | .map k e => Supported k ∧ Supported e
  | .slice e => Supported e
  | .array _ e => Supported e
  | .pointer e => Supported e
  | .chan e => Supported e
  | .struct ms => SupportedM ms
  | .iface _ => True
  | .func ps rs => SupportedL ps ∧ SupportedL rs
  | .other _ => False
def SupportedL : Tys → Prop
  | .nil => True
  | .cons t ts => Supported t ∧ SupportedL ts
def SupportedM : Members → Prop
  | .nil => True
  | .cons _ t ms => Supported t ∧ SupportedM ms
end

def w_map : Str := "map".toList
def w_to : Str := "to".toList
def w_slice : Str := "slice".toList
def w_array : Str := "array".toList
def w_pointer : Str := "pointer".toList
def w_chan : Str := "chan".toList
def w_struct : Str := "struct".toList
def w_interface : Str := "interface".toList
def w_func : Str := "func".toList
def w_returns : Str := "returns".toList

mutual
/-- the lower-cased "description" of a type: what the name consists of between prefix and suffix.
It does not mention the prefix or the suffix anywhere. -/
def midL (st : Strategy) : Ty → Str
  | .named pkg n => lowerS (lastK (st.prepend + 1) (filterDirs st pkg ++ [n])).flatten
  | .builtin n => lowerS n
  | .map k e => w_map ++ midL st k ++ w_to ++ midL st e
  | .slice e => w_slice ++ midL st e
  | .array len e => w_array ++ natStr len ++ midL st e
  | .pointer e => w_pointer ++ midL st e
  | .chan e => w_chan ++ midL st e
  | .struct ms => w_struct ++ midLM st ms
  | .iface methods => w_interface ++ lowerS (sortStrs methods).flatten
  | .func ps rs => w_func ++ midLL st ps ++ w_returns ++ midLL st rs
  | .other kind => kind
def midLL (st : Strategy) : Tys → Str
  | .nil => []
  | .cons t ts => midL st t ++ midLL st ts
def midLM (st : Strategy) : Members → Str
  | .nil => []
  | .cons _ t ms => midL st t ++ midLM st ms
end

/-- a name that is a Join of parts strips to its middle -/
theorem stripped_of_join (st : Strategy) (t : Ty) (parts : List Str)
    (h : name st t = some (st.join parts)) :
    ∃ a, stripped st t = some a ∧ lowerS a = lowerS parts.flatten := by
  obtain ⟨a, ha, hl⟩ := strip_inverts_join (capFirst st) capIC st.pre st.post parts
  refine ⟨a, ?_, by rw [hl, lowerS_flatten_IC]⟩
  unfold stripped
  simp only [h, Option.bind_eq_bind, Option.bind_some]
  exact ha

theorem lowerS_digits (n : Nat) : lowerS (natStr n) = natStr n := by
  unfold lowerS natStr
  have : ∀ c ∈ (toString n).toList, Str.lower c = c := by
    intro c hc
    have hd : c.isDigit = true := by
      have := Nat.isDigit_of_mem_toDigits (b := 10) (n := n) (by omega) (by omega) (c := c)
      apply this
      simpa [Nat.repr, toString, instToStringNat] using hc
    unfold Str.lower Str.isAsciiUpper
    simp only [Char.isDigit, Bool.and_eq_true, decide_eq_true_eq] at hd
    have h1 : c.toNat = c.val.toNat := rfl
    have : ¬ (65 ≤ c.toNat ∧ c.toNat ≤ 90) := by
      have a := hd.1; have b := hd.2
      rw [h1]
      have a' : 48 ≤ c.val.toNat := by simpa using UInt32.le_iff_toNat_le.mp a
      have b' : c.val.toNat ≤ 57 := by simpa using UInt32.le_iff_toNat_le.mp b
      omega
    simp [this]
  exact List.map_congr_left this |>.trans (List.map_id _)

theorem kw : lowerS "Map".toList = w_map ∧ lowerS "To".toList = w_to ∧
    lowerS "Slice".toList = w_slice ∧ lowerS "Array".toList = w_array ∧
    lowerS "Pointer".toList = w_pointer ∧ lowerS "Chan".toList = w_chan ∧
    lowerS "Struct".toList = w_struct ∧ lowerS "Interface".toList = w_interface ∧
    lowerS "Func".toList = w_func ∧ lowerS "Returns".toList = w_returns := by decide

mutual
/-- **name_is_join**: every supported type is named (no panic), its name is a Join of parts, and
the parts spell – up to capitalisation – the type's description `midL`, which is free of the
strategy's prefix and suffix. -/
theorem name_is_join (st : Strategy) : (t : Ty) → Supported t →
    ∃ parts, name st t = some (st.join parts) ∧ lowerS parts.flatten = midL st t
  | .named pkg n, _ => by
    refine ⟨lastK (st.prepend + 1) (filterDirs st pkg ++ [n]), ?_, ?_⟩
    · rw [name]
    · rw [midL]
  | .builtin n, _ => by
    refine ⟨[n], ?_, ?_⟩
    · rw [name]
    · rw [midL]; simp
  | .map k e, h => by
    obtain ⟨pk, hk, lk⟩ := name_is_join st k h.1
    obtain ⟨pe, he, le⟩ := name_is_join st e h.2
    obtain ⟨a, ha, la⟩ := stripped_of_join st k pk hk
    obtain ⟨b, hb, lb⟩ := stripped_of_join st e pe he
    refine ⟨["Map".toList, a, "To".toList, b], ?_, ?_⟩
    · simp [name, ha, hb]
    · simp only [List.flatten_cons, List.flatten_nil, List.append_nil, lowerS_append, midL, la, lb, lk, le,
        kw.1, kw.2.1, List.append_assoc]
  | .slice e, h => by
    obtain ⟨pe, he, le⟩ := name_is_join st e h
    obtain ⟨b, hb, lb⟩ := stripped_of_join st e pe he
    exact ⟨["Slice".toList, b], by simp [name, hb],
      by simp only [List.flatten_cons, List.flatten_nil, List.append_nil, lowerS_append, midL, lb, le, kw.2.2.1, kw.2.2.2.1, kw.2.2.2.2.1, kw.2.2.2.2.2.1, List.append_assoc]⟩
  | .array len e, h => by
    obtain ⟨pe, he, le⟩ := name_is_join st e h
    obtain ⟨b, hb, lb⟩ := stripped_of_join st e pe he
    exact ⟨["Array".toList, natStr len, b], by simp [name, hb],
      by simp only [List.flatten_cons, List.flatten_nil, List.append_nil, lowerS_append, midL, lb, le, lowerS_digits, kw.2.2.2.1, List.append_assoc]⟩
  | .pointer e, h => by
    obtain ⟨pe, he, le⟩ := name_is_join st e h
    obtain ⟨b, hb, lb⟩ := stripped_of_join st e pe he
    exact ⟨["Pointer".toList, b], by simp [name, hb],
      by simp only [List.flatten_cons, List.flatten_nil, List.append_nil, lowerS_append, midL, lb, le, kw.2.2.1, kw.2.2.2.1, kw.2.2.2.2.1, kw.2.2.2.2.2.1, List.append_assoc]⟩
  | .chan e, h => by
    obtain ⟨pe, he, le⟩ := name_is_join st e h
    obtain ⟨b, hb, lb⟩ := stripped_of_join st e pe he
    exact ⟨["Chan".toList, b], by simp [name, hb],
      by simp only [List.flatten_cons, List.flatten_nil, List.append_nil, lowerS_append, midL, lb, le, kw.2.2.1, kw.2.2.2.1, kw.2.2.2.2.1, kw.2.2.2.2.2.1, List.append_assoc]⟩
  | .struct ms, h => by
    obtain ⟨l, hl, ll⟩ := strippedM_ok st ms h
    exact ⟨"Struct".toList :: l, by simp [name, hl],
      by simp only [List.flatten_cons, lowerS_append, midL, ll, kw.2.2.2.2.2.2.1]⟩
  | .iface methods, _ => ⟨"Interface".toList :: sortStrs methods, by simp only [name],
      by simp only [List.flatten_cons, lowerS_append, midL, kw.2.2.2.2.2.2.2.1]⟩
  | .func ps rs, h => by
    obtain ⟨a, ha, la⟩ := strippedL_ok st ps h.1
    obtain ⟨b, hb, lb⟩ := strippedL_ok st rs h.2
    refine ⟨"Func".toList :: a ++ "Returns".toList :: b, by simp [name, ha, hb], ?_⟩
    simp only [List.flatten_cons, List.flatten_append, lowerS_append, midL, la, lb,
      kw.2.2.2.2.2.2.2.2.1, kw.2.2.2.2.2.2.2.2.2, List.append_assoc]
  | .other _, h => False.elim h
theorem strippedL_ok (st : Strategy) : (ts : Tys) → SupportedL ts →
    ∃ l, strippedAll st ts = some l ∧ lowerS l.flatten = midLL st ts
  | .nil, _ => ⟨[], by simp only [strippedAll], by simp [midLL, lowerS]⟩
  | .cons t ts, h => by
    obtain ⟨pt, ht, lt⟩ := name_is_join st t h.1
    obtain ⟨a, ha, la⟩ := stripped_of_join st t pt ht
    obtain ⟨l, hl, ll⟩ := strippedL_ok st ts h.2
    exact ⟨a :: l, by simp [strippedAll, ha, hl],
      by simp only [List.flatten_cons, lowerS_append, midLL, la, lt, ll]⟩
theorem strippedM_ok (st : Strategy) : (ms : Members) → SupportedM ms →
    ∃ l, strippedMembers st ms = some l ∧ lowerS l.flatten = midLM st ms
  | .nil, _ => ⟨[], by simp only [strippedMembers], by simp [midLM, lowerS]⟩
  | .cons _ t ms, h => by
    obtain ⟨pt, ht, lt⟩ := name_is_join st t h.1
    obtain ⟨a, ha, la⟩ := stripped_of_join st t pt ht
    obtain ⟨l, hl, ll⟩ := strippedM_ok st ms h.2
    exact ⟨a :: l, by simp [strippedMembers, ha, hl],
      by simp only [List.flatten_cons, lowerS_append, midLM, la, lt, ll]⟩
end

/-- **anonymous_prefix_suffix_once**: the name of any (nested) supported type is, up to
capitalisation, prefix ++ description ++ suffix, where the description is free of both: prefix and
suffix are applied exactly once, at the outside, and naming never panics. -/
theorem anonymous_prefix_suffix_once (st : Strategy) (t : Ty) (h : Supported t) :
    ∃ s, name st t = some s ∧ lowerS s = lowerS st.pre ++ midL st t ++ lowerS st.post := by
  obtain ⟨parts, hn, hl⟩ := name_is_join st t h
  refine ⟨_, hn, ?_⟩
  unfold Strategy.join joinWith
  rw [(capFirst st).low, lowerS_append, lowerS_append, lowerS_IC, lowerS_IC, lowerS_flatten_IC, hl]

/-- **deterministic**: the name is a function of the strategy's configuration and the type alone
(the model has no other input; the identity-keyed cache of the real code is validated against it by
the correspondence on shuffled call orders). Two strategies with the same configuration agree. -/
theorem deterministic (st st' : Strategy) (t : Ty) (h : st = st') : name st t = name st' t := by
  rw [h]

/-! ### plural names -/

/-- **plural_exception_first** -/
theorem plural_exception_first (exc : List (Str × Str)) (fin : Fin) (s p : Str)
    (h : AL.lookup s exc = some p) : plural exc fin s = fin.apply p := by
  simp [plural, h]

theorem plural_short (exc : List (Str × Str)) (fin : Fin) (s : Str)
    (h : AL.lookup s exc = none) (hl : s.length < 2) : plural exc fin s = fin.apply s := by
  simp [plural, h, hl]

/-- **plural_rules** (the suffix table), for a word `ini ++ [sl, last]` that is not an exception -/
theorem plural_rules (exc : List (Str × Str)) (fin : Fin) (ini : Str) (sl last : Char)
    (h : AL.lookup (ini ++ [sl, last]) exc = none) :
    plural exc fin (ini ++ [sl, last]) = fin.apply (
      if last = 's' ∨ last = 'x' ∨ last = 'z' then ini ++ [sl, last] ++ "es".toList
      else if last = 'y' then (if consonants.contains sl then ini ++ [sl] ++ "ies".toList else ini ++ [sl, last] ++ ['s'])
      else if last = 'h' then (if sl = 'c' ∨ sl = 's' then ini ++ [sl, last] ++ "es".toList else ini ++ [sl, last] ++ ['s'])
      else if last = 'e' then (if sl = 'f' then ini ++ "ves".toList else ini ++ [sl, last] ++ ['s'])
      else if last = 'f' then ini ++ [sl] ++ "ves".toList
      else ini ++ [sl, last] ++ ['s']) := by
  have hlen : ¬ (ini ++ [sl, last]).length < 2 := by simp
  have h1 : (ini ++ [sl, last]).getLast? = some last := by simp
  have h2 : (ini ++ [sl, last]).dropLast = ini ++ [sl] := by
    rw [show ini ++ [sl, last] = (ini ++ [sl]) ++ [last] by simp]
    exact List.dropLast_concat
  have h3 : (ini ++ [sl]).getLast? = some sl := by simp
  have h4 : (ini ++ [sl]).dropLast = ini := List.dropLast_concat
  unfold plural
  simp only [h, hlen, if_false, h1, h2, h3, h4, Option.getD_some]

/-! non-vacuity -/
example : Supported (.map (.builtin "string".toList) (.slice (.named "a/b".toList "Foo".toList))) := by
  simp [Supported]
example : name ⟨[], [], true, ["proto".toList], 2⟩ (.named "pkg/server/frobbing/proto".toList "Foo".toList)
    = some "ServerFrobbingFoo".toList := by
  simp only [name]; decide
example : plural [] .ic "knife".toList = "Knives".toList := by decide
example : plural [("Endpoints".toList, "endpoints".toList)] .ic "Endpoints".toList = "Endpoints".toList := by decide


/-! non-vacuity: the hypotheses of `named_is_identifier` hold of an ordinary type -/
example : Ident.isIdent "Pod".toList = true ∧ (∀ p ∈ Str.splitOn '/' "k8s.io/api/core/v1".toList, Ident.pathElemOK p = true) ∧
    Ident.isIdent "Fake".toList = true := by decide

/-! ### the memo: the same name on every call, whatever was named before (Model/Namer `nameM`) -/
section memo
variable [DecidableEq Ty]

/-- every entry of the memo is the name the memo-free strategy gives -/
def MemoOK (st : Strategy) (c : Memo) : Prop := ∀ t s, AL.lookup t c = some s → name st t = some s

/-- `m` computes `x`, whatever (sound) memo it starts from, and leaves a sound memo -/
def Sound (st : Strategy) {α : Type} (m : MemoM α) (x : Option α) : Prop :=
  ∀ c, MemoOK st c → (m c).2 = x ∧ MemoOK st (m c).1

theorem sound_pure (st : Strategy) {α : Type} (a : α) : Sound st (MemoM.pure a) (some a) :=
  fun _ hc => ⟨rfl, hc⟩

theorem sound_bind {st : Strategy} {α β : Type} {m : MemoM α} {f : α → MemoM β} {x : Option α} {y : α → Option β}
    (hm : Sound st m x) (hf : ∀ a, Sound st (f a) (y a)) : Sound st (MemoM.bind m f) (x.bind y) := by
  intro c hc
  obtain ⟨h1, h2⟩ := hm c hc
  unfold MemoM.bind
  cases hmc : m c with
  | mk c' r =>
    rw [hmc] at h1 h2
    simp only at h1 h2
    cases r with
    | none => subst h1; exact ⟨rfl, h2⟩
    | some a => subst h1; exact hf a c' h2

theorem sound_strip {st : Strategy} {m : MemoM Str} {x : Option Str} (hm : Sound st m x) :
    Sound st (MemoM.strip st m) (x.bind (strip st.pre st.post)) :=
  sound_bind hm (fun _ _ hc => ⟨rfl, hc⟩)

theorem sound_memoized {st : Strategy} (t : Ty) {m : MemoM Str} (hm : Sound st m (name st t)) :
    Sound st (memoized t m) (name st t) := by
  intro c hc
  unfold memoized
  cases hl : AL.lookup t c with
  | some s => exact ⟨(hc t s hl).symm, hc⟩
  | none =>
    obtain ⟨h1, h2⟩ := hm c hc
    cases hmc : m c with
    | mk c' r =>
      rw [hmc] at h1 h2
      simp only at h1 h2
      cases r with
      | none => exact ⟨h1, h2⟩
      | some s =>
        refine ⟨h1, ?_⟩
        intro t' s' hl'
        simp only [AL.lookup] at hl'
        split at hl'
        · rename_i he; cases hl'; rw [← he]; exact h1.symm
        · exact h2 t' s' hl'

omit [DecidableEq Ty] in
theorem stripped_eq (st : Strategy) (t : Ty) : stripped st t = (name st t).bind (strip st.pre st.post) := by
  unfold stripped; rfl

theorem Sound.congr {st : Strategy} {α : Type} {m : MemoM α} {x y : Option α} (h : Sound st m x) (e : x = y) : Sound st m y := e ▸ h

mutual
/-- **memo_transparent** (one call): whatever sound memo a call starts from – whatever was named before, in whatever
order – it returns the name the memo-free strategy gives (or panics where that does), and leaves a sound memo -/
theorem nameM_sound (st : Strategy) : (t : Ty) → Sound st (nameM st t) (name st t)
  | .named pkg n => by
    unfold nameM
    exact sound_memoized _ ((sound_pure st _).congr (by simp [name]))
  | .builtin n => by
    unfold nameM
    exact sound_memoized _ ((sound_pure st _).congr (by simp [name]))
  | .map k e => by
    unfold nameM
    refine sound_memoized _ (Sound.congr (sound_bind (sound_strip (nameM_sound st k)) fun a =>
      sound_bind (sound_strip (nameM_sound st e)) fun b => sound_pure st _) ?_)
    rw [← stripped_eq, ← stripped_eq]; simp [name]
  | .slice e => by
    unfold nameM
    refine sound_memoized _ (Sound.congr (sound_bind (sound_strip (nameM_sound st e)) fun a => sound_pure st _) ?_)
    rw [← stripped_eq]; simp [name]
  | .array len e => by
    unfold nameM
    refine sound_memoized _ (Sound.congr (sound_bind (sound_strip (nameM_sound st e)) fun a => sound_pure st _) ?_)
    rw [← stripped_eq]; simp [name]
  | .pointer e => by
    unfold nameM
    refine sound_memoized _ (Sound.congr (sound_bind (sound_strip (nameM_sound st e)) fun a => sound_pure st _) ?_)
    rw [← stripped_eq]; simp [name]
  | .chan e => by
    unfold nameM
    refine sound_memoized _ (Sound.congr (sound_bind (sound_strip (nameM_sound st e)) fun a => sound_pure st _) ?_)
    rw [← stripped_eq]; simp [name]
  | .struct ms => by
    unfold nameM
    refine sound_memoized _ (Sound.congr (sound_bind (membersM_sound st ms) fun l => sound_pure st _) ?_)
    simp [name]
  | .iface methods => by
    unfold nameM
    exact sound_memoized _ ((sound_pure st _).congr (by simp [name]))
  | .func ps rs => by
    unfold nameM
    refine sound_memoized _ (Sound.congr (sound_bind (allM_sound st ps) fun a =>
      sound_bind (allM_sound st rs) fun b => sound_pure st _) ?_)
    simp [name]
  | .other kind => by
    unfold nameM
    exact sound_memoized _ ((sound_pure st _).congr (by simp [name]))
theorem allM_sound (st : Strategy) : (ts : Tys) → Sound st (allM st ts) (strippedAll st ts)
  | .nil => by unfold allM; exact (sound_pure st _).congr (by simp [strippedAll])
  | .cons t ts => by
    unfold allM
    refine Sound.congr (sound_bind (sound_strip (nameM_sound st t)) fun a =>
      sound_bind (allM_sound st ts) fun r => sound_pure st _) ?_
    rw [← stripped_eq]; simp [strippedAll]
theorem membersM_sound (st : Strategy) : (ms : Members) → Sound st (membersM st ms) (strippedMembers st ms)
  | .nil => by unfold membersM; exact (sound_pure st _).congr (by simp [strippedMembers])
  | .cons _ t ms => by
    unfold membersM
    refine Sound.congr (sound_bind (sound_strip (nameM_sound st t)) fun a =>
      sound_bind (membersM_sound st ms) fun r => sound_pure st _) ?_
    rw [← stripped_eq]; simp [strippedMembers]
end

/-- **memo_transparent**: any sequence of `Name` calls on one strategy object, starting from the empty memo, returns for
every call the name the memo-free strategy gives for that type – the same name on every call, independently of which
other types were named before and in what order -/
theorem memo_transparent (st : Strategy) (ts : List Ty) :
    ∀ c, MemoOK st c → (namesM st ts c).2 = ts.map (name st) ∧ MemoOK st (namesM st ts c).1 := by
  induction ts with
  | nil => intro c hc; exact ⟨rfl, hc⟩
  | cons t ts ih =>
    intro c hc
    obtain ⟨h1, h2⟩ := nameM_sound st t c hc
    obtain ⟨h3, h4⟩ := ih _ h2
    simp only [namesM, List.map_cons]
    exact ⟨by rw [h1, h3], h4⟩

theorem memo_empty (st : Strategy) : MemoOK st [] := fun _ _ h => by simp [AL.lookup] at h

/-- … in particular two orders of the same calls give every type the same name -/
theorem naming_order_irrelevant (st : Strategy) (ts us : List Ty) (t : Ty) (ht : t ∈ ts) (hu : t ∈ us) :
    ∃ i j : Nat, ((namesM st ts []).2)[i]? = some (name st t) ∧ ((namesM st us []).2)[j]? = some (name st t) := by
  obtain ⟨i, hi⟩ := List.getElem?_of_mem ht
  obtain ⟨j, hj⟩ := List.getElem?_of_mem hu
  refine ⟨i, j, ?_, ?_⟩
  · rw [(memo_transparent st ts [] (memo_empty st)).1, List.getElem?_map, hi]; rfl
  · rw [(memo_transparent st us [] (memo_empty st)).1, List.getElem?_map, hj]; rfl

end memo

end Gengo.C14

import Gengo.Model.Predicates
import Gengo.Generated.Facts
/-! # C20 – type predicates are sound with respect to Go semantics -/
namespace Gengo.C20
open Gengo Gengo.Universe Gengo.Predicates

/-- an object tree that plain assignment copies completely: builtin scalars, defined types over them,
and structs of such – in particular no pointer, map, slice, channel, function or interface anywhere -/
inductive ValueOnly (u : U) : Nat → Prop
  | builtin {o} : u.kind o = .builtin → ValueOnly u o
  | alias {o x} : u.kind o = .alias → (u.obj o).under = some x → u.kind x = .builtin → ValueOnly u o
  | struct {o} : u.kind o = .struct → (∀ m ∈ (u.obj o).members, ValueOnly u m.2.2.2) → ValueOnly u o

/-- **isAssignable_sound** (object level): a type reported assignable consists of value-only parts at
every depth.  (That objects of kind Builtin/Alias/Struct describe Go scalars / defined types / structs
is C01's `walk` invariant; that no reference type has kind Builtin is `builtin_kinds_are_scalars`.) -/
theorem isAssignable_sound (u : U) (fuel : Nat) (o : Nat) (h : isAssignable u fuel o = true) : ValueOnly u o := by
  induction fuel generalizing o with
  | zero => simp [isAssignable] at h
  | succ n ih =>
    simp only [isAssignable, Bool.or_eq_true, Bool.and_eq_true, decide_eq_true_eq, List.all_eq_true] at h
    rcases h with hp | ⟨hk, hm⟩
    · simp only [isPrimitive, Bool.or_eq_true, Bool.and_eq_true, decide_eq_true_eq] at hp
      rcases hp with hp | ⟨h1, h2⟩
      · exact .builtin hp
      · cases hu : (u.obj o).under with
        | none => simp [kindOf, hu] at h2
        | some x => exact .alias h1 hu (by simpa [kindOf, hu] using h2)
    · exact .struct hk (fun m hm' => ih _ (hm m hm'))

/-- **isPrimitive_iff**: reported primitive exactly for builtin objects and defined types over them -/
theorem isPrimitive_iff (u : U) (o : Nat) :
    isPrimitive u o = true ↔ u.kind o = .builtin ∨ (u.kind o = .alias ∧ ∃ x, (u.obj o).under = some x ∧ u.kind x = .builtin) := by
  simp only [isPrimitive, Bool.or_eq_true, Bool.and_eq_true, decide_eq_true_eq]
  constructor
  · rintro (h | ⟨h1, h2⟩)
    · exact .inl h
    · cases hu : (u.obj o).under with
      | none => simp [kindOf, hu] at h2
      | some x => exact .inr ⟨h1, x, rfl, by simpa [kindOf, hu] using h2⟩
  · rintro (h | ⟨h1, x, hx, hk⟩)
    · exact .inl h
    · exact .inr ⟨h1, by simp [kindOf, hx, hk]⟩

/-- **isAnonymousStruct_iff**: only a struct object named `struct{}` (or a defined type over one)
qualifies – a named struct never does, whatever its fields -/
theorem named_struct_not_anonymous (u : U) (fuel : Nat) (o : Nat) (hk : u.kind o = .struct)
    (hn : (u.obj o).name.name ≠ kEmptyStruct) : isAnonymousStruct u fuel o = false := by
  cases fuel with
  | zero => rfl
  | succ n => simp [isAnonymousStruct, hk, hn]

theorem empty_struct_is_anonymous (u : U) (fuel : Nat) (o : Nat) (hk : u.kind o = .struct)
    (hn : (u.obj o).name.name = kEmptyStruct) : isAnonymousStruct u (fuel + 1) o = true := by
  simp [isAnonymousStruct, hk, hn]

/-- (regenerated fact) every table entry of kind Builtin is a predeclared *scalar*: no reference type
can be reported primitive or assignable through the table -/
def scalars : List String := ["bool", "string", "int", "int8", "int16", "int32", "int64", "uint", "uint8", "uint16",
  "uint32", "uint64", "uintptr", "byte", "rune", "float32", "float64", "complex64", "complex128", "float"]

theorem builtin_kinds_are_scalars_v1 :
    Generated.builtinsV1.all (fun e => e.2.2.2 != "Builtin" || scalars.contains e.1) = true := by decide
theorem builtin_kinds_are_scalars_v2 :
    Generated.builtinsV2.all (fun e => e.2.2.2 != "Builtin" || scalars.contains e.1) = true := by decide

/-- **isPrimitive_iff** (table side): every Go scalar is in the table with kind Builtin (F3) -/
theorem scalars_are_builtin_v1 :
    ["bool", "string", "int", "int8", "int16", "int32", "int64", "uint", "uint8", "uint16", "uint32", "uint64", "uintptr",
     "byte", "rune", "float32", "float64", "complex64", "complex128"].all
      (fun s => Generated.builtinsV1.any (fun e => e.1 = s && e.2.2.2 = "Builtin")) = true := by decide
theorem scalars_are_builtin_v2 :
    ["bool", "string", "int", "int8", "int16", "int32", "int64", "uint", "uint8", "uint16", "uint32", "uint64", "uintptr",
     "byte", "rune", "float32", "float64", "complex64", "complex128"].all
      (fun s => Generated.builtinsV2.any (fun e => e.1 = s && e.2.2.2 = "Builtin")) = true := by decide

end Gengo.C20

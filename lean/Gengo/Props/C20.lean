import Gengo.Model.Predicates
import Gengo.Generated.Facts
import Gengo.Lemmas.WalkObj
import Gengo.Driver.Universe
/-! # C20 – type predicates are sound with respect to Go semantics -/
namespace Gengo.C20
open Gengo Gengo.Universe Gengo.Predicates

/-- an object tree that plain assignment copies completely: builtin scalars, defined types over them,
and structs of such – in particular no pointer, map, slice, channel, function or interface anywhere -/
inductive ValueOnly (u : U) : Nat → Prop
  | builtin {o} : u.kind o = .builtin → ValueOnly u o
  | alias {o x} : u.kind o = .alias → (u.obj o).under = some x → u.kind x = .builtin → ValueOnly u o
  | struct {o} : u.kind o = .struct → (∀ m ∈ (u.obj o).members, ValueOnly u m.2.2.2) → ValueOnly u o

/-- **isAssignable_sound** (object level): a type reported assignable consists of value-only parts at
every depth.  (That objects of kind Builtin/Alias/Struct describe Go scalars / defined types / structs
is C01's `walk` invariant; that no reference type has kind Builtin is `builtin_kinds_are_scalars`.) -/
theorem isAssignable_sound (u : U) (fuel : Nat) (o : Nat) (h : isAssignable u fuel o = true) : ValueOnly u o := by
  induction fuel generalizing o with
  | zero => simp [isAssignable] at h
  | succ n ih =>
    simp only [isAssignable, Bool.or_eq_true, Bool.and_eq_true, decide_eq_true_eq, List.all_eq_true] at h
    rcases h with hp | ⟨hk, hm⟩
    · simp only [isPrimitive, Bool.or_eq_true, Bool.and_eq_true, decide_eq_true_eq] at hp
      rcases hp with hp | ⟨h1, h2⟩
      · exact .builtin hp
      · cases hu : (u.obj o).under with
        | none => simp [kindOf, hu] at h2
        | some x => exact .alias h1 hu (by simpa [kindOf, hu] using h2)
    · exact .struct hk (fun m hm' => ih _ (hm m hm'))

/-- **isPrimitive_iff**: reported primitive exactly for builtin objects and defined types over them -/
theorem isPrimitive_iff (u : U) (o : Nat) :
    isPrimitive u o = true ↔ u.kind o = .builtin ∨ (u.kind o = .alias ∧ ∃ x, (u.obj o).under = some x ∧ u.kind x = .builtin) := by
  simp only [isPrimitive, Bool.or_eq_true, Bool.and_eq_true, decide_eq_true_eq]
  constructor
  · rintro (h | ⟨h1, h2⟩)
    · exact .inl h
    · cases hu : (u.obj o).under with
      | none => simp [kindOf, hu] at h2
      | some x => exact .inr ⟨h1, x, rfl, by simpa [kindOf, hu] using h2⟩
  · rintro (h | ⟨h1, x, hx, hk⟩)
    · exact .inl h
    · exact .inr ⟨h1, by simp [kindOf, hx, hk]⟩

/-- **isAnonymousStruct_iff**: only a struct object named `struct{}` (or a defined type over one)
qualifies – a named struct never does, whatever its fields -/
theorem named_struct_not_anonymous (u : U) (fuel : Nat) (o : Nat) (hk : u.kind o = .struct)
    (hn : (u.obj o).name.name ≠ kEmptyStruct) : isAnonymousStruct u fuel o = false := by
  cases fuel with
  | zero => rfl
  | succ n => simp [isAnonymousStruct, hk, hn]

theorem empty_struct_is_anonymous (u : U) (fuel : Nat) (o : Nat) (hk : u.kind o = .struct)
    (hn : (u.obj o).name.name = kEmptyStruct) : isAnonymousStruct u (fuel + 1) o = true := by
  simp [isAnonymousStruct, hk, hn]

/-- (regenerated fact) every table entry of kind Builtin is a predeclared *scalar*: no reference type
can be reported primitive or assignable through the table -/
def scalars : List String := ["bool", "string", "int", "int8", "int16", "int32", "int64", "uint", "uint8", "uint16",
  "uint32", "uint64", "uintptr", "byte", "rune", "float32", "float64", "complex64", "complex128", "float"]

theorem builtin_kinds_are_scalars_v1 :
    Generated.builtinsV1.all (fun e => e.2.2.2 != "Builtin" || scalars.contains e.1) = true := by decide
theorem builtin_kinds_are_scalars_v2 :
    Generated.builtinsV2.all (fun e => e.2.2.2 != "Builtin" || scalars.contains e.1) = true := by decide

/-- **isPrimitive_iff** (table side): every Go scalar is in the table with kind Builtin (F3) -/
theorem scalars_are_builtin_v1 :
    ["bool", "string", "int", "int8", "int16", "int32", "int64", "uint", "uint8", "uint16", "uint32", "uint64", "uintptr",
     "byte", "rune", "float32", "float64", "complex64", "complex128"].all
      (fun s => Generated.builtinsV1.any (fun e => e.1 = s && e.2.2.2 = "Builtin")) = true := by decide
theorem scalars_are_builtin_v2 :
    ["bool", "string", "int", "int8", "int16", "int32", "int64", "uint", "uint8", "uint16", "uint32", "uint64", "uintptr",
     "byte", "rune", "float32", "float64", "complex64", "complex128"].all
      (fun s => Generated.builtinsV2.any (fun e => e.1 = s && e.2.2.2 = "Builtin")) = true := by decide


/-! ### from objects to Go types (full model: Lemmas/WalkDesc.lean, WalkObj.lean)

`isAssignable_sound` says that an assignable object consists of objects of kind Builtin, Alias-over-Builtin and Struct
at every depth.  In a universe built by the loaders these kinds mean what they say about the Go program: -/
open Gengo.WalkDesc Gengo.WalkObj Gengo.WalkInv Gengo.Loader

/-- **struct_object_is_go_struct**: an object of kind Struct that was filled from a node was filled from a struct node,
and its members are that node's fields, one for one -/
theorem struct_object_is_go_struct {bt : List Builtin} {F : Facts} {v2 : Bool} {u : U} (h : Full bt F v2 u) (o : Nat) (ob : Obj) (g : Nat)
    (hob : u.objs[o]? = some ob) (hs : ob.src = some g) (hk : ob.kind = .struct) :
    ∃ fs, F.node g = .struct fs ∧ All2 (MemberMatch F v2 u) ob.members fs := by
  have hd := described h o ob g hob hs
  unfold Desc at hd
  cases hn : F.node g <;> simp only [hn] at hd <;> first
    | exact ⟨_, rfl, hd.2⟩
    | (have := hd.1; rw [hk] at this; cases this)
    | (rw [hk] at hd; cases hd)
    | exact hd.elim

/-- **alias_object_is_defined_type**: an object of kind Alias was filled from a defined type's node, and its underlying
type is the object standing for that node's underlying type -/
theorem alias_object_is_defined_type {bt : List Builtin} {F : Facts} {v2 : Bool} {u : U} (h : Full bt F v2 u) (o : Nat) (ob : Obj) (g : Nat)
    (hob : u.objs[o]? = some ob) (hs : ob.src = some g) (hk : ob.kind = .alias) :
    ∃ und ms tps ou, F.node g = .named und ms tps ou ∧ ElemIs F v2 u ob.under und := by
  have hd := described h o ob g hob hs
  unfold Desc at hd
  cases hn : F.node g <;> simp only [hn] at hd <;> first
    | exact ⟨_, _, _, _, rfl, hd.2⟩
    | (have := hd.1; rw [hk] at this; cases this)
    | (rw [hk] at hd; cases hd)
    | exact hd.elim

/-- **builtin_object_is_table_entry**: an object of kind Builtin was never filled from a node: it is an object of the
builtins table, named after an entry of kind Builtin -/
theorem builtin_object_is_table_entry {bt : List Builtin} {F : Facts} {v2 : Bool} {u : U} (h : Full bt F v2 u) (hj : AllJ (NoSrcOK bt) u)
    (o : Nat) (ob : Obj) (hob : u.objs[o]? = some ob) (hk : ob.kind = .builtin) :
    ob.src = none ∧ ∃ b ∈ bt, b.kind = .builtin ∧ ob.name = ⟨[], b.name⟩ := by
  have hsrc : ob.src = none := by
    cases hs : ob.src with
    | none => rfl
    | some g =>
      have hd := described h o ob g hob hs
      unfold Desc at hd
      cases hn : F.node g <;> simp only [hn] at hd <;> first
        | (have := hd.1; rw [hk] at this; cases this)
        | (rw [hk] at hd; cases hd)
        | exact hd.elim
  refine ⟨hsrc, ?_⟩
  rcases hj o ob hob hsrc with h1 | h1 | ⟨b, hb, hbk, hbn⟩
  · rw [hk] at h1; cases h1
  · rw [hk] at h1; cases h1
  · exact ⟨b, hb, by rw [hbk, hk], hbn⟩

/-- (regenerated fact) the entries of kind Builtin of the tables the loaders run with are named after Go scalars -/
theorem table_builtins_are_scalars_v1 :
    (Gengo.Driver.Universe.builtinsOf Generated.builtinsV1).all (fun b => b.kind != .builtin || (scalars.map String.toList).contains b.name) = true := by decide
theorem table_builtins_are_scalars_v2 :
    (Gengo.Driver.Universe.builtinsOf Generated.builtinsV2).all (fun b => b.kind != .builtin || (scalars.map String.toList).contains b.name) = true := by decide

/-- **assignable_means_scalars_and_structs** (v2 loader; the v1 statement is the same with `findTypesV1`/`addDirsV1`): in a
universe built by any sequence of loads, an object reported assignable is – at every depth (`isAssignable_sound`) – made
of table scalars, defined types and structs, and these objects are what the kinds say: a Builtin object is a table
scalar, a Struct object that was filled from a node was filled from a Go struct node with exactly its fields -/
theorem assignable_means_scalars_and_structs (w : World) (hwf : WellFormed w.facts w.v2) (hbt : WalkName.BtKinds w.bt)
    (req : List Str) (ms : List (List Str)) (a st : LState) (h1 : newUniverseV2 w req = some a) (h2 : WalkIso.loadsV2 w a ms = some st)
    (fuel o : Nat) (h : isAssignable st.u fuel o = true) :
    ValueOnly st.u o ∧
    (∀ (x : Nat) (ob : Obj), st.u.objs[x]? = some ob → ob.kind = .builtin → ob.src = none ∧ ∃ b ∈ w.bt, b.kind = .builtin ∧ ob.name = ⟨[], b.name⟩) ∧
    (∀ (x : Nat) (ob : Obj) (g : Nat), st.u.objs[x]? = some ob → ob.src = some g → ob.kind = .struct →
      ∃ fs, w.facts.node g = .struct fs ∧ All2 (MemberMatch w.facts w.v2 st.u) ob.members fs) := by
  have hf := WalkIso.loadsV2_faithful w hwf hbt req ms a st h1 h2
  have hj := loadsV2_noSrc w req ms a st h1 h2
  exact ⟨isAssignable_sound st.u fuel o h, fun x ob hob hk => builtin_object_is_table_entry hf.1 hj x ob hob hk,
    fun x ob g hob hs hk => struct_object_is_go_struct hf.1 x ob g hob hs hk⟩

end Gengo.C20

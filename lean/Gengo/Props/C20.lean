import Gengo.Model.Loader
namespace Gengo.C20
end Gengo.C20

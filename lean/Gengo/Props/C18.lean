import Gengo.Model.ImportBoss
import Gengo.Lemmas.Closure
/-! # C18 – import-boss verdicts equal the rule semantics over direct and transitive imports -/
namespace Gengo.C18
open Gengo Gengo.Closure Gengo.ImportBoss

/-! ### verdict = first matching rule decides -/

/-- the statement's semantics for one import: the first rule (nearest file first, file order) whose
selector matches decides; no matching rule means allowed -/
def specOK (mtch : Str → Str → Bool) (rules : List Rule) (v : Str) : Bool :=
  match rules.find? (fun r => mtch r.sel v) with
  | none => true
  | some r => r.allowed.any (hasPrefix v) && !r.forbidden.any (hasPrefix v)

theorem fold_done (mtch v) (rs : List Rule) (s : St) (h : s.done = true) :
    rs.foldl (ruleStep mtch v) s = s := by
  induction rs with
  | nil => rfl
  | cons r rs ih => simp [List.foldl_cons, ruleStep, h, ih]

theorem fold_bad (mtch v) (rs : List Rule) (s : St)
    (h : s.forbidden = true ∨ s.mismatched = true) :
    (rs.foldl (ruleStep mtch v) s).forbidden = true ∨ (rs.foldl (ruleStep mtch v) s).mismatched = true := by
  induction rs generalizing s with
  | nil => exact h
  | cons r rs ih =>
    simp only [List.foldl_cons]
    apply ih
    unfold ruleStep
    split
    · exact h
    · split
      · exact h
      · rcases h with h | h <;> split <;> split <;> simp_all

theorem check_spec (mtch : Str → Str → Bool) (v : Str) (rs : List Rule) :
    (!(checkImport mtch rs v).forbidden && !(checkImport mtch rs v).mismatched) = specOK mtch rs v := by
  unfold checkImport specOK
  induction rs with
  | nil => simp
  | cons r rs ih =>
    simp only [List.foldl_cons, List.find?_cons]
    by_cases hm : mtch r.sel v = true
    · simp only [hm]
      by_cases hf : r.forbidden.any (hasPrefix v) = true <;>
      by_cases ha : r.allowed.any (hasPrefix v) = true
      · have : ruleStep mtch v {} r = { forbidden := true, done := true } := by
          simp [ruleStep, hm, hf, ha]
        rw [this, fold_done _ _ _ _ rfl]; simp [hf, ha]
      · have : ruleStep mtch v {} r = { forbidden := true, mismatched := true } := by
          simp [ruleStep, hm, hf, ha]
        rw [this]
        have := fold_bad mtch v rs { forbidden := true, mismatched := true } (.inl rfl)
        rcases this with h | h <;> simp [h, hf, ha]
      · have : ruleStep mtch v {} r = { done := true } := by
          simp [ruleStep, hm, hf, ha]
        rw [this, fold_done _ _ _ _ rfl]; simp [hf, ha]
      · have : ruleStep mtch v {} r = { mismatched := true } := by
          simp [ruleStep, hm, hf, ha]
        rw [this]
        have := fold_bad mtch v rs { mismatched := true } (.inr rfl)
        rcases this with h | h <;> simp [h, hf, ha]
    · have : ruleStep mtch v {} r = {} := by simp [ruleStep, hm]
      rw [this]
      simpa [hm] using ih

/-- **verdict_is_first_match**: the rules pass a package iff every one of its imports matches no
selector, or is allowed and not forbidden by the first matching rule (nearest file first, file
order) – for any selector matcher -/
theorem verdict_is_first_match (mtch : Str → Str → Bool) (stack : Stack) (imports : List Str) :
    passes mtch stack imports = imports.all (specOK mtch (stack.map (·.rules)).flatten) := by
  unfold passes
  congr 1
  funext v
  exact check_spec mtch v _

/-- the same for inverse rules: each (transitive) importer is judged by the first matching inverse
rule among those that apply to it – all of them for a direct importer, only the ones marked
transitive otherwise -/
theorem inverse_verdict_is_first_match (mtch : Str → Str → Bool) (stack : Stack) (importers : List Str)
    (isDirect : Str → Bool) :
    passesInv mtch stack importers isDirect =
      importers.all (fun v => specOK mtch (invApplicable stack (isDirect v)) v) := by
  unfold passesInv
  congr 1
  funext v
  exact check_spec mtch v _

/-- **verdict_order_independent**: the verdict does not depend on the iteration order of the import set -/
theorem verdict_order_independent (mtch : Str → Str → Bool) (stack : Stack) (i₁ i₂ : List Str)
    (h : i₁.Perm i₂) : passes mtch stack i₁ = passes mtch stack i₂ := by
  rw [verdict_is_first_match, verdict_is_first_match, Bool.eq_iff_iff]
  simp only [List.all_eq_true]
  exact ⟨fun H v hv => H v (h.symm.subset hv), fun H v hv => H v (h.subset hv)⟩

theorem inverse_verdict_order_independent (mtch : Str → Str → Bool) (stack : Stack) (i₁ i₂ : List Str)
    (d : Str → Bool) (h : i₁.Perm i₂) : passesInv mtch stack i₁ d = passesInv mtch stack i₂ d := by
  rw [inverse_verdict_is_first_match, inverse_verdict_is_first_match, Bool.eq_iff_iff]
  simp only [List.all_eq_true]
  exact ⟨fun H v hv => H v (h.symm.subset hv), fun H v hv => H v (h.subset hv)⟩

/-! ### transitive importers = graph reachability -/

/-- all edges mention declared packages only -/
def WF (g : Graph) : Prop := ∀ e ∈ g.edges, e.1 < g.n ∧ e.2 < g.n

theorem has_incoming (g : Graph) (a b : Node) : has (incomingAdj g) a b = true ↔ (b, a) ∈ g.edges := by
  unfold has incomingAdj
  simp only [List.contains_iff_mem, List.mem_map]
  constructor
  · rintro ⟨e, he, heq⟩
    obtain ⟨e1, e2⟩ := e
    simp only [Prod.mk.injEq] at heq
    obtain ⟨rfl, rfl⟩ := heq
    exact he
  · intro h; exact ⟨(b, a), h, rfl⟩

theorem mem_inKeys (g : Graph) (hw : WF g) (k : Node) : k ∈ inKeys g ↔ ∃ j, (j, k) ∈ g.edges := by
  unfold inKeys nodes
  simp only [List.mem_filter, List.mem_range, List.any_eq_true, decide_eq_true_eq]
  constructor
  · rintro ⟨_, e, he, rfl⟩; exact ⟨e.1, he⟩
  · rintro ⟨j, hj⟩; exact ⟨(hw _ hj).2, (j, k), hj, rfl⟩

theorem mem_importers (g : Graph) (hw : WF g) (j : Node) : j ∈ importers g ↔ ∃ k, (j, k) ∈ g.edges := by
  unfold importers nodes
  simp only [List.mem_filter, List.mem_range, List.any_eq_true, decide_eq_true_eq]
  constructor
  · rintro ⟨_, e, he, rfl⟩; exact ⟨e.2, he⟩
  · rintro ⟨k, hk⟩; exact ⟨(hw _ hk).1, (j, k), hk, rfl⟩

/-- **warshall_eq_tc**: for every iteration order of the three loops that covers the key sets, the
closure holds exactly the pairs connected by a chain of ≥ 1 imports (`warshall_eq_reach`); hence the
transitive importers reported for a package are exactly the packages from which it is reachable. -/
theorem transitive_importers_eq_reachability (g : Graph) (hw : WF g) (p j : Node) :
    j ∈ transitiveImporters g p ↔ PathVia (fun a b => (b, a) ∈ g.edges) All p j := by
  have key : ∀ i j, has (closureAdj g) i j = true ↔
      PathVia (fun a b => has (incomingAdj g) a b = true) All i j := by
    intro i j
    unfold closureAdj
    apply warshall_eq_reach
    · intro m a b _ h2
      exact (mem_inKeys g hw m).mpr ⟨b, (has_incoming g m b).mp h2⟩
    · intro _ i x h
      exact (mem_inKeys g hw i).mpr ⟨x, (has_incoming g i x).mp h⟩
    · intro _ _ j x h
      exact (mem_importers g hw j).mpr ⟨x, (has_incoming g x j).mp h⟩
  have conv : ∀ {a b}, PathVia (fun a b => has (incomingAdj g) a b = true) All a b ↔
      PathVia (fun a b => (b, a) ∈ g.edges) All a b := by
    intro a b
    constructor
    · intro q
      induction q with
      | edge e => exact .edge ((has_incoming g _ _).mp e)
      | cons e k _ ih => exact .cons ((has_incoming g _ _).mp e) k ih
    · intro q
      induction q with
      | edge e => exact .edge ((has_incoming g _ _).mpr e)
      | cons e k _ ih => exact .cons ((has_incoming g _ _).mpr e) k ih
  unfold transitiveImporters
  constructor
  · intro h
    split at h
    · simp only [List.mem_filter] at h
      exact conv.mp ((key p j).mp h.2)
    · cases h
  · intro q
    have q' := conv.mpr q
    obtain ⟨x, hx⟩ := q'.first
    obtain ⟨y, hy⟩ := q'.last
    have hp : p ∈ inKeys g := (mem_inKeys g hw p).mpr ⟨x, (has_incoming g p x).mp hx⟩
    have hj : j ∈ importers g := (mem_importers g hw j).mpr ⟨y, (has_incoming g y j).mp hy⟩
    have : (inKeys g).contains p = true := by simpa using hp
    rw [if_pos this]
    simp only [List.mem_filter]
    exact ⟨hj, (key p j).mpr q'⟩

/-- the reported list is in ascending order and names every importer once -/
theorem transitive_importers_sorted (g : Graph) (p : Node) :
    (transitiveImporters g p).Pairwise (· < ·) := by
  unfold transitiveImporters
  split
  · unfold importers nodes
    exact ((List.pairwise_lt_range).filter _).filter _
  · exact List.Pairwise.nil

/-- **closure_order_independent**: any two runs of the three loops, whatever their iteration orders
(covering the key sets), relate the same pairs -/
theorem closure_order_independent (adj0 : Adj) (ks ks' : List Node) (is is' : Node → List Node)
    (js js' : Node → Node → List Node)
    (h1 : ∀ m a b, has adj0 a m → has adj0 m b → m ∈ ks) (h1' : ∀ m a b, has adj0 a m → has adj0 m b → m ∈ ks')
    (h2 : ∀ k i x, has adj0 i x → i ∈ is k) (h2' : ∀ k i x, has adj0 i x → i ∈ is' k)
    (h3 : ∀ k i j x, has adj0 x j → j ∈ js k i) (h3' : ∀ k i j x, has adj0 x j → j ∈ js' k i) (i j : Node) :
    has (warshall ks is js adj0) i j = has (warshall ks' is' js' adj0) i j := by
  rw [Bool.eq_iff_iff, warshall_eq_reach adj0 ks is js h1 h2 h3, warshall_eq_reach adj0 ks' is' js' h1' h2' h3']

/-! non-vacuity: a chain 0 → 1 → 2 (0 imports 1, 1 imports 2): 2 is transitively imported by 0 and 1 -/
def chain : Graph := ⟨3, [(0, 1), (1, 2)]⟩
example : WF chain := by intro e he; simp [chain] at he; rcases he with rfl | rfl <;> decide
example : transitiveImporters chain 2 = [0, 1] := by decide
example : specOK (fun s v => s.isPrefixOf v) [⟨"k8s.io".toList, ["k8s.io/api".toList], []⟩] "k8s.io/kube".toList = false := by decide

end Gengo.C18

import Gengo.Model.Loader
namespace Gengo.C06
end Gengo.C06

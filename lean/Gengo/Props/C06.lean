import Gengo.Model.Loader
import Gengo.Lemmas.WalkInv
import Gengo.Generated.Facts
import Gengo.Lemmas.WalkObj
/-! # C06 – one object per type: identity is canonical and references are closed -/
namespace Gengo.C06
open Gengo Gengo.Universe

/-- index bindings persist -/
def Le (u u' : U) : Prop :=
  (∀ n o, AL.lookup n u.types = some o → AL.lookup n u'.types = some o) ∧
  (∀ n o, AL.lookup n u.funcs = some o → AL.lookup n u'.funcs = some o) ∧
  (∀ n o, AL.lookup n u.vars = some o → AL.lookup n u'.vars = some o) ∧
  (∀ n o, AL.lookup n u.consts = some o → AL.lookup n u'.consts = some o)

/-- existing objects are untouched -/
def Keeps (u u' : U) : Prop := ∀ (i : Nat) (ob : Obj), u.objs[i]? = some ob → u'.objs[i]? = some ob

theorem lookup_cons_ne {α} [DecidableEq α] {β} (k k' : α) (v : β) (r : List (α × β)) (h : k' ≠ k) :
    AL.lookup k ((k', v) :: r) = AL.lookup k r := by simp [AL.lookup, h]

theorem lookup_cons_self {α} [DecidableEq α] {β} (k : α) (v : β) (r : List (α × β)) :
    AL.lookup k ((k, v) :: r) = some v := by simp [AL.lookup]

theorem package_keeps (u : U) (p : Str) :
    (u.package p).objs = u.objs ∧ (u.package p).types = u.types ∧ (u.package p).funcs = u.funcs ∧
    (u.package p).vars = u.vars ∧ (u.package p).consts = u.consts ∧ (u.package p).builtinObjs = u.builtinObjs := by
  unfold U.package; split <;> simp

theorem keeps_append (objs : List Obj) (o : Obj) (i : Nat) (ob : Obj) (h : objs[i]? = some ob) :
    (objs ++ [o])[i]? = some ob := by
  have hlt : i < objs.length := (List.getElem?_eq_some_iff.mp h).1
  simp [List.getElem?_append_left hlt, h]

/-- **lookup_idempotent**: `u.Type(n)` twice returns the same object and the second lookup changes nothing -/
theorem type_idempotent (bt : List Builtin) (u : U) (n : Name) :
    U.type bt (U.type bt u n).1 n = ((U.type bt u n).1, (U.type bt u n).2) := by
  have key : AL.lookup n (U.type bt u n).1.types = some (U.type bt u n).2 := by
    unfold U.type
    split
    · rename_i o h; exact h
    · simp only
      split
      · split <;> exact lookup_cons_self _ _ _
      · exact lookup_cons_self _ _ _
  generalize U.type bt u n = r at key
  unfold U.type
  rw [key]

/-- **lookup_monotone**: a lookup never changes an existing binding or an existing object -/
theorem type_monotone (bt : List Builtin) (u : U) (n : Name) :
    (∀ m o, AL.lookup m u.types = some o → AL.lookup m (U.type bt u n).1.types = some o) ∧
    Keeps u (U.type bt u n).1 ∧
    (U.type bt u n).1.funcs = u.funcs ∧ (U.type bt u n).1.vars = u.vars ∧ (U.type bt u n).1.consts = u.consts := by
  unfold U.type
  split
  · exact ⟨fun _ _ h => h, fun _ _ h => h, rfl, rfl, rfl⟩
  · rename_i hnone
    have hp := package_keeps u n.pkg
    have hne : ∀ m o, AL.lookup m u.types = some o → m ≠ n := by
      intro m o hm e; subst e; rw [hnone] at hm; cases hm
    simp only
    split
    · split
      · refine ⟨?_, ?_, ?_, ?_, ?_⟩
        · intro m o hm
          simp only
          rw [lookup_cons_ne _ _ _ _ (fun e => hne m o hm e.symm), hp.2.1]; exact hm
        · intro i ob h; simp only; rw [hp.1]; exact h
        · exact hp.2.2.1
        · exact hp.2.2.2.1
        · exact hp.2.2.2.2.1
      · refine ⟨?_, ?_, ?_, ?_, ?_⟩
        · intro m o hm
          simp only [U.newObj]
          rw [lookup_cons_ne _ _ _ _ (fun e => hne m o hm e.symm), hp.2.1]; exact hm
        · intro i ob h; simp only [U.newObj]; rw [hp.1]; exact keeps_append _ _ _ _ h
        · simp only [U.newObj]; exact hp.2.2.1
        · simp only [U.newObj]; exact hp.2.2.2.1
        · simp only [U.newObj]; exact hp.2.2.2.2.1
    · refine ⟨?_, ?_, ?_, ?_, ?_⟩
      · intro m o hm
        simp only [U.newObj]
        rw [lookup_cons_ne _ _ _ _ (fun e => hne m o hm e.symm), hp.2.1]; exact hm
      · intro i ob h; simp only [U.newObj]; rw [hp.1]; exact keeps_append _ _ _ _ h
      · simp only [U.newObj]; exact hp.2.2.1
      · simp only [U.newObj]; exact hp.2.2.2.1
      · simp only [U.newObj]; exact hp.2.2.2.2.1

def declIdx (u : U) : Decl → List (Name × Nat)
  | .func => u.funcs
  | .var => u.vars
  | .const => u.consts

theorem decl_binds (u : U) (d : Decl) (n : Name) : AL.lookup n (declIdx (u.decl d n).1 d) = some (u.decl d n).2 := by
  cases d <;>
  · unfold U.decl declIdx
    simp only
    split
    · rename_i o h; exact h
    · simp [U.newObj, AL.lookup]

/-- `u.Function/Variable/Constant(n)` twice returns the same object -/
theorem decl_idempotent (u : U) (d : Decl) (n : Name) :
    (u.decl d n).1.decl d n = ((u.decl d n).1, (u.decl d n).2) := by
  have key := decl_binds u d n
  generalize u.decl d n = r at key
  cases d <;>
  · unfold U.decl
    unfold declIdx at key
    simp only at key ⊢
    rw [key]

/-- the content of a builtin object depends on the table entry only – the same in every universe
(pointer identity across universes is checked on the real code by the harness) -/
theorem builtin_object_content (bt : List Builtin) (u : U) (k : Str) (b : Builtin)
    (hb : bt.find? (fun b => b.key = k) = some b) (hnew : AL.lookup ⟨[], k⟩ u.types = none)
    (hfresh : AL.lookup b.var (u.package []).builtinObjs = none) :
    (U.type bt u ⟨[], k⟩).1.objs[(U.type bt u ⟨[], k⟩).2]? = some { name := ⟨[], b.name⟩, kind := b.kind } := by
  unfold U.type
  simp only [hnew, List.isEmpty_nil, if_true, hb, hfresh, U.newObj]
  simp

/-- **builtins_shared**: two keys bound to the same Go variable resolve to one object -/
theorem builtins_shared (bt : List Builtin) (u : U) (k1 k2 : Str) (b1 b2 : Builtin)
    (h1 : bt.find? (fun b => b.key = k1) = some b1) (h2 : bt.find? (fun b => b.key = k2) = some b2)
    (hv : b1.var = b2.var) (hne : k1 ≠ k2)
    (hn1 : AL.lookup ⟨[], k1⟩ u.types = none) (hn2 : AL.lookup ⟨[], k2⟩ u.types = none) :
    (U.type bt (U.type bt u ⟨[], k1⟩).1 ⟨[], k2⟩).2 = (U.type bt u ⟨[], k1⟩).2 := by
  -- after the first lookup the variable's object is registered
  have reg : ∃ o, (U.type bt u ⟨[], k1⟩).2 = o ∧ AL.lookup b1.var (U.type bt u ⟨[], k1⟩).1.builtinObjs = some o ∧
      AL.lookup ⟨[], k2⟩ (U.type bt u ⟨[], k1⟩).1.types = none := by
    unfold U.type
    simp only [hn1, List.isEmpty_nil, if_true, h1]
    have hk : (⟨[], k1⟩ : Name) ≠ ⟨[], k2⟩ := by intro e; cases e; exact hne rfl
    have hp := package_keeps u []
    split
    · rename_i o ho
      refine ⟨o, rfl, ?_, ?_⟩
      · simpa using ho
      · simp only; rw [lookup_cons_ne _ _ _ _ hk, hp.2.1]; exact hn2
    · refine ⟨_, rfl, ?_, ?_⟩
      · simp [U.newObj, AL.lookup]
      · simp only [U.newObj]; rw [lookup_cons_ne _ _ _ _ hk, hp.2.1]; exact hn2
  obtain ⟨o, ho, hreg, hn2'⟩ := reg
  generalize U.type bt u ⟨[], k1⟩ = r at ho hreg hn2'
  unfold U.type
  simp only [hn2', List.isEmpty_nil, if_true, h2]
  have hp := package_keeps r.1 []
  rw [hp.2.2.2.2.2, ← hv, hreg]
  simp [ho]

/-- the two keys of the real tables that share an object -/
theorem byte_uint8_shared_v1 :
    (Generated.builtinsV1.find? (fun e => e.1 = "byte")).map (·.2.1) = (Generated.builtinsV1.find? (fun e => e.1 = "uint8")).map (·.2.1) := by decide

/-! ## the whole universe, on the full model of both parsers (Lemmas/WalkInv.lean) -/
open Gengo.Loader Gengo.WalkInv

/-- **one_object_per_named_type**: in a universe built by the v2 loader (`LoadPackages` + `NewUniverse`, then any
number of `LoadPackagesTo`) any two references – element, key, underlying type, receiver, member, method,
parameter, result, type parameter – from anywhere, from whichever package, to objects of the same name are
references to one object (type parameters are never shared; builtins are treated by `builtins_shared`) -/
theorem one_object_per_name_v2 (w : World) (req : List Str) (st : LState) (h : newUniverseV2 w req = some st)
    (o1 o2 : Nat) (ob1 ob2 : Obj) (r1 r2 : Nat) (t1 t2 : Obj)
    (h1 : st.u.objs[o1]? = some ob1) (h2 : st.u.objs[o2]? = some ob2) (hr1 : r1 ∈ refs ob1) (hr2 : r2 ∈ refs ob2)
    (ht1 : st.u.objs[r1]? = some t1) (ht2 : st.u.objs[r2]? = some t2) (hname : t1.name = t2.name)
    (hk1 : t1.kind ≠ .typeParam) (hk2 : t2.kind ≠ .typeParam)
    (hb : ∀ b ∈ w.bt, t1.name ≠ ⟨[], b.name⟩) : r1 = r2 :=
  same_name_same_object (newUniverseV2_inv w req st h) o1 o2 ob1 ob2 r1 r2 t1 t2 h1 h2 hr1 hr2 ht1 ht2 hname hk1 hk2 hb

/-- the same for the v1 `Builder` (`AddDir…` + `FindTypes`) -/
theorem one_object_per_name_v1 (w : World) (req : List Str) (st : LState) (h : findTypesV1 w req = some st)
    (o1 o2 : Nat) (ob1 ob2 : Obj) (r1 r2 : Nat) (t1 t2 : Obj)
    (h1 : st.u.objs[o1]? = some ob1) (h2 : st.u.objs[o2]? = some ob2) (hr1 : r1 ∈ refs ob1) (hr2 : r2 ∈ refs ob2)
    (ht1 : st.u.objs[r1]? = some t1) (ht2 : st.u.objs[r2]? = some t2) (hname : t1.name = t2.name)
    (hk1 : t1.kind ≠ .typeParam) (hk2 : t2.kind ≠ .typeParam)
    (hb : ∀ b ∈ w.bt, t1.name ≠ ⟨[], b.name⟩) : r1 = r2 :=
  same_name_same_object (findTypesV1_inv w req st h) o1 o2 ob1 ob2 r1 r2 t1 t2 h1 h2 hr1 hr2 ht1 ht2 hname hk1 hk2 hb

/-- **nothing_left_unresolved**: in a loaded universe (v2 / v1) every object referenced from anywhere has a kind:
no reference leads to an unresolved placeholder -/
theorem nothing_unresolved_v2 (w : World) (req : List Str) (st : LState) (h : newUniverseV2 w req = some st)
    (o : Nat) (ob : Obj) (r : Nat) (h1 : st.u.objs[o]? = some ob) (hr : r ∈ refs ob) :
    ∃ t : Obj, st.u.objs[r]? = some t ∧ t.kind ≠ .unknown :=
  nothing_unresolved (newUniverseV2_inv w req st h) o ob r h1 hr

theorem nothing_unresolved_v1 (w : World) (req : List Str) (st : LState) (h : findTypesV1 w req = some st)
    (o : Nat) (ob : Obj) (r : Nat) (h1 : st.u.objs[o]? = some ob) (hr : r ∈ refs ob) :
    ∃ t : Obj, st.u.objs[r]? = some t ∧ t.kind ≠ .unknown :=
  nothing_unresolved (findTypesV1_inv w req st h) o ob r h1 hr

/-- **incremental_loading_keeps_it**: an incremental load (v2 `LoadPackagesTo`, v1 `AddDirTo`) of a universe that
is closed and canonical leaves it so, never unregisters or renames an object and never takes a kind away -/
theorem incremental_keeps_invariant (w : World) (st st' : LState) (hinv : WalkInv.Inv w.bt st.u) :
    (∀ more, loadToV2 w st more = some st' → WalkInv.Inv w.bt st'.u ∧ Grows st.u st'.u) ∧
    (∀ path, addDirToV1 w st path = some st' → WalkInv.Inv w.bt st'.u ∧ Grows st.u st'.u) :=
  ⟨fun more h => loadToV2_inv w st st' more hinv h, fun path h => addDirToV1_inv w st st' path hinv h⟩

/-- … and `walkType` itself, called by hand on any universe that has the invariant (lookups interleaved with
loading), keeps it and returns a registered object with a kind -/
theorem walk_keeps_invariant (bt : List Builtin) (F : Facts) (v2 : Bool) (fuel : Nat) (u : U) (g : Nat) (un : Option Name)
    (u' : U) (o : Nat) (hinv : WalkInv.Inv bt u) (h : walk bt F v2 fuel u g un = some (u', o)) :
    WalkInv.Inv bt u' ∧ Grows u u' ∧ GoodRef u' o := by
  have p := walk_inv bt F v2 fuel u g un u' o hinv h
  exact ⟨p.inv, p.grows, p.good⟩

/-- hand lookups keep the invariant, too -/
theorem type_lookup_keeps_invariant (bt : List Builtin) (u : U) (n : Name) (hinv : WalkInv.Inv bt u) :
    WalkInv.Inv bt (U.type bt u n).1 ∧ Grows u (U.type bt u n).1 :=
  ⟨(type_inv n hinv).1, (type_inv n hinv).2.1⟩

/-! non-vacuity: the empty universe has the invariant, and walking `type T struct { Next *T }` keeps it -/
example (bt : List Builtin) : WalkInv.Inv bt {} := inv_empty bt


/-! ### two different Go types are never merged into one object (Lemmas/WalkName.lean, WalkObj.lean) -/
open Gengo.WalkName Gengo.WalkObj

/-- **never_merged**: in a universe built by any sequence of loads, an object that is registered under two different names
was never filled from a Go type: it has a kind but no source node, i.e. it is an object of the builtins table (the
spellings of one predeclared type, `byte`/`uint8`, share an object on purpose) or a declaration object.  So two
differently printed Go types are always two objects. -/
theorem never_merged_v2 (w : World) (hwf : WalkDesc.WellFormed w.facts w.v2) (hbt : BtKinds w.bt)
    (req : List Str) (ms : List (List Str)) (a st : LState) (h1 : newUniverseV2 w req = some a) (h2 : WalkIso.loadsV2 w a ms = some st)
    (n1 n2 : Name) (o : Nat) (ob : Obj) (l1 : AL.lookup n1 st.u.types = some o) (l2 : AL.lookup n2 st.u.types = some o)
    (hob : st.u.objs[o]? = some ob) (hne : n1 ≠ n2) :
    ob.src = none ∧ (ob.kind = .declarationOf ∨ ∃ b ∈ w.bt, b.kind = ob.kind ∧ ob.name = ⟨[], b.name⟩) := by
  have hf := WalkIso.loadsV2_faithful w hwf hbt req ms a st h1 h2
  have hj := loadsV2_noSrc w req ms a st h1 h2
  have key : ob.kind ≠ .unknown ∧ ob.src = none := by
    rcases hf.2.reg n1 o ob l1 hob with k1 | ⟨e1, _⟩
    · exact k1
    · rcases hf.2.reg n2 o ob l2 hob with k2 | ⟨e2, _⟩
      · exact k2
      · exact absurd (e1.symm.trans e2) hne
  refine ⟨key.2, ?_⟩
  rcases hj o ob hob key.2 with hk | hk | hb
  · exact absurd hk key.1
  · exact .inl hk
  · exact .inr hb

/-- the same for the v1 `Builder` -/
theorem never_merged_v1 (w : World) (hwf : WalkDesc.WellFormed w.facts w.v2) (hbt : BtKinds w.bt)
    (req : List Str) (ps : List Str) (a st : LState) (h1 : findTypesV1 w req = some a) (h2 : WalkIso.addDirsV1 w a ps = some st)
    (n1 n2 : Name) (o : Nat) (ob : Obj) (l1 : AL.lookup n1 st.u.types = some o) (l2 : AL.lookup n2 st.u.types = some o)
    (hob : st.u.objs[o]? = some ob) (hne : n1 ≠ n2) :
    ob.src = none ∧ (ob.kind = .declarationOf ∨ ∃ b ∈ w.bt, b.kind = ob.kind ∧ ob.name = ⟨[], b.name⟩) := by
  have hf := WalkIso.addDirsV1_faithful w hwf hbt req ps a st h1 h2
  have hj := addDirsV1_noSrc w req ps a st h1 h2
  have key : ob.kind ≠ .unknown ∧ ob.src = none := by
    rcases hf.2.reg n1 o ob l1 hob with k1 | ⟨e1, _⟩
    · exact k1
    · rcases hf.2.reg n2 o ob l2 hob with k2 | ⟨e2, _⟩
      · exact k2
      · exact absurd (e1.symm.trans e2) hne
  refine ⟨key.2, ?_⟩
  rcases hj o ob hob key.2 with hk | hk | hb
  · exact absurd hk key.1
  · exact .inl hk
  · exact .inr hb

end Gengo.C06

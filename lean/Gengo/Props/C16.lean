import Gengo.Model.DeepCopySem
/-!
# C16 – deepcopy-gen output really deep-copies
-/
namespace Gengo.C16
open Gengo Gengo.DeepCopy

/-! ## helper lemmas about copiers -/

theorem good_keep (v : Val) (n : Nat) (h : addrs v = []) : Good v n (v, n) := by
  refine ⟨rfl, Nat.le_refl _, ?_⟩
  intro a ha; rw [h] at ha; cases ha

theorem good_nil (n : Nat) : Good .nil n (.nil, n) := good_keep _ _ (by simp [addrs])

def AllP (P : Val → Prop) : Vals → Prop
  | .nil => True
  | .cons v vs => P v ∧ AllP P vs

/-- a copier that is good on every element gives a good copy of the list -/
theorem mapVals_good (c : Copier) (P : Val → Prop) (hc : ∀ v n, P v → Good v n (c v n)) :
    ∀ (vs : Vals) (n : Nat), AllP P vs → GoodL vs n (mapVals c vs n)
  | .nil, n, _ => by simp [mapVals, GoodL, eraseL, addrsL]
  | .cons v vs, n, h => by
    have h1 := hc v n h.1
    have h2 := mapVals_good c P hc vs (c v n).2 h.2
    obtain ⟨e1, l1, a1⟩ := h1
    obtain ⟨e2, l2, a2⟩ := h2
    simp only [mapVals, GoodL, eraseL, addrsL]
    refine ⟨by rw [e1, e2], by omega, ?_⟩
    intro a ha
    rcases List.mem_append.mp ha with ha | ha
    · have := a1 a ha; omega
    · have := a2 a ha; omega

theorem allTy_allP (env : Env) (fa : Nat) (e : TE) : ∀ vs, AllTy env fa vs e → AllP (fun v => HasTy env fa v e) vs
  | .nil, _ => trivial
  | .cons _ vs, h => by
    simp only [AllTy] at h
    exact ⟨h.1, allTy_allP env fa e vs h.2⟩

theorem guarded_good (c : Copier) (P : Val → Prop) (hc : ∀ v n, v ≠ .nil → P v → Good v n (c v n)) (v : Val) (n : Nat)
    (hp : P v) : Good v n (guarded c v n) := by
  cases v with
  | nil => exact good_nil n
  | _ => exact hc _ n (by simp) hp

theorem ifaceCopy_good (call : Copier) (hcall : GoodCopier call) (v : Val) (n : Nat)
    (hv : v = .nil ∨ ∃ d, v = .iface d) : Good v n (ifaceCopy call v n) := by
  rcases hv with rfl | ⟨d, rfl⟩
  · exact good_nil n
  · obtain ⟨e, l, a⟩ := hcall d n
    simp only [ifaceCopy, Good, erase, addrs]
    exact ⟨by rw [e], l, a⟩

/-- wrapping a good copy of the elements in a freshly allocated slice / map / pointer cell -/
theorem wrap_good (vs : Vals) (n : Nat) (r : Vals × Nat) (h : GoodL vs (n + 1) r) :
    (∀ a, Good (.slice a vs) n (.slice n r.1, r.2)) ∧ (∀ a, Good (.map a vs) n (.map n r.1, r.2)) := by
  obtain ⟨e, l, ad⟩ := h
  refine ⟨fun a => ⟨by simp [erase, e], by omega, ?_⟩, fun a => ⟨by simp [erase, e], by omega, ?_⟩⟩ <;>
  · intro x hx
    simp only [addrs] at hx
    rcases List.mem_cons.mp hx with rfl | hx
    · omega
    · have := ad x hx; omega

theorem wrap_ptr_good (d : Val) (n : Nat) (r : Val × Nat) (h : Good d (n + 1) r) (a : Nat) :
    Good (.ptr a d) n (.ptr n r.1, r.2) := by
  obtain ⟨e, l, ad⟩ := h
  refine ⟨by simp [erase, e], by omega, ?_⟩
  intro x hx
  simp only [addrs] at hx
  rcases List.mem_cons.mp hx with rfl | hx
  · omega
  · have := ad x hx; omega

/-! ## assignable types hold no references -/

theorem noaddrL (env : Env) (fa : Nat) (P : TE → Bool)
    (ih : ∀ t v, P t = true → HasTy env fa v t → addrs v = []) :
    ∀ (vs : Vals) (fs : List Field), fs.all (fun fl => P fl.t) = true → FieldsTy env fa vs fs → addrsL vs = []
  | .nil, [], _, _ => rfl
  | .nil, _ :: _, _, h => by simp [FieldsTy] at h
  | .cons _ _, [], _, h => by simp [FieldsTy] at h
  | .cons v vs, fl :: fs, ha, h => by
    simp only [FieldsTy] at h
    simp only [List.all_cons, Bool.and_eq_true] at ha
    simp only [addrsL]
    rw [ih fl.t v ha.1 h.1, noaddrL env fa P ih vs fs ha.2 h.2]; rfl

/-- **assignable_holds_no_reference**: a value of a type `IsAssignable` accepts reaches no mutable storage,
so plain assignment copies it completely -/
theorem noaddr (env : Env) (fa : Nat) : ∀ (f : Nat) (t : TE) (v : Val),
    assignableAux env fa f t = true → HasTy env fa v t → addrs v = [] := by
  intro f
  induction f with
  | zero => intro t v h; simp [assignableAux] at h
  | succ f ih =>
    intro t v ha ht
    unfold assignableAux at ha
    cases hv : view env fa t with
    | builtin =>
      cases v <;> simp only [HasTy, hv] at ht
      simp [addrs]
    | struct fs =>
      simp only [hv] at ha
      cases v <;> simp only [HasTy, hv] at ht
      rename_i vs
      simp only [addrs]
      exact noaddrL env fa (assignableAux env fa f) ih vs fs ha ht
    | _ => simp [hv] at ha

/-! ## `view` does not depend on the fuel once it is enough; defined types are transparent for typing -/

theorem view_mono (env : Env) : ∀ (f : Nat) (t : TE), view env f t ≠ .unknown → view env (f + 1) t = view env f t := by
  intro f
  induction f with
  | zero => intro t h; cases t <;> simp_all [view]
  | succ f ih =>
    intro t h
    cases t with
    | named n =>
      simp only [view] at h ⊢
      cases hf : env.find n with
      | none => simp [hf] at h
      | some d =>
        simp only [hf] at h ⊢
        cases hk : d.kind with
        | alias => simp only [hk] at h ⊢; exact ih _ h
        | _ => rfl
    | _ => simp [view]

theorem view_underTE (env : Env) : ∀ (f : Nat) (t : TE), view env f t ≠ .unknown → view env f (underTE env f t) = view env f t := by
  intro f
  induction f with
  | zero => intro t _; cases t <;> rfl
  | succ f ih =>
    intro t h
    cases t with
    | named n =>
      simp only [underTE]
      cases hf : env.find n with
      | none => rfl
      | some d =>
        simp only
        by_cases hk : d.kind = .alias
        · simp only [hk, ↓reduceIte]
          have hv : view env (f + 1) (.named n) = view env f d.under := by simp [view, hf, hk]
          have hne : view env f d.under ≠ .unknown := by rw [← hv]; exact h
          have h1 := ih d.under hne
          have key : view env (f + 1) (underTE env f d.under) = view env (f + 1) (.named n) := by
            rw [hv, ← h1]
            exact view_mono env f _ (by rw [h1]; exact hne)
          split <;> first | exact key | rfl
        · simp [hk]
    | _ => cases f <;> rfl

theorem hasTy_congr (env : Env) (fa : Nat) (t t' : TE) (h : view env fa t = view env fa t') (v : Val) :
    HasTy env fa v t → HasTy env fa v t' := by
  cases v <;> simp only [HasTy, h] <;> exact id

/-! ## every code shape the generator chooses is a good copy, given good callees -/

/-- the generated methods of the struct types are good on all values of depth below `d` -/
def GenGood (env : Env) (fa : Nat) (gen : TE → Copier) (d : Nat) : Prop :=
  ∀ t v n, depth v < d → HasTy env fa v t → (∃ fs, view env fa t = .struct fs) → hasCustom env t = false →
    Good v n (gen t v n)

/-- what `generateFor` is assumed to do in the recursive positions, on values of depth at most `d` -/
def RecGood (env : Env) (fa : Nat) (call : Copier) (gen : TE → Copier) (d : Nat) (rec : TE → Code) : Prop :=
  ∀ t v n, (rec t).ok = true → v ≠ .nil → depth v ≤ d → HasTy env fa v t → Good v n (exec call gen (rec t) v n)

theorem allP_and (P Q : Val → Prop) : ∀ vs, AllP P vs → AllP Q vs → AllP (fun v => P v ∧ Q v) vs
  | .nil, _, _ => trivial
  | .cons _ vs, hp, hq => ⟨⟨hp.1, hq.1⟩, allP_and P Q vs hp.2 hq.2⟩

theorem allP_depth (d : Nat) : ∀ vs, depthL vs < d → AllP (fun v => depth v < d) vs
  | .nil, _ => trivial
  | .cons v vs, h => by
    simp only [depthL] at h
    exact ⟨by omega, allP_depth d vs (by omega)⟩

theorem empty_noaddr (env : Env) (fa : Nat) (v : Val) (ht : HasTy env fa v .empty) : addrs v = [] := by
  have hv : view env fa .empty = .struct [] := by cases fa <;> rfl
  cases v <;> simp only [HasTy, hv] at ht
  rename_i vs
  cases vs with
  | nil => simp [addrs, addrsL]
  | cons _ _ => simp [FieldsTy] at ht

theorem iface_shape (env : Env) (fa : Nat) (v : Val) (t : TE) (nm : Str) (hv : view env fa t = .iface nm)
    (ht : HasTy env fa v t) : v = .nil ∨ ∃ d, v = .iface d := by
  cases v <;> simp only [HasTy, hv] at ht
  · exact .inl rfl
  · exact .inr ⟨_, rfl⟩

theorem mapValOf_good (env : Env) (fa : Nat) (call : Copier) (hcall : GoodCopier call) (gen : TE → Copier) (d : Nat)
    (hgen : GenGood env fa gen d) (rec : TE → Code)
    (hrec : RecGood env fa call gen d rec) (e : TE) (v : Val) (n : Nat)
    (hok : (mapValOf env fa rec e).ok = true) (hd : depth v < d) (ht : HasTy env fa v e) :
    Good v n (exec call gen (mapValOf env fa rec e) v n) := by
  unfold mapValOf at hok ⊢
  by_cases hc : hasCustom env e = true
  · simp only [hc, ↓reduceIte]
    split <;> exact hcall v n
  · simp only [hc, Bool.false_eq_true, ↓reduceIte] at hok ⊢
    by_cases he : e = .empty
    · simp only [he, ↓reduceIte]
      exact good_keep _ _ (empty_noaddr env fa v (he ▸ ht))
    · simp only [he, ↓reduceIte] at hok ⊢
      by_cases ha : assignable env fa e = true
      · simp only [ha, ↓reduceIte]
        exact good_keep _ _ (noaddr env fa fa e v ha ht)
      · simp only [ha, Bool.false_eq_true, ↓reduceIte] at hok ⊢
        have href : (rec e).ok = true → Good v n (guarded (exec call gen (rec e)) v n) := fun hk =>
          guarded_good _ (fun v => HasTy env fa v e ∧ depth v ≤ d)
            (fun v n hne hp => hrec e v n hk hne hp.2 hp.1) v n ⟨ht, by omega⟩
        cases hv : view env fa e with
        | iface nm =>
          simp only [hv] at hok ⊢
          by_cases hn : nm = kEmptyIface
          · simp [hn, Code.ok] at hok
          · simp only [hn, ↓reduceIte]
            exact ifaceCopy_good call hcall v n (iface_shape env fa v e nm hv ht)
        | slice e' => simp only [hv] at hok ⊢; exact href (by simpa [Code.ok] using hok)
        | map k e' => simp only [hv] at hok ⊢; exact href (by simpa [Code.ok] using hok)
        | ptr e' => simp only [hv] at hok ⊢; exact href (by simpa [Code.ok] using hok)
        | struct fs => simp only [hv]; exact hgen e v n hd ht ⟨fs, hv⟩ (by simpa using hc)
        | builtin => simp [hv, Code.ok] at hok
        | array _ _ => simp [hv, Code.ok] at hok
        | unknown => simp [hv, Code.ok] at hok

theorem allP_mono (P Q : Val → Prop) (h : ∀ v, P v → Q v) : ∀ vs, AllP P vs → AllP Q vs
  | .nil, _ => trivial
  | .cons _ vs, hp => ⟨h _ hp.1, allP_mono P Q h vs hp.2⟩

theorem addrsL_nil : ∀ vs : Vals, AllP (fun v => addrs v = []) vs → addrsL vs = []
  | .nil, _ => rfl
  | .cons v vs, h => by simp only [addrsL]; rw [h.1, addrsL_nil vs h.2]; rfl

theorem sliceBodyOf_good (env : Env) (fa : Nat) (call : Copier) (hcall : GoodCopier call) (gen : TE → Copier) (d : Nat)
    (hgen : GenGood env fa gen d) (rec : TE → Code)
    (hrec : RecGood env fa call gen d rec) (t e : TE) (a : Nat) (vs : Vals) (n : Nat)
    (hok : (sliceBodyOf env fa rec t e).ok = true) (hd : depthL vs < d) (ht : AllTy env fa vs e) :
    Good (.slice a vs) n (exec call gen (sliceBodyOf env fa rec t e) (.slice a vs) n) := by
  have hall := allP_and _ _ vs (allTy_allP env fa e vs ht) (allP_depth d vs hd)
  unfold sliceBodyOf at hok ⊢
  by_cases hc : hasCustom env e = true
  · simp only [hc, ↓reduceIte, exec]
    exact (wrap_good vs n _ (mapVals_good call (fun _ => True) (fun v n _ => hcall v n) vs (n + 1)
      (allP_mono _ _ (fun _ _ => trivial) vs hall))).1 a
  · simp only [hc, Bool.false_eq_true, ↓reduceIte] at hok ⊢
    have hcopy : ∀ (h : AllP (fun v => addrs v = []) vs), Good (.slice a vs) n (.slice n vs, n + 1) := by
      intro h
      refine ⟨by simp [erase], by omega, ?_⟩
      intro x hx
      simp only [addrs, addrsL_nil vs h] at hx
      simp at hx; omega
    cases hv : view env fa e with
    | builtin =>
      simp only [hv, exec]
      apply hcopy
      refine allP_mono _ _ (fun v hvt => ?_) vs hall
      have hvt := hvt.1
      cases v <;> simp only [HasTy, hv] at hvt
      simp [addrs]
    | _ =>
      simp only [hv] at hok ⊢
      by_cases ha : assignable env fa e = true
      · simp only [ha, ↓reduceIte, exec]
        exact hcopy (allP_mono _ _ (fun v hvt => noaddr env fa fa e v ha hvt.1) vs hall)
      · simp only [ha, Bool.false_eq_true, ↓reduceIte] at hok ⊢
        first
        | (simp only [exec]
           exact (wrap_good vs n _ (mapVals_good _ (fun v => HasTy env fa v e ∧ depth v < d)
              (fun v n hp => guarded_good _ (fun v => HasTy env fa v e ∧ depth v ≤ d)
                (fun v n hne hp => hrec e v n (by simpa [Code.ok] using hok) hne hp.2 hp.1) v n ⟨hp.1, by omega⟩) vs (n + 1) hall)).1 a)
        | (rename_i fs
           simp only [exec]
           exact (wrap_good vs n _ (mapVals_good (gen e) (fun v => HasTy env fa v e ∧ depth v < d)
              (fun v n hp => hgen e v n hp.2 hp.1 ⟨fs, hv⟩ (by simpa using hc)) vs (n + 1) hall)).1 a)
        | (rename_i nm
           by_cases hn : nm = kEmptyIface
           · simp [hn, Code.ok] at hok
           · simp only [hn, ↓reduceIte, exec]
             exact (wrap_good vs n _ (mapVals_good _ (fun v => HasTy env fa v e ∧ depth v < d)
                (fun v n hp => ifaceCopy_good call hcall v n (iface_shape env fa v e nm hv hp.1)) vs (n + 1) hall)).1 a)
        | simp [Code.ok] at hok

theorem arr_good (vs : Vals) (n : Nat) (r : Vals × Nat) (h : GoodL vs n r) : Good (.arr vs) n (.arr r.1, r.2) := by
  obtain ⟨e, l, ad⟩ := h
  exact ⟨by simp [erase, e], l, by simpa [addrs] using ad⟩

theorem struct_good (vs : Vals) (n : Nat) (r : Vals × Nat) (h : GoodL vs n r) : Good (.struct vs) n (.struct r.1, r.2) := by
  obtain ⟨e, l, ad⟩ := h
  exact ⟨by simp [erase, e], l, by simpa [addrs] using ad⟩

/-- arrays for which the generator keeps the plain assignment hold no references -/
theorem arrNoaddr (env : Env) (fa : Nat) : ∀ (f : Nat) (e : TE) (v : Val),
    arrayAssignable env fa f e = true → HasTy env fa v e → addrs v = [] := by
  intro f
  induction f with
  | zero => intro e v h; simp [arrayAssignable] at h
  | succ f ih =>
    intro e v ha ht
    unfold arrayAssignable at ha
    by_cases hc : hasCustom env e = true
    · simp [hc] at ha
    · simp only [hc, Bool.false_eq_true, ↓reduceIte] at ha
      cases hv : view env fa e with
      | array len e' =>
        simp only [hv] at ha
        cases v <;> simp only [HasTy, hv] at ht
        rename_i vs
        simp only [addrs]
        exact addrsL_nil vs (allP_mono _ _ (fun w hw => ih e' w ha hw) vs (allTy_allP env fa e' vs ht))
      | builtin =>
        cases v <;> simp only [HasTy, hv] at ht
        simp [addrs]
      | _ =>
        simp only [hv] at ha
        exact noaddr env fa fa e v ha ht

theorem arrayElemOf_good (env : Env) (fa : Nat) (call : Copier) (hcall : GoodCopier call) (gen : TE → Copier) (d : Nat)
    (hgen : GenGood env fa gen d) (rec : TE → Code)
    (hrec : RecGood env fa call gen d rec) : ∀ (f : Nat) (e : TE) (v : Val) (n : Nat),
    (arrayElemOf env fa rec f e).ok = true → depth v < d → HasTy env fa v e →
    Good v n (exec call gen (arrayElemOf env fa rec f e) v n) := by
  intro f
  induction f with
  | zero => intro e v n hok; simp [arrayElemOf, Code.ok] at hok
  | succ f ih =>
    intro e v n hok hd ht
    unfold arrayElemOf at hok ⊢
    by_cases hc : hasCustom env e = true
    · simp only [hc, ↓reduceIte]; exact hcall v n
    · simp only [hc, Bool.false_eq_true, ↓reduceIte] at hok ⊢
      cases hv : view env fa e with
      | array len e' =>
        simp only [hv] at hok ⊢
        cases v <;> simp only [HasTy, hv] at ht
        rename_i vs
        simp only [depth] at hd
        have hall := allP_and _ _ vs (allTy_allP env fa e' vs ht) (allP_depth d vs (by omega))
        by_cases ha : arrayAssignable env fa fa e' = true
        · simp only [ha, ↓reduceIte]
          apply good_keep
          simp only [addrs]
          exact addrsL_nil vs (allP_mono _ _ (fun w hw => arrNoaddr env fa fa e' w ha hw.1) vs hall)
        · simp only [ha, Bool.false_eq_true, ↓reduceIte, exec] at hok ⊢
          exact arr_good vs n _ (mapVals_good _ (fun w => HasTy env fa w e' ∧ depth w < d)
            (fun w n hw => ih e' w n (by simpa [Code.ok] using hok) hw.2 hw.1) vs n hall)
      | iface nm =>
        simp only [hv] at hok ⊢
        by_cases hn : nm = kEmptyIface
        · simp [hn, Code.ok] at hok
        · simp only [hn, ↓reduceIte]
          exact ifaceCopy_good call hcall v n (iface_shape env fa v e nm hv ht)
      | struct fs => simp only [hv]; exact hgen e v n hd ht ⟨fs, hv⟩ (by simpa using hc)
      | builtin => simp [hv, Code.ok] at hok
      | unknown => simp [hv, Code.ok] at hok
      | _ =>
        simp only [hv] at hok ⊢
        exact guarded_good _ (fun v => HasTy env fa v e ∧ depth v ≤ d)
          (fun v n hne hp => hrec e v n (by simpa [Code.ok] using hok) hne hp.2 hp.1) v n ⟨ht, by omega⟩

theorem fixOf_good (env : Env) (fa : Nat) (call : Copier) (hcall : GoodCopier call) (gen : TE → Copier) (d : Nat)
    (hgen : GenGood env fa gen d) (rec : TE → Code)
    (hrec : RecGood env fa call gen d rec) (m : Field) (v : Val) (n : Nat)
    (hok : (fixOf env fa rec m).ok = true) (hd : depth v < d) (ht : HasTy env fa v m.t) :
    Good v n (exec call gen (fixOf env fa rec m) v n) := by
  unfold fixOf at hok ⊢
  by_cases hc : hasCustom env m.t = true
  · simp only [hc, ↓reduceIte]; split <;> exact hcall v n
  · simp only [hc, Bool.false_eq_true, ↓reduceIte] at hok ⊢
    cases hv : view env fa m.t with
    | builtin =>
      simp only [hv]
      cases v <;> simp only [HasTy, hv] at ht
      exact good_keep _ _ (by simp [addrs])
    | array len e =>
      simp only [hv] at hok ⊢
      cases v <;> simp only [HasTy, hv] at ht
      rename_i vs
      simp only [depth] at hd
      have hall := allP_and _ _ vs (allTy_allP env fa e vs ht) (allP_depth d vs (by omega))
      by_cases ha : arrayAssignable env fa fa e = true
      · simp only [ha, ↓reduceIte]
        apply good_keep
        simp only [addrs]
        exact addrsL_nil vs (allP_mono _ _ (fun w hw => arrNoaddr env fa fa e w ha hw.1) vs hall)
      · simp only [ha, Bool.false_eq_true, ↓reduceIte, exec] at hok ⊢
        exact arr_good vs n _ (mapVals_good _ (fun w => HasTy env fa w e ∧ depth w < d)
          (fun w n hw => arrayElemOf_good env fa call hcall gen d hgen rec hrec fa e w n (by simpa [Code.ok] using hok) hw.2 hw.1) vs n hall)
    | struct fs =>
      simp only [hv] at hok ⊢
      by_cases ha : assignable env fa m.t = true
      · simp only [ha, ↓reduceIte]
        exact good_keep _ _ (noaddr env fa fa m.t v ha ht)
      · simp only [ha, Bool.false_eq_true, ↓reduceIte]
        exact hgen m.t v n hd ht ⟨fs, hv⟩ (by simpa using hc)
    | iface nm =>
      simp only [hv] at hok ⊢
      by_cases hn : nm = kEmptyIface
      · simp [hn, Code.ok] at hok
      · simp only [hn, ↓reduceIte]
        exact ifaceCopy_good call hcall v n (iface_shape env fa v m.t nm hv ht)
    | unknown => simp [hv, Code.ok] at hok
    | _ =>
      simp only [hv] at hok ⊢
      exact guarded_good _ (fun v => HasTy env fa v m.t ∧ depth v ≤ d)
        (fun v n hne hp => hrec m.t v n (by simpa [Code.ok] using hok) hne hp.2 hp.1) v n ⟨ht, by omega⟩

theorem fixupsOf_good (env : Env) (fa : Nat) (call : Copier) (hcall : GoodCopier call) (gen : TE → Copier) (d : Nat)
    (hgen : GenGood env fa gen d) (rec : TE → Code)
    (hrec : RecGood env fa call gen d rec) : ∀ (fs : List Field) (vs : Vals) (n : Nat),
    (fixupsOf env fa rec fs).ok = true → depthL vs < d → FieldsTy env fa vs fs →
    GoodL vs n (execFix call gen (fixupsOf env fa rec fs) vs n)
  | [], .nil, n, _, _, _ => by simp [fixupsOf, execFix, GoodL, eraseL, addrsL]
  | [], .cons _ _, _, _, _, h => by simp [FieldsTy] at h
  | _ :: _, .nil, _, _, _, h => by simp [FieldsTy] at h
  | m :: fs, .cons v vs, n, hok, hd, h => by
    simp only [FieldsTy] at h
    simp only [depthL] at hd
    simp only [fixupsOf, Code.ok, Bool.and_eq_true] at hok
    have h1 := fixOf_good env fa call hcall gen d hgen rec hrec m v n hok.1 (by omega) h.1
    have h2 := fixupsOf_good env fa call hcall gen d hgen rec hrec fs vs (exec call gen (fixOf env fa rec m) v n).2 hok.2 (by omega) h.2
    obtain ⟨e1, l1, a1⟩ := h1
    obtain ⟨e2, l2, a2⟩ := h2
    simp only [fixupsOf, execFix, GoodL, eraseL, addrsL]
    refine ⟨by rw [e1, e2], by omega, ?_⟩
    intro a ha
    rcases List.mem_append.mp ha with ha | ha
    · have := a1 a ha; omega
    · have := a2 a ha; omega

theorem ptrBodyOf_good (env : Env) (fa : Nat) (call : Copier) (hcall : GoodCopier call) (gen : TE → Copier) (d : Nat)
    (hgen : GenGood env fa gen d) (rec : TE → Code)
    (hrec : RecGood env fa call gen d rec) (dp : Bool) (e : TE) (a : Nat) (pv : Val) (n : Nat)
    (hok : (ptrBodyOf env fa rec dp e).ok = true) (hd : depth pv < d) (ht : HasTy env fa pv e) :
    Good (.ptr a pv) n (exec call gen (ptrBodyOf env fa rec dp e) (.ptr a pv) n) := by
  unfold ptrBodyOf at hok ⊢
  by_cases hc : hasCustom env e = true
  · simp only [hc, ↓reduceIte]
    split <;> (simp only [exec]; exact wrap_ptr_good pv n _ (hcall pv (n + 1)) a)
  · simp only [hc, Bool.false_eq_true, ↓reduceIte] at hok ⊢
    by_cases ha : assignable env fa e = true
    · simp only [ha, ↓reduceIte, exec]
      refine ⟨by simp [erase], by omega, ?_⟩
      intro x hx
      simp only [addrs, noaddr env fa fa e pv ha ht] at hx
      simp at hx; omega
    · simp only [ha, Bool.false_eq_true, ↓reduceIte] at hok ⊢
      have href : ∀ (hne : view env fa e ≠ .unknown) (hk : (rec (underTE env fa e)).ok = true),
          Good (.ptr a pv) n (exec call gen (.ptrRef e (rec (underTE env fa e))) (.ptr a pv) n) := by
        intro hne hk
        simp only [exec]
        apply wrap_ptr_good
        exact guarded_good _ (fun v => HasTy env fa v (underTE env fa e) ∧ depth v ≤ d)
          (fun v n hnil hp => hrec _ v n hk hnil hp.2 hp.1) pv (n + 1)
          ⟨hasTy_congr env fa e _ (view_underTE env fa e hne).symm pv ht, by omega⟩
      cases hv : view env fa e with
      | struct fs =>
        simp only [hv, exec]
        exact wrap_ptr_good pv n _ (hgen e pv (n + 1) hd ht ⟨fs, hv⟩ (by simpa using hc)) a
      | map k e' => simp only [hv] at hok ⊢; exact href (by simp [hv]) (by simpa [Code.ok] using hok)
      | slice e' => simp only [hv] at hok ⊢; exact href (by simp [hv]) (by simpa [Code.ok] using hok)
      | ptr e' => simp only [hv] at hok ⊢; exact href (by simp [hv]) (by simpa [Code.ok] using hok)
      | _ => simp [hv, Code.ok] at hok

/-- **generateFor_is_deep_copy** (one method body): for every type the generator accepts (no `klog.Fatalf`)
and every non-nil value of it of depth at most `d`, the emitted body leaves in `*out` a value deeply equal
to `*in` (nil versus empty included) that is built from freshly allocated storage only – provided the
hand-written methods and the `DeepCopy<Iface>` methods of dynamic values are good, and the generated methods
of the struct types it calls are good on values of depth below `d` -/
theorem genFor_good (env : Env) (fa : Nat) (call : Copier) (hcall : GoodCopier call) (gen : TE → Copier) (d : Nat)
    (hgen : GenGood env fa gen d) : ∀ f, RecGood env fa call gen d (genFor env fa f) := by
  intro f
  induction f with
  | zero => intro t v n hok; simp [genFor, Code.ok] at hok
  | succ f ih =>
    intro t v n hok hne hd ht
    unfold genFor at hok ⊢
    cases hv : view env fa t with
    | builtin =>
      simp only [hv]
      split
      · exact hcall v n
      · cases v <;> simp only [HasTy, hv] at ht
        exact good_keep _ _ (by simp [addrs])
    | map k e =>
      simp only [hv] at hok ⊢
      by_cases hc : hasCustom env t = true
      · simp only [hc, ↓reduceIte]; exact hcall v n
      · simp only [hc, Bool.false_eq_true, ↓reduceIte] at hok ⊢
        by_cases hk : assignable env fa k = true
        · simp only [hk, Bool.not_true, Bool.false_eq_true, ↓reduceIte] at hok ⊢
          cases v <;> simp only [HasTy, hv] at ht
          · exact absurd rfl hne
          · rename_i a vs
            simp only [depth] at hd
            simp only [exec]
            exact (wrap_good vs n _ (mapVals_good _ (fun w => HasTy env fa w e ∧ depth w < d)
              (fun w n hw => mapValOf_good env fa call hcall gen d hgen _ ih e w n (by simpa [Code.ok] using hok) hw.2 hw.1)
              vs (n + 1) (allP_and _ _ vs (allTy_allP env fa e vs ht) (allP_depth d vs (by omega))))).2 a
        · simp [hk, Code.ok] at hok
    | slice e =>
      simp only [hv] at hok ⊢
      by_cases hc : hasCustom env t = true
      · simp only [hc, ↓reduceIte]; exact hcall v n
      · simp only [hc, Bool.false_eq_true, ↓reduceIte] at hok ⊢
        cases v <;> simp only [HasTy, hv] at ht
        · exact absurd rfl hne
        · simp only [depth] at hd
          exact sliceBodyOf_good env fa call hcall gen d hgen _ ih t e _ _ n hok (by omega) ht
    | struct fs =>
      simp only [hv] at hok ⊢
      by_cases hc : hasCustom env t = true
      · simp only [hc, ↓reduceIte]; exact hcall v n
      · simp only [hc, Bool.false_eq_true, ↓reduceIte] at hok ⊢
        cases v <;> simp only [HasTy, hv] at ht
        rename_i vs
        simp only [depth] at hd
        simp only [exec]
        exact struct_good vs n _ (fixupsOf_good env fa call hcall gen d hgen _ ih fs vs n (by simpa [Code.ok] using hok) (by omega) ht)
    | ptr e =>
      simp only [hv] at hok ⊢
      cases v <;> simp only [HasTy, hv] at ht
      · exact absurd rfl hne
      · simp only [depth] at hd
        exact ptrBodyOf_good env fa call hcall gen d hgen _ ih _ e _ _ n hok (by omega) ht
    | _ => simp [hv, Code.ok] at hok

/-! ## closing the loop: the generated methods call each other -/

/-- the generated `DeepCopyInto` of struct type `t`, `k` levels of calls deep (at level 0 nothing is known:
the value is returned as it is) -/
def methodCopy (env : Env) (fa : Nat) (call : Copier) : Nat → TE → Copier
  | 0, _ => fun v n => (v, n)
  | k + 1, t => exec call (methodCopy env fa call k) (genFor env fa fa t)

/-- the generator accepts every struct type of the program (the tool ran through without `klog.Fatalf`) -/
def Accepted (env : Env) (fa : Nat) : Prop :=
  ∀ t fs, view env fa t = .struct fs → hasCustom env t = false → (genFor env fa fa t).ok = true

/-- **generated_methods_are_deep_copies**: with `k` levels of calls available, the generated methods are good
on every value of depth below `k` – no assumption about generated code is left, only the hand-written
methods and the interface implementations are assumed good -/
theorem methodCopy_good (env : Env) (fa : Nat) (call : Copier) (hcall : GoodCopier call) (hacc : Accepted env fa) :
    ∀ k, GenGood env fa (methodCopy env fa call k) k := by
  intro k
  induction k with
  | zero => intro t v n hd; omega
  | succ k ih =>
    intro t v n hd ht hs hc
    obtain ⟨fs, hv⟩ := hs
    have hne : v ≠ .nil := by
      intro e; subst e; simp [HasTy, hv] at ht
    exact genFor_good env fa call hcall _ k ih fa t v n (hacc t fs hv hc) hne (by omega) ht

/-! ## the generated methods -/

/-- `DeepCopy()` of a generated type: the nil test for reference types, then `DeepCopyInto` into a new value -/
def deepCopy (call : Copier) (gen : TE → Copier) (reference : Bool) (into : Code) : Copier := fun v n =>
  if reference then guarded (exec call gen into) v n else exec call gen into v n

theorem selected_not_iface (env : Env) (fa : Nat) (d : Decl) (hfind : env.find d.qname = some d)
    (hsel : selected env fa d = true) (nm : Str) : view env fa (.named d.qname) ≠ .iface nm := by
  intro hv
  simp only [selected, Bool.and_eq_true] at hsel
  have hc := hsel.1.1.2
  unfold copyable at hc
  split at hc
  · cases hc
  · split at hc
    · cases hc
    · cases hk : d.kind with
      | iface => simp [hk] at hc
      | struct =>
        cases fa with
        | zero => simp [view] at hv
        | succ f => simp [view, hfind, hk] at hv
      | alias => simp [hk, hv] at hc

/-- **deepcopy_is_deep**: `DeepCopy()` of a type selected for generation returns, for every value of the type,
a value deeply equal to the receiver (nil for nil, empty for empty) built from fresh storage only. The
generated methods it reaches are the ones the generator emits (`methodCopy`); assumed good are only the
hand-written methods and the `DeepCopy<Iface>` implementations (`call`). -/
theorem deepCopy_good (env : Env) (fa : Nat) (call : Copier) (hcall : GoodCopier call) (hacc : Accepted env fa)
    (d : Decl) (code : Code)
    (hfind : env.find d.qname = some d) (hsel : selected env fa d = true)
    (hcode : (methodsOf env fa d).into = some code) (hok : code.ok = true) (v : Val) (n : Nat)
    (ht : HasTy env fa v (.named d.qname)) :
    Good v n (deepCopy call (methodCopy env fa call (depth v)) (methodsOf env fa d).reference code v n) := by
  have hbody : ∀ w m, w ≠ .nil → depth w ≤ depth v → HasTy env fa w (.named d.qname) →
      Good w m (exec call (methodCopy env fa call (depth v)) code w m) := by
    intro w m hne hdw hw
    simp only [methodsOf] at hcode
    split at hcode
    · cases hcode
    · split at hcode
      · cases hcode; exact hcall w m
      · cases hcode
        exact genFor_good env fa call hcall _ (depth v) (methodCopy_good env fa call hcall hacc (depth v)) fa _ w m hok hne hdw hw
  unfold deepCopy
  split
  · exact guarded_good _ (fun w => HasTy env fa w (.named d.qname) ∧ depth w ≤ depth v)
      (fun w m hne hw => hbody w m hne hw.2 hw.1) v n ⟨ht, Nat.le_refl _⟩
  · rename_i href
    apply hbody v n _ (Nat.le_refl _) ht
    -- a value of a non-reference type is never nil
    intro hnil; subst hnil
    simp only [methodsOf, isReference] at href
    cases hv : view env fa (.named d.qname) with
    | iface nm => exact selected_not_iface env fa d hfind hsel nm hv
    | _ => simp only [HasTy, hv] at ht <;> simp [hv, isRefView] at href

/-- **no_shared_storage**: if the original lives in storage allocated before the copy started, copy and
original share none -/
theorem no_shared_storage (v : Val) (n : Nat) (r : Val × Nat) (hg : Good v n r) (hv : ∀ a ∈ addrs v, a < n) :
    ∀ a, a ∈ addrs v → a ∉ addrs r.1 := by
  intro a ha hr
  have := hg.2.2 a hr
  have := hv a ha
  omega

/-! ## hand-written methods are called, not regenerated -/

/-- **handwritten_not_regenerated**: a method the type's author wrote is not generated again -/
theorem handwritten_not_regenerated (env : Env) (fa : Nat) (d : Decl) :
    (d.custom = .ptr → (methodsOf env fa d).into = none ∧ (methodsOf env fa d).deepCopy = false) ∧
    (d.custom = .into → (methodsOf env fa d).into = none ∧ (methodsOf env fa d).deepCopy = true) ∧
    (d.custom = .val → (methodsOf env fa d).into = some .callDeepCopy ∧ (methodsOf env fa d).deepCopy = false) := by
  refine ⟨fun h => ?_, fun h => ?_, fun h => ?_⟩ <;> simp [methodsOf, h]

/-- **handwritten_called**: wherever a value of a type with hand-written methods occurs – map value, slice
element, struct member, array element, pointee – the emitted code copies it by calling those methods -/
theorem handwritten_called (env : Env) (fa : Nat) (call : Copier) (gen : TE → Copier) (rec : TE → Code) (e : TE)
    (hc : hasCustom env e = true) :
    exec call gen (mapValOf env fa rec e) = call ∧
    (∀ t a vs n, exec call gen (sliceBodyOf env fa rec t e) (.slice a vs) n =
        (.slice n (mapVals call vs (n + 1)).1, (mapVals call vs (n + 1)).2)) ∧
    (∀ m : Field, m.t = e → exec call gen (fixOf env fa rec m) = call) ∧
    (∀ f, exec call gen (arrayElemOf env fa rec (f + 1) e) = call) ∧
    (∀ dp a d n, exec call gen (ptrBodyOf env fa rec dp e) (.ptr a d) n = (.ptr n (call d (n + 1)).1, (call d (n + 1)).2)) := by
  refine ⟨?_, ?_, ?_, ?_, ?_⟩
  · unfold mapValOf; simp only [hc, ↓reduceIte]; split <;> rfl
  · intro t a vs n; unfold sliceBodyOf; simp only [hc, ↓reduceIte, exec]
  · intro m hm; subst hm; unfold fixOf; simp only [hc, ↓reduceIte]; split <;> rfl
  · intro f; unfold arrayElemOf; simp only [hc, ↓reduceIte]; rfl
  · intro dp a d n; unfold ptrBodyOf; simp only [hc, ↓reduceIte]; split <;> simp only [exec]

/-! ## tags select exactly the tagged types -/

/-- **tags_select**: methods are generated for a declared type iff it is copyable and either the package is
tagged and the type has not opted out, or the package is not tagged and the type has opted in -/
theorem selected_iff (env : Env) (fa : Nat) (d : Decl) :
    selected env fa d = true ↔
      copyable env fa d = true ∧
      ((pkgAll env d.pkg = true ∧ d.tag ≠ some kFalse) ∨ (pkgAll env d.pkg = false ∧ d.tag = some kTrue)) := by
  unfold selected
  cases hp : pkgAll env d.pkg <;> cases hc : copyable env fa d <;> simp

/-- an opted-out type, an unexported type and an interface are never copyable -/
theorem never_selected (env : Env) (fa : Nat) (d : Decl)
    (h : d.tag = some kFalse ∨ isPrivate d.name = true ∨ d.kind = .iface) : selected env fa d = false := by
  have : copyable env fa d = false := by
    unfold copyable
    rcases h with h | h | h
    · simp [h]
    · split
      · rfl
      · simp [h]
    · split
      · rfl
      · split
        · rfl
        · simp [h]
  simp [selected, this]

/-! ## non-vacuity: a recursive struct with a pointer, a slice of itself and an array of pointers -/

def demoDecl : Decl :=
  { pkg := ['p'], name := ['S'], kind := .struct,
    fields := [⟨['P'], false, .ptr (.builtin ['i', 'n', 't'])⟩, ⟨['K'], false, .slice (.named ['S'])⟩,
               ⟨['A'], false, .array 2 (.ptr (.builtin ['i', 'n', 't']))⟩] }

def demoEnv : Env := { decls := [demoDecl], pkgTag := [(['p'], true)] }

def demoVal : Val :=
  .struct (.cons (.ptr 1 (.scalar 7)) (.cons (.slice 2 (.cons (.struct (.cons .nil (.cons .nil (.cons (.arr (.cons .nil (.cons .nil .nil))) .nil)))) .nil))
    (.cons (.arr (.cons (.ptr 3 (.scalar 9)) (.cons .nil .nil))) .nil)))

example : selected demoEnv 8 demoDecl = true := by decide
example : (genFor demoEnv 8 8 (.named ['S'])).ok = true := by decide
example : HasTy demoEnv 8 demoVal (.named ['S']) := by
  simp [demoVal, demoEnv, demoDecl, HasTy, AllTy, FieldsTy, view, Env.find, Decl.qname, kDep]

end Gengo.C16

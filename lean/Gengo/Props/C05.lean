import Gengo.Model.Comments
/-! # C05 – doc comments and their tags reach exactly the declaration they document -/
namespace Gengo.C05
open Gengo Gengo.Comments

/-- the index never yields a trailing comment -/
theorem index_not_trailing (gs : List Group) (line : Nat) (g : Group) (h : index gs line = some g) :
    g.trailing = false ∧ g.endLine = line := by
  unfold index at h
  have hm := List.mem_of_getLast? h
  simp only [List.mem_filter, Bool.and_eq_true, Bool.not_eq_true', decide_eq_true_eq] at hm
  exact hm.2

theorem index_mem (gs : List Group) (line : Nat) (g : Group) (h : index gs line = some g) : g ∈ gs := by
  unfold index at h
  exact (List.mem_filter.mp (List.mem_of_getLast? h)).1

/-- **doc_is_block_above**: the lines delivered as doc comment are, unmodified and in order, the text
of a comment block of the file that ends on the line directly above the declaration and is not a
trailing comment – or none -/
theorem doc_is_block_above (gs : List Group) (line : Nat) :
    (∃ g ∈ gs, g.endLine = line - 1 ∧ g.trailing = false ∧ docComment gs line = g.text) ∨
    ((∀ g ∈ gs, g.trailing = false → g.endLine ≠ line - 1) ∧ docComment gs line = [[]]) := by
  unfold docComment
  cases h : index gs (line - 1) with
  | some g =>
    left
    obtain ⟨h1, h2⟩ := index_not_trailing gs _ g h
    exact ⟨g, index_mem gs _ g h, h2, h1, rfl⟩
  | none =>
    right
    refine ⟨?_, rfl⟩
    intro g hg ht he
    unfold index at h
    have : g ∈ gs.filter (fun g => !g.trailing && g.endLine = line - 1) := by
      simp [List.mem_filter, hg, ht, he]
    rw [List.getLast?_eq_none_iff] at h
    rw [h] at this; cases this

/-- when exactly one block ends above the declaration, it is the one delivered -/
theorem doc_unique (gs : List Group) (line : Nat) (g : Group) (hg : g ∈ gs) (ht : g.trailing = false)
    (he : g.endLine = line - 1) (huniq : ∀ g' ∈ gs, g'.trailing = false → g'.endLine = line - 1 → g' = g) :
    docComment gs line = g.text := by
  rcases doc_is_block_above gs line with ⟨g', hg', he', ht', hd⟩ | ⟨hnone, _⟩
  · rw [hd, huniq g' hg' ht' he']
  · exact absurd he (hnone g hg ht)

/-- **no_block_none**: with no block ending directly above, no doc comment is delivered (`[""]`) -/
theorem no_block_none (gs : List Group) (line : Nat) (h : ∀ g ∈ gs, g.trailing = false → g.endLine ≠ line - 1) :
    docComment gs line = [[]] := by
  rcases doc_is_block_above gs line with ⟨g, hg, he, ht, _⟩ | ⟨_, hd⟩
  · exact absurd he (h g hg ht)
  · exact hd

/-- **trailing_never_delivered**: a trailing comment is never delivered to any declaration, neither as
doc comment nor as second-closest comment (it is simply not among the blocks the lookups can return) -/
theorem trailing_never_doc (gs : List Group) (line : Nat) (g : Group) (h : index gs line = some g) :
    g.trailing = false := (index_not_trailing gs line g h).1

theorem secondClosest_source (gs : List Group) (code : List Nat) (line : Nat) :
    secondClosest gs code line = [[]] ∨ ∃ g ∈ gs, g.trailing = false ∧ secondClosest gs code line = g.text ∧
      g.endLine = anchor gs line - 2 ∧ (anchor gs line - 1) ∉ code := by
  unfold secondClosest
  simp only
  split
  · exact .inl rfl
  · rename_i hc
    split
    · exact .inl rfl
    · cases h2 : index gs (anchor gs line - 2) with
      | none => exact .inl rfl
      | some g =>
        obtain ⟨a, b⟩ := index_not_trailing gs _ g h2
        exact .inr ⟨g, index_mem gs _ g h2, a, rfl, b, by simpa using hc⟩

/-- the anchor is the declaration's line when it has no doc block, else the first line of the doc block -/
theorem anchor_spec (gs : List Group) (line : Nat) :
    (index gs (line - 1) = none ∧ anchor gs line = line) ∨
    (∃ c1, index gs (line - 1) = some c1 ∧ anchor gs line = c1.startLine) := by
  unfold anchor
  cases h : index gs (line - 1) with
  | none => exact .inl ⟨rfl, rfl⟩
  | some c1 => exact .inr ⟨c1, rfl, rfl⟩

/-- **second_closest_is_blank_separated_block**: a delivered second-closest comment is a non-trailing
block of the file that ends two lines above the declaration (when it has no doc block) or two lines
above the first line of its doc block, and there is no code on the line in between. (That line holds no
comment either: `go/parser` would have made it part of the doc block or of the block above – external.) -/
theorem second_closest_position (gs : List Group) (code : List Nat) (line : Nat) (g : Group)
    (h : secondClosest gs code line = g.text) (hne : g.text ≠ [[]]) :
    ∃ g' ∈ gs, g'.trailing = false ∧ g'.text = g.text ∧ g'.endLine = anchor gs line - 2 ∧
      (anchor gs line - 1) ∉ code := by
  rcases secondClosest_source gs code line with h0 | ⟨g', hg', ht, hs, he, hc⟩
  · rw [h0] at h; exact absurd h.symm hne
  · exact ⟨g', hg', ht, by rw [← hs, h], he, hc⟩

/-- **code_between_means_none**: with code on the line above the doc block (or above an undocumented
declaration) nothing is delivered as second-closest comment – the block further up belongs to that code -/
theorem code_between_means_none (gs : List Group) (code : List Nat) (line : Nat)
    (h : (anchor gs line - 1) ∈ code) : secondClosest gs code line = [[]] := by
  unfold secondClosest
  simp [h]

/-! non-vacuity: `// doc` on line 3 above a declaration on line 4, a trailing comment on line 3 is ignored -/
def gsDemo : List Group := [⟨1, 1, false, ["detached".toList]⟩, ⟨3, 3, false, ["doc".toList]⟩]
example : docComment gsDemo 4 = ["doc".toList] := by decide
example : secondClosest gsDemo [4] 4 = ["detached".toList] := by decide
example : secondClosest [⟨1, 1, false, ["doc of A".toList]⟩] [2, 3] 3 = [[]] := by decide
example : docComment [⟨3, 3, true, ["trailing".toList]⟩] 4 = [[]] := by decide

end Gengo.C05

import Gengo.Model.Writer
/-! # C15 – snippet templates mean what text/template means, with sticky errors -/
namespace Gengo.C15
open Gengo Gengo.Writer

/-! ### a sink that does not fail for the next `n` calls -/

/-- the next `n` calls of the sink's writer succeed, and an `ErrorTracker` in front has no error -/
def Healthy (s : Sink) (n : Nat) : Prop :=
  (s.tracked = true → s.etErr = none) ∧ ∀ i, i < n → s.w.failAt (s.w.calls + i) = none

theorem sink_write_ok (s : Sink) (p : Str) (h : Healthy s 1) :
    (s.write p).2 = none ∧ (s.write p).1.w.log = s.w.log ++ [p] ∧
    (s.write p).1.w.calls = s.w.calls + 1 ∧ (s.write p).1.w.failAt = s.w.failAt ∧
    (s.write p).1.tracked = s.tracked ∧ (s.write p).1.etErr = s.etErr := by
  have hf : s.w.failAt s.w.calls = none := by simpa using h.2 0 (by omega)
  unfold Sink.write
  by_cases ht : s.tracked = true
  · have he := h.1 ht
    simp [ht, ET.write, he, Writer.write, hf]
  · simp [ht, Writer.write, hf]

theorem writeChunks_ok (s : Sink) (chunks : List Str) (h : Healthy s chunks.length) :
    (writeChunks s chunks).2 = none ∧ (writeChunks s chunks).1.w.log = s.w.log ++ chunks ∧
    (writeChunks s chunks).1.w.calls = s.w.calls + chunks.length := by
  induction chunks generalizing s with
  | nil => simp [writeChunks]
  | cons c cs ih =>
    have h1 : Healthy s 1 := ⟨h.1, fun i hi => h.2 i (by simp; omega)⟩
    obtain ⟨r, hl, hc, hfa, htr, het⟩ := sink_write_ok s c h1
    have hw : s.write c = ((s.write c).1, none) := by rw [← r]
    simp only [writeChunks]
    rw [hw]
    simp only
    have h' : Healthy (s.write c).1 cs.length := by
      refine ⟨fun ht => by rw [het]; exact h.1 (by rw [← htr]; exact ht), ?_⟩
      intro i hi
      rw [hfa, hc]
      have := h.2 (i + 1) (by simp; omega)
      simpa [Nat.add_assoc, Nat.add_comm 1 i] using this
    obtain ⟨a, b, c'⟩ := ih (s.write c).1 h'
    refine ⟨a, ?_, ?_⟩
    · rw [b, hl]; simp
    · rw [c', hc]; simp; omega

/-- **do_is_engine**: with no prior error and a writer that accepts the writes, `Do` makes the
writer receive exactly the chunks the template engine produces for that template, delimiters,
functions and data, and the recorded error is the engine's error (none if it succeeded). -/
theorem do_is_engine (s : Sink) (chunks : List Str) (execErr : Bool) (h : Healthy s chunks.length) :
    (doStep s none (.run chunks execErr)).1.w.log = s.w.log ++ chunks ∧
    (doStep s none (.run chunks execErr)).2 = (if execErr then some .exec else none) := by
  obtain ⟨a, b, _⟩ := writeChunks_ok s chunks h
  unfold doStep
  simp only
  have : writeChunks s chunks = ((writeChunks s chunks).1, none) := by rw [← a]
  rw [this]
  exact ⟨b, rfl⟩

/-- a template that does not parse writes nothing and records the parse error -/
theorem do_parse_error (s : Sink) : doStep s none .parseErr = (s, some .parse) := rfl

/-! ### stickiness -/

inductive Op
  | doT (e : Engine)
  | append (data : Str)
  | merge (otherErr : Option Err) (data : Str)

def step (st : Sink × Option Err) : Op → Sink × Option Err
  | .doT e => doStep st.1 st.2 e
  | .append d => let r := appendStep st.1 st.2 d; (r.1, r.2.1)
  | .merge o d => let r := mergeStep st.1 st.2 o d; (r.1, r.2.1)

def run (st : Sink × Option Err) (ops : List Op) : Sink × Option Err := ops.foldl step st

theorem step_sticky (s : Sink) (x : Err) (op : Op) : step (s, some x) op = (s, some x) := by
  cases op <;> simp [step, doStep, appendStep, mergeStep]

/-- **sticky_no_output_after_error** and **first_error_reported**: once an error is recorded, no chain
of Do/Append/Merge calls changes what the writer has received (it is not even called), and the
recorded error stays the first one. -/
theorem sticky_first_error (s : Sink) (x : Err) (ops : List Op) : run (s, some x) ops = (s, some x) := by
  induction ops with
  | nil => rfl
  | cons op ops ih => simp only [run, List.foldl_cons, step_sticky] at ih ⊢; exact ih

/-- a step either keeps "no error" or records one; it never replaces an error (corollary for whole
chains: the error reported at the end is the first one that occurred) -/
theorem error_monotone (st : Sink × Option Err) (ops : List Op) (x : Err) (k : Nat)
    (h : (run st (ops.take k)).2 = some x) : (run st ops).2 = some x := by
  have : ops = ops.take k ++ ops.drop k := (List.take_append_drop k ops).symm
  rw [this, run, List.foldl_append]
  have hs : List.foldl step st (ops.take k) = ((run st (ops.take k)).1, some x) := by
    rw [← h]; rfl
  rw [hs]
  have := sticky_first_error (run st (ops.take k)).1 x (ops.drop k)
  show (run ((run st (ops.take k)).1, some x) (ops.drop k)).2 = some x
  rw [this]

/-- a failed write during `Do` is recorded (never swallowed) with the writer's error code -/
theorem do_write_error_recorded (s : Sink) (chunks : List Str) (execErr : Bool) (code : Nat)
    (h : (writeChunks s chunks).2 = some code) :
    (doStep s none (.run chunks execErr)).2 = some (.write code) := by
  unfold doStep
  simp only
  have : writeChunks s chunks = ((writeChunks s chunks).1, some code) := by rw [← h]
  rw [this]

/-- `Append` (after the repair of F16): a failed write is both returned and recorded -/
theorem append_write_error_recorded (s : Sink) (data : Str) (code : Nat) (hd : data ≠ [])
    (h : (s.write data).2 = some code) :
    (appendStep s none data).2.1 = some (.write code) ∧ (appendStep s none data).2.2 = some (.write code) := by
  unfold appendStep
  have he : data.isEmpty = false := by cases data <;> simp_all
  simp only [he, Bool.false_eq_true, if_false]
  have : s.write data = ((s.write data).1, some code) := by rw [← h]
  rw [this]
  exact ⟨rfl, rfl⟩

/-- **merge_preserves_error**: merging a writer that carries an error into one that has none makes
the latter carry that error, and nothing is written -/
theorem merge_preserves_error (s : Sink) (e : Err) (data : Str) :
    mergeStep s none (some e) data = (s, some e, none) := rfl

/-! ### `Args` -/

theorem lookup_copyInto (dst src : ArgMap) (k : Str) :
    AL.lookup k (copyInto dst src) =
      match src.reverse.find? (fun kv => kv.1 = k) with
      | some kv => some kv.2
      | none => AL.lookup k dst := by
  unfold copyInto
  induction src generalizing dst with
  | nil => simp
  | cons hd tl ih =>
    simp only [List.foldl_cons, List.reverse_cons, List.find?_append]
    rw [ih]
    cases hf : tl.reverse.find? (fun kv => kv.1 = k) with
    | some kv => simp
    | none =>
      simp only [Option.none_or, List.find?_cons, List.find?_nil]
      rw [AL.lookup_insert]
      by_cases hk : hd.1 = k
      · simp [hk]
      · have : ¬ k = hd.1 := fun e => hk e.symm
        simp [hk, this]

/-- **with_does_not_mutate**: `With` allocates a new map; every existing map is unchanged -/
theorem with_does_not_mutate (v2 : Bool) (h : Heap) (a : Nat) (k v : Str) :
    (withKV v2 h a k v).length = h.length + 1 ∧ ∀ i, i < h.length → (withKV v2 h a k v)[i]? = h[i]? := by
  unfold withKV
  refine ⟨by simp, ?_⟩
  intro i hi
  simp [List.getElem?_append_left hi]

theorem withArgs_does_not_mutate (v2 : Bool) (h : Heap) (a b : Nat) :
    (withArgs v2 h a b).length = h.length + 1 ∧ ∀ i, i < h.length → (withArgs v2 h a b)[i]? = h[i]? := by
  unfold withArgs
  refine ⟨by simp, ?_⟩
  intro i hi
  simp [List.getElem?_append_left hi]

/-- **v2_with_new_wins**: in v2 the added value wins on a key clash, other keys come from the receiver -/
theorem v2_with_new_wins (h : Heap) (a : Nat) (k v k' : Str) :
    ((withKV true h a k v)[h.length]?).map (AL.lookup k') =
      some (if k' = k then some v else
        match (h.getD a []).reverse.find? (fun kv => kv.1 = k') with
        | some kv => some kv.2
        | none => none) := by
  unfold withKV
  simp only [if_true, List.getElem?_concat_length, Option.map_some, Option.some.injEq]
  rw [AL.lookup_insert, lookup_copyInto]
  split
  · rfl
  · simp [AL.lookup]

/-- v1 as the code behaves: the receiver's value wins on a clash (the property constrains only copying there) -/
theorem v1_with_receiver_wins (h : Heap) (a : Nat) (k v k' : Str) :
    ((withKV false h a k v)[h.length]?).map (AL.lookup k') =
      some (match (h.getD a []).reverse.find? (fun kv => kv.1 = k') with
        | some kv => some kv.2
        | none => if k' = k then some v else none) := by
  unfold withKV
  simp only [Bool.false_eq_true, if_false, List.getElem?_concat_length, Option.map_some, Option.some.injEq]
  rw [lookup_copyInto]
  split
  · rfl
  · by_cases hk : k' = k
    · simp [AL.lookup, hk]
    · have : ¬ k = k' := fun e => hk e.symm
      simp [AL.lookup, hk, this]

/-- **v2_withArgs_rhs_wins** -/
theorem v2_withArgs_rhs_wins (h : Heap) (a b : Nat) (k' : Str) :
    ((withArgs true h a b)[h.length]?).map (AL.lookup k') =
      some (match (h.getD b []).reverse.find? (fun kv => kv.1 = k') with
        | some kv => some kv.2
        | none => match (h.getD a []).reverse.find? (fun kv => kv.1 = k') with
          | some kv => some kv.2
          | none => none) := by
  unfold withArgs
  simp only [if_true, List.getElem?_concat_length, Option.map_some, Option.some.injEq]
  rw [lookup_copyInto, lookup_copyInto]
  simp [AL.lookup]

/-! non-vacuity: a healthy sink exists and a failing one is caught -/
def okSink : Sink := ⟨⟨[], 0, fun _ => none⟩, false, none⟩
def badSink : Sink := ⟨⟨[], 0, fun n => if n = 1 then some 1 else none⟩, true, none⟩
example : Healthy okSink 5 := ⟨by simp [okSink], by simp [okSink]⟩
example : (doStep badSink none (.run ["a".toList, "b".toList, "c".toList] false)).2 = some (.write 1) := by decide
example : (run (badSink, none) [.doT (.run ["a".toList, "b".toList] false), .doT (.run ["x".toList] false)]).1.w.log
    = ["a".toList] := by decide

end Gengo.C15

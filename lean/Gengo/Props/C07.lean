import Gengo.Model.Tracker
import Gengo.Lemmas.StrOrder
/-! # C07 – the import tracker yields a collision-free, valid, stable import block -/
namespace Gengo.C07
open Gengo Gengo.Tracker

/-- the state invariant: the two maps are mutually inverse (hence no two packages share a local
name), no assigned name is the v2 output package's leaf -/
structure Inv (t : T) : Prop where
  fwd : ∀ p n, AL.lookup p t.p2n = some n → AL.lookup n t.n2p = some p
  bwd : ∀ n p, AL.lookup n t.n2p = some p → AL.lookup p t.p2n = some n
  leaf : t.v2 = true → ∀ p n, AL.lookup p t.p2n = some n → n ≠ base t.localPkg

theorem inv_init (v2 : Bool) (l : Str) : Inv (new v2 l) :=
  ⟨by simp [new, AL.lookup], by simp [new, AL.lookup], by simp [new, AL.lookup]⟩

theorem localName_free (t : T) (pkg n : Str) (h : localName t pkg = some n) :
    AL.lookup n t.n2p = none ∧ (t.v2 = true → n ≠ base t.localPkg) ∧ n ∈ candidates pkg := by
  unfold localName at h
  have hm := List.mem_of_find?_eq_some h
  have hf := List.find?_some h
  simp only [taken, Bool.not_eq_true', Bool.or_eq_false_iff, Bool.and_eq_false_iff] at hf
  refine ⟨by simpa using hf.1, ?_, hm⟩
  intro hv e
  rcases hf.2 with h2 | h2
  · rw [hv] at h2; cases h2
  · simp [e] at h2

/-- **inv_step**: every add operation preserves the invariant – unguarded (after the repair of F8) -/
theorem inv_step (t : T) (pkg path : Str) (h : Inv t) :
    ∀ t', addSymbol t pkg path = .ok t' → Inv t' := by
  intro t' ht
  unfold addSymbol at ht
  generalize keyOf pkg path = key at ht
  unfold addKey at ht
  split at ht
  · cases ht; exact h
  split at ht
  · cases ht; exact h
  split at ht
  · cases ht; exact h
  rename_i hloc _ hnew
  split at ht
  · cases ht
  rename_i n hn
  cases ht
  obtain ⟨hfree, hleaf, _⟩ := localName_free t pkg n hn
  have hpnew : AL.lookup key t.p2n = none := by simpa using hnew
  refine ⟨?_, ?_, ?_⟩
  · intro p m hp
    simp only [AL.lookup_insert] at hp ⊢
    by_cases hpp : p = key
    · subst hpp; rw [if_pos rfl] at hp; cases hp; rw [if_pos rfl]
    · rw [if_neg hpp] at hp
      have := h.fwd p m hp
      have hne : ¬ m = n := by intro e; subst e; rw [hfree] at this; cases this
      rw [if_neg hne]; exact this
  · intro m p hm
    simp only [AL.lookup_insert] at hm ⊢
    by_cases hmm : m = n
    · subst hmm; rw [if_pos rfl] at hm; cases hm; rw [if_pos rfl]
    · rw [if_neg hmm] at hm
      have := h.bwd m p hm
      have hne : ¬ p = key := by intro e; subst e; rw [hpnew] at this; cases this
      rw [if_neg hne]; exact this
  · intro hv p m hp
    simp only [AL.lookup_insert] at hp
    by_cases hpp : p = key
    · rw [if_pos hpp] at hp; cases hp; exact hleaf hv
    · rw [if_neg hpp] at hp; exact h.leaf hv p m hp

/-- run a whole history; `none` as soon as an operation panics -/
def run (t : T) : List (Str × Str) → Option T
  | [] => some t
  | (pkg, path) :: ops => match addSymbol t pkg path with
    | .ok t' => run t' ops
    | .panic => none

/-- **inv_reachable**: the invariant holds in every state reachable by any add-sequence from a new tracker -/
theorem inv_reachable (v2 : Bool) (l : Str) (ops : List (Str × Str)) (t : T)
    (h : run (new v2 l) ops = some t) : Inv t := by
  suffices ∀ t0, Inv t0 → run t0 ops = some t → Inv t from this _ (inv_init v2 l) h
  clear h
  induction ops with
  | nil => intro t0 h0 hr; simp only [run, Option.some.injEq] at hr; subst hr; exact h0
  | cons op ops ih =>
    intro t0 h0 hr
    simp only [run] at hr
    cases hs : addSymbol t0 op.1 op.2 with
    | panic => rw [hs] at hr; cases hr
    | ok t1 => rw [hs] at hr; exact ih t1 (inv_step t0 op.1 op.2 h0 t1 hs) hr

/-- **names_distinct**: no two packages share a local name -/
theorem names_distinct (t : T) (h : Inv t) (p q n : Str)
    (hp : AL.lookup p t.p2n = some n) (hq : AL.lookup q t.p2n = some n) : p = q := by
  have a := h.fwd p n hp
  have b := h.fwd q n hq
  rw [a] at b; cases b; rfl

/-- **lookups_inverse**: `LocalNameOf` and `PathOf` are mutually inverse on tracked packages -/
theorem lookups_inverse (t : T) (h : Inv t) (p n : Str) :
    AL.lookup p t.p2n = some n ↔ pathOf t n = some p :=
  ⟨h.fwd p n, h.bwd n p⟩

/-- **name_stable** (one step): an assigned name never changes -/
theorem name_stable_step (t : T) (pkg path : Str) (t' : T) (ht : addSymbol t pkg path = .ok t')
    (p n : Str) (hp : AL.lookup p t.p2n = some n) : AL.lookup p t'.p2n = some n := by
  unfold addSymbol at ht
  generalize keyOf pkg path = key at ht
  unfold addKey at ht
  split at ht
  · cases ht; exact hp
  split at ht
  · cases ht; exact hp
  split at ht
  · cases ht; exact hp
  rename_i hnew
  split at ht
  · cases ht
  cases ht
  simp only [AL.lookup_insert]
  have hpnew : AL.lookup key t.p2n = none := by simpa using hnew
  have hne : ¬ p = key := by
    intro e; rw [e, hpnew] at hp; cases hp
  rw [if_neg hne]; exact hp

/-- **name_stable**: … through any later history -/
theorem name_stable (t : T) (ops : List (Str × Str)) (t' : T) (h : run t ops = some t')
    (p n : Str) (hp : AL.lookup p t.p2n = some n) : AL.lookup p t'.p2n = some n := by
  induction ops generalizing t with
  | nil => simp only [run, Option.some.injEq] at h; subst h; exact hp
  | cons op ops ih =>
    simp only [run] at h
    cases hs : addSymbol t op.1 op.2 with
    | panic => rw [hs] at h; cases h
    | ok t1 => rw [hs] at h; exact ih t1 h (name_stable_step t op.1 op.2 t1 hs p n hp)

/-- `addSymbol` does not change the output package or the variant -/
theorem addSymbol_keeps (t : T) (pkg path : Str) (t' : T) (ht : addSymbol t pkg path = .ok t') :
    t'.localPkg = t.localPkg ∧ t'.v2 = t.v2 := by
  unfold addSymbol at ht
  generalize keyOf pkg path = key at ht
  unfold addKey at ht
  split at ht
  · cases ht; exact ⟨rfl, rfl⟩
  split at ht
  · cases ht; exact ⟨rfl, rfl⟩
  split at ht
  · cases ht; exact ⟨rfl, rfl⟩
  split at ht
  · cases ht
  · cases ht; exact ⟨rfl, rfl⟩

/-- **local_never_imported**: symbols added by package (no `Path` override) never make the output
package a tracked path -/
theorem local_never_imported_step (t : T) (pkg : Str) (t' : T) (ht : addSymbol t pkg [] = .ok t')
    (h : AL.lookup t.localPkg t.p2n = none) : AL.lookup t'.localPkg t'.p2n = none := by
  have hk := (addSymbol_keeps t pkg [] t' ht).1
  rw [hk]
  unfold addSymbol at ht
  have hkey : keyOf pkg [] = pkg := by simp [keyOf]
  rw [hkey] at ht
  unfold addKey at ht
  split at ht
  · cases ht; exact h
  split at ht
  · cases ht; exact h
  split at ht
  · cases ht; exact h
  rename_i hloc _ _
  split at ht
  · cases ht
  cases ht
  simp only [AL.lookup_insert]
  rw [if_neg hloc]; exact h

/-- a string is a legal Go identifier made of ASCII letters, digits and `_`, starting with a letter or `_` -/
def isIdent (s : Str) : Bool :=
  match s with
  | [] => false
  | c :: cs => (Str.isAsciiLetter c || c == '_') && cs.all (fun d => Str.isAsciiLetter d || Str.isAsciiDigit d || d == '_')

theorem kwfix_not_keyword (c : Str) : keywords.contains (kwfix c) = false := by
  unfold kwfix
  split
  · -- no keyword starts with an underscore
    have : ∀ k ∈ keywords, k.head? ≠ some '_' := by decide
    cases h : keywords.contains ('_' :: c) with
    | false => rfl
    | true =>
      have hm : ('_' :: c) ∈ keywords := by simpa using h
      exact absurd rfl (this _ hm)
  · rename_i h; simpa using h

/-- the guard of `names_are_identifiers`: the path consists of ASCII letters, digits, `_ . - /` only -/
def PathChars (p : Str) : Prop :=
  ∀ c ∈ p, Str.isAsciiLetter c = true ∨ Str.isAsciiDigit c = true ∨ c = '_' ∨ c = '.' ∨ c = '-' ∨ c = '/'

theorem kwfix_isIdent (c : Str) (h : isIdent c = true) : isIdent (kwfix c) = true := by
  unfold kwfix
  split
  · cases c with
    | nil => simp [isIdent] at h
    | cons x xs =>
      simp only [isIdent, Bool.and_eq_true, Bool.or_eq_true, beq_iff_eq, List.all_eq_true] at h ⊢
      refine ⟨by simp, ?_⟩
      intro d hd
      simp only [List.mem_cons] at hd
      rcases hd with rfl | hd
      · rcases h.1 with h1 | h1
        · left; left; exact h1
        · right; exact h1
      · exact h.2 d hd
  · exact h

/-- **names_are_identifiers**: a name whose first character is a letter, built from a path made of
identifier characters and `. - /`, is a legal non-keyword identifier. The guard is `Good`: the candidate
starts with a letter (violated only by leaves such as `2fa`, `_`, `-.`: known findings). -/
theorem sanitize_chars (parts : Str) (h : ∀ c ∈ parts, Str.isAsciiLetter c = true ∨ Str.isAsciiDigit c = true ∨ c = '_' ∨ c = '.' ∨ c = '-') :
    ∀ d ∈ sanitize parts, Str.isAsciiLetter d = true ∨ Str.isAsciiDigit d = true := by
  intro d hd
  unfold sanitize at hd
  simp only [List.mem_filter, Bool.and_eq_true, bne_iff_ne, ne_eq] at hd
  rcases h d hd.1 with h1 | h1 | h1 | h1 | h1
  · left; exact h1
  · right; exact h1
  · exact absurd h1 hd.2.1.1
  · exact absurd h1 hd.2.1.2
  · exact absurd h1 hd.2.2

theorem flatten_drop_chars (dirs : List Str) (n : Nat) (c : Char) (h : c ∈ (dirs.drop n).flatten) :
    ∃ d ∈ dirs, c ∈ d := by
  simp only [List.mem_flatten] at h
  obtain ⟨d, hd, hc⟩ := h
  exact ⟨d, List.mem_of_mem_drop hd, hc⟩

theorem splitOn_no_sep (sep : Char) (s : Str) : ∀ d ∈ Str.splitOn sep s, sep ∉ d ∧ ∀ c ∈ d, c ∈ s := by
  induction s with
  | nil => simp [Str.splitOn]
  | cons x xs ih =>
    simp only [Str.splitOn]
    split
    · intro d hd
      simp only [List.mem_cons] at hd
      rcases hd with rfl | hd
      · simp
      · exact ⟨(ih d hd).1, fun c hc => by simp [(ih d hd).2 c hc]⟩
    · rename_i hx
      split
      · intro d hd
        simp only [List.mem_singleton] at hd
        subst hd
        simp only [List.mem_singleton]
        exact ⟨fun e => hx e.symm, fun c hc => by simp [hc]⟩
      · rename_i h t heq
        intro d hd
        simp only [List.mem_cons] at hd
        rcases hd with rfl | hd
        · have := ih h (by rw [heq]; simp)
          refine ⟨?_, ?_⟩
          · simp only [List.mem_cons, not_or]; exact ⟨fun e => hx e.symm, this.1⟩
          · intro c hc
            simp only [List.mem_cons] at hc ⊢
            rcases hc with rfl | hc
            · left; rfl
            · right; exact this.2 c hc
        · have := ih d (by rw [heq]; simp [hd])
          exact ⟨this.1, fun c hc => by simp [this.2 c hc]⟩

theorem candidate_chars (path : Str) (hp : PathChars path) (n : Nat) :
    ∀ d ∈ sanitize (((Str.splitOn '/' path).drop n).flatten), Str.isAsciiLetter d = true ∨ Str.isAsciiDigit d = true := by
  apply sanitize_chars
  intro c hc
  obtain ⟨d, hd, hcd⟩ := flatten_drop_chars _ _ _ hc
  have := splitOn_no_sep '/' path d hd
  have hcp := this.2 c hcd
  rcases hp c hcp with h | h | h | h | h | h
  · exact Or.inl h
  · exact Or.inr (Or.inl h)
  · exact Or.inr (Or.inr (Or.inl h))
  · exact Or.inr (Or.inr (Or.inr (Or.inl h)))
  · exact Or.inr (Or.inr (Or.inr (Or.inr h)))
  · subst h; exact absurd hcd this.1

theorem names_are_identifiers (t : T) (pkg n : Str) (hp : PathChars pkg)
    (h : localName t pkg = some n)
    (hgood : ∀ c ∈ candidates pkg, ∃ x xs, c = x :: xs ∧ (Str.isAsciiLetter x = true ∨ x = '_')) :
    isIdent n = true ∧ keywords.contains n = false := by
  obtain ⟨_, _, hm⟩ := localName_free t pkg n h
  have hm' := hm
  unfold candidates at hm
  simp only [List.mem_map, List.mem_reverse, List.mem_range] at hm
  obtain ⟨k, _, rfl⟩ := hm
  refine ⟨?_, kwfix_not_keyword _⟩
  have hc := candidate_chars pkg hp k
  obtain ⟨x, xs, hx, hx1⟩ := hgood _ hm'
  -- the un-prefixed candidate is an identifier, hence so is the prefixed one
  apply kwfix_isIdent
  generalize hs : sanitize (((Str.splitOn '/' pkg).drop k).flatten) = s at hc hx ⊢
  unfold kwfix at hx
  split at hx
  · -- keyword: all keywords are identifiers
    rename_i hk
    have : ∀ w ∈ keywords, isIdent w = true := by decide
    exact this s (by simpa using hk)
  · subst hx
    simp only [isIdent, Bool.and_eq_true, Bool.or_eq_true, beq_iff_eq, List.all_eq_true]
    refine ⟨hx1, ?_⟩
    intro d hd
    rcases hc d (by simp [hd]) with h1 | h1
    · left; left; exact h1
    · left; right; exact h1

/-- **v2_name_ne_local_leaf** -/
theorem v2_name_ne_local_leaf (t : T) (h : Inv t) (hv : t.v2 = true) (p n : Str)
    (hp : AL.lookup p t.p2n = some n) : n ≠ base t.localPkg := h.leaf hv p n hp

/-- **no_panic**: adding a package panics only when every candidate alias is unusable -/
theorem no_panic (t : T) (pkg path : Str) (c : Str) (hc : c ∈ candidates pkg) (hfree : taken t c = false) :
    addSymbol t pkg path ≠ .panic := by
  unfold addSymbol addKey
  split
  · simp
  split
  · simp
  split
  · simp
  have : (localName t pkg).isSome = true := by
    unfold localName
    rw [List.find?_isSome]
    exact ⟨c, hc, by simp [hfree]⟩
  cases hl : localName t pkg with
  | none => rw [hl] at this; cases this
  | some n => simp

/-! ### import lines -/

theorem importLines_perm (t : T) :
    ∃ l : List (Str × Str), l.Perm t.p2n ∧ l.Pairwise (fun a b => Str.le a.1 b.1 = true) ∧
      importLines t = l.map (fun e => printImport e.1 e.2) := by
  refine ⟨t.p2n.mergeSort (fun a b => Str.le a.1 b.1), List.mergeSort_perm _ _, ?_, rfl⟩
  apply List.pairwise_mergeSort
  · intro a b c h1 h2; exact Str.le_trans _ _ _ h1 h2
  · intro a b; exact Str.le_total _ _

/-! ### the guards are needed: witnesses (replayed on the real code by the harness; known findings) -/

def runS (v2 : Bool) (l : String) (ps : List String) : Option T :=
  run (new v2 l.toList) (ps.map fun p => (p.toList, []))

/-- after the repair of F8 two keyword leaves no longer collide -/
theorem kw_no_collision :
    (runS false "" ["a/go", "b/go"]).map (fun t => (localNameOf t "a/go".toList, localNameOf t "b/go".toList))
      = some ("_go".toList, "bgo".toList) := by decide

/-- F9: paths that differ only in punctuation exhaust the candidates: panic -/
theorem punct_exhausts : (runS false "" ["a-b", "ab"]).isNone = true := by decide
/-- F9: a digit-leading leaf becomes a non-identifier alias; a `_` leaf the empty alias -/
theorem digit_leaf : (runS false "" ["x/2fa"]).map (fun t => localNameOf t "x/2fa".toList) = some "2fa".toList := by decide
theorem empty_alias : (runS false "" ["x/_"]).map (fun t => localNameOf t "x/_".toList) = some [] := by decide
/-- F9 (v2): a one-segment path equal to the output package's leaf exhausts the candidates -/
theorem v2_local_leaf_exhausts : (runS true "example.com/out/v1" ["v1"]).isNone = true := by decide

/-! non-vacuity -/
example : (runS true "bar.com/pkg/foo" ["bar.com/pkg/foo", "bar.com/pkg/baz", "bar.com/pkg/baz/baz"]).map
    (fun t => (localNameOf t "bar.com/pkg/foo".toList, localNameOf t "bar.com/pkg/baz".toList,
      localNameOf t "bar.com/pkg/baz/baz".toList)) = some ([], "baz".toList, "bazbaz".toList) := by decide

end Gengo.C07

import Gengo.Model.RawNamer
import Gengo.Props.C07
/-! # C02 – raw names plus tracked imports denote exactly the type they were made from -/
namespace Gengo.C02
open Gengo Gengo.Tracker Gengo.RawNamer

/-- later tracker states keep every assigned alias (and the configuration) -/
structure Ext (s s' : T) : Prop where
  keep : ∀ p n, AL.lookup p s.p2n = some n → AL.lookup p s'.p2n = some n
  loc : s'.localPkg = s.localPkg
  self : ∀ lp, lp ≠ [] → AL.lookup lp s.p2n = none → (∀ p, AL.lookup p s'.p2n ≠ none → AL.lookup p s.p2n = none → p ≠ lp) →
      AL.lookup lp s'.p2n = none

theorem Ext.refl (s : T) : Ext s s := ⟨fun _ _ h => h, rfl, fun _ _ h _ => h⟩

theorem Ext.trans {a b c : T} (h1 : Ext a b) (h2 : Ext b c) : Ext a c where
  keep := fun p n h => h2.keep p n (h1.keep p n h)
  loc := h2.loc.trans h1.loc
  self := by
    intro lp hlp ha hnew
    by_cases hc : AL.lookup lp c.p2n = none
    · exact hc
    · exact absurd rfl (hnew lp hc ha)

mutual
/-- well-formed input: named types have a package (as `rawNamer.Name` assumes: `Name.Package != ""`) -/
def WF : Ty → Prop
  | .named pkg _ => pkg ≠ []
  | .builtin _ => True
  | .map k e => WF k ∧ WF e
  | .slice e => WF e
  | .array _ e => WF e
  | .pointer e => WF e
  | .chan e => WF e
  | .struct ms => WFM ms
  | .iface _ => True
  | .func ps rs => WFL ps ∧ WFL rs
  | .other _ => True
def WFL : Tys → Prop
  | .nil => True
  | .cons t ts => WF t ∧ WFL ts
def WFM : Members → Prop
  | .nil => True
  | .cons _ t ms => WF t ∧ WFM ms
end

/-- the tracker was told the namer's output package, or no package at all -/
def Cfg (st : T) (lp : Str) : Prop := st.localPkg = lp ∨ st.localPkg = []

/-- what naming one type establishes -/
structure Good (v2 : Bool) (lp : Str) (st st' : T) (pkgs : List Str) : Prop where
  ext : ∀ p n, AL.lookup p st.p2n = some n → AL.lookup p st'.p2n = some n
  loc : st'.localPkg = st.localPkg
  tracked : ∀ p ∈ pkgs, ∃ n, AL.lookup p st'.p2n = some n
  noself : AL.lookup lp st.p2n = none → AL.lookup lp st'.p2n = none

theorem addSymbol_good (st st1 : T) (lp pkg : Str) (hp : pkg ≠ []) (hne : pkg ≠ lp) (hc : Cfg st lp)
    (h : addSymbol st pkg [] = .ok st1) :
    (∀ p n, AL.lookup p st.p2n = some n → AL.lookup p st1.p2n = some n) ∧ st1.localPkg = st.localPkg ∧
    (∃ n, AL.lookup pkg st1.p2n = some n) ∧ (AL.lookup lp st.p2n = none → AL.lookup lp st1.p2n = none) := by
  refine ⟨fun p n hpn => C07.name_stable_step st pkg [] st1 h p n hpn, (C07.addSymbol_keeps st pkg [] st1 h).1, ?_, ?_⟩
  · unfold addSymbol at h
    have hk : keyOf pkg [] = pkg := by simp [keyOf]
    rw [hk] at h
    unfold addKey at h
    have hl : ¬ st.localPkg = pkg := by
      rcases hc with hc | hc
      · rw [hc]; exact fun e => hne e.symm
      · rw [hc]; exact fun e => hp e.symm
    have he : pkg.isEmpty = false := by cases pkg <;> simp_all
    simp only [hl, if_false, he, Bool.false_eq_true] at h
    split at h
    · rename_i hs
      cases h
      cases hv : AL.lookup pkg st.p2n with
      | none => simp [hv] at hs
      | some n => exact ⟨n, rfl⟩
    · split at h
      · cases h
      · rename_i n _
        cases h
        exact ⟨n, by simp [AL.lookup_insert]⟩
  · intro hself
    unfold addSymbol at h
    have hk : keyOf pkg [] = pkg := by simp [keyOf]
    rw [hk] at h
    unfold addKey at h
    split at h
    · cases h; exact hself
    split at h
    · cases h; exact hself
    split at h
    · cases h; exact hself
    split at h
    · cases h
    · cases h
      simp only [AL.lookup_insert]
      rw [if_neg (fun e => hne e.symm)]
      exact hself

/-- aliases read from any later state agree with the ones used -/
def Agree (st' : T) (alias : Str → Str) : Prop := ∀ p n, AL.lookup p st'.p2n = some n → alias p = n

theorem agree_mono {a b : T} (h : ∀ p n, AL.lookup p a.p2n = some n → AL.lookup p b.p2n = some n)
    {alias : Str → Str} (hb : Agree b alias) : Agree a alias := fun p n hp => hb p n (h p n hp)

mutual
/-- **rawName_denotes** (core): naming a type extends the tracker monotonically, tracks every
foreign package the type mentions, never tracks the output package, and the text produced is the
structural spelling of the type in which every foreign package is written with the alias that any
later tracker state – in particular the one the import block is printed from – binds to it. -/
theorem rawName_spec (v2 : Bool) (lp : Str) : (t : Ty) → (st : T) → (s : Str) → (st' : T) →
    WF t → Cfg st lp → rawName v2 lp st t = some (s, st') →
    Good v2 lp st st' (foreignPkgs lp t) ∧ ∀ alias, Agree st' alias → s = render v2 lp alias t
  | .named pkg n, st, s, st', hw, hc, h => by
    simp only [rawName, namedWith] at h
    by_cases hl : pkg = lp
    · simp only [hl, if_true, Option.some.injEq, Prod.mk.injEq] at h
      obtain ⟨rfl, rfl⟩ := h
      refine ⟨⟨fun _ _ x => x, rfl, by simp [foreignPkgs, hl], fun x => x⟩, fun alias _ => by simp [render, hl]⟩
    · simp only [hl, if_false] at h
      cases ha : addSymbol st pkg [] with
      | panic => simp [ha] at h
      | ok st1 =>
        simp only [ha, Option.some.injEq, Prod.mk.injEq] at h
        obtain ⟨rfl, rfl⟩ := h
        obtain ⟨g1, g2, ⟨m, hm⟩, g4⟩ := addSymbol_good st st1 lp pkg hw hl hc ha
        refine ⟨⟨g1, g2, ?_, g4⟩, ?_⟩
        · intro p hp
          simp only [foreignPkgs, hl, if_false, List.mem_singleton] at hp
          subst hp; exact ⟨m, hm⟩
        · intro alias hag
          simp only [render, hl, if_false, localNameOf, hm, Option.getD_some, hag pkg m hm]
  | .builtin n, st, s, st', _, _, h => by
    simp only [rawName, Option.some.injEq, Prod.mk.injEq] at h
    obtain ⟨rfl, rfl⟩ := h
    exact ⟨⟨fun _ _ x => x, rfl, by simp [foreignPkgs], fun x => x⟩, fun _ _ => by simp [render]⟩
  | .other k, st, s, st', _, _, h => by
    simp only [rawName, Option.some.injEq, Prod.mk.injEq] at h
    obtain ⟨rfl, rfl⟩ := h
    exact ⟨⟨fun _ _ x => x, rfl, by simp [foreignPkgs], fun x => x⟩, fun _ _ => by simp [render]⟩
  | .iface ms, st, s, st', _, _, h => by
    simp only [rawName] at h
    split at h <;>
    · simp only [Option.some.injEq, Prod.mk.injEq] at h
      obtain ⟨rfl, rfl⟩ := h
      exact ⟨⟨fun _ _ x => x, rfl, by simp [foreignPkgs], fun x => x⟩, fun _ _ => by simp [render, *]⟩
  | .slice e, st, s, st', hw, hc, h => by
    simp only [rawName, Option.bind_eq_bind, Option.bind_eq_some_iff] at h
    obtain ⟨⟨a, s1⟩, h1, h2⟩ := h
    simp only [Option.pure_def, Option.some.injEq, Prod.mk.injEq] at h2
    obtain ⟨rfl, rfl⟩ := h2
    obtain ⟨g, r⟩ := rawName_spec v2 lp e st a s1 hw hc h1
    exact ⟨⟨g.ext, g.loc, by simpa [foreignPkgs] using g.tracked, g.noself⟩, fun alias hag => by simp [render, r alias hag]⟩
  | .array len e, st, s, st', hw, hc, h => by
    simp only [rawName, Option.bind_eq_bind, Option.bind_eq_some_iff] at h
    obtain ⟨⟨a, s1⟩, h1, h2⟩ := h
    simp only [Option.pure_def, Option.some.injEq, Prod.mk.injEq] at h2
    obtain ⟨rfl, rfl⟩ := h2
    obtain ⟨g, r⟩ := rawName_spec v2 lp e st a s1 hw hc h1
    exact ⟨⟨g.ext, g.loc, by simpa [foreignPkgs] using g.tracked, g.noself⟩, fun alias hag => by simp [render, r alias hag]⟩
  | .pointer e, st, s, st', hw, hc, h => by
    simp only [rawName, Option.bind_eq_bind, Option.bind_eq_some_iff] at h
    obtain ⟨⟨a, s1⟩, h1, h2⟩ := h
    simp only [Option.pure_def, Option.some.injEq, Prod.mk.injEq] at h2
    obtain ⟨rfl, rfl⟩ := h2
    obtain ⟨g, r⟩ := rawName_spec v2 lp e st a s1 hw hc h1
    exact ⟨⟨g.ext, g.loc, by simpa [foreignPkgs] using g.tracked, g.noself⟩, fun alias hag => by simp [render, r alias hag]⟩
  | .chan e, st, s, st', hw, hc, h => by
    simp only [rawName, Option.bind_eq_bind, Option.bind_eq_some_iff] at h
    obtain ⟨⟨a, s1⟩, h1, h2⟩ := h
    simp only [Option.pure_def, Option.some.injEq, Prod.mk.injEq] at h2
    obtain ⟨rfl, rfl⟩ := h2
    obtain ⟨g, r⟩ := rawName_spec v2 lp e st a s1 hw hc h1
    exact ⟨⟨g.ext, g.loc, by simpa [foreignPkgs] using g.tracked, g.noself⟩, fun alias hag => by simp [render, r alias hag]⟩
  | .map k e, st, s, st', hw, hc, h => by
    simp only [rawName, Option.bind_eq_bind, Option.bind_eq_some_iff] at h
    obtain ⟨⟨a, s1⟩, h1, ⟨b, s2⟩, h2, h3⟩ := h
    simp only [Option.pure_def, Option.some.injEq, Prod.mk.injEq] at h3
    obtain ⟨rfl, rfl⟩ := h3
    obtain ⟨g1, r1⟩ := rawName_spec v2 lp k st a s1 hw.1 hc h1
    have hc1 : Cfg s1 lp := by unfold Cfg at *; rw [g1.loc]; exact hc
    obtain ⟨g2, r2⟩ := rawName_spec v2 lp e s1 b s2 hw.2 hc1 h2
    refine ⟨⟨fun p n x => g2.ext p n (g1.ext p n x), g2.loc.trans g1.loc, ?_, fun x => g2.noself (g1.noself x)⟩, ?_⟩
    · intro p hp
      simp only [foreignPkgs, List.mem_append] at hp
      rcases hp with hp | hp
      · obtain ⟨n, hn⟩ := g1.tracked p hp; exact ⟨n, g2.ext p n hn⟩
      · exact g2.tracked p hp
    · intro alias hag
      simp [render, r1 alias (agree_mono g2.ext hag), r2 alias hag]
  | .struct ms, st, s, st', hw, hc, h => by
    simp only [rawName, Option.bind_eq_bind, Option.bind_eq_some_iff] at h
    obtain ⟨⟨l, s1⟩, h1, h2⟩ := h
    simp only [Option.pure_def, Option.some.injEq, Prod.mk.injEq] at h2
    obtain ⟨rfl, rfl⟩ := h2
    obtain ⟨g, r⟩ := rawMembers_spec v2 lp ms st l s1 hw hc h1
    exact ⟨⟨g.ext, g.loc, by simpa [foreignPkgs] using g.tracked, g.noself⟩, fun alias hag => by simp [render, r alias hag]⟩
  | .func ps rs, st, s, st', hw, hc, h => by
    simp only [rawName, Option.bind_eq_bind, Option.bind_eq_some_iff] at h
    obtain ⟨⟨a, s1⟩, h1, ⟨b, s2⟩, h2, h3⟩ := h
    simp only [Option.pure_def, Option.some.injEq, Prod.mk.injEq] at h3
    obtain ⟨rfl, rfl⟩ := h3
    obtain ⟨g1, r1⟩ := rawAll_spec v2 lp ps st a s1 hw.1 hc h1
    have hc1 : Cfg s1 lp := by unfold Cfg at *; rw [g1.loc]; exact hc
    obtain ⟨g2, r2⟩ := rawAll_spec v2 lp rs s1 b s2 hw.2 hc1 h2
    refine ⟨⟨fun p n x => g2.ext p n (g1.ext p n x), g2.loc.trans g1.loc, ?_, fun x => g2.noself (g1.noself x)⟩, ?_⟩
    · intro p hp
      simp only [foreignPkgs, List.mem_append] at hp
      rcases hp with hp | hp
      · obtain ⟨n, hn⟩ := g1.tracked p hp; exact ⟨n, g2.ext p n hn⟩
      · exact g2.tracked p hp
    · intro alias hag
      simp only [render]
      rw [← r1 alias (agree_mono g2.ext hag), ← r2 alias hag]
theorem rawAll_spec (v2 : Bool) (lp : Str) : (ts : Tys) → (st : T) → (l : List Str) → (st' : T) →
    WFL ts → Cfg st lp → rawAll v2 lp st ts = some (l, st') →
    Good v2 lp st st' (foreignPkgsL lp ts) ∧ ∀ alias, Agree st' alias → l = renderAll v2 lp alias ts
  | .nil, st, l, st', _, _, h => by
    simp only [rawAll, Option.some.injEq, Prod.mk.injEq] at h
    obtain ⟨rfl, rfl⟩ := h
    exact ⟨⟨fun _ _ x => x, rfl, by simp [foreignPkgsL], fun x => x⟩, fun _ _ => by simp [renderAll]⟩
  | .cons t ts, st, l, st', hw, hc, h => by
    simp only [rawAll, Option.bind_eq_bind, Option.bind_eq_some_iff] at h
    obtain ⟨⟨a, s1⟩, h1, ⟨r, s2⟩, h2, h3⟩ := h
    simp only [Option.pure_def, Option.some.injEq, Prod.mk.injEq] at h3
    obtain ⟨rfl, rfl⟩ := h3
    obtain ⟨g1, r1⟩ := rawName_spec v2 lp t st a s1 hw.1 hc h1
    have hc1 : Cfg s1 lp := by unfold Cfg at *; rw [g1.loc]; exact hc
    obtain ⟨g2, r2⟩ := rawAll_spec v2 lp ts s1 r s2 hw.2 hc1 h2
    refine ⟨⟨fun p n x => g2.ext p n (g1.ext p n x), g2.loc.trans g1.loc, ?_, fun x => g2.noself (g1.noself x)⟩, ?_⟩
    · intro p hp
      simp only [foreignPkgsL, List.mem_append] at hp
      rcases hp with hp | hp
      · obtain ⟨n, hn⟩ := g1.tracked p hp; exact ⟨n, g2.ext p n hn⟩
      · exact g2.tracked p hp
    · intro alias hag
      simp [renderAll, r1 alias (agree_mono g2.ext hag), r2 alias hag]
theorem rawMembers_spec (v2 : Bool) (lp : Str) : (ms : Members) → (st : T) → (l : List Str) → (st' : T) →
    WFM ms → Cfg st lp → rawMembers v2 lp st ms = some (l, st') →
    Good v2 lp st st' (foreignPkgsM lp ms) ∧ ∀ alias, Agree st' alias → l = renderMembers v2 lp alias ms
  | .nil, st, l, st', _, _, h => by
    simp only [rawMembers, Option.some.injEq, Prod.mk.injEq] at h
    obtain ⟨rfl, rfl⟩ := h
    exact ⟨⟨fun _ _ x => x, rfl, by simp [foreignPkgsM], fun x => x⟩, fun _ _ => by simp [renderMembers]⟩
  | .cons name t ms, st, l, st', hw, hc, h => by
    simp only [rawMembers, Option.bind_eq_bind, Option.bind_eq_some_iff] at h
    obtain ⟨⟨a, s1⟩, h1, ⟨r, s2⟩, h2, h3⟩ := h
    simp only [Option.pure_def, Option.some.injEq, Prod.mk.injEq] at h3
    obtain ⟨rfl, rfl⟩ := h3
    obtain ⟨g1, r1⟩ := rawName_spec v2 lp t st a s1 hw.1 hc h1
    have hc1 : Cfg s1 lp := by unfold Cfg at *; rw [g1.loc]; exact hc
    obtain ⟨g2, r2⟩ := rawMembers_spec v2 lp ms s1 r s2 hw.2 hc1 h2
    refine ⟨⟨fun p n x => g2.ext p n (g1.ext p n x), g2.loc.trans g1.loc, ?_, fun x => g2.noself (g1.noself x)⟩, ?_⟩
    · intro p hp
      simp only [foreignPkgsM, List.mem_append] at hp
      rcases hp with hp | hp
      · obtain ⟨n, hn⟩ := g1.tracked p hp; exact ⟨n, g2.ext p n hn⟩
      · exact g2.tracked p hp
    · intro alias hag
      simp [renderMembers, r1 alias (agree_mono g2.ext hag), r2 alias hag]
end

/-- **rawName_denotes**: the rendered text is the structural spelling of the type with every foreign
package qualified by exactly the alias that the final tracker state (from which the import lines are
printed) binds to it; local types are unqualified. -/
theorem rawName_denotes (v2 : Bool) (lp : Str) (t : Ty) (st st' : T) (s : Str) (hw : WF t) (hc : Cfg st lp)
    (h : rawName v2 lp st t = some (s, st')) : s = render v2 lp (localNameOf st') t :=
  (rawName_spec v2 lp t st s st' hw hc h).2 _ (fun p n hp => by simp [localNameOf, hp])

/-- **rawName_imports_sufficient**: every foreign package the type mentions is tracked afterwards, so
the import block binds an alias for it -/
theorem rawName_imports_sufficient (v2 : Bool) (lp : Str) (t : Ty) (st st' : T) (s : Str) (hw : WF t)
    (hc : Cfg st lp) (h : rawName v2 lp st t = some (s, st')) :
    ∀ p ∈ foreignPkgs lp t, ∃ n, AL.lookup p st'.p2n = some n :=
  (rawName_spec v2 lp t st s st' hw hc h).1.tracked

/-- **rawName_no_self_import** (true since the repair of F15, even for a tracker that was not told the
output package) -/
theorem rawName_no_self_import (v2 : Bool) (lp : Str) (t : Ty) (st st' : T) (s : Str) (hw : WF t)
    (hc : Cfg st lp) (h : rawName v2 lp st t = some (s, st')) (h0 : AL.lookup lp st.p2n = none) :
    AL.lookup lp st'.p2n = none :=
  (rawName_spec v2 lp t st s st' hw hc h).1.noself h0

/-- **rawName_memo_transparent**: a name computed earlier is still the right one after any further
naming – aliases never change – so the namer's cache returns what recomputation would -/
theorem rawName_memo_transparent (v2 : Bool) (lp : Str) (t u : Ty) (st st1 st2 : T) (s s' : Str)
    (hw : WF t) (hwu : WF u) (hc : Cfg st lp)
    (h1 : rawName v2 lp st t = some (s, st1)) (h2 : rawName v2 lp st1 u = some (s', st2)) :
    s = render v2 lp (localNameOf st2) t := by
  have hc1 : Cfg st1 lp := by
    unfold Cfg at *; rw [(rawName_spec v2 lp t st s st1 hw hc h1).1.loc]; exact hc
  have g2 := (rawName_spec v2 lp u st1 s' st2 hwu hc1 h2).1
  exact (rawName_spec v2 lp t st s st1 hw hc h1).2 _
    (agree_mono g2.ext (fun p n hp => by simp [localNameOf, hp]))

/-! non-vacuity -/
example : WF (.map (.builtin "string".toList) (.slice (.named "k8s.io/api/core/v1".toList "Pod".toList))) := by
  simp [WF]
example : Cfg (Tracker.new false []) "out".toList := Or.inr rfl

end Gengo.C02

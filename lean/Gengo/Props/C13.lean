import Gengo.Model.Exec
import Gengo.Model.Writer
/-! # C13 – generator and I/O failures are never swallowed -/
namespace Gengo.C13
open Gengo Gengo.Exec Gengo.Writer

/-! ### the error tracker -/

/-- **sticky_first_error**: once an error is recorded, every later write through the tracker returns
that error and the tracker (hence the underlying writer) is untouched -/
theorem sticky (t : ET) (e : Nat) (h : t.err = some e) (ps : List Str) :
    (t.writes ps).1 = t ∧ (t.writes ps).2 = ps.map (fun _ => some e) := by
  induction ps with
  | nil => simp [ET.writes]
  | cons p ps ih =>
    simp only [ET.writes, ET.write, h]
    exact ⟨ih.1, by simp [ih.2]⟩

/-- **writer_not_reached_after_failure**: the writer receives exactly a prefix of the writes – all of
them iff no error was recorded – is never called after the first failure, and the recorded error is
the one the writer returned at that call -/
theorem log_is_prefix (t : ET) (h0 : t.err = none) (ps : List Str) :
    ∃ k, k ≤ ps.length ∧ (t.writes ps).1.w.log = t.w.log ++ ps.take k ∧
      ((t.writes ps).1.err = none → k = ps.length ∧ (t.writes ps).1.w.calls = t.w.calls + k) ∧
      (∀ e, (t.writes ps).1.err = some e →
          t.w.failAt (t.w.calls + k) = some e ∧ (t.writes ps).1.w.calls = t.w.calls + k + 1 ∧ k < ps.length) := by
  induction ps generalizing t with
  | nil => exact ⟨0, by simp, by simp [ET.writes], by simp [ET.writes], by simp [ET.writes, h0]⟩
  | cons p ps ih =>
    cases hf : t.w.failAt t.w.calls with
    | some e =>
      have hw : t.write p = ({ w := { t.w with calls := t.w.calls + 1 }, err := some e }, some e) := by
        simp [ET.write, h0, Writer.write, hf]
      have hs := sticky { w := { t.w with calls := t.w.calls + 1 }, err := some e } e rfl ps
      refine ⟨0, by simp, ?_, ?_, ?_⟩
      · simp only [ET.writes, hw, hs.1]; simp
      · simp only [ET.writes, hw, hs.1]; simp
      · intro e' he'
        simp only [ET.writes, hw, hs.1] at he' ⊢
        simp at he'; subst he'
        exact ⟨by simpa using hf, by simp, by simp⟩
    | none =>
      have hw : t.write p = ({ w := { t.w with calls := t.w.calls + 1, log := t.w.log ++ [p] }, err := none }, none) := by
        simp [ET.write, h0, Writer.write, hf]
      obtain ⟨k, hk, hlog, hnone, hsome⟩ :=
        ih { w := { t.w with calls := t.w.calls + 1, log := t.w.log ++ [p] }, err := none } rfl
      refine ⟨k + 1, by simp; omega, ?_, ?_, ?_⟩
      · simp only [ET.writes, hw]; simp [hlog, List.append_assoc]
      · intro he
        simp only [ET.writes, hw] at he ⊢
        obtain ⟨h1, h2⟩ := hnone he
        exact ⟨by simp [h1], by simp [h2]; omega⟩
      · intro e he
        simp only [ET.writes, hw] at he ⊢
        obtain ⟨h1, h2, h3⟩ := hsome e he
        refine ⟨?_, ?_, by simp; omega⟩
        · simpa [Nat.add_assoc, Nat.add_comm 1 k] using h1
        · simp [h2]; omega

/-! ### hooks -/

/-- which hook of the generator fails first (if any), given the types it is offered -/
def hookFails (g : Gen) (order : List Nat) : Bool :=
  g.initErr || order.any (fun t => g.typeErr.contains t) || g.finErr

theorem bodyTypes_fail_iff (g : Gen) (ns : List Str) (order : List Nat) :
    (bodyTypes g ns order).2.2 = order.any (fun t => g.typeErr.contains t) := by
  induction order with
  | nil => rfl
  | cons t ts ih =>
    by_cases h : g.typeErr.contains t = true
    · simp only [bodyTypes, h, if_true, List.any_cons, Bool.true_or]
    · have h' : g.typeErr.contains t = false := by simpa using h
      simp only [bodyTypes, h', Bool.false_eq_true, if_false, List.any_cons, Bool.false_or]
      exact ih

/-- **executeBody_reports_hook_error**: `executeBody` fails exactly when Init, some GenerateType call
or Finalize returns an error -/
theorem executeBody_fail_iff (g : Gen) (ns : List Str) (order : List Nat) :
    (executeBody g ns order).2.2 = hookFails g order := by
  unfold executeBody hookFails
  by_cases hi : g.initErr = true
  · simp [hi]
  · have hi' : g.initErr = false := by simpa using hi
    simp only [hi', Bool.false_eq_true, if_false, Bool.false_or]
    rw [← bodyTypes_fail_iff g ns order]
    cases hb : (bodyTypes g ns order).2.2 with
    | true => simp
    | false => simp

/-- a result that means "nothing of this target was assembled" -/
def TRes.early : TRes → Bool
  | .errHook => true
  | .errFileType => true
  | _ => false

/-- the generator loop returns an error only of the early kind -/
theorem runGens_inl_early (c : Ctx) (tgt : Target) (po : List Nat) (gens : List Gen) (files : List File)
    (evs : List Ev) (e : TRes) (h : runGens c tgt po gens files = (evs, .inl e)) : TRes.early e = true := by
  induction gens generalizing files evs with
  | nil => simp [runGens] at h
  | cons g gs ih =>
    simp only [runGens] at h
    split at h
    · simp only [Prod.mk.injEq, Sum.inl.injEq] at h; rw [← h.2]; rfl
    · split at h
      · simp only [Prod.mk.injEq, Sum.inl.injEq] at h; rw [← h.2]; rfl
      · simp only [Prod.mk.injEq] at h
        exact ih _ _ (Prod.ext rfl h.2)

/-- **hook_error_is_run_error**: if the first generator whose hooks are reached has a failing hook,
the target's result is the hook error -/
theorem hook_error_is_run_error (c : Ctx) (tgt : Target) (po : List Nat) (g : Gen) (gs : List Gen)
    (files : List File) (hft : fileTypeError files g = false)
    (hfail : hookFails g (genOrder po g) = true) :
    (runGens c tgt po (g :: gs) files).2 = .inl .errHook := by
  simp only [runGens, hft, Bool.false_eq_true, if_false]
  rw [executeBody_fail_iff, hfail]
  simp

/-- … and if the hooks of a generator all succeed the loop goes on to the next generator -/
theorem hook_ok_continues (c : Ctx) (tgt : Target) (po : List Nat) (g : Gen) (gs : List Gen)
    (files : List File) (hft : fileTypeError files g = false)
    (hok : hookFails g (genOrder po g) = false) :
    (runGens c tgt po (g :: gs) files).2 =
      (runGens c tgt po gs (putFile files (contribute (startFile tgt files g) g
        (executeBody g (genNamers c g) (genOrder po g)).2.1))).2 := by
  simp only [runGens, hft, Bool.false_eq_true, if_false]
  rw [executeBody_fail_iff, hok]
  simp

theorem mkdirAll_files (d d' : Disk) (p : Str) (h : d.mkdirAll p = some d') : d'.files = d.files := by
  unfold Disk.mkdirAll at h
  split at h
  · cases h
  · cases h; rfl

/-- **hook_error_writes_no_file_of_target**: whenever a target ends with a hook error (or a file-type
configuration error), not a single file on disk was created or changed by it -/
theorem early_error_writes_no_file (format : Str → Option Str) (c : Ctx) (tgt : Target) (d : Disk)
    (h : TRes.early (executeTarget format c tgt d).2.1 = true) :
    (executeTarget format c tgt d).2.2.files = d.files := by
  have hd1 : ((if c.verify = true then some d else d.mkdirAll tgt.dir).getD d).files = d.files := by
    split
    · rfl
    · cases hm : d.mkdirAll tgt.dir with
      | none => rfl
      | some d' => exact mkdirAll_files d d' _ hm
  unfold executeTarget at h ⊢
  simp only at h ⊢
  by_cases h1 : (c.v2 && (if c.verify = true then some d else d.mkdirAll tgt.dir).isNone) = true
  · simp only [h1, if_true]
  · simp only [h1, if_false] at h ⊢
    cases hr : (runGens c tgt (c.order.filter (fun t => tgt.accept.contains t)) tgt.gens []).2 with
    | inl e => simp only [hr]; exact hd1
    | inr files =>
      simp only [hr] at h ⊢
      by_cases hu : (files.any fun f => !c.fileTypes.contains f.fileType) = true
      · simp only [hu, if_true]; exact hd1
      · simp only [hu, if_false] at h
        by_cases he : (assembleAll format c tgt.dir files ((if c.verify = true then some d else d.mkdirAll tgt.dir).getD d)).2.isEmpty = true
        · simp [he, TRes.early] at h
        · simp [he, TRes.early] at h

/-! ### files -/

/-- **format_failure_writes_unformatted_and_errors**: an unformattable file is reported as failed and
its unformatted text is what is written (when the file can be created at all) -/
theorem format_failure_leaves_unformatted (format : Str → Option Str) (d d' : Disk) (f : File) (path : Str)
    (hf : format (assemble f) = none) (hw : d.writeFile path (assemble f) = some d') :
    assembleFile format d f path = (d', false) ∧ d'.readFile path = some (assemble f) := by
  refine ⟨by simp [assembleFile, hf, hw], ?_⟩
  unfold Disk.writeFile at hw
  split at hw
  · cases hw; simp [Disk.readFile, AL.lookup_insert]
  · cases hw

/-- a file that cannot be created is reported as failed and the disk is unchanged -/
theorem create_failure_reported (format : Str → Option Str) (d : Disk) (f : File) (path : Str)
    (hw : ∀ content, d.writeFile path content = none) : assembleFile format d f path = (d, false) := by
  unfold assembleFile
  cases hf : format (assemble f) <;> simp [hw, hf]

/-- **assembly_errors_aggregated_others_processed**: the assembly loop attempts every file – the names
reported are exactly those whose `AssembleFile` failed, and the loop's disk is the fold of all the
individual attempts (a failure never stops the loop) -/
theorem assemble_loop_spec (format : Str → Option Str) (c : Ctx) (hv : c.verify = false) (dir : Str)
    (files : List File) (d : Disk) :
    (assembleAll format c dir files d).1 =
      files.foldl (fun acc f => (assembleFile format acc f (joinPath dir f.name)).1) d ∧
    (assembleAll format c dir files d).2.length ≤ files.length := by
  induction files generalizing d with
  | nil => exact ⟨rfl, by simp [assembleAll]⟩
  | cons f fs ih =>
    simp only [assembleAll, hv, Bool.false_eq_true, if_false, List.foldl_cons]
    obtain ⟨h1, h2⟩ := ih (assembleFile format d f (joinPath dir f.name)).1
    refine ⟨h1, ?_⟩
    split
    · simp; omega
    · simp; omega

/-- **targets_continue_after_failure**: a run over several targets processes every one of them, each
on the disk its predecessor left, whatever the earlier results were -/
theorem targets_all_processed (format : Str → Option Str) (c : Ctx) (ts : List Target) (d : Disk) :
    (executeTargets format c ts d).1.length = ts.length := by
  induction ts generalizing d with
  | nil => rfl
  | cons t ts ih => simp [executeTargets, ih]

theorem targets_step (format : Str → Option Str) (c : Ctx) (t : Target) (ts : List Target) (d : Disk) :
    executeTargets format c (t :: ts) d =
      (((executeTarget format c t d).1, (executeTarget format c t d).2.1) ::
        (executeTargets format c ts (executeTarget format c t d).2.2).1,
       (executeTargets format c ts (executeTarget format c t d).2.2).2) := rfl

/-! non-vacuity -/
def gBad : Gen := ⟨"g".toList, [1, 2], none, "go".toList, "a.go".toList, [], [], [], false, false, [2], false⟩
example : hookFails gBad [1, 2] = true := by decide
example : (runGens ⟨[1, 2], [], ["go".toList], false, false⟩ ⟨"p".toList, "d".toList, [1, 2], [], [gBad]⟩ [1, 2] [gBad] []).2
    = .inl .errHook := hook_error_is_run_error _ _ _ _ _ _ (by decide) (by decide)

end Gengo.C13

import Gengo.Model.Exec
namespace Gengo.C13
end Gengo.C13

import Gengo.Model.Exec
namespace Gengo.C04
end Gengo.C04

import Gengo.Model.Exec
/-! # C04 – targets and generators are driven exactly by the documented protocol -/
namespace Gengo.C04
open Gengo Gengo.Exec

/-- the documented call sequence for one generator that runs through: its filter is asked about every
type the target accepted (in canonical order), then Namers (seeing the base systems), PackageVars,
PackageConsts, Init, one GenerateType per type that passed both filters (in canonical order),
Finalize, Imports – each of these seeing the base systems extended by this generator's own only. -/
def genTrace (c : Ctx) (po : List Nat) (g : Gen) : List Ev :=
  evStart c po g ++ evVarsConsts c po g ++
  [Ev.hook .init g.name (genNamers c g) (genOrder po g)] ++
  (genOrder po g).map (fun t => Ev.genType g.name t (genNamers c g)) ++
  [Ev.hook .finalize g.name (genNamers c g) (genOrder po g), Ev.hook .imports g.name (genNamers c g) (genOrder po g)]

theorem bodyTypes_ok (g : Gen) (ns : List Str) (order : List Nat) (h : (bodyTypes g ns order).2.2 = false) :
    (bodyTypes g ns order).1 = order.map (fun t => Ev.genType g.name t ns) := by
  induction order with
  | nil => rfl
  | cons t ts ih =>
    by_cases ht : g.typeErr.contains t = true
    · simp only [bodyTypes, ht, if_true] at h; cases h
    · have ht' : g.typeErr.contains t = false := by simpa using ht
      simp only [bodyTypes, ht', Bool.false_eq_true, if_false] at h ⊢
      simp [ih h]

theorem executeBody_ok (g : Gen) (ns : List Str) (order : List Nat) (h : (executeBody g ns order).2.2 = false) :
    (executeBody g ns order).1 =
      [Ev.hook .init g.name ns order] ++ order.map (fun t => Ev.genType g.name t ns) ++ [Ev.hook .finalize g.name ns order] := by
  unfold executeBody at h ⊢
  by_cases hi : g.initErr = true
  · simp [hi] at h
  · simp only [hi, if_false] at h ⊢
    by_cases hb : (bodyTypes g ns order).2.2 = true
    · simp [hb] at h
    · have hb' : (bodyTypes g ns order).2.2 = false := by simpa using hb
      simp only [hb', Bool.false_eq_true, if_false]
      rw [bodyTypes_ok g ns order hb']
      simp

/-- **hooks_in_documented_order**: whenever the generator loop of a target runs through, the trace of
calls is, generator by generator in list order, exactly the documented sequence – nothing skipped,
nothing repeated, nothing interleaved. -/
theorem hooks_in_documented_order (c : Ctx) (tgt : Target) (po : List Nat) (gens : List Gen)
    (files files' : List File) (evs : List Ev) (h : runGens c tgt po gens files = (evs, .inr files')) :
    evs = (gens.map (genTrace c po)).flatten := by
  induction gens generalizing files evs with
  | nil => simp only [runGens, Prod.mk.injEq] at h; simp [h.1.symm]
  | cons g gs ih =>
    simp only [runGens] at h
    split at h
    · simp at h
    · split at h
      · simp at h
      · rename_i hb
        have hb' : (executeBody g (genNamers c g) (genOrder po g)).2.2 = false := by simpa using hb
        simp only [Prod.mk.injEq] at h
        obtain ⟨h1, h2⟩ := h
        have hih := ih _ _ (Prod.ext rfl h2)
        subst h1
        simp only [List.map_cons, List.flatten_cons, ← hih, genTrace, executeBody_ok _ _ _ hb', List.append_assoc,
          List.cons_append, List.nil_append]

/-- **generateType_exactly_filtered**: the types a generator is asked to generate are exactly those
accepted by the target's filter and then by its own, in canonical order (read off the trace) -/
theorem generateType_exactly_filtered (c : Ctx) (po : List Nat) (g : Gen) :
    (genTrace c po g).filterMap (fun e => match e with | .genType _ t _ => some t | _ => none)
      = po.filter (fun t => g.accept.contains t) := by
  simp only [genTrace, evStart, evVarsConsts, List.filterMap_append, List.filterMap_map, List.filterMap_cons,
    List.filterMap_nil, List.append_nil, List.nil_append]
  have h1 : List.filterMap ((fun e => match e with | Ev.genType _ t _ => some t | _ => none) ∘ fun t => Ev.gFilter g.name t) po = [] := by
    induction po <;> simp_all
  have h2 : List.filterMap ((fun e => match e with | Ev.genType _ t _ => some t | _ => none) ∘ fun t => Ev.genType g.name t (genNamers c g)) (genOrder po g) = genOrder po g := by
    induction genOrder po g <;> simp_all
  rw [h1, h2]; rfl

/-- the filter itself is asked about exactly the types the target accepted, in canonical order -/
theorem filter_asked_about_target_types (c : Ctx) (po : List Nat) (g : Gen) :
    (genTrace c po g).filterMap (fun e => match e with | .gFilter _ t => some t | _ => none) = po := by
  simp only [genTrace, evStart, evVarsConsts, List.filterMap_append, List.filterMap_map, List.filterMap_cons,
    List.filterMap_nil, List.append_nil]
  have h1 : List.filterMap ((fun e => match e with | Ev.gFilter _ t => some t | _ => none) ∘ fun t => Ev.gFilter g.name t) po = po := by
    induction po <;> simp_all
  have h2 : List.filterMap ((fun e => match e with | Ev.gFilter _ t => some t | _ => none) ∘ fun t => Ev.genType g.name t (genNamers c g)) (genOrder po g) = [] := by
    induction genOrder po g <;> simp_all
  rw [h1, h2]; simp

/-- whole target: the trace starts with `Generators` seeing the target-filtered order, followed by the
documented per-generator sequences over that order -/
theorem target_trace (format : Str → Option Str) (c : Ctx) (tgt : Target) (d : Disk)
    (hmk : (c.v2 && (if c.verify then some d else d.mkdirAll tgt.dir).isNone) = false)
    (files : List File) (evs : List Ev)
    (h : runGens c tgt (c.order.filter (fun t => tgt.accept.contains t)) tgt.gens [] = (evs, .inr files)) :
    (executeTarget format c tgt d).1 =
      Ev.generators (c.order.filter (fun t => tgt.accept.contains t)) ::
        (tgt.gens.map (genTrace c (c.order.filter (fun t => tgt.accept.contains t)))).flatten := by
  have ht := hooks_in_documented_order c tgt _ tgt.gens [] files evs h
  unfold executeTarget
  simp only [hmk, Bool.false_eq_true, if_false, h]
  split <;> simp [ht]

/-- **namers_private_to_generator**: what a generator's hooks see is the base set of naming systems
extended by *its own* systems only – it is a function of the base and of that generator alone, so no
other generator's systems are visible and the base context is not changed. -/
theorem namers_private_to_generator (c : Ctx) (g : Gen) (n : Str) :
    n ∈ addNamers c.namers g.namers ↔ n ∈ c.namers ∨ (∃ l, g.namers = some l ∧ n ∈ l) := by
  unfold addNamers
  cases g.namers with
  | none => simp
  | some l =>
    simp only [Option.some.injEq, exists_eq_left']
    suffices ∀ base : List Str, n ∈ l.foldl (fun acc n => if acc.contains n then acc else acc ++ [n]) base ↔ n ∈ base ∨ n ∈ l from this _
    induction l with
    | nil => simp
    | cons x xs ih =>
      intro base
      simp only [List.foldl_cons, ih, List.mem_cons]
      by_cases hx : base.contains x = true
      · have hx' : x ∈ base := by simpa using hx
        rw [if_pos hx]
        constructor
        · rintro (h | h)
          · exact Or.inl h
          · exact Or.inr (Or.inr h)
        · rintro (h | h | h)
          · exact Or.inl h
          · subst h; exact Or.inl hx'
          · exact Or.inr h
      · rw [if_neg hx]
        simp only [List.mem_append, List.mem_singleton]
        constructor
        · rintro ((h | h) | h)
          · exact Or.inl h
          · exact Or.inr (Or.inl h)
          · exact Or.inr (Or.inr h)
        · rintro (h | h | h)
          · exact Or.inl (Or.inl h)
          · exact Or.inl (Or.inr h)
          · exact Or.inr h

/-! ### file types -/

/-- **empty_filetype_is_error** -/
theorem empty_filetype_is_error (c : Ctx) (tgt : Target) (po : List Nat) (g : Gen) (gs : List Gen)
    (files : List File) (h : g.fileType.isEmpty = true) :
    (runGens c tgt po (g :: gs) files).2 = .inl .errFileType := by
  simp [runGens, fileTypeError, h]

/-- **conflicting_filetype_is_error**: a generator naming a file that was started with another type -/
theorem conflicting_filetype_is_error (c : Ctx) (tgt : Target) (po : List Nat) (g : Gen) (gs : List Gen)
    (files : List File) (f : File) (hf : findFile files g.filename = some f) (hne : f.fileType ≠ g.fileType) :
    (runGens c tgt po (g :: gs) files).2 = .inl .errFileType := by
  have : fileTypeError files g = true := by simp [fileTypeError, hf, hne]
  simp [runGens, this]

/-- **unknown_filetype_is_error**: if the generators run through but some file's type is not
registered in the context, the target fails -/
theorem unknown_filetype_is_error (format : Str → Option Str) (c : Ctx) (tgt : Target) (d : Disk)
    (hmk : (c.v2 && (if c.verify then some d else d.mkdirAll tgt.dir).isNone) = false)
    (files : List File) (evs : List Ev)
    (h : runGens c tgt (c.order.filter (fun t => tgt.accept.contains t)) tgt.gens [] = (evs, .inr files))
    (hu : files.any (fun f => !c.fileTypes.contains f.fileType) = true) :
    (executeTarget format c tgt d).2.1 = .errUnknownType := by
  unfold executeTarget
  simp only [hmk, Bool.false_eq_true, if_false, h, hu, if_true]

/-! ### one file per name, contributions in generator order -/

theorem findFile_name (files : List File) (n : Str) (f : File) (h : findFile files n = some f) : f.name = n := by
  unfold findFile at h
  have := List.find?_some h
  simpa using this

theorem findFile_putFile (files : List File) (f : File) (n : Str) :
    findFile (putFile files f) n = if f.name = n then some f else findFile files n := by
  induction files with
  | nil => simp [putFile, findFile, List.find?]
  | cons x xs ih =>
    simp only [putFile]
    by_cases hx : x.name = f.name
    · simp only [hx, if_true]
      by_cases hn : f.name = n
      · simp [findFile, List.find?, hn]
      · have : ¬ x.name = n := by rw [hx]; exact hn
        simp [findFile, List.find?, hn, this]
    · simp only [hx, if_false]
      by_cases hxn : x.name = n
      · have : ¬ f.name = n := by intro e; exact hx (hxn.trans e.symm)
        simp [findFile, List.find?, hxn, this]
      · have := ih
        simp only [findFile] at this ⊢
        simp [List.find?, hxn, this]

def bodyIn (files : List File) (n : Str) : Str := ((findFile files n).map (·.body)).getD []

theorem startFile_name (tgt : Target) (files : List File) (g : Gen) : (startFile tgt files g).name = g.filename := by
  unfold startFile
  cases h : findFile files g.filename with
  | none => rfl
  | some f => simpa using findFile_name files g.filename f h

theorem startFile_body (tgt : Target) (files : List File) (g : Gen) :
    (startFile tgt files g).body = bodyIn files g.filename := by
  unfold startFile bodyIn
  cases findFile files g.filename <;> rfl

theorem contribute_name (f : File) (g : Gen) (b : Str) : (contribute f g b).name = f.name := rfl
theorem contribute_body (f : File) (g : Gen) (b : Str) : (contribute f g b).body = f.body ++ b := rfl

/-- **same_file_accumulates_in_generator_order**: after a generator loop that runs through, the body of
every file is what it was before followed by the bodies of exactly the generators naming that file,
in generator order -/
theorem same_file_accumulates (c : Ctx) (tgt : Target) (po : List Nat) (gens : List Gen)
    (files files' : List File) (evs : List Ev) (h : runGens c tgt po gens files = (evs, .inr files')) (n : Str) :
    bodyIn files' n = bodyIn files n ++
      ((gens.filter (fun g => g.filename = n)).map
        (fun g => (executeBody g (genNamers c g) (genOrder po g)).2.1)).flatten := by
  induction gens generalizing files evs with
  | nil => simp only [runGens, Prod.mk.injEq, Sum.inr.injEq] at h; simp [h.2]
  | cons g gs ih =>
    simp only [runGens] at h
    split at h
    · simp at h
    · split at h
      · simp at h
      · simp only [Prod.mk.injEq] at h
        obtain ⟨_, h2⟩ := h
        rw [ih _ _ (Prod.ext rfl h2)]
        have hb : bodyIn (putFile files (contribute (startFile tgt files g) g (executeBody g (genNamers c g) (genOrder po g)).2.1)) n
            = if g.filename = n then bodyIn files n ++ (executeBody g (genNamers c g) (genOrder po g)).2.1 else bodyIn files n := by
          unfold bodyIn
          rw [findFile_putFile, contribute_name, startFile_name]
          by_cases hg : g.filename = n
          · rw [if_pos hg, if_pos hg]
            simp only [Option.map_some, Option.getD_some]
            rw [contribute_body, startFile_body, hg]; rfl
          · rw [if_neg hg, if_neg hg]
        rw [hb]
        by_cases hg : g.filename = n
        · rw [if_pos hg]
          simp only [List.filter_cons, hg, decide_true, if_true, List.map_cons, List.flatten_cons, List.append_assoc]
        · rw [if_neg hg]
          simp only [List.filter_cons, hg, decide_false, Bool.false_eq_true, if_false]

/-! non-vacuity -/
def g1 : Gen := ⟨"g1".toList, [1, 3], some ["mine".toList], "go".toList, "a.go".toList, [], [], [], false, false, [], false⟩
example : (runGens ⟨[1, 2, 3], ["raw".toList], ["go".toList], false, false⟩ ⟨"p".toList, "d".toList, [1, 2, 3], [], [g1]⟩
    [1, 2, 3] [g1] []).2.isRight = true := by decide

end Gengo.C04

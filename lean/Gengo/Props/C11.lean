import Gengo.Model.Loader
import Gengo.Lemmas.WalkInv
import Gengo.Lemmas.WalkIso
import Gengo.Lemmas.WalkReach
import Gengo.Props.C01
import Gengo.Lemmas.StrOrder
/-! # C11 – the universe does not depend on how loading was split or ordered

The theorems here are about *which* packages are scanned and which are stubs (the set level). That
the content recorded for a scanned package is a function of the Go facts alone is C01's walk invariant;
the complete universes of split and combined loads are compared on the real code by the harness. -/
namespace Gengo.C11
open Gengo Gengo.Universe Gengo.Loader

def Sub (a b : List Str) : Prop := ∀ x, x ∈ a → x ∈ b

theorem Sub.refl (a : List Str) : Sub a a := fun _ h => h
theorem Sub.trans {a b c : List Str} (h1 : Sub a b) (h2 : Sub b c) : Sub a c := fun x h => h2 x (h1 x h)

/-- folding a partial step over a list preserves any invariant the step preserves -/
theorem foldl_bind_inv {α β} (f : α → β → Option α) (P : α → Prop)
    (hP : ∀ a b a', P a → f a b = some a' → P a') :
    ∀ (l : List β) (a a' : α), P a → l.foldl (fun acc b => acc.bind (fun s => f s b)) (some a) = some a' → P a' := by
  intro l
  induction l with
  | nil => intro a a' ha h; simp only [List.foldl_nil, Option.some.injEq] at h; subst h; exact ha
  | cons b bs ih =>
    intro a a' ha h
    simp only [List.foldl_cons, Option.bind_some] at h
    cases hf : f a b with
    | none =>
      rw [hf] at h
      have : ∀ l : List β, l.foldl (fun acc b => acc.bind (fun s => f s b)) none = none := by
        intro l; induction l <;> simp_all
      rw [this] at h; cases h
    | some a1 => rw [hf] at h; exact ih a1 a' (hP a b a1 ha hf) h

/-- what every step of loading preserves: the request set is untouched, processed packages stay
processed, and only requested packages are ever processed -/
structure Step (st st' : LState) : Prop where
  req : st'.requested = st.requested
  mono : Sub st.processed st'.processed
  only : ∀ x, x ∈ st'.processed → x ∈ st.processed ∨ x ∈ st.requested

theorem Step.refl (st : LState) : Step st st := ⟨rfl, Sub.refl _, fun _ h => .inl h⟩

theorem Step.trans {a b c : LState} (h1 : Step a b) (h2 : Step b c) : Step a c where
  req := h2.req.trans h1.req
  mono := h1.mono.trans h2.mono
  only := by
    intro x hx
    rcases h2.only x hx with h | h
    · exact h1.only x h
    · rw [h1.req] at h; exact .inr h

theorem visitV2_step (w : World) : ∀ (n : Nat) (st st' : LState) (path : Str),
    visitV2 w n st path = some st' → Step st st' ∧ (path ∈ st.requested → path ∈ st'.processed) := by
  intro n
  induction n with
  | zero => intro st st' path h; simp [visitV2] at h
  | succ n ih =>
    intro st st' path h
    simp only [visitV2] at h
    split at h
    · rename_i hp
      simp only [Option.some.injEq] at h; subst h
      exact ⟨Step.refl _, fun _ => by simpa using hp⟩
    · rename_i hnp
      split at h
      · cases h
      · rename_i p hfind
        split at h
        · rename_i hreq
          simp only [Option.some.injEq] at h; subst h
          refine ⟨⟨rfl, Sub.refl _, fun _ hx => .inl hx⟩, ?_⟩
          intro hr
          have hq : ¬ path ∈ st.requested := by simpa using hreq
          exact absurd hr hq
        · rename_i hreq
          have hr : path ∈ st.requested := by simpa using hreq
          split at h
          · cases h
          · rename_i u2 _
            split at h
            · cases h
            · rename_i st2 hfold
              simp only [Option.some.injEq] at h; subst h
              -- the state handed to the fold
              let st1 : LState := { u := u2, requested := st.requested, processed := st.processed ++ [path] }
              have hs1 : Step st st1 := ⟨rfl, fun x hx => by simp [st1, hx], fun x hx => by
                simp only [st1, List.mem_append, List.mem_singleton] at hx
                rcases hx with hx | rfl
                · exact .inl hx
                · exact .inr hr⟩
              have hP : Step st1 st2 ∧ path ∈ st2.processed := by
                refine foldl_bind_inv (fun s i => visitV2 w n s i) (fun s => Step st1 s ∧ path ∈ s.processed) ?_ p.imports st1 st2
                  ⟨Step.refl _, by simp [st1]⟩ hfold
                intro a b a' ⟨ha, hpa⟩ hv
                have := (ih a a' b hv).1
                exact ⟨ha.trans this, this.mono path hpa⟩
              exact ⟨⟨hP.1.req.trans hs1.req, hs1.mono.trans hP.1.mono, fun x hx => by
                rcases hP.1.only x hx with h' | h'
                · exact hs1.only x h'
                · exact .inr h'⟩, fun _ => hP.2⟩

/-- `addPkgsToUniverse`: every root that is requested ends up scanned; nothing else changes class -/
theorem addPkgsV2_step (w : World) (st st' : LState) (roots : List Str) (h : addPkgsV2 w st roots = some st') :
    Step st st' := by
  unfold addPkgsV2 at h
  exact foldl_bind_inv (fun s p => visitV2 w (w.pkgs.length + 1) s p) (fun s => Step st s)
    (fun a b a' ha hv => ha.trans (visitV2_step w _ a a' b hv).1) _ st st' (Step.refl _) h

/-- every root appears in the visiting order -/
theorem reachable_mem (w : World) : ∀ (n : Nat) (seen : List Str) (path : Str), Sub seen (reachable w n seen path) := by
  intro n
  induction n with
  | zero => intro seen path; exact Sub.refl _
  | succ n ih =>
    intro seen path
    simp only [reachable]
    split
    · exact Sub.refl _
    · split
      · intro x hx; simp [hx]
      · rename_i p _
        have : ∀ (l : List Str) (s : List Str), Sub s (l.foldl (fun s i => reachable w n s i) s) := by
          intro l
          induction l with
          | nil => intro s; exact Sub.refl _
          | cons i is ihl => intro s; exact (ih s i).trans (ihl _)
        intro x hx
        exact this p.imports _ x (by simp [hx])

theorem reachable_self (w : World) (n : Nat) (seen : List Str) (path : Str) : path ∈ reachable w (n + 1) seen path := by
  simp only [reachable]
  split
  · rename_i h; simpa using h
  · split
    · simp
    · rename_i p _
      have : ∀ (l : List Str) (s : List Str), Sub s (l.foldl (fun s i => reachable w n s i) s) := by
        intro l
        induction l with
        | nil => intro s; exact Sub.refl _
        | cons i is ihl => intro s; exact (reachable_mem w n s i).trans (ihl _)
      exact this p.imports _ path (by simp)

theorem order_contains_roots (w : World) (roots : List Str) :
    Sub roots (roots.foldl (fun seen r => reachable w (w.pkgs.length + 1) seen r) []) := by
  suffices ∀ (l : List Str) (s : List Str), Sub s (l.foldl (fun seen r => reachable w (w.pkgs.length + 1) seen r) s) ∧
      Sub l (l.foldl (fun seen r => reachable w (w.pkgs.length + 1) seen r) s) from (this roots []).2
  intro l
  induction l with
  | nil => intro s; exact ⟨Sub.refl _, fun _ h => by cases h⟩
  | cons r rs ih =>
    intro s
    simp only [List.foldl_cons]
    obtain ⟨h1, h2⟩ := ih (reachable w (w.pkgs.length + 1) s r)
    refine ⟨(reachable_mem w _ s r).trans h1, ?_⟩
    intro x hx
    simp only [List.mem_cons] at hx
    rcases hx with rfl | hx
    · exact h1 x (reachable_self w _ s x)
    · exact h2 x hx

/-- a visited requested package is scanned (fold version) -/
theorem fold_visits (w : World) (n : Nat) : ∀ (l : List Str) (st st' : LState),
    l.foldl (fun acc p => acc.bind (fun s => visitV2 w n s p)) (some st) = some st' →
    ∀ x, x ∈ l → x ∈ st.requested → x ∈ st'.processed := by
  intro l
  induction l with
  | nil => intro _ _ _ x hx; cases hx
  | cons p ps ih =>
    intro st st' h x hx hr
    simp only [List.foldl_cons, Option.bind_some] at h
    cases hv : visitV2 w n st p with
    | none =>
      rw [hv] at h
      have : ∀ l : List Str, l.foldl (fun acc p => acc.bind (fun s => visitV2 w n s p)) none = none := by
        intro l; induction l <;> simp_all
      rw [this] at h; cases h
    | some s1 =>
      rw [hv] at h
      obtain ⟨hs, hself⟩ := visitV2_step w n st s1 p hv
      have hrest : Step s1 st' := foldl_bind_inv (fun s p => visitV2 w n s p) (fun s => Step s1 s)
        (fun a b a' ha hv => ha.trans (visitV2_step w _ a a' b hv).1) ps s1 st' (Step.refl _) h
      simp only [List.mem_cons] at hx
      rcases hx with rfl | hx
      · exact hrest.mono x (hself hr)
      · exact ih s1 st' h x hx (by rw [hs.req]; exact hr)

/-- **requested_complete / deps_only_reachable** (set level, v2): after `LoadPackages(req…)` and
`NewUniverse()` exactly the requested packages have been scanned in full; everything else that is
known is a stub -/
theorem newUniverse_scans_exactly_requested (w : World) (req : List Str) (st : LState)
    (h : newUniverseV2 w req = some st) :
    (∀ x, x ∈ req → x ∈ st.processed) ∧ (∀ x, x ∈ st.processed → x ∈ req) := by
  unfold newUniverseV2 at h
  simp only at h
  generalize hq : req.foldl (fun acc r => if acc.contains r then acc else acc ++ [r]) [] = q at h
  have hq1 : ∀ x, x ∈ req → x ∈ q := by
    rw [← hq]
    suffices ∀ (l acc : List Str), (∀ x, x ∈ acc → x ∈ l.foldl (fun acc r => if acc.contains r then acc else acc ++ [r]) acc) ∧
        (∀ x, x ∈ l → x ∈ l.foldl (fun acc r => if acc.contains r then acc else acc ++ [r]) acc) from (this req []).2
    intro l
    induction l with
    | nil => intro acc; exact ⟨fun _ h => h, fun _ h => by cases h⟩
    | cons r rs ih =>
      intro acc
      simp only [List.foldl_cons]
      obtain ⟨a, b⟩ := ih (if acc.contains r then acc else acc ++ [r])
      refine ⟨fun x hx => a x (by split <;> simp [hx]), ?_⟩
      intro x hx
      simp only [List.mem_cons] at hx
      rcases hx with rfl | hx
      · apply a; split
        · rename_i hc; simpa using hc
        · simp
      · exact b x hx
  have hq2 : ∀ x, x ∈ q → x ∈ req := by
    rw [← hq]
    suffices ∀ (l acc : List Str) x, x ∈ l.foldl (fun acc r => if acc.contains r then acc else acc ++ [r]) acc → x ∈ acc ∨ x ∈ l by
      intro x hx; rcases this req [] x hx with h | h
      · cases h
      · exact h
    intro l
    induction l with
    | nil => intro acc x hx; exact .inl hx
    | cons r rs ih =>
      intro acc x hx
      simp only [List.foldl_cons] at hx
      rcases ih _ x hx with h | h
      · split at h
        · exact .inl h
        · simp only [List.mem_append, List.mem_singleton] at h
          rcases h with h | rfl
          · exact .inl h
          · exact .inr (by simp)
      · exact .inr (by simp [h])
  have hstep := addPkgsV2_step w _ st _ h
  constructor
  · intro x hx
    unfold addPkgsV2 at h
    have hroot : x ∈ q.mergeSort Str.le := (List.mergeSort_perm q _).symm.subset (hq1 x hx)
    exact fold_visits w _ _ _ st h x (order_contains_roots w _ x hroot) (hq1 x hx)
  · intro x hx
    rcases hstep.only x hx with h' | h'
    · cases h'
    · exact hq2 x h'

/-- **history_independent** (set level, v2): an incremental `LoadPackagesTo` leaves every earlier
request requested and every scanned package scanned, scans exactly the new requests in addition, and
so any split or order of one request set ends with the same set of fully scanned packages as a
single combined load -/
theorem loadTo_extends (w : World) (st st' : LState) (more : List Str) (h : loadToV2 w st more = some st')
    (hinv : ∀ x, x ∈ st.processed → x ∈ st.requested) :
    (∀ x, x ∈ st.processed → x ∈ st'.processed) ∧ (∀ x, x ∈ st'.processed → x ∈ st'.requested) ∧
    (∀ x, x ∈ more → x ∈ st'.processed) := by
  unfold loadToV2 at h
  simp only at h
  generalize hq : more.foldl (fun acc r => if acc.contains r then acc else acc ++ [r]) st.requested = q at h
  have hq0 : ∀ x, x ∈ st.requested → x ∈ q := by
    rw [← hq]
    suffices ∀ (l acc : List Str) x, x ∈ acc → x ∈ l.foldl (fun acc r => if acc.contains r then acc else acc ++ [r]) acc from
      fun x hx => this more _ x hx
    intro l
    induction l with
    | nil => intro acc x hx; exact hx
    | cons r rs ih => intro acc x hx; simp only [List.foldl_cons]; exact ih _ x (by split <;> simp [hx])
  have hq1 : ∀ x, x ∈ more → x ∈ q := by
    rw [← hq]
    suffices ∀ (l acc : List Str), (∀ x, x ∈ acc → x ∈ l.foldl (fun acc r => if acc.contains r then acc else acc ++ [r]) acc) ∧
        (∀ x, x ∈ l → x ∈ l.foldl (fun acc r => if acc.contains r then acc else acc ++ [r]) acc) from (this more _).2
    intro l
    induction l with
    | nil => intro acc; exact ⟨fun _ h => h, fun _ h => by cases h⟩
    | cons r rs ih =>
      intro acc
      simp only [List.foldl_cons]
      obtain ⟨a, b⟩ := ih (if acc.contains r then acc else acc ++ [r])
      refine ⟨fun x hx => a x (by split <;> simp [hx]), ?_⟩
      intro x hx
      simp only [List.mem_cons] at hx
      rcases hx with rfl | hx
      · apply a; split
        · rename_i hc; simpa using hc
        · simp
      · exact b x hx
  have hstep := addPkgsV2_step w _ st' _ h
  refine ⟨fun x hx => hstep.mono x hx, ?_, ?_⟩
  · intro x hx
    rw [hstep.req]
    rcases hstep.only x hx with h' | h'
    · exact hq0 x (hinv x h')
    · exact h'
  · intro x hx
    unfold addPkgsV2 at h
    exact fold_visits w _ _ _ st' h x (order_contains_roots w _ x hx) (hq1 x hx)

/-- **broken_or_missing_is_error** (v2 model): visiting a package the type checker does not know fails -/
theorem missing_is_error (w : World) (n : Nat) (st : LState) (path : Str) (hm : w.find path = none)
    (hp : st.processed.contains path = false) : visitV2 w (n + 1) st path = none := by
  have : ¬ path ∈ st.processed := by simpa using hp
  simp [visitV2, hm, this]

/-- **inputs_sorted_set**: the reported input list is a sorted arrangement of the request set -/
theorem inputs_sorted (req : List Str) :
    (req.mergeSort Str.le).Perm req ∧ (req.mergeSort Str.le).Pairwise (fun a b => Str.le a b = true) :=
  ⟨List.mergeSort_perm _ _, List.pairwise_mergeSort (fun a b c h1 h2 => Str.le_trans a b c h1 h2) (fun a b => Str.le_total a b) _⟩

/-! ## v1 `Builder` -/

/-- **v1_dependency_not_scanned**: `findTypesIn` of a package that was not requested changes nothing -/
theorem v1_unrequested_untouched (w : World) (st : LState) (path : Str) (p : GPkg) (hf : w.find path = some p)
    (hr : st.requested.contains path = false) : findTypesInV1 w st path = some st := by
  simp only [findTypesInV1, hf, hr, Bool.not_false, if_true]

/-- **v1_requested_scanned**: for a requested package the universe is the result of the full scan of its scope
(and the request set is unchanged) -/
theorem v1_requested_scanned (w : World) (st st' : LState) (path : Str) (p : GPkg) (hf : w.find path = some p)
    (hr : st.requested.contains path = true) (h : findTypesInV1 w st path = some st') :
    scanPkg w.bt w.facts w.v2 w.fuel st.u p = some st'.u ∧ st'.requested = st.requested := by
  simp only [findTypesInV1, hf, hr, Bool.not_true, Bool.false_eq_true, if_false] at h
  cases hs : scanPkg w.bt w.facts w.v2 w.fuel st.u p with
  | none => simp [hs] at h
  | some u => simp only [hs, Option.map_some, Option.some.injEq] at h; subst h; exact ⟨rfl, rfl⟩

/-- **v1_missing_is_error**: a package the type checker does not know makes `findTypesIn` fail -/
theorem v1_missing_is_error (w : World) (st : LState) (path : Str) (hm : w.find path = none) :
    findTypesInV1 w st path = none := by
  simp [findTypesInV1, hm]

/-- `findTypesIn` never changes the request set -/
theorem v1_requested_const (w : World) (st st' : LState) (path : Str) (h : findTypesInV1 w st path = some st') :
    st'.requested = st.requested := by
  unfold findTypesInV1 at h
  cases hf : w.find path with
  | none => simp [hf] at h
  | some p =>
    simp only [hf] at h
    split at h
    · cases h; rfl
    · cases hs : scanPkg w.bt w.facts w.v2 w.fuel st.u p with
      | none => simp [hs] at h
      | some u => simp only [hs, Option.map_some, Option.some.injEq] at h; subst h; rfl

/-- **v1_inputs**: after `FindTypes()` the request set is exactly what was requested -/
theorem v1_findTypes_requested (w : World) (req : List Str) (st : LState) (h : findTypesV1 w req = some st) :
    st.requested = req := by
  unfold findTypesV1 at h
  exact foldl_bind_inv (fun s p => findTypesInV1 w s p) (fun s => s.requested = req)
    (fun s p s' hs hst => (v1_requested_const w s s' p hst).trans hs) _ _ _ rfl h

/-- **v1_incremental_extends**: `AddDirTo` keeps every earlier request and adds the new one -/
theorem v1_addDirTo_requested (w : World) (st st' : LState) (path : Str) (h : addDirToV1 w st path = some st') :
    Sub st.requested st'.requested ∧ path ∈ st'.requested := by
  unfold addDirToV1 at h
  have := v1_requested_const w _ st' path h
  rw [this]
  by_cases hc : st.requested.contains path = true
  · simp only [hc, if_true]; exact ⟨Sub.refl _, by simpa using hc⟩
  · simp only [hc, Bool.false_eq_true, if_false]
    exact ⟨fun x hx => List.mem_append_left _ hx, by simp⟩

/-! ## objects obtained before an incremental load stay valid (full model, Lemmas/WalkInv.lean) -/

/-- **objects_stable_across_incremental_loads**: whatever name resolved to an object before `LoadPackagesTo`
resolves to the same object afterwards, and that object keeps its name and any kind it had – it is only ever
filled in, never replaced -/
theorem loadTo_objects_stable (w : World) (st st' : LState) (more : List Str) (hinv : WalkInv.Inv w.bt st.u)
    (h : loadToV2 w st more = some st') (n : Universe.Name) (o : Nat) (ob : Universe.Obj)
    (hl : AL.lookup n st.u.types = some o) (hob : st.u.objs[o]? = some ob) :
    AL.lookup n st'.u.types = some o ∧
    ∃ ob' : Universe.Obj, st'.u.objs[o]? = some ob' ∧ ob'.name = ob.name ∧ (ob.kind ≠ .unknown → ob'.kind = ob.kind) := by
  have g := (WalkInv.loadToV2_inv w st st' more hinv h).2
  exact ⟨g.idx n o hl, g.objs o ob hob⟩

/-- the same for v1 `AddDirTo` -/
theorem addDirTo_objects_stable (w : World) (st st' : LState) (path : Str) (hinv : WalkInv.Inv w.bt st.u)
    (h : addDirToV1 w st path = some st') (n : Universe.Name) (o : Nat) (ob : Universe.Obj)
    (hl : AL.lookup n st.u.types = some o) (hob : st.u.objs[o]? = some ob) :
    AL.lookup n st'.u.types = some o ∧
    ∃ ob' : Universe.Obj, st'.u.objs[o]? = some ob' ∧ ob'.name = ob.name ∧ (ob.kind ≠ .unknown → ob'.kind = ob.kind) := by
  have g := (WalkInv.addDirToV1_inv w st st' path hinv h).2
  exact ⟨g.idx n o hl, g.objs o ob hob⟩


/-! ## any two splits and orders give universes that agree wherever they overlap (Lemmas/WalkName.lean, WalkIso.lean) -/
open Gengo.WalkDesc Gengo.WalkName Gengo.WalkIso

/-- **split_and_order_irrelevant_v2**: take the same program and load it twice, with any initial requests and any
sequences of incremental loads.  Whatever name is registered and filled in both resulting universes stands for
objects that say the same: equal kinds, equal array lengths, members with equal names, embedded flags and tags in the
same order, equal parameter and result names, equal variadic flags – and every object referenced by the one is
registered in its universe under the very name under which its counterpart is registered in the other.  So
"registered under the same name" is a bisimulation: the two universes are isomorphic on their common part.
(`Consistent`: go/types prints nodes of different shape differently.) -/
theorem split_and_order_irrelevant_v2 (w : World) (hwf : WellFormed w.facts w.v2) (hbt : BtKinds w.bt)
    (hc : Consistent w.facts w.v2) (req1 req2 : List Str) (ms1 ms2 : List (List Str)) (a b st1 st2 : LState)
    (h1a : newUniverseV2 w req1 = some a) (h1 : loadsV2 w a ms1 = some st1)
    (h2a : newUniverseV2 w req2 = some b) (h2 : loadsV2 w b ms2 = some st2)
    (n : Name) (o1 o2 : Nat) (ob1 ob2 : Obj) (g1 g2 : Nat)
    (l1 : AL.lookup n st1.u.types = some o1) (l2 : AL.lookup n st2.u.types = some o2)
    (hob1 : st1.u.objs[o1]? = some ob1) (hob2 : st2.u.objs[o2]? = some ob2) (s1 : ob1.src = some g1) (s2 : ob2.src = some g2) :
    ObjEq st1.u st2.u ob1 ob2 :=
  same_name_same_content hc (loadsV2_faithful w hwf hbt req1 ms1 a st1 h1a h1) (loadsV2_faithful w hwf hbt req2 ms2 b st2 h2a h2)
    n o1 o2 ob1 ob2 g1 g2 l1 l2 hob1 hob2 s1 s2

/-- **split_and_order_irrelevant_v1**: the same for `FindTypes` followed by any sequence of `AddDirTo` -/
theorem split_and_order_irrelevant_v1 (w : World) (hwf : WellFormed w.facts w.v2) (hbt : BtKinds w.bt)
    (hc : Consistent w.facts w.v2) (req1 req2 : List Str) (ps1 ps2 : List Str) (a b st1 st2 : LState)
    (h1a : findTypesV1 w req1 = some a) (h1 : addDirsV1 w a ps1 = some st1)
    (h2a : findTypesV1 w req2 = some b) (h2 : addDirsV1 w b ps2 = some st2)
    (n : Name) (o1 o2 : Nat) (ob1 ob2 : Obj) (g1 g2 : Nat)
    (l1 : AL.lookup n st1.u.types = some o1) (l2 : AL.lookup n st2.u.types = some o2)
    (hob1 : st1.u.objs[o1]? = some ob1) (hob2 : st2.u.objs[o2]? = some ob2) (s1 : ob1.src = some g1) (s2 : ob2.src = some g2) :
    ObjEq st1.u st2.u ob1 ob2 :=
  same_name_same_content hc (addDirsV1_faithful w hwf hbt req1 ps1 a st1 h1a h1) (addDirsV1_faithful w hwf hbt req2 ps2 b st2 h2a h2)
    n o1 o2 ob1 ob2 g1 g2 l1 l2 hob1 hob2 s1 s2

/-- … and the method tables of interfaces correspond too: the same method names, bound to objects that are registered under
one name in either universe (v2; the v1 statement is the same with `findTypesV1`/`addDirsV1`) -/
theorem interface_methods_order_irrelevant_v2 (w : World) (hwf : WellFormed w.facts w.v2) (hbt : BtKinds w.bt)
    (hc : Consistent w.facts w.v2) (req1 req2 : List Str) (ms1 ms2 : List (List Str)) (a b st1 st2 : LState)
    (h1a : newUniverseV2 w req1 = some a) (h1 : loadsV2 w a ms1 = some st1)
    (h2a : newUniverseV2 w req2 = some b) (h2 : loadsV2 w b ms2 = some st2)
    (n : Name) (o1 o2 : Nat) (ob1 ob2 : Obj) (g1 g2 : Nat) (im1 im2 : List GMethod)
    (hn1 : w.facts.node g1 = .iface im1) (hn2 : w.facts.node g2 = .iface im2) (hne : im1 ≠ [])
    (l1 : AL.lookup n st1.u.types = some o1) (l2 : AL.lookup n st2.u.types = some o2)
    (hob1 : st1.u.objs[o1]? = some ob1) (hob2 : st2.u.objs[o2]? = some ob2) (s1 : ob1.src = some g1) (s2 : ob2.src = some g2) :
    ∀ (k : Str) (r1 : Nat), AL.lookup k ob1.methods = some r1 → ∃ r2, AL.lookup k ob2.methods = some r2 ∧ Linked st1.u st2.u r1 r2 :=
  same_name_same_methods hc (loadsV2_faithful w hwf hbt req1 ms1 a st1 h1a h1) (loadsV2_faithful w hwf hbt req2 ms2 b st2 h2a h2)
    n o1 o2 ob1 ob2 g1 g2 im1 im2 hn1 hn2 hne l1 l2 hob1 hob2 s1 s2

/-- the members of corresponding structs correspond one for one, and their types are registered under common names -/
theorem corresponding_structs_have_corresponding_members {u1 u2 : U} {ob1 ob2 : Obj} (h : ObjEq u1 u2 ob1 ob2)
    (hk : ob1.kind = .struct) : ob2.kind = .struct ∧ All2 (MemberEq u1 u2) ob1.members ob2.members :=
  ⟨h.kind ▸ hk, h.members hk⟩

/-! ## requested packages are complete (Lemmas/WalkSide.lean) -/
open Gengo.WalkSide

/-- **requested_package_is_complete**: the scan of a requested package (v1 `findTypesIn`; function, variable and constant
names distinct, as in any Go package) leaves in the universe: every named type of its scope, registered under its own
name with a kind; every function, variable and constant, registered under its name as a `DeclarationOf` object over the
object of its Go type, constants with their values; and the package's record with its name and direct imports -/
theorem requested_package_is_complete {bt : List Builtin} (F : Facts) (v2 : Bool) (hwf : WellFormed F v2) (fuel : Nat) (u u' : U) (p : GPkg)
    (h : Full bt F v2 u) (hinj : DeclInj u) (hnd : (p.scope.filterMap (declKey v2)).Nodup)
    (hf : scanPkg bt F v2 (fuel + 1) u p = some u') :
    (∀ ob ∈ p.scope, C01.PlainNamed F v2 ob → C01.Present F v2 u' ob) ∧
    (∀ ob ∈ p.scope, ∀ (d : Decl) (n : Name), declKey v2 ob = some (d, n) → Recorded F v2 u' d n ob.ty (declVal ob)) ∧
    (∃ r ∈ u'.pkgs, r.path = p.path ∧ r.name = p.name ∧ ∀ i ∈ p.imports, i ∈ r.imports) :=
  ⟨C01.scan_declared_types_present bt F v2 fuel u u' p h.1 hf,
   scanPkg_records_decls F v2 hwf (fuel + 1) u p u' h hinj hnd hf,
   scanPkg_records F v2 (fuel + 1) u p u' hf⟩

/-- declarations have objects of their own, in every universe the loaders build -/
theorem declInj_keeps (w : World) (hwf : WellFormed w.facts w.v2) :
    WalkName.Keeps w (fun u => WalkDesc.Full w.bt w.facts w.v2 u ∧ DeclInj u) where
  same := fun u u' ho ht hb hd hf hv hc h => ⟨full_of_same ho ht hb hd h.1,
    declInj_of_idx (u := u) (fun d => by cases d; exact hf; exact hv; exact hc) h.2⟩
  add := fun u ob u' _ h hf => ⟨addObj_full w.facts w.v2 hwf w.fuel u ob u' h.1 hf, addObj_declInj w.facts w.v2 w.fuel u ob u' h.1.1 h.2 hf⟩

/-- **requested_packages_complete_v1**: `FindTypes` over any request list, then any sequence of `AddDirTo`, then the scan of
one more requested package `p`: the package is complete in the resulting universe – whatever had been loaded before -/
theorem requested_packages_complete_v1 (w : World) (hwf : WellFormed w.facts w.v2) (req : List Str) (ps : List Str) (a st : LState)
    (h1 : findTypesV1 w req = some a) (h2 : WalkIso.addDirsV1 w a ps = some st) (fuel : Nat) (hfuel : w.fuel = fuel + 1)
    (p : GPkg) (u' : U) (hnd : (p.scope.filterMap (declKey w.v2)).Nodup)
    (hf : scanPkg w.bt w.facts w.v2 w.fuel st.u p = some u') :
    (∀ ob ∈ p.scope, C01.PlainNamed w.facts w.v2 ob → C01.Present w.facts w.v2 u' ob) ∧
    (∀ ob ∈ p.scope, ∀ (d : Decl) (n : Name), declKey w.v2 ob = some (d, n) → Recorded w.facts w.v2 u' d n ob.ty (declVal ob)) ∧
    (∃ r ∈ u'.pkgs, r.path = p.path ∧ r.name = p.name ∧ ∀ i ∈ p.imports, i ∈ r.imports) := by
  have k := declInj_keeps w hwf
  have ha := k.findTypesV1 ⟨full_empty w.bt w.facts w.v2, declInj_empty⟩ req a h1
  have hst := foldl_bind_inv (fun s q => addDirToV1 w s q) (fun s => WalkDesc.Full w.bt w.facts w.v2 s.u ∧ DeclInj s.u)
    (fun s q s' hs hv => k.addDirToV1 s s' q hs hv) ps a st ha h2
  rw [hfuel] at hf
  exact requested_package_is_complete w.facts w.v2 hwf fuel st.u u' p hst.1 hst.2 hnd hf

/-! ### … and in v2, where the scan of a package is interleaved with the visits of its imports -/

/-- a declaration key determines the declaration, in the whole world (Go: one object per package-scope name) -/
def DeclsFunctional (w : World) : Prop :=
  ∀ p1 ∈ w.pkgs, ∀ p2 ∈ w.pkgs, ∀ ob1 ∈ p1.scope, ∀ ob2 ∈ p2.scope, ∀ k,
    declKey w.v2 ob1 = some k → declKey w.v2 ob2 = some k → ob1.ty = ob2.ty ∧ declVal ob1 = declVal ob2

/-- package `p` is complete in `u` -/
def CompleteFor (w : World) (p : GPkg) (u : U) : Prop :=
  WalkDesc.Full w.bt w.facts w.v2 u ∧ DeclInj u ∧
  (∀ ob ∈ p.scope, C01.PlainNamed w.facts w.v2 ob → C01.Present w.facts w.v2 u ob) ∧
  (∀ ob ∈ p.scope, ∀ (d : Decl) (n : Name), declKey w.v2 ob = some (d, n) → Recorded w.facts w.v2 u d n ob.ty (declVal ob))

theorem present_same {F : Facts} {v2 : Bool} {u u' : U} {ob : GObj} (ho : u'.objs = u.objs) (ht : u'.types = u.types)
    (h : C01.Present F v2 u ob) : C01.Present F v2 u' ob := by
  obtain ⟨o, t, h1, h2, h3⟩ := h
  exact ⟨o, t, by rw [ht]; exact h1, by rw [ho]; exact h2, h3⟩

/-- once complete, a package stays complete through everything any loader does afterwards -/
theorem completeFor_keeps (w : World) (hwf : WellFormed w.facts w.v2) (hfun : DeclsFunctional w) (p : GPkg) (hp : p ∈ w.pkgs) :
    WalkName.Keeps w (CompleteFor w p) where
  same := fun u u' ho ht hb hd hf hv hc h => ⟨full_of_same ho ht hb hd h.1,
    declInj_of_idx (u := u) (fun d => by cases d; exact hf; exact hv; exact hc) h.2.1,
    fun ob hob hpn => present_same ho ht (h.2.2.1 ob hob hpn),
    fun ob hob d n hk => (h.2.2.2 ob hob d n hk).same ho ht hf hv hc⟩
  add := fun u ob' u' hmem h hadd => by
    obtain ⟨p', hp', hob'⟩ := hmem
    refine ⟨addObj_full w.facts w.v2 hwf w.fuel u ob' u' h.1 hadd, addObj_declInj w.facts w.v2 w.fuel u ob' u' h.1.1 h.2.1 hadd,
      fun ob hob hpn => (h.2.2.1 ob hob hpn).mono (WalkInv.addObj_inv w.facts w.v2 w.fuel u ob' u' h.1.1 hadd).2, ?_⟩
    intro ob hob d n hk
    by_cases hsame : declKey w.v2 ob' = some (d, n)
    · -- the same declaration added again: recorded afresh, with the same type and value
      obtain ⟨e1, e2⟩ := hfun p' hp' p hp ob' hob' ob hob (d, n) hsame hk
      have := addObj_records w.facts w.v2 hwf w.fuel u ob' u' h.1 hadd d n hsame
      rw [e1, e2] at this
      exact this
    · exact addObj_keeps_recorded w.facts w.v2 hwf w.fuel u ob' u' h.1 h.2.1 hadd hsame (h.2.2.2 ob hob d n hk)

theorem addObjs_declInj {bt : List Builtin} (F : Facts) (v2 : Bool) (hwf : WellFormed F v2) (fuel : Nat) :
    ∀ (obs : List GObj) (u u' : U), WalkDesc.Full bt F v2 u → DeclInj u → addObjs bt F v2 fuel u obs = some u' →
      WalkDesc.Full bt F v2 u' ∧ DeclInj u' := by
  intro obs
  induction obs with
  | nil => intro u u' h hi hf; simp only [addObjs, Option.some.injEq] at hf; subst hf; exact ⟨h, hi⟩
  | cons x rest ih =>
    intro u u' h hi hf
    simp only [addObjs] at hf
    cases ha : addObj bt F v2 fuel u x with
    | none => simp [ha] at hf
    | some u1 =>
      simp only [ha] at hf
      exact ih u1 u' (addObj_full F v2 hwf fuel u x u1 h ha) (addObj_declInj F v2 fuel u x u1 h.1 hi ha) hf

/-- **requested_package_complete_v2**: when `addPkgToUniverse` visits a requested package that has not been processed yet,
the package is complete afterwards – every named type of its scope registered with a kind, every function, variable and
constant recorded with its type and value – although the visits of all its imports (and theirs) run in between -/
theorem requested_package_complete_v2 (w : World) (hwf : WellFormed w.facts w.v2) (hfun : DeclsFunctional w)
    (fuel : Nat) (hfuel : w.fuel = fuel + 1) (n : Nat) (st st' : LState) (path : Str) (p : GPkg)
    (hfind : w.find path = some p) (hnp : st.processed.contains path = false) (hreq : st.requested.contains path = true)
    (hfull : WalkDesc.Full w.bt w.facts w.v2 st.u) (hinj : DeclInj st.u) (hnd : (p.scope.filterMap (declKey w.v2)).Nodup)
    (h : visitV2 w (n + 1) st path = some st') : CompleteFor w p st'.u := by
  have hp := WalkName.World.find_mem hfind
  have k := completeFor_keeps w hwf hfun p hp
  simp only [visitV2, hnp, Bool.false_eq_true, if_false, hfind, hreq, Bool.not_true] at h
  obtain ⟨a, b, c, d⟩ := WalkInv.package_objs st.u path
  obtain ⟨pf, pv, pc⟩ := WalkName.package_idx st.u path
  have f1 := full_of_same a b c d hfull
  have i1 : DeclInj (st.u.package path) := declInj_of_idx (u := st.u) (fun dd => by cases dd; exact pf; exact pv; exact pc) hinj
  obtain ⟨a2, b2, c2, d2⟩ := WalkInv.package_objs (st.u.package path) p.path
  obtain ⟨pf2, pv2, pc2⟩ := WalkName.package_idx (st.u.package path) p.path
  have f2 := full_of_same (u' := ((st.u.package path).package p.path).setPkg p.path (fun r => { r with name := p.name })) a2 b2 c2 d2 f1
  have i2 : DeclInj (((st.u.package path).package p.path).setPkg p.path (fun r => { r with name := p.name })) :=
    declInj_of_idx (u := st.u.package path) (fun dd => by cases dd; exact pf2; exact pv2; exact pc2) i1
  cases ha : addObjs w.bt w.facts w.v2 w.fuel (((st.u.package path).package p.path).setPkg p.path (fun r => { r with name := p.name })) p.scope with
  | none => simp [ha] at h
  | some u3 =>
    simp only [ha] at h
    obtain ⟨f3, i3⟩ := addObjs_declInj w.facts w.v2 hwf w.fuel _ _ u3 f2 i2 ha
    have hc3 : CompleteFor w p u3 := by
      refine ⟨f3, i3, ?_, addObjs_records w.facts w.v2 hwf w.fuel p.scope _ u3 f2 i2 hnd ha⟩
      have ha' := ha
      rw [hfuel] at ha'
      exact C01.addObjs_present w.bt w.facts w.v2 fuel p.scope _ u3 f2.1 ha'
    generalize hst3 : ({ u := u3, requested := st.requested, processed := st.processed ++ [path] } : LState) = st3 at h
    cases hfold : p.imports.foldl (fun acc i => acc.bind (fun s => visitV2 w n s i)) (some st3) with
    | none => simp [hfold] at h
    | some st4 =>
      simp only [hfold, Option.some.injEq] at h
      subst h
      have h4 := WalkInv.foldl_bind_inv (fun s i => visitV2 w n s i) (fun s => CompleteFor w p s.u)
        (fun s i s' hs hv => k.visitV2 n s s' i hs hv) p.imports st3 st4 (by subst hst3; exact hc3) hfold
      obtain ⟨a5, b5, c5, d5⟩ := WalkInv.addImports_same st4.u p.path (p.imports.mergeSort Str.le)
      obtain ⟨af, av, ac⟩ := WalkName.addImports_idx st4.u p.path (p.imports.mergeSort Str.le)
      exact k.same _ _ a5 b5 c5 d5 af av ac h4

/-! ## the common part is closed under reachability (Lemmas/WalkReach.lean) -/
open Gengo.WalkReach

/-- a name registered with a kind in both universes gives corresponding objects -/
theorem registered_in_both_corresponds {u1 u2 : U} {n : Name} {o1 o2 : Nat} {ob1 ob2 : Obj}
    (l1 : AL.lookup n u1.types = some o1) (l2 : AL.lookup n u2.types = some o2)
    (hob1 : u1.objs[o1]? = some ob1) (hob2 : u2.objs[o2]? = some ob2) (hk1 : ob1.kind ≠ .unknown) (hk2 : ob2.kind ≠ .unknown) :
    Corr u1 u2 o1 o2 :=
  ⟨⟨false, n, .inl ⟨rfl, l1⟩, .inl ⟨rfl, l2⟩⟩, ⟨ob1, hob1, hk1⟩, ⟨ob2, hob2, hk2⟩⟩

/-- a declared type that is present (as after the scan of its package, `requested_package_complete_v2`,
`requested_packages_complete_v1`) in both universes gives corresponding objects -/
theorem present_in_both_corresponds {F : Facts} {v2 : Bool} {u1 u2 : U} {ob : GObj}
    (p1 : C01.Present F v2 u1 ob) (p2 : C01.Present F v2 u2 ob) :
    ∃ o1 o2, AL.lookup (regName F v2 ob.ty) u1.types = some o1 ∧ AL.lookup (regName F v2 ob.ty) u2.types = some o2 ∧
      Corr u1 u2 o1 o2 := by
  obtain ⟨o1, t1, a1, b1, c1⟩ := p1
  obtain ⟨o2, t2, a2, b2, c2⟩ := p2
  exact ⟨o1, o2, a1, a2, registered_in_both_corresponds a1 a2 b1 b2 c1 c2⟩

/-- **reachable_parts_agree_v2**: load the same program twice, with any initial requests and any sequences of incremental
loads.  Start from two corresponding objects – registered under one name with a kind in either universe, e.g. a type of a
package requested in both.  Whatever is reached from the first in the one universe, following the references of filled
objects along any sequence of positions (element, key, i-th member, i-th parameter, result, underlying type), is matched
by an object reached along the very same positions in the other universe, and the two correspond again.  So the part the
two universes have in common contains everything reachable from what both requested, and they agree on all of it. -/
theorem reachable_parts_agree_v2 (w : World) (hwf : WellFormed w.facts w.v2) (hbt : BtKinds w.bt)
    (hc : Consistent w.facts w.v2) (req1 req2 : List Str) (ms1 ms2 : List (List Str)) (a b st1 st2 : LState)
    (h1a : newUniverseV2 w req1 = some a) (h1 : loadsV2 w a ms1 = some st1)
    (h2a : newUniverseV2 w req2 = some b) (h2 : loadsV2 w b ms2 = some st2)
    (r1 r2 : Nat) (h : Corr st1.u st2.u r1 r2) (p : List Nat) (r1' : Nat) (hr : ReachAt st1.u r1 p r1') :
    ∃ r2', ReachAt st2.u r2 p r2' ∧ Corr st1.u st2.u r1' r2' :=
  common_part_closed hc (loadsV2_faithful w hwf hbt req1 ms1 a st1 h1a h1) (loadsV2_faithful w hwf hbt req2 ms2 b st2 h2a h2) hr r2 h

/-- **reachable_parts_agree_v1**: the same for `FindTypes` followed by any sequence of `AddDirTo` -/
theorem reachable_parts_agree_v1 (w : World) (hwf : WellFormed w.facts w.v2) (hbt : BtKinds w.bt)
    (hc : Consistent w.facts w.v2) (req1 req2 : List Str) (ps1 ps2 : List Str) (a b st1 st2 : LState)
    (h1a : findTypesV1 w req1 = some a) (h1 : addDirsV1 w a ps1 = some st1)
    (h2a : findTypesV1 w req2 = some b) (h2 : addDirsV1 w b ps2 = some st2)
    (r1 r2 : Nat) (h : Corr st1.u st2.u r1 r2) (p : List Nat) (r1' : Nat) (hr : ReachAt st1.u r1 p r1') :
    ∃ r2', ReachAt st2.u r2 p r2' ∧ Corr st1.u st2.u r1' r2' :=
  common_part_closed hc (addDirsV1_faithful w hwf hbt req1 ps1 a st1 h1a h1) (addDirsV1_faithful w hwf hbt req2 ps2 b st2 h2a h2) hr r2 h

/-- **corresponding_objects_agree_v2**: … and corresponding objects say the same: both are objects of the builtins table
(never filled from a node), or they have the same kind and their references correspond position by position -/
theorem corresponding_objects_agree_v2 (w : World) (hwf : WellFormed w.facts w.v2) (hbt : BtKinds w.bt)
    (hc : Consistent w.facts w.v2) (req1 req2 : List Str) (ms1 ms2 : List (List Str)) (a b st1 st2 : LState)
    (h1a : newUniverseV2 w req1 = some a) (h1 : loadsV2 w a ms1 = some st1)
    (h2a : newUniverseV2 w req2 = some b) (h2 : loadsV2 w b ms2 = some st2)
    (r1 r2 : Nat) (h : Corr st1.u st2.u r1 r2) :
    ∃ ob1 ob2 : Obj, st1.u.objs[r1]? = some ob1 ∧ st2.u.objs[r2]? = some ob2 ∧
      ((ob1.src = none ∧ ob2.src = none) ∨ (ob1.kind = ob2.kind ∧ All2 (Corr st1.u st2.u) (crefs ob1) (crefs ob2))) :=
  corr_step hc (loadsV2_faithful w hwf hbt req1 ms1 a st1 h1a h1) (loadsV2_faithful w hwf hbt req2 ms2 b st2 h2a h2) h

/-- what is filled in the one universe and has a kind in the other was filled there too (any two faithful universes) -/
theorem filled_in_one_filled_in_the_other {bt : List Builtin} {F : Facts} {v2 : Bool} {u1 u2 : U}
    (h1 : Faithful bt F v2 u1) (h2 : Faithful bt F v2 u2)
    {n : Name} {o1 o2 : Nat} {ob1 ob2 : Obj} (l1 : AL.lookup n u1.types = some o1) (l2 : AL.lookup n u2.types = some o2)
    (hob1 : u1.objs[o1]? = some ob1) (hob2 : u2.objs[o2]? = some ob2) (hs : ob1.src ≠ none) (hk : ob2.kind ≠ .unknown) :
    ob2.src ≠ none :=
  filled_in_both h1.2 h2.2 l1 l2 hob1 hob2 hs hk

/-! non-vacuity of the reachability statement: in the cyclic demo program walked from `T`, the struct object reaches the
pointer object at position 0 and itself at positions 0, 0 -/
example : ((walk [] C01.demoFacts false 8 {} 0 none).map (fun r => (r.1.objs.map (fun ob => (ob.kind, crefs ob, ob.src.isSome))))) =
    some [(.struct, [1], true), (.pointer, [0], true)] := by decide

/-! non-vacuity: walking the cyclic demo program (`type T struct{ Next *T }`) from `T` and from `*T` gives universes that
number their objects differently – `p.T` is object 0 in the one and object 1 in the other – so the correspondence of
the theorems above is a genuine isomorphism, not an identity; the demo facts are `Consistent` (`C01.demo_consistent`) -/
example : ((walk [] C01.demoFacts false 8 {} 0 none).map (fun r => AL.lookup C01.nT r.1.types)) = some (some 0) := by decide
example : ((walk [] C01.demoFacts false 8 {} 2 none).map (fun r => AL.lookup C01.nT r.1.types)) = some (some 1) := by decide

end Gengo.C11

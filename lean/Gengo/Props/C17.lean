import Gengo.Model.SetGen
import Gengo.Model.Flatten
/-! # C17 – set-gen output implements mathematical sets with sorted listing -/
namespace Gengo.C17
open Gengo.SetGen

variable {α : Type} [DecidableEq α]

/-! ### membership characterisations (every iteration order) -/

theorem mem_ins (s : Keys α) (x y : α) : y ∈ ins s x ↔ y ∈ s ∨ y = x := by
  unfold ins has
  split
  · rename_i h
    have : x ∈ s := by simpa using h
    constructor
    · exact .inl
    · rintro (h | rfl) <;> assumption
  · simp

theorem nodup_ins (s : Keys α) (x : α) (h : s.Nodup) : (ins s x).Nodup := by
  unfold ins has
  split
  · exact h
  · rename_i hx
    have : x ∉ s := by simpa using hx
    rw [List.nodup_append]
    exact ⟨h, by simp, by intro a ha b hb; simp at hb; subst hb; intro e; subst e; exact this ha⟩

theorem mem_insertAll (s : Keys α) (items : List α) (y : α) :
    y ∈ insertAll s items ↔ y ∈ s ∨ y ∈ items := by
  unfold insertAll
  induction items generalizing s with
  | nil => simp
  | cons x xs ih =>
    simp only [List.foldl_cons, ih, mem_ins, List.mem_cons]
    constructor
    · rintro ((h | h) | h)
      · exact .inl h
      · exact .inr (.inl h)
      · exact .inr (.inr h)
    · rintro (h | h | h)
      · exact .inl (.inl h)
      · exact .inl (.inr h)
      · exact .inr h

theorem nodup_insertAll (s : Keys α) (items : List α) (h : s.Nodup) : (insertAll s items).Nodup := by
  unfold insertAll
  induction items generalizing s with
  | nil => simpa
  | cons x xs ih => exact ih _ (nodup_ins s x h)

theorem mem_union (s1 s2 : Keys α) (y : α) : y ∈ union s1 s2 ↔ y ∈ s1 ∨ y ∈ s2 := by
  simp [union, clone, mem_insertAll]

theorem mem_diff (s1 s2 : Keys α) (y : α) : y ∈ diff s1 s2 ↔ y ∈ s1 ∧ y ∉ s2 := by
  simp [diff, mem_insertAll, has]

theorem mem_inter (s1 s2 : Keys α) (y : α) : y ∈ inter s1 s2 ↔ y ∈ s1 ∧ y ∈ s2 := by
  unfold inter
  split
  · simp [mem_insertAll, has]
  · simp [mem_insertAll, has]; constructor <;> rintro ⟨a, b⟩ <;> exact ⟨b, a⟩

theorem isSuperset_iff (s1 s2 : Keys α) : isSuperset s1 s2 = true ↔ ∀ y, y ∈ s2 → y ∈ s1 := by
  simp [isSuperset, has]

/-- counting: a duplicate-free list contained in another of the same length contains it -/
theorem subset_of_length_eq {a b : List α} (ha : a.Nodup) (hb : b.Nodup) (hlen : a.length = b.length)
    (hsub : ∀ y, y ∈ b → y ∈ a) : ∀ y, y ∈ a → y ∈ b := by
  induction b generalizing a with
  | nil =>
    intro y hy
    have : a = [] := List.eq_nil_of_length_eq_zero (by simpa using hlen)
    subst this; cases hy
  | cons x xs ih =>
    intro y hy
    have hxa : x ∈ a := hsub x List.mem_cons_self
    -- remove x from a
    let a' := a.erase x
    have ha' : a'.Nodup := ha.erase x
    have hlen' : a'.length = xs.length := by
      have h1 : a'.length = a.length - 1 := List.length_erase_of_mem hxa
      have h2 : 0 < a.length := List.length_pos_of_mem hxa
      simp at hlen; omega
    have hsub' : ∀ z, z ∈ xs → z ∈ a' := by
      intro z hz
      have hzx : z ≠ x := by
        intro e; subst e
        exact (List.nodup_cons.mp hb).1 hz
      exact (ha.mem_erase_iff).2 ⟨hzx, hsub z (List.mem_cons_of_mem _ hz)⟩
    by_cases hyx : y = x
    · subst hyx; exact List.mem_cons_self
    · have : y ∈ a' := (ha.mem_erase_iff).2 ⟨hyx, hy⟩
      exact List.mem_cons_of_mem _ (ih ha' (List.nodup_cons.mp hb).2 hlen' hsub' y this)

/-- `Equal` decides set equality (needs the no-duplicate invariant of Go maps) -/
theorem equal_iff (s1 s2 : Keys α) (h1 : s1.Nodup) (h2 : s2.Nodup) :
    equal s1 s2 = true ↔ ∀ y, y ∈ s1 ↔ y ∈ s2 := by
  simp only [equal, Bool.and_eq_true, beq_iff_eq, isSuperset_iff]
  constructor
  · rintro ⟨hl, hs⟩ y
    exact ⟨subset_of_length_eq h1 h2 hl hs y, hs y⟩
  · intro h
    refine ⟨?_, fun y hy => (h y).2 hy⟩
    have p : s1.Perm s2 := (List.perm_ext_iff_of_nodup h1 h2).2 h
    exact p.length_eq


/-! ### further operations -/

theorem mem_del (s : Keys α) (x y : α) : y ∈ del s x ↔ y ∈ s ∧ y ≠ x := by
  simp [del]

theorem nodup_del (s : Keys α) (x : α) (h : s.Nodup) : (del s x).Nodup := h.filter _

theorem mem_deleteAll (s : Keys α) (items : List α) (y : α) :
    y ∈ deleteAll s items ↔ y ∈ s ∧ y ∉ items := by
  unfold deleteAll
  induction items generalizing s with
  | nil => simp
  | cons x xs ih =>
    simp only [List.foldl_cons, ih, mem_del, List.mem_cons, not_or]
    constructor
    · rintro ⟨⟨h1, h2⟩, h3⟩; exact ⟨h1, h2, h3⟩
    · rintro ⟨h1, h2, h3⟩; exact ⟨⟨h1, h2⟩, h3⟩

/-- **has_insert / has_delete** -/
theorem has_insert (s : Keys α) (items : List α) (y : α) :
    has (insertAll s items) y = true ↔ has s y = true ∨ y ∈ items := by
  simp [has, mem_insertAll]

theorem has_delete (s : Keys α) (items : List α) (y : α) :
    has (deleteAll s items) y = true ↔ has s y = true ∧ y ∉ items := by
  simp [has, mem_deleteAll]

/-- **hasAll/hasAny_spec** -/
theorem hasAll_spec (s : Keys α) (items : List α) : hasAll s items = true ↔ ∀ y ∈ items, y ∈ s := by
  simp [hasAll, has]
theorem hasAny_spec (s : Keys α) (items : List α) : hasAny s items = true ↔ ∃ y ∈ items, y ∈ s := by
  simp [hasAny, has]

theorem mem_clone (s : Keys α) (y : α) : y ∈ clone s ↔ y ∈ s := by simp [clone, mem_insertAll]

/-- **symdiff_spec** -/
theorem mem_symdiff (s1 s2 : Keys α) (y : α) :
    y ∈ symdiff s1 s2 ↔ (y ∈ s1 ∧ y ∉ s2) ∨ (y ∈ s2 ∧ y ∉ s1) := by
  simp [symdiff, mem_union, mem_diff]

/-- every operation that allocates returns a duplicate-free key list (a well-formed Go map) -/
theorem nodup_results (s1 s2 : Keys α) :
    (clone s1).Nodup ∧ (union s1 s2).Nodup ∧ (diff s1 s2).Nodup ∧ (inter s1 s2).Nodup ∧ (symdiff s1 s2).Nodup := by
  have e : ([] : Keys α).Nodup := List.nodup_nil
  refine ⟨nodup_insertAll _ _ e, nodup_insertAll _ _ (nodup_insertAll _ _ e), nodup_insertAll _ _ e, ?_,
    nodup_insertAll _ _ (nodup_insertAll _ _ e)⟩
  unfold inter; split <;> exact nodup_insertAll _ _ e

/-! ### listing -/

/-- what the generated `less` must be for `List` to be well defined: a strict total order -/
structure StrictTotal (less : α → α → Bool) : Prop where
  irrefl : ∀ a, less a a = false
  trans : ∀ a b c, less a b = true → less b c = true → less a c = true
  total : ∀ a b, less a b = true ∨ a = b ∨ less b a = true

theorem StrictTotal.asymm {less : α → α → Bool} (h : StrictTotal less) (a b : α) (hab : less a b = true) :
    less b a = false := by
  cases hba : less b a with
  | false => rfl
  | true => have := h.trans a b a hab hba; rw [h.irrefl] at this; cases this

/-- **list_sorted_nodup_complete**: `List` returns every member exactly once, in ascending order -/
theorem list_spec (less : α → α → Bool) (hl : StrictTotal less) (s : Keys α) (hs : s.Nodup) :
    (list less s).Perm s ∧ (list less s).Nodup ∧ (list less s).Pairwise (fun a b => less a b = true) := by
  have hp : (list less s).Perm s := List.mergeSort_perm _ _
  have hn : (list less s).Nodup := hp.nodup_iff.mpr hs
  refine ⟨hp, hn, ?_⟩
  have hsorted : (list less s).Pairwise (fun a b => (!less b a) = true) := by
    unfold list
    apply List.pairwise_mergeSort
    · intro a b c h1 h2
      simp only [Bool.not_eq_true'] at *
      rcases hl.total a c with h | h | h
      · exact hl.asymm a c h
      · subst h; exact hl.irrefl a
      · -- c < a, a ≤ b, b ≤ c: impossible unless equalities
        rcases hl.total a b with hab | hab | hab
        · have := hl.trans c a b h hab; rw [this] at h2; cases h2
        · subst hab; rw [h] at h2; cases h2
        · rw [hab] at h1; cases h1
    · intro a b
      rcases hl.total a b with h | h | h
      · simp [hl.asymm a b h]
      · subst h; simp [hl.irrefl]
      · simp [hl.asymm b a h]
  -- non-strict sortedness plus no duplicates gives strict ascent
  have : ∀ l : List α, l.Nodup → l.Pairwise (fun a b => (!less b a) = true) → l.Pairwise (fun a b => less a b = true) := by
    intro l
    induction l with
    | nil => intros; exact List.Pairwise.nil
    | cons x xs ih =>
      intro hnd hsr
      rw [List.nodup_cons] at hnd
      rw [List.pairwise_cons] at hsr ⊢
      refine ⟨?_, ih hnd.2 hsr.2⟩
      intro b hb
      have h1 := hsr.1 b hb
      simp only [Bool.not_eq_true'] at h1
      rcases hl.total x b with h | h | h
      · exact h
      · subst h; exact absurd hb hnd.1
      · rw [h] at h1; cases h1
  exact this _ hn hsorted

/-- the listing does not depend on the map's iteration order -/
theorem list_order_independent (less : α → α → Bool) (hl : StrictTotal less) (s1 s2 : Keys α)
    (h1 : s1.Nodup) (hp : s1.Perm s2) : list less s1 = list less s2 := by
  have h2 : s2.Nodup := hp.nodup_iff.mp h1
  obtain ⟨p1, _, q1⟩ := list_spec less hl s1 h1
  obtain ⟨p2, _, q2⟩ := list_spec less hl s2 h2
  apply List.Perm.eq_of_pairwise (le := fun a b => less a b = true) _ q1 q2 (p1.trans (hp.trans p2.symm))
  intro a b _ _ hab hba
  have := hl.asymm a b hab; rw [hba] at this; cases this

/-- **popAny_removes_a_member** -/
theorem popAny_spec (s : Keys α) (hs : s.Nodup) :
    match popAny s with
    | (none, s') => s = [] ∧ s' = []
    | (some k, s') => k ∈ s ∧ (∀ y, y ∈ s' ↔ y ∈ s ∧ y ≠ k) ∧ s'.length + 1 = s.length := by
  cases s with
  | nil => simp [popAny]
  | cons k ks =>
    simp only [popAny]
    refine ⟨List.mem_cons_self, fun y => mem_del _ _ _, ?_⟩
    rw [List.nodup_cons] at hs
    have : del (k :: ks) k = ks := by
      simp only [del, List.filter_cons, ne_eq, not_true_eq_false, decide_false, Bool.false_eq_true, if_false]
      apply List.filter_eq_self.mpr
      intro a ha; simp; intro e; subst e; exact hs.1 ha
    rw [this]; simp

/-! ### the generated `less` -/

theorem lexLess_irrefl (a : List Nat) : lexLess a a = false := by
  induction a with
  | nil => rfl
  | cons x xs ih => simp [lexLess, ih]

theorem lexLess_trans (a b c : List Nat) (h1 : lexLess a b = true) (h2 : lexLess b c = true) :
    lexLess a c = true := by
  induction a generalizing b c with
  | nil => cases b <;> simp [lexLess] at h1
  | cons x xs ih =>
    cases b with
    | nil => simp [lexLess] at h1
    | cons y ys =>
      cases c with
      | nil => simp [lexLess] at h2
      | cons z zs =>
        simp only [lexLess] at h1 h2 ⊢
        by_cases a1 : x < y
        · by_cases b1 : y < z
          · have : x < z := by omega
            simp [this]
          · simp only [b1, if_false] at h2
            by_cases b2 : z < y
            · simp [b2] at h2
            · have : x < z := by omega
              simp [this]
        · simp only [a1, if_false] at h1
          by_cases a2 : y < x
          · simp [a2] at h1
          · simp only [a2, if_false] at h1
            by_cases b1 : y < z
            · have : x < z := by omega
              simp [this]
            · simp only [b1, if_false] at h2
              by_cases b2 : z < y
              · simp [b2] at h2
              · simp only [b2, if_false] at h2
                have e1 : ¬ x < z := by omega
                have e2 : ¬ z < x := by omega
                simp [e1, e2, ih ys zs h1 h2]

/-- **struct_less_strict_total**: on keys with the same number of fields the generated comparison is
a strict total order (lexicographic over the ordered fields) -/
theorem lexLess_total (a b : List Nat) (hlen : a.length = b.length) :
    lexLess a b = true ∨ a = b ∨ lexLess b a = true := by
  induction a generalizing b with
  | nil => cases b with
    | nil => exact .inr (.inl rfl)
    | cons _ _ => simp at hlen
  | cons x xs ih =>
    cases b with
    | nil => simp at hlen
    | cons y ys =>
      simp only [List.length_cons, Nat.add_right_cancel_iff] at hlen
      simp only [lexLess]
      by_cases h1 : x < y
      · simp [h1]
      · by_cases h2 : y < x
        · simp [h1, h2]
        · have : x = y := by omega
          subst this
          simp only [Nat.lt_irrefl, if_false]
          rcases ih ys hlen with h | h | h
          · exact .inl h
          · exact .inr (.inl (by rw [h]))
          · exact .inr (.inr h)

/-! ### heap level: binary operations allocate, operands untouched; Insert/Delete change the receiver only -/

/-- **binary_ops_leave_operands**: storing a result at a fresh address changes no existing set -/
theorem alloc_leaves_all (h : Heap α) (s : Keys α) (x : Nat) (hx : x < h.length) :
    (alloc h s).1[x]? = h[x]? ∧ (alloc h s).2 = h.length ∧ (alloc h s).1[h.length]? = some s := by
  simp [alloc, List.getElem?_append_left hx]

theorem put_changes_receiver_only (h : Heap α) (a : Nat) (s : Keys α) (x : Nat) (hx : x ≠ a) :
    (put h a s)[x]? = h[x]? := by
  unfold put
  rw [List.getElem?_set_ne (Ne.symm hx)]

/-! non-vacuity -/
example : union [1, 2] [2, 3] = [1, 2, 3] := by decide
example : equal [1, 2, 3] [3, 1, 2] = true := by decide
example : lexLess [1, 5] [2, 0] = true := by decide

end Gengo.C17

/-! ### struct keys: `FlattenMembers` (the fields the generated `less` compares) -/
namespace Gengo.C17
open Gengo Gengo.Flatten

theorem addEmbedded_prefix (st st' : List Flat × List (Str × NameInfo)) (e : Flat)
    (h : addEmbedded st e = some st') : st.1 <+: st'.1 := by
  unfold addEmbedded at h
  split at h
  · split at h
    · cases h; exact List.prefix_refl _
    · split at h
      · split at h
        · cases h; exact List.prefix_refl _
        · cases h
      · cases h
  · cases h; exact List.prefix_append _ _

theorem addAll_prefix (es : List Flat) (st st' : List Flat × List (Str × NameInfo))
    (h : addAll st es = some st') : st.1 <+: st'.1 := by
  induction es generalizing st with
  | nil => simp only [addAll, Option.some.injEq] at h; subst h; exact List.prefix_refl _
  | cons e es ih =>
    simp only [addAll] at h
    cases ha : addEmbedded st e with
    | none => rw [ha] at h; cases h
    | some s1 => rw [ha] at h; exact (addEmbedded_prefix st s1 e ha).trans (ih s1 h)

theorem embeddedInto_prefix : (ms : Mems) → (st st' : List Flat × List (Str × NameInfo)) →
    embeddedInto ms st = some st' → st.1 <+: st'.1
  | .nil, st, st', h => by simp only [embeddedInto, Option.some.injEq] at h; subst h; exact List.prefix_refl _
  | .cons (.mk _ e s _ sub) ms, st, st', h => by
    simp only [embeddedInto] at h
    split at h
    · simp only [Option.bind_eq_bind, Option.bind_eq_some_iff] at h
      obtain ⟨inner, _, s1, h1, h2⟩ := h
      exact (addAll_prefix inner st s1 h1).trans (embeddedInto_prefix ms s1 st' h2)
    · exact embeddedInto_prefix ms st st' h

/-- **struct_fields_complete**: the flattened member list starts with every member that is not an
embedded struct, in declaration order (members of embedded structs are only ever appended) – so the
generated comparison never drops a declared field -/
theorem flatten_top_prefix (ms : Mems) (r : List Flat) (h : flatten ms = some r) : topLevel ms <+: r := by
  unfold flatten at h
  simp only [Option.bind_eq_bind, Option.bind_eq_some_iff, Option.pure_def, Option.some.injEq] at h
  obtain ⟨st', h1, rfl⟩ := h
  exact embeddedInto_prefix ms _ st' h1

end Gengo.C17

import Gengo.Model.JsonTag
/-! # C19 – JSON struct-tag lookup agrees with encoding/json -/
namespace Gengo.C19
open Gengo Gengo.JsonTag

theorem parse_no_comma (a : Str) (h : ',' ∉ a) : parse a = (a, []) := by
  induction a with
  | nil => rfl
  | cons c cs ih =>
    have hc : ¬ c = ',' := fun e => h (by simp [e])
    have := ih (fun hm => h (by simp [hm]))
    simp [parse, hc, this]

theorem parse_comma (a b : Str) (h : ',' ∉ a) : parse (a ++ ',' :: b) = (a, b) := by
  induction a with
  | nil => simp [parse]
  | cons c cs ih =>
    have hc : ¬ c = ',' := fun e => h (by simp [e])
    have := ih (fun hm => h (by simp [hm]))
    simp [parse, hc, this]

theorem parse_fst_no_comma (s : Str) : ',' ∉ (parse s).1 := by
  induction s with
  | nil => simp [parse]
  | cons c cs ih =>
    simp only [parse]
    split
    · simp
    · rename_i hc
      simp only [List.mem_cons, not_or]
      exact ⟨fun e => hc e.symm, ih⟩

/-- the words the loop of `Contains` compares against -/
def wordsFrom (cur : Str) (s : Str) : List Str :=
  match Str.splitOn ',' s with
  | h :: t => (cur ++ h) :: t
  | [] => []

theorem splitOn_ne_nil (s : Str) : Str.splitOn ',' s ≠ [] := by
  cases s with
  | nil => simp [Str.splitOn]
  | cons c cs =>
    simp only [Str.splitOn]
    split
    · simp
    · split <;> simp

theorem containsGo_iff (opt : Str) (hopt : opt ≠ []) (s cur : Str) :
    containsGo opt s cur = true ↔ opt ∈ wordsFrom cur s := by
  induction s generalizing cur with
  | nil =>
    simp only [containsGo, wordsFrom, Str.splitOn, List.append_nil, List.mem_singleton, beq_iff_eq]
    exact eq_comm
  | cons c cs ih =>
    simp only [containsGo]
    by_cases hc : c = ','
    · subst hc
      simp only [if_true, wordsFrom, Str.splitOn, List.append_nil, List.mem_cons]
      cases cs with
      | nil =>
        simp only [List.isEmpty_nil, if_true, Bool.or_false, Str.splitOn, List.mem_cons, List.not_mem_nil, or_false]
        constructor
        · intro h; left; exact (beq_iff_eq.mp h).symm
        · rintro (h | h)
          · exact beq_iff_eq.mpr h.symm
          · exact absurd h hopt
      | cons d ds =>
        simp only [List.isEmpty_cons, Bool.false_eq_true, if_false, Bool.or_eq_true, beq_iff_eq]
        rw [ih []]
        simp only [wordsFrom, List.nil_append]
        have hne := splitOn_ne_nil (d :: ds)
        cases hsp : Str.splitOn ',' (d :: ds) with
        | nil => exact absurd hsp hne
        | cons h t =>
          simp only [List.mem_cons]
          constructor
          · rintro (h1 | h1)
            · left; exact h1.symm
            · right; exact h1
          · rintro (h1 | h1)
            · left; exact h1.symm
            · right; exact h1
    · simp only [hc, if_false]
      rw [ih]
      simp only [wordsFrom, Str.splitOn, hc, if_false]
      have hne := splitOn_ne_nil cs
      cases hsp : Str.splitOn ',' cs with
      | nil => exact absurd hsp hne
      | cons h t => simp

/-- **inline_iff_option_word** (general form): an option is found iff it is one of the comma-separated
words of the option list – so `omitemptyx` or `inlined` do not count -/
theorem contains_iff_word (o opt : Str) (hopt : opt ≠ []) :
    contains o opt = true ↔ opt ∈ Str.splitOn ',' o := by
  unfold contains
  cases o with
  | nil => simp [Str.splitOn, hopt]
  | cons c cs =>
    simp only [List.isEmpty_cons, Bool.false_eq_true, if_false]
    rw [containsGo_iff opt hopt]
    simp only [wordsFrom, List.nil_append]
    have hne := splitOn_ne_nil (c :: cs)
    cases hsp : Str.splitOn ',' (c :: cs) with
    | nil => exact absurd hsp hne
    | cons h t => simp

theorem inline_iff_option_word (f tag : Str) (h : tag ≠ ['-']) :
    (lookupJSON f tag).inl = true ↔ sInline ∈ Str.splitOn ',' (parse tag).2 := by
  unfold lookupJSON
  simp only [h, if_false]
  exact contains_iff_word _ _ (by decide)

theorem omitempty_iff_option_word (f tag : Str) (h : tag ≠ ['-']) :
    (lookupJSON f tag).omitempty = true ↔ sOmitempty ∈ Str.splitOn ',' (parse tag).2 := by
  unfold lookupJSON
  simp only [h, if_false]
  exact contains_iff_word _ _ (by decide)

/-- **lookup_agrees_encoding_json**: for a tag whose name part is empty or valid for encoding/json,
the omitted flag, the name and the omitempty flag are the ones encoding/json uses – except that an
`inline` field without a name is reported with the empty name (see `inline_unnamed_differs`). -/
theorem lookup_agrees_encoding_json (ld : Char → Bool) (f tag : Str)
    (hv : (parse tag).1 = [] ∨ isValidTag ld (parse tag).1 = true)
    (hi : ¬ ((lookupJSON f tag).inl = true ∧ (parse tag).1 = [])) :
    match encJSON ld f tag with
    | none => (lookupJSON f tag).omitted = true
    | some (name, oe) => (lookupJSON f tag).omitted = false ∧ (lookupJSON f tag).name = name ∧
        (lookupJSON f tag).omitempty = oe := by
  unfold encJSON
  by_cases ht : tag = ['-']
  · simp [ht, lookupJSON]
  · simp only [ht, if_false]
    unfold lookupJSON at hi ⊢
    simp only [ht, if_false] at hi ⊢
    refine ⟨trivial, ?_, trivial⟩
    rcases hv with hv | hv
    · have hinl : contains (parse tag).2 sInline = false := by
        cases hc : contains (parse tag).2 sInline with
        | false => rfl
        | true => exact absurd ⟨hc, hv⟩ hi
      simp [hv, hinl, isValidTag]
    · have hne : (parse tag).1.isEmpty = false := by
        unfold isValidTag at hv
        simp only [Bool.and_eq_true, Bool.not_eq_true'] at hv
        exact hv.1
      simp [hv, hne]

/-- the excluded case is real: `json:",inline"` on field `F` is marshalled under the name `F` by
encoding/json but reported with the empty name (known finding, DESIGN.md section 7) -/
theorem inline_unnamed_differs :
    (lookupJSON "F".toList ",inline".toList).name = [] ∧
    encJSON (fun _ => true) "F".toList ",inline".toList = some ("F".toList, false) := by decide

theorem lookup_of (f tag n o : Str) (h1 : tag ≠ ['-']) (h2 : parse tag = (n, o)) :
    lookupJSON f tag = ⟨if (!(contains o sInline) && n.isEmpty) = true then f else n, false,
      contains o sInline, contains o sOmitempty⟩ := by
  unfold lookupJSON; simp [h1, h2]

theorem cons_append_ne_dash (a b : Str) (hb : 2 ≤ b.length) : a ++ b ≠ ['-'] := by
  intro h
  have := congrArg List.length h
  simp at this
  omega

/-- **string_roundtrip**: rendering a result and looking the rendering up again yields the same
result, for results that do not combine a name with inline (field names contain no comma). -/
theorem string_roundtrip (f tag : Str) (hf : ',' ∉ f)
    (hx : ¬ ((lookupJSON f tag).inl = true ∧ (lookupJSON f tag).name ≠ [])) :
    lookupJSON f (render (lookupJSON f tag)) = lookupJSON f tag := by
  by_cases ht : tag = ['-']
  · subst ht; simp [lookupJSON, render]
  · -- facts about the first result
    have hj : lookupJSON f tag = ⟨if !(contains (parse tag).2 sInline) && (parse tag).1.isEmpty then f else (parse tag).1,
        false, contains (parse tag).2 sInline, contains (parse tag).2 sOmitempty⟩ := by
      unfold lookupJSON; simp [ht]
    rw [hj] at hx ⊢
    generalize hinl : contains (parse tag).2 sInline = inl at hx ⊢
    generalize hoe : contains (parse tag).2 sOmitempty = oe at hx ⊢
    have hnc : ',' ∉ (parse tag).1 := parse_fst_no_comma tag
    generalize hn : (parse tag).1 = n at hx hnc ⊢
    cases inl with
    | true =>
      -- name must be empty
      have hn0 : n = [] := by
        simp only [Bool.not_true, Bool.false_and, Bool.false_eq_true, if_false, true_and, ne_eq, Decidable.not_not] at hx
        exact hx
      subst hn0
      have c1 : contains sInline sInline = true := by decide
      have c2 : contains sInline sOmitempty = false := by decide
      have c3 : contains (sOmitempty ++ ',' :: sInline) sInline = true := by decide
      have c4 : contains (sOmitempty ++ ',' :: sInline) sOmitempty = true := by decide
      cases oe
      · have hr : render ⟨if (!true && ([] : Str).isEmpty) = true then f else [], false, true, false⟩
            = ',' :: sInline := by
          have : (if (!true && ([] : Str).isEmpty) = true then f else []) = [] := by simp
          rw [this]; decide
        rw [hr, lookup_of f _ [] sInline (by decide) (by decide), c1, c2]
      · have hr : render ⟨if (!true && ([] : Str).isEmpty) = true then f else [], false, true, true⟩
            = ',' :: (sOmitempty ++ ',' :: sInline) := by
          have : (if (!true && ([] : Str).isEmpty) = true then f else []) = [] := by simp
          rw [this]; decide
        rw [hr, lookup_of f _ [] (sOmitempty ++ ',' :: sInline) (by decide) (by decide), c3, c4]
    | false =>
      simp only [Bool.not_false, Bool.true_and]
      -- the reported name
      generalize hnm : (if n.isEmpty = true then f else n) = nm
      have hnmc : ',' ∉ nm := by
        rw [← hnm]; split
        · exact hf
        · exact hnc
      have hnm_ne : nm.isEmpty = true → f = nm ∧ f.isEmpty = true := by
        intro he
        rw [← hnm] at he ⊢
        split at he
        · rename_i h1; simp [h1] at he ⊢; exact he
        · rename_i h1; exact absurd he h1
      cases oe with
      | false =>
        simp only [render, Bool.false_eq_true, if_false, Bool.not_false, if_true, List.append_nil]
        by_cases hd : nm = ['-']
        · subst hd
          have h2 : parse ['-', ','] = (['-'], []) := by decide
          simp [lookupJSON, h2, contains]
        · simp only [hd, if_false]
          unfold lookupJSON
          simp only [hd, if_false, parse_no_comma nm hnmc, contains, List.isEmpty_nil, if_true,
            Bool.not_false, Bool.true_and]
          congr 1
          split
          · rename_i he; exact (hnm_ne he).1
          · rfl
      | true =>
        simp only [render, Bool.false_eq_true, if_false, Bool.not_false, if_true, List.append_nil]
        have hd : nm ++ ',' :: sOmitempty ≠ ['-'] := cons_append_ne_dash _ _ (by decide)
        simp only [hd, if_false]
        unfold lookupJSON
        simp only [hd, if_false, parse_comma nm sOmitempty hnmc]
        have c1 : contains sOmitempty sInline = false := by decide
        have c2 : contains sOmitempty sOmitempty = true := by decide
        simp only [c1, c2, Bool.not_false, Bool.true_and]
        congr 1
        split
        · rename_i he; exact (hnm_ne he).1
        · rfl

/-- before the repair this failed: `Omit` was rendered as the empty tag (F13); it holds now -/
theorem omit_roundtrips : lookupJSON "F".toList (render (lookupJSON "F".toList "-".toList))
    = lookupJSON "F".toList "-".toList := by decide

theorem dash_name_roundtrips : lookupJSON "F".toList (render (lookupJSON "F".toList "-,".toList))
    = lookupJSON "F".toList "-,".toList := by decide

/-- the exclusion in the statement is needed: a name combined with inline does not round-trip -/
theorem name_with_inline_does_not_roundtrip :
    lookupJSON "F".toList (render (lookupJSON "F".toList "foo,inline".toList))
      ≠ lookupJSON "F".toList "foo,inline".toList := by decide

/-! non-vacuity -/
example : (lookupJSON "F".toList "x,omitemptyx,inline".toList) = ⟨"x".toList, false, true, false⟩ := by decide
example : (lookupJSON "F".toList ",omitempty".toList) = ⟨"F".toList, false, false, true⟩ := by decide

end Gengo.C19
